"""C18 - the Python classes mirror the C structures and options exactly (finite domain, enumerated)."""
import ctypes
import hashlib
import os
import re
import subprocess

from ..core import Sub, Violation

PROPERTY = "C18"
LEVEL = "exploration"
RULE = ("Exhaustive enumeration.  layout: one case per member of every C structure that has a ctypes mirror in the rebound "
        "package (C side: offsetof/sizeof/kind printed by a program generated from the preprocessed rebound.h and compiled "
        "by gcc with the library's defines; Python side: ctypes field descriptors), plus one size/coverage case per structure.  "
        "options: one case per (option table, name) and per named function option: set through the Python property, read the "
        "C member through a helper compiled against rebound.h, compare with the enumerator whose name normalises to the same "
        "word / with the exported function's address, read back through the Python getter.  docs: every `sim.<path> = "
        "\"name\"` assignment in the option chapters of docs/ executed literally.  Every case is non-trivial (each is a "
        "distinct member / option value); distinct by case hash.")
ASSUMPTIONS = [
    "gcc and the library agree on structure layout for identical defines (same compiler, same header, x86-64 SysV ABI)",
    "a C enum member may be mirrored by c_int or c_uint (its underlying type is implementation-defined; all enumerators fit both)",
    "pointer, function-pointer and c_void_p / c_char_p mirrors are interchangeable (same size, address semantics)",
    "names are compared modulo leading underscores and the alias list ALIASES below",
    "ServerData mirrors a documented prefix of reb_server_data ('other fields not needed'); only the prefix is compared",
    "the helper c18_probe.c reads members by name through the compiler, independent of ctypes",
]

# Python class -> C struct tag
PY2C = {
    "Particle": "reb_particle", "Simulation": "reb_simulation", "Orbit": "reb_orbit", "Rotation": "reb_rotation",
    "Vec3dBasic": "reb_vec3d", "Vec6d": "reb_vec6d", "CollisionS": "reb_collision",
    "Variation": "reb_variational_configuration", "Simulationarchive": "reb_simulationarchive", "ODE": "reb_ode",
    "IntegratorBS": "reb_integrator_bs", "IntegratorEOS": "reb_integrator_eos", "reb_dp7": "reb_dp7",
    "IntegratorIAS15": "reb_integrator_ias15", "ParticleInt": "reb_particle_int", "IntegratorJanus": "reb_integrator_janus",
    "IntegratorMercurius": "reb_integrator_mercurius", "IntegratorSABA": "reb_integrator_saba",
    "IntegratorSEI": "reb_integrator_sei", "IntegratorTRACE": "reb_integrator_trace",
    "IntegratorWHFast": "reb_integrator_whfast", "IntegratorWHFast512": "reb_integrator_whfast512",
    "HashPointerPair": "reb_hash_pointer_pair", "BinaryFieldDescriptor": "reb_binary_field_descriptor",
    "timeval": "timeval", "ServerData": "reb_server_data",
}
PREFIX_ONLY = {"ServerData"}
# (C struct, C member) -> Python field name (after stripping leading underscores) where the mirror uses another word.
# Only private (underscore) Python fields and array-for-several-members mirrors may be aliased: a public field whose
# name differs from the documented C member name makes `sim.<documented name> = x` silently create a new attribute.
ALIASES = {
    ("reb_integrator_ias15", "N_allocated_map"): "map_allocated_n",
    ("reb_integrator_trace", "N_allocated_additional_forces"): "N_allocated_additionalforces",
    ("reb_simulation", "display_settings"): "display_view",
    ("reb_simulation", "ode_warnings"): "odes_warnings",
    ("reb_simulation", "max_radius0"): "max_radius",      # Python: max_radius = c_double*2
    ("reb_simulation", "max_radius1"): "max_radius",
}

OPTION_TABLES = [
    # (module, dict name, C enumerator prefix, python attribute path on a Simulation, C probe id)
    ("rebound.simulation", "INTEGRATORS", "REB_INTEGRATOR_", "integrator", 0),
    ("rebound.simulation", "BOUNDARIES", "REB_BOUNDARY_", "boundary", 1),
    ("rebound.simulation", "GRAVITIES", "REB_GRAVITY_", "gravity", 2),
    ("rebound.simulation", "COLLISIONS", "REB_COLLISION_", "collision", 3),
    ("rebound.integrators.whfast", "WHFAST_KERNELS", "REB_WHFAST_KERNEL_", "ri_whfast.kernel", 4),
    ("rebound.integrators.whfast", "WHFAST_COORDINATES", "REB_WHFAST_COORDINATES_", "ri_whfast.coordinates", 5),
    ("rebound.integrators.trace", "TRACE_PERI_MODES", "REB_TRACE_PERI_", "ri_trace.peri_mode", 6),
    ("rebound.integrators.saba", "SABA_TYPES", "REB_SABA_", "ri_saba.type", 7),
    ("rebound.integrators.eos", "EOS_TYPES", "REB_EOS_", "ri_eos.phi0", 8),
    ("rebound.integrators.eos", "EOS_TYPES", "REB_EOS_", "ri_eos.phi1", 9),
]
FUNC_OPTIONS = [
    # (python attribute path, option name, exported symbol, C probe id)
    ("ri_mercurius.L", "mercury", "reb_integrator_mercurius_L_mercury", 0),
    ("ri_mercurius.L", "C4", "reb_integrator_mercurius_L_C4", 0),
    ("ri_mercurius.L", "C5", "reb_integrator_mercurius_L_C5", 0),
    ("ri_mercurius.L", "infinity", "reb_integrator_mercurius_L_infinity", 0),
    ("ri_trace.S", "default", "reb_integrator_trace_switch_default", 1),
    ("ri_trace.S_peri", "default", "reb_integrator_trace_switch_peri_default", 2),
    ("ri_trace.S_peri", "none", "reb_integrator_trace_switch_peri_none", 2),
    ("collision_resolve", "merge", "reb_collision_resolve_merge", 3),
    ("collision_resolve", "hardsphere", "reb_collision_resolve_hardsphere", 3),
    ("collision_resolve", "halt", "reb_collision_resolve_halt", 3),
]
# documented integrator shortcuts (docstring of Simulation.integrator, docs/integrators.md): name -> expected C state
SHORTCUTS = {
    "WHCKL": {"integrator": "REB_INTEGRATOR_WHFAST", "kernel": "REB_WHFAST_KERNEL_LAZY", "corrector": 17},
    "WHCKM": {"integrator": "REB_INTEGRATOR_WHFAST", "kernel": "REB_WHFAST_KERNEL_MODIFIEDKICK", "corrector": 17},
    "WHCKC": {"integrator": "REB_INTEGRATOR_WHFAST", "kernel": "REB_WHFAST_KERNEL_COMPOSITION", "corrector": 17},
    "SABA4": {"integrator": "REB_INTEGRATOR_SABA", "saba": "REB_SABA_4"},
    "SABACL4": {"integrator": "REB_INTEGRATOR_SABA", "saba": "REB_SABA_CL_4"},
    "SABACM4": {"integrator": "REB_INTEGRATOR_SABA", "saba": "REB_SABA_CM_4"},
    "SABA(10,6,4)": {"integrator": "REB_INTEGRATOR_SABA", "saba": "REB_SABA_10_6_4"},
}
DOC_FILES = ["integrators.md", "collisions.md", "boundaryconditions.md", "gravity.md"]

_layout = None


def c_layout():
    global _layout
    if _layout is None:
        from .. import build
        from ..oracles import c18_layout_gen as G
        d = build.build("opt")
        defines = [x for x in build.COMMON + build.VARIANTS["opt"][1] if x.startswith("-D")]
        _layout = G.layout(os.path.join(d, "include"), defines, sorted(set(PY2C.values())), d)
        if _layout["missing"]:
            raise RuntimeError("C structures not found / not parsed in rebound.h: %s" % _layout["missing"])
    return _layout


def prepare(tier):
    from .. import build
    c_layout()
    build.helper("c18_probe", "opt")


# ---------------------------------------------------------------------------------------
# Python side

def py_structs():
    """{class name: class} for every ctypes.Structure subclass defined in the rebound package."""
    import importlib
    import pkgutil
    import rebound
    out = {}
    mods = [rebound]
    for mi in pkgutil.walk_packages(rebound.__path__, "rebound."):
        if ".tests" in mi.name:
            continue
        try:
            mods.append(importlib.import_module(mi.name))
        except Exception:
            continue    # optional dependencies (plotting, widgets): no ctypes mirrors live there
    for m in mods:
        for k, v in vars(m).items():
            if isinstance(v, type) and issubclass(v, ctypes.Structure) and v is not ctypes.Structure \
                    and (v.__module__ or "").startswith("rebound"):
                out[v.__name__] = v
    return out


def classify(t):
    """ctypes type -> (kind, dims, elem_size, struct name)."""
    dims = []
    while isinstance(t, type) and issubclass(t, ctypes.Array):
        dims.append(t._length_)
        t = t._type_
    if issubclass(t, ctypes.Structure):
        return "s", dims, ctypes.sizeof(t), t.__name__
    if issubclass(t, ctypes._Pointer):
        return "p", dims, ctypes.sizeof(t), None
    if issubclass(t, ctypes._CFuncPtr):
        return "F", dims, ctypes.sizeof(t), None
    code = getattr(t, "_type_", None)
    if code in ("P", "z", "Z", "O"):
        return "p", dims, ctypes.sizeof(t), None
    if code in ("d", "f", "g"):
        return "f", dims, ctypes.sizeof(t), None
    if code in ("b", "h", "i", "l", "q"):
        return "i", dims, ctypes.sizeof(t), None
    if code in ("B", "H", "I", "L", "Q", "?"):
        return "u", dims, ctypes.sizeof(t), None
    if code == "c":
        return "c", dims, ctypes.sizeof(t), None
    raise RuntimeError("unclassified ctypes type %r" % (t,))


def py_leaves(cls):
    """[(offset, size, kind, struct name, field name, index in field)] with arrays expanded to elements."""
    out = []
    for name, t in cls._fields_:
        d = getattr(cls, name)
        kind, dims, es, sn = classify(t)
        n = 1
        for x in dims:
            n *= x
        for k in range(n):
            out.append((d.offset + k * es, es, kind, sn, name, k))
    return out


def compatible(ckind, cdecl, pkind):
    if cdecl == "enum":
        return pkind in ("i", "u")
    if ckind in ("p", "F"):
        return pkind in ("p", "F")
    if ckind == "o":
        return True
    if ckind == "c":
        return pkind in ("c", "i", "u")
    return ckind == pkind


def norm_name(s):
    return s.lstrip("_")


def run_layout(case, ctx):
    L = c_layout()
    structs = py_structs()
    pyname = case["py"]
    if case["member"] == "inventory":
        ctx.nontrivial()
        for k in sorted(structs):
            ctx.cls("python_struct_%s:%s" % ("mirrored" if k in PY2C else "without_c_twin", k))
        return
    tag = PY2C[pyname]
    if pyname not in structs:
        raise Violation("Python class %s (mirror of struct %s) no longer exists in the package" % (pyname, tag))
    cls = structs[pyname]
    cs = L["structs"][tag]
    leaves = py_leaves(cls)
    by_off = {}
    for lf in leaves:
        by_off.setdefault(lf[0], lf)
    ctx.nontrivial()
    if case["member"] == "sizeof":
        ctx.cls("struct")
        ps = ctypes.sizeof(cls)
        if pyname in PREFIX_ONLY:
            if ps > cs["size"]:
                raise Violation("%s: Python prefix mirror is larger (%d) than struct %s (%d)" % (pyname, ps, tag, cs["size"]))
        elif ps != cs["size"]:
            raise Violation("sizeof(%s)=%d but sizeof(struct %s)=%d" % (pyname, ps, tag, cs["size"]), signature="%s.sizeof" % tag)
        # every Python field must sit on a C member
        coffs = set()
        for m in cs["members"]:
            n = m["size"] // m["elem_size"] if m["elem_size"] else 1
            for k in range(n):
                coffs.add(m["offset"] + k * m["elem_size"])
        for off, size, kind, sn, name, k in leaves:
            if off not in coffs:
                raise Violation("%s.%s (offset %d) does not start at any member of struct %s" % (pyname, name, off, tag),
                                signature="%s.%s" % (pyname, name))
        # no two Python fields on the same bytes
        seen = {}
        for off, size, kind, sn, name, k in leaves:
            if off in seen and seen[off] != name:
                raise Violation("%s: fields %s and %s share offset %d" % (pyname, seen[off], name, off))
            seen[off] = name
        # a ctypes field and a property of the same name cannot coexist: whichever is bound last wins, the other is dead
        import inspect
        try:
            src = inspect.getsource(cls)
        except (OSError, TypeError):
            src = ""
        for name, t in cls._fields_:
            d = cls.__dict__.get(name)
            if d is None or not hasattr(d, "offset"):
                raise Violation("%s.%s is declared in _fields_ but the class attribute of that name is %r: name-based "
                                "access does not reach the C member" % (pyname, name, type(d).__name__),
                                signature="%s.%s" % (tag, norm_name(name)))
            if re.search(r"def\s+%s\s*\(\s*self" % re.escape(name), src):
                raise Violation("%s declares both a ctypes field and a property/method called %s: the field wins, the "
                                "property (and its name<->value translation) is dead" % (pyname, name),
                                signature="%s.%s" % (tag, norm_name(name)))
        return
    m = None
    if "name" in case:
        cand = [x for x in cs["members"] if x["name"] == case["name"]]
        m = cand[0] if cand else None
    if m is None:
        if not (isinstance(case["member"], int) and case["member"] < len(cs["members"])):
            raise Violation("struct %s no longer has member %r" % (tag, case.get("name", case["member"])))
        m = cs["members"][case["member"]]
    sig = "%s.%s" % (tag, m["name"])
    ctx.cls("member/" + ("enum" if m["decl"] == "enum" else m["kind"]))
    n = m["size"] // m["elem_size"] if m["elem_size"] else 1
    psize = ctypes.sizeof(cls)
    first = None
    for k in range(n):
        off = m["offset"] + k * m["elem_size"]
        lf = by_off.get(off)
        if lf is None:
            if pyname in PREFIX_ONLY and off >= psize:
                ctx.cls("beyond_documented_prefix")
                return
            raise Violation("struct %s member %s (offset %d, size %d) has no Python field at that offset in %s"
                            % (tag, m["name"], off, m["elem_size"], pyname), signature=sig)
        if first is None:
            first = lf
        poff, pes, pkind, psn, pfield, pk = lf
        if pes != m["elem_size"]:
            raise Violation("%s: C element size %d, Python field %s.%s element size %d" % (sig, m["elem_size"], pyname, pfield, pes),
                            signature=sig)
        if m["kind"] == "s":
            ctag = m["decl"].split(":", 1)[1] if ":" in m["decl"] else None
            if pkind != "s":
                raise Violation("%s is a struct %s in C but %s.%s is a %s" % (sig, ctag, pyname, pfield, pkind), signature=sig)
            if psn in PY2C and ctag and PY2C[psn] != ctag:
                raise Violation("%s is struct %s in C but %s.%s is %s (mirror of struct %s)" % (sig, ctag, pyname, pfield, psn, PY2C[psn]),
                                signature=sig)
        elif not compatible(m["kind"], m["decl"], pkind):
            both_int = m["kind"] in ("i", "u") and pkind in ("i", "u")
            if both_int and ctx.finding_open("C18-signedness") :
                ctx.excluded("C18-signedness")
            else:
                raise Violation("%s is %s in C (%s) but %s.%s is %s in Python%s"
                                % (sig, KINDS[m["kind"]], m.get("ctype", m["decl"]), pyname, pfield, KINDS[pkind],
                                   " [signedness]" if both_int else ""), signature=sig, signedness=both_int)
    # name
    pfield = first[4]
    want = ALIASES.get((tag, m["name"]), m["name"])
    if (tag, m["name"]) in ALIASES and not (pfield.startswith("_") or n < (getattr(cls, pfield).size // first[1])):
        raise RuntimeError("alias for a public scalar field: %s.%s" % (tag, m["name"]))
    if norm_name(pfield) != want:
        key = "C18-python-unit-order"
        if tag == "reb_simulation" and m["name"].startswith("python_unit_") and ctx.finding_open(key):
            ctx.excluded(key)
            return
        raise Violation("struct %s member %s (offset %d) is called %s in %s: a field of another name sits on these bytes"
                        % (tag, m["name"], m["offset"], pfield, pyname), signature=sig,
                        python_offset_of_same_name=[lf[0] for lf in leaves if norm_name(lf[4]) == m["name"]][:1])
    if (tag, m["name"]) in ALIASES:
        ctx.cls("alias:%s.%s=%s" % (tag, m["name"], pfield))


KINDS = {"f": "floating", "i": "signed integer", "u": "unsigned integer", "c": "char", "p": "pointer", "F": "function pointer",
         "s": "struct", "o": "opaque"}


def layout_cases(tier):
    L = c_layout()
    out = []
    for py in sorted(PY2C):
        tag = PY2C[py]
        for i in range(len(L["structs"][tag]["members"])):
            out.append({"py": py, "member": i, "name": L["structs"][tag]["members"][i]["name"]})
        out.append({"py": py, "member": "sizeof"})
    out.append({"py": None, "member": "inventory"})
    return out


# ---------------------------------------------------------------------------------------
# options

def norm_opt(s):
    return re.sub(r"[^A-Za-z0-9]", "", s).upper()


_probe = None


def probe():
    global _probe
    if _probe is None:
        from .. import build
        _probe = ctypes.CDLL(build.helper("c18_probe", "opt"))
        _probe.c18_get_int.restype = ctypes.c_longlong
        _probe.c18_get_int.argtypes = [ctypes.c_void_p, ctypes.c_int]
        _probe.c18_get_fptr.restype = ctypes.c_void_p
        _probe.c18_get_fptr.argtypes = [ctypes.c_void_p, ctypes.c_int]
    return _probe


def option_cases(tier):
    import importlib
    out = []
    for mod, dname, prefix, path, pid in OPTION_TABLES:
        table = getattr(importlib.import_module(mod), dname)
        for name in table:
            out.append({"kind": "table", "table": dname, "path": path, "name": name})
        out.append({"kind": "table_complete", "table": dname, "path": path})
    for path, name, sym, pid in FUNC_OPTIONS:
        out.append({"kind": "func", "path": path, "name": name})
    for name in SHORTCUTS:
        out.append({"kind": "shortcut", "name": name})
    out.append({"kind": "unbound_tables"})
    out += pair_cases()
    out += form_cases()
    return out


# C members (probe ids) that a name assigned to sim.integrator defines, read from the setter at HEAD: a canonical name
# writes the integrator enum only; WH/WHC/WHCKL/WHCKM/WHCKC also write ri_whfast.corrector and ri_whfast.kernel (always,
# "default" for WH and WHC); "saba<type>" also writes ri_saba.type.  Nothing else (corrector2, coordinates, ...) is defined.
PID_INTEGRATOR, PID_KERNEL, PID_SABA, PID_CORRECTOR = 0, 4, 7, 10
WH_SHORTCUT_NAMES = ["WH", "WHC", "WHCKL", "WHCKM", "WHCKC"]
PID_NAMES = {0: "integrator", 1: "boundary", 2: "gravity", 3: "collision", 4: "ri_whfast.kernel", 5: "ri_whfast.coordinates",
             6: "ri_trace.peri_mode", 7: "ri_saba.type", 8: "ri_eos.phi0", 9: "ri_eos.phi1", 10: "ri_whfast.corrector"}


def integrator_names():
    """[(name, [probe ids it defines])] for every name accepted by sim.integrator: canonical, WH shortcuts, saba<type>."""
    import importlib
    ints = getattr(importlib.import_module("rebound.simulation"), "INTEGRATORS")
    sabas = getattr(importlib.import_module("rebound.integrators.saba"), "SABA_TYPES")
    out = [(n, [PID_INTEGRATOR]) for n in ints]
    out += [(n, [PID_INTEGRATOR, PID_CORRECTOR, PID_KERNEL]) for n in WH_SHORTCUT_NAMES]
    out += [("saba" + t, [PID_INTEGRATOR, PID_SABA]) for t in sabas] + [("SABA(10,6,4)", [PID_INTEGRATOR, PID_SABA])]
    return out


# Input forms accepted by the option setters at HEAD (isinstance(value, int) branch = enumerator value; string branch with
# the normalisation each setter applies): simulation-level setters lower-case the name; ri_whfast.kernel also drops
# spaces; ri_saba.type / ri_eos.phi* drop spaces and parentheses (docs write "(10,6,4)", "LF4"); ri_trace.peri_mode is exact.
def string_forms(path, name):
    f = {"canonical": name}
    if path in ("integrator", "boundary", "gravity", "collision", "ri_whfast.coordinates", "ri_whfast.kernel"):
        f["upper"] = name.upper()
        f["capitalised"] = name.capitalize()
    if path == "ri_whfast.kernel" and len(name) > 3:
        f["spaced"] = name[:3] + " " + name[3:]
    if path in ("ri_saba.type", "ri_eos.phi0", "ri_eos.phi1"):
        f["upper"] = name.upper()
        f["parenthesised"] = "(" + name + ")"
        f["spaced"] = "( " + name.replace(",", ", ").upper() + " )"
    return f


def form_cases():
    """Every option setter driven through every accepted input form (and function options through a Python callable)."""
    import importlib
    out = []
    for mod, dname, prefix, path, pid in OPTION_TABLES:
        table = getattr(importlib.import_module(mod), dname)
        names = list(table)
        for i, name in enumerate(names):
            other = names[(i + 1) % len(names)]
            for form, val in string_forms(path, name).items():
                out.append({"kind": "form", "path": path, "table": dname, "name": name, "form": form, "value": val, "preset": other})
            out.append({"kind": "form", "path": path, "table": dname, "name": name, "form": "int", "value": table[name], "preset": other})
    for n, reads in integrator_names():
        if len(reads) > 1:
            for form, val in (("as_written", n), ("lower", n.lower()), ("upper", n.upper())):
                out.append({"kind": "form", "path": "integrator", "table": None, "name": n, "form": form, "value": val, "preset": "leapfrog"})
    for path in sorted({t[0] for t in FUNC_OPTIONS}):
        out.append({"kind": "form_callable", "path": path})
    for path, name, sym, pid in FUNC_OPTIONS:
        out.append({"kind": "form_func_name", "path": path, "name": name})
    return out


def c_leaves(L, tag="reb_simulation", base=0, prefix=""):
    """{C member path: (offset, size)} of a structure, nested structures expanded, from the compiler-generated layout."""
    out = {}
    for m in L["structs"][tag]["members"]:
        sub = m["decl"].split(":", 1)[1] if m["decl"].startswith("struct:") else None
        if sub and not m["dims"] and sub in L["structs"]:
            out.update(c_leaves(L, sub, base + m["offset"], prefix + m["name"] + "."))
        else:
            out[prefix + m["name"]] = (base + m["offset"], m["size"])
    return out


def c_snapshot(sim, L, leaves):
    raw = ctypes.string_at(ctypes.addressof(sim), L["structs"]["reb_simulation"]["size"])
    return {k: raw[o:o + n] for k, (o, n) in leaves.items()}


def pair_cases():
    """Ordered pairs (previous setting -> name): a name must give the same C configuration whatever was set before.
    Exhaustive within every option family and, for sim.integrator, over all accepted names x all previous names plus
    the direct setters of the members the shortcuts define."""
    import importlib
    out = []
    for mod, dname, prefix, path, pid in OPTION_TABLES:
        if path == "integrator":
            continue    # covered (with shortcuts) below
        table = getattr(importlib.import_module(mod), dname)
        for a in table:
            for b in table:
                if a != b:
                    out.append({"kind": "pair", "prev": [path, a], "set": [path, b], "reads": [pid]})
    names = integrator_names()
    kernels = getattr(importlib.import_module("rebound.integrators.whfast"), "WHFAST_KERNELS")
    sabas = getattr(importlib.import_module("rebound.integrators.saba"), "SABA_TYPES")
    prevs = [["integrator", n] for n, _ in names] + [["ri_whfast.kernel", k] for k in kernels] + \
            [["ri_whfast.corrector", c] for c in (0, 3, 11, 17)] + [["ri_saba.type", t] for t in sabas]
    for n, reads in names:
        for pv in prevs:
            if pv != ["integrator", n]:
                out.append({"kind": "pair", "prev": pv, "set": ["integrator", n], "reads": reads})
    return out


def run_option(case, ctx):
    import importlib
    import warnings
    import rebound
    from .. import rb
    warnings.simplefilter("ignore")
    L = c_layout()
    P = probe()
    ctx.nontrivial()
    kind = case["kind"]
    if kind in ("table", "table_complete"):
        mod, dname, prefix, path, pid = [t for t in OPTION_TABLES if t[1] == case["table"] and t[3] == case["path"]][0]
        table = getattr(importlib.import_module(mod), dname)
        cconst = {k: v for k, v in L["enums"].items() if k.startswith(prefix)}
        if prefix == "REB_SABA_" or prefix == "REB_EOS_":
            cconst = {k: v for k, v in cconst.items() if not k.endswith("_TYPE")}
        cnorm = {norm_opt(k[len(prefix):]): (k, v) for k, v in cconst.items()}
        if kind == "table_complete":
            ctx.cls("table")
            missing = sorted(k for nk, (k, v) in cnorm.items() if nk not in {norm_opt(n) for n in table})
            for k in missing:
                ctx.cls("c_constant_without_python_name:" + k)
            return
        name = case["name"]
        ctx.cls("option/" + dname)
        sig = "%s[%r]" % (dname, name)
        if norm_opt(name) not in cnorm:
            raise Violation("%s: no C enumerator %s* of that meaning (have %s)" % (sig, prefix, sorted(cconst)), signature=sig)
        cname, cval = cnorm[norm_opt(name)]
        if table[name] != cval:
            raise Violation("%s = %d in Python but %s = %d in C" % (sig, table[name], cname, cval), signature=sig)
        sim = rebound.Simulation()
        try:
            rb.setpath(sim, path, name)
        except Exception as e:
            raise Violation("sim.%s = %r raises %s: %s" % (path, name, type(e).__name__, e), signature="set:" + path)
        got = P.c18_get_int(ctypes.addressof(sim), pid)
        if got != cval:
            raise Violation("after sim.%s = %r the C member holds %d, %s is %d" % (path, name, got, cname, cval), signature=sig)
        back = rb.getpath(sim, path)
        if back != name:
            raise Violation("sim.%s = %r reads back as %r" % (path, name, back), signature="get:" + path)
    elif kind == "func":
        path, name, sym, pid = [t for t in FUNC_OPTIONS if t[0] == case["path"] and t[1] == case["name"]][0]
        ctx.cls("func_option/" + path)
        sim = rebound.Simulation()
        try:
            rb.setpath(sim, path, name)
        except Exception as e:
            raise Violation("sim.%s = %r raises %s: %s" % (path, name, type(e).__name__, e), signature="set:" + path)
        got = P.c18_get_fptr(ctypes.addressof(sim), pid)
        want = ctypes.cast(getattr(rebound.clibrebound, sym), ctypes.c_void_p).value
        if got != want:
            raise Violation("after sim.%s = %r the C member holds %r, &%s is %r" % (path, name, got, sym, want),
                            signature="%s[%r]" % (path, name))
    elif kind == "shortcut":
        ctx.cls("shortcut")
        exp = SHORTCUTS[case["name"]]
        sim = rebound.Simulation()
        try:
            sim.integrator = case["name"]
        except Exception as e:
            raise Violation("sim.integrator = %r raises %s: %s" % (case["name"], type(e).__name__, e))
        checks = [("integrator", 0), ("kernel", 4), ("saba", 7)]
        for key, pid in checks:
            if key in exp:
                got = P.c18_get_int(ctypes.addressof(sim), pid)
                if got != L["enums"][exp[key]]:
                    raise Violation("sim.integrator = %r: C %s is %d, expected %s = %d" % (case["name"], key, got, exp[key], L["enums"][exp[key]]))
        if "corrector" in exp and P.c18_get_int(ctypes.addressof(sim), 10) != exp["corrector"]:
            raise Violation("sim.integrator = %r: C ri_whfast.corrector is %d, expected %d"
                            % (case["name"], P.c18_get_int(ctypes.addressof(sim), 10), exp["corrector"]))
    elif kind == "pair":
        (ppath, pval), (path, name), reads = case["prev"], case["set"], case["reads"]
        ctx.cls("pair/" + path)
        fresh = rebound.Simulation()
        sim = rebound.Simulation()
        try:
            rb.setpath(fresh, path, name)
            rb.setpath(sim, ppath, pval)
            rb.setpath(sim, path, name)
        except Exception as e:
            raise Violation("sim.%s = %r; sim.%s = %r raises %s: %s" % (ppath, pval, path, name, type(e).__name__, e))
        for pid in reads:
            a = P.c18_get_int(ctypes.addressof(fresh), pid)
            b = P.c18_get_int(ctypes.addressof(sim), pid)
            if a != b:
                raise Violation("sim.%s = %r gives C %s = %d on a fresh simulation but %d after sim.%s = %r: the name does "
                                "not map to one C configuration" % (path, name, PID_NAMES[pid], a, b, ppath, pval),
                                signature="%s[%r] after %s[%r]" % (path, name, ppath, pval))
        if rb.getpath(sim, path) != rb.getpath(fresh, path):
            raise Violation("sim.%s = %r reads back as %r on a fresh simulation but as %r after sim.%s = %r"
                            % (path, name, rb.getpath(fresh, path), rb.getpath(sim, path), ppath, pval))
    elif kind in ("form", "form_callable", "form_func_name"):
        leaves = c_leaves(L)
        path = case["path"]
        ctx.cls("%s/%s" % (kind, path))
        sim = rebound.Simulation()
        if kind == "form":
            name, val = case["name"], case["value"]
            rb.setpath(sim, path, case["preset"])
            if case["table"] is None:
                allowed = {"integrator"} | ({"ri_whfast.corrector", "ri_whfast.kernel"} if name in WH_SHORTCUT_NAMES else {"ri_saba.type"})
                ref = rebound.Simulation()
                ref.integrator = name           # canonical spelling (checked by the shortcut / pair cases)
                expect = {k: v for k, v in c_snapshot(ref, L, leaves).items() if k in allowed}
                want_back = ref.integrator
            else:
                mod, dname, prefix, _, pid = [t for t in OPTION_TABLES if t[1] == case["table"] and t[3] == path][0]
                table = getattr(importlib.import_module(mod), dname)
                allowed = {path}
                expect = {path: int(table[name]).to_bytes(leaves[path][1], "little", signed=table[name] < 0)}
                want_back = name
        else:
            allowed = {path}
            val = None
        before = c_snapshot(sim, L, leaves)
        try:
            if kind == "form_callable":
                nargs = {"ri_mercurius.L": 3, "ri_trace.S": 3, "ri_trace.S_peri": 2, "collision_resolve": 2}[path]
                cb = (lambda a, b, c: 0) if nargs == 3 else (lambda a, b: 0)
                if path == "ri_mercurius.L":
                    cb = lambda a, b, c: 0.5
                rb.setpath(sim, path, cb)
            elif kind == "form_func_name":
                rb.setpath(sim, path, case["name"])
            else:
                rb.setpath(sim, path, val)
        except Exception as e:
            raise Violation("sim.%s = %r (%s form) raises %s: %s" % (path, val, case.get("form", kind), type(e).__name__, e),
                            signature="form:%s" % path)
        after = c_snapshot(sim, L, leaves)
        changed = sorted(k for k in before if before[k] != after[k])
        stray = [k for k in changed if k not in allowed]
        what = "sim.%s = %r (%s)" % (path, val if kind == "form" else case.get("name", "<python callable>"), case.get("form", kind))
        if stray:
            raise Violation("%s changed C member(s) %s besides %s" % (what, stray, sorted(allowed)), signature="form:%s" % path,
                            changed=changed)
        if kind == "form":
            for k, v in expect.items():
                if after[k] != v:
                    raise Violation("%s: C member %s holds %d, expected %d" % (what, k, int.from_bytes(after[k], "little"),
                                                                               int.from_bytes(v, "little")), signature="form:%s" % path)
            back = rb.getpath(sim, path)
            if back != want_back:
                raise Violation("%s reads back as %r, expected %r" % (what, back, want_back), signature="form:%s" % path)
        else:
            got = int.from_bytes(after[path], "little")
            named = {ctypes.cast(getattr(rebound.clibrebound, t[2]), ctypes.c_void_p).value: t for t in FUNC_OPTIONS}
            if kind == "form_callable":
                if got == 0 or got in named or after[path] == before[path]:
                    raise Violation("%s: C member holds %r (not a new callback pointer)" % (what, got), signature="form:%s" % path)
            else:
                sym = [t[2] for t in FUNC_OPTIONS if t[0] == path and t[1] == case["name"]][0]
                if named.get(got, (None, None, None))[2] != sym:
                    raise Violation("%s: C member does not hold &%s" % (what, sym), signature="form:%s" % path)
    elif kind == "unbound_tables":
        # make new name tables visible: every module-level {str: int} dict with an upper-case name must be bound above
        import pkgutil
        bound = {(t[0], t[1]) for t in OPTION_TABLES}
        for mi in pkgutil.walk_packages(rebound.__path__, "rebound."):
            if ".tests" in mi.name:
                continue
            try:
                m = importlib.import_module(mi.name)
            except Exception:
                continue
            for k, v in vars(m).items():
                if k.isupper() and isinstance(v, dict) and v and all(isinstance(a, str) for a in v) \
                        and all(isinstance(b, int) and not isinstance(b, bool) for b in v.values()):
                    if (mi.name, k) not in bound and not any(k == t[1] for t in OPTION_TABLES):
                        ctx.cls("unbound_table:%s.%s" % (mi.name, k))


# ---------------------------------------------------------------------------------------
# documented assignments

ASSIGN = re.compile(r"^\s*sim\.([A-Za-z_][\w.]*)\s*=\s*(\"[^\"]*\"|'[^']*')\s*(#.*)?$")


def doc_cases(tier):
    from .. import build
    out = []
    seen = set()
    for fn in DOC_FILES:
        p = os.path.join(build.REPO, "docs", fn)
        if not os.path.exists(p):
            continue
        for ln, line in enumerate(open(p, encoding="utf-8", errors="replace"), 1):
            m = ASSIGN.match(line)
            if m and (m.group(1), m.group(2)) not in seen:
                seen.add((m.group(1), m.group(2)))
                out.append({"file": fn, "line": ln, "path": m.group(1), "value": m.group(2)[1:-1]})
    return out


def run_doc(case, ctx):
    import warnings
    import rebound
    from .. import rb
    warnings.simplefilter("ignore")
    ctx.nontrivial()
    ctx.cls("doc/" + case["file"])
    sim = rebound.Simulation()
    path, value = case["path"], case["value"]
    obj = sim
    parts = path.split(".")
    for p in parts[:-1]:
        obj = getattr(obj, p)
    if not hasattr(type(obj), parts[-1]):
        raise Violation("docs/%s:%d: sim.%s = %r creates a new Python attribute: %s has no field or property of that name, "
                        "the C structure never sees the value" % (case["file"], case["line"], path, value, type(obj).__name__),
                        signature="doc:" + path)
    try:
        setattr(obj, parts[-1], value)
    except Exception as e:
        raise Violation("docs/%s:%d: documented assignment sim.%s = %r raises %s: %s"
                        % (case["file"], case["line"], path, value, type(e).__name__, e), signature="doc:" + path)


# ---------------------------------------------------------------------------------------
# Indirect accessors: Python properties that locate the C bytes they read/write by a computed lookup
# (Variation.lrescale searches sim.var_config, Variation.particles computes an address).  The layout sub
# cannot see them; this sub enumerates every ordering of variation kinds up to length 3 x N_real in {2,3}.

VAR_KINDS = ["full", "tp0", "tp1", "second"]


def accessor_cases(tier):
    import itertools
    out = []
    for nreal in (2, 3):
        for n in (1, 2, 3):
            for combo in itertools.product(VAR_KINDS, repeat=n):
                out.append({"nreal": nreal, "kinds": list(combo)})
    return out


def run_accessor(case, ctx):
    import ctypes
    import warnings
    import rebound
    warnings.simplefilter("ignore")
    sim = rebound.Simulation()
    sim.add(m=1.0)
    for i in range(1, case["nreal"]):
        sim.add(m=1e-3, a=float(i), e=0.01 * i)
    sim.integrator = "ias15"
    handles = []
    firsts = []
    for kind in case["kinds"]:
        if kind == "full":
            v = sim.add_variation()
            firsts.append(v)
        elif kind == "tp0":
            v = sim.add_variation(testparticle=case["nreal"] - 1)
        elif kind == "tp1":
            v = sim.add_variation(testparticle=1 if case["nreal"] > 2 else case["nreal"] - 1)
        else:
            if not firsts:
                v = sim.add_variation()
                firsts.append(v)
                handles.append(v)
            v = sim.add_variation(order=2, first_order=firsts[0], first_order_2=firsts[-1])
        handles.append(v)
    ncfg = sim.N_var_config
    if ncfg != len(handles):
        raise Violation("N_var_config=%d after adding %d variations" % (ncfg, len(handles)))
    psize = ctypes.sizeof(rebound.Particle)
    base = ctypes.addressof(sim._particles.contents)
    nreal = sim.N - sim.N_var
    for j, v in enumerate(handles):
        # which C configuration describes this handle?  the one with the same first-particle index
        owners = [i for i in range(ncfg) if sim.var_config[i].index == v.index]
        if owners != [j]:
            raise Violation("variation handle %d has index %d; configurations with that index: %r" % (j, v.index, owners))
        for obj, what in ((v, "handle returned by add_variation"), (sim.var_config[j], "sim.var_config[%d]" % j)):
            val = 10.0 + j
            obj.lrescale = val
            got = [sim.var_config[i]._lrescale for i in range(ncfg)]
            for i in range(ncfg):
                expect = val if i == j else got[i]
                if i == j and got[i] != val:
                    raise Violation("writing lrescale through %s (configuration %d of %r) did not reach the C member "
                                    "(C value %r)" % (what, j, case["kinds"], got[i]), kinds=case["kinds"])
            for i in range(ncfg):      # reset and make sure nobody else was touched
                pass
            if obj.lrescale != sim.var_config[j]._lrescale:
                raise Violation("reading lrescale through %s gives %r, C member of configuration %d holds %r"
                                % (what, obj.lrescale, j, sim.var_config[j]._lrescale), kinds=case["kinds"])
            # all other configurations keep distinct sentinel values
            for i in range(ncfg):
                if i != j:
                    sim.var_config[i]._lrescale = -100.0 - i
            obj.lrescale = 77.0 + j
            for i in range(ncfg):
                c = sim.var_config[i]._lrescale
                if i == j and c != 77.0 + j:
                    raise Violation("writing lrescale through %s did not change configuration %d (kinds %r)" % (what, j, case["kinds"]))
                if i != j and c != -100.0 - i:
                    raise Violation("writing lrescale through %s (configuration %d) changed configuration %d (kinds %r)"
                                    % (what, j, i, case["kinds"]), kinds=case["kinds"])
            # particles view: address and length
            ps = obj.particles
            n_expected = 1 if obj.testparticle >= 0 else nreal
            if len(ps) != n_expected:
                raise Violation("%s.particles has %d entries, expected %d" % (what, len(ps), n_expected))
            if ctypes.addressof(ps) != base + obj.index * psize:
                raise Violation("%s.particles does not start at particle index %d" % (what, obj.index))
    ctx.cls("n%d" % len(case["kinds"]))
    if any(k.startswith("tp") for k in case["kinds"][:-1]):
        ctx.cls("testparticle_variation_not_last")
    ctx.nontrivial()


def subs(tier):
    return [
        Sub("accessors", run_accessor, cases=accessor_cases, exhaustive=True, shards_quick=2, shards_thorough=2),
        Sub("layout", run_layout, cases=layout_cases, exhaustive=True, shards_quick=2, shards_thorough=2, journal=False),
        Sub("options", run_option, cases=option_cases, exhaustive=True, shards_quick=2, shards_thorough=2),
        Sub("docs", run_doc, cases=doc_cases, exhaustive=True, shards_quick=1, shards_thorough=1),
    ]
