"""C17 - copies are independent and equal; compare reports exactly the real differences."""
import ctypes
import pickle
import struct

from hypothesis import strategies as st

from ..core import Sub, Violation
from .. import strategies as S
from . import c05

PROPERTY = "C17"
LEVEL = "exploration"
RULE = ("States generated as for C05 (every integrator mid-run, unsynchronised, variational configurations, MEGNO, "
        "mergers, test particles, tree + box).  (copy) copy / pickle / restored snapshot compare equal to the source "
        "(==, reb_simulation_diff) and stay bitwise equal under a generated interleaving of steps on copy and source; "
        "operating on one leaves the other's field map unchanged.  (mutate) for EVERY persisted field present in the "
        "state (exported descriptor list enumerated per state) one bit / one element / the length is changed in a copy "
        "through the descriptor's offset: compare must report a difference, except for walltime* fields which must "
        "compare equal.  (api) random public-API edits of a copy: compare result must equal (own field maps differ).  "
        "Non-trivial = state holds a pointer-bearing persisted structure (variational config, tree particles, p_jh, "
        "IAS15 arrays) or a field-mutation case; distinct by case hash.")
ASSUMPTIONS = [
    "the harness's own parser of the binary format defines 'persisted quantity' (pointer members, padding, walltime, callbacks-used flag excluded)",
    "field mutation writes through offsets published in the exported reb_binary_field_descriptor_list",
]
CLASSES = ["copy/variation", "copy/megno", "copy/merged", "copy/tree", "copy/tree_merged_after_copy", "copy/tree_pending_removal_at_copy", "mutate/scalar", "mutate/array_elem",
           "mutate/array_len", "mutate/array_vanish", "mutate/walltime"]

DT_DOUBLE, DT_INT, DT_UINT, DT_UINT32, DT_INT64, DT_UINT64, DT_VEC3D, DT_PARTICLE, DT_POINTER, DT_ALIGNED, \
    DT_DP7, DT_OTHER, DT_END, DT_NOTFOUND, DT_PARTICLE4, DT_FIXED = 0, 1, 2, 3, 4, 5, 7, 8, 9, 10, 11, 12, 13, 14, 15, 16
SCALAR_SIZE = {DT_DOUBLE: 8, DT_INT: 4, DT_UINT: 4, DT_UINT32: 4, DT_INT64: 8, DT_UINT64: 8, DT_VEC3D: 24}


@st.composite
def state_case(draw):
    c = draw(c05.roundtrip_case())
    c["tree"] = draw(st.integers(0, 5)) == 0 and c["cfg"]["family"] in ("leapfrog", "ias15") and c["extra"] in ("none", "merge")
    if c["extra"] == "merge" and any(p[0].endswith("safe_mode") and p[1] == 0 for p in c["cfg"].get("set", [])):
        # collisions edit particles between steps, which the docs allow only in safe mode
        c["extra"] = "none"
    if c["tree"]:
        c["extra"] = "none"
        c["cfg"] = {"integrator": "leapfrog", "set": [], "family": "leapfrog", "fixed_step": True}
        # (gravity, collision search): every combination for which the simulation owns a tree, and two that do not
        c["tree_mode"] = draw(st.sampled_from([["tree", "none"], ["tree", "tree"], ["basic", "tree"], ["basic", "linetree"],
                                               ["none", "linetree"], ["tree", "line"], ["compensated", "tree"],
                                               ["tree", "linetree"], ["basic", "line"], ["basic", "direct"]]))
    c["sched"] = draw(st.lists(st.sampled_from(["c", "s", "c", "s", "ce", "se", "cs", "ss"]), min_size=2, max_size=10))
    c["route"] = draw(st.sampled_from(["copy", "pickle", "bytes", "file"]))
    c["mut_seed"] = draw(st.integers(0, 2 ** 31))
    # structural edits: one before the copy is taken, and a sequence applied identically to copy and source
    c["pre_remove"] = draw(st.booleans())
    c["both_ops"] = draw(st.one_of(
        st.sampled_from([["add", "step"], ["add", "step2", "remove", "step"], ["remove", "step", "add", "step"],
                         ["dt", "step2"], []]),
        st.lists(st.sampled_from(["add", "remove", "step", "step2", "dt"]), max_size=4)))
    c["edits"] = draw(st.lists(st.tuples(st.sampled_from(
        ["dt", "t", "G", "x", "vz", "m", "r", "hash", "add", "remove", "softening", "steps", "N_active",
         "integrator", "safe_mode", "none", "walltime", "sync"]), st.integers(0, 7)), min_size=0, max_size=2))
    return c


def build_state(case, ctx):
    """Returns sim (advanced k steps) or None."""
    import rebound
    from .. import rb
    try:
        if case.get("tree"):
            parts = [dict(p) for p in case["system"]["particles"]]
            for p in parts:
                p["m"] = max(p["m"], 1e-10)    # tree cells holding only zero-mass bodies have an undefined centre of mass (C02/C15 territory)
            ext = 4 * max(max(abs(p["x"]), abs(p["y"]), abs(p["z"])) for p in parts) + 10.0
            for p in parts:     # keep clear of exact root-box borders (border handling is C15's subject)
                p["x"] += 0.0123 * ext
                p["y"] += 0.0077 * ext
                p["z"] += 0.0031 * ext
            grav, coll = case.get("tree_mode", ["tree", "none"])
            sim = rb.new_sim({"G": case["system"]["G"], "box": {"size": ext, "rx": 2, "ry": 2, "rz": 1},
                              "gravity": grav, "collision": coll, "particles": parts})
            if coll != "none":
                sim.collision_resolve = "merge"
            sim.integrator = "leapfrog"
            sim.dt = case["dt_frac"] * case["system"]["P_min"]
        else:
            sim = c05.build(case)
        if case["k"]:
            sim.steps(case["k"])
    except (RuntimeError, rebound.Escape, rebound.Encounter, rebound.Collision, rebound.NoParticles):
        ctx.skip("setup raised")
        return None
    return sim


def reattach(cp, case):
    """Callbacks are not copied; the user re-attaches the same ones by name."""
    c05.reattach(cp, case)
    if case.get("tree") and case.get("tree_mode", ["tree", "none"])[1] != "none":
        cp.collision_resolve = "merge"


def settle_keep(sim):
    """Synchronise before an edit, as the docs require with safe_mode=0 (keep_unsynchronized is switched off:
    editing particles while it is on is not allowed)."""
    sim.ri_whfast.keep_unsynchronized = 0
    sim.ri_saba.keep_unsynchronized = 0
    sim.synchronize()


def equal_both(a, b):
    from rebound import clibrebound
    clibrebound.reb_simulation_diff.restype = ctypes.c_int
    e1 = (a == b)
    e2 = clibrebound.reb_simulation_diff(ctypes.byref(a), ctypes.byref(b), ctypes.c_int(2)) == 0
    e3 = (b == a)
    return e1, e2, e3


def classify(case, sim, ctx):
    nt = False
    if case["extra"] in ("variation", "variation2") and not case.get("tree"):
        ctx.cls("variation")
        nt = True
    if case["extra"] == "megno" and not case.get("tree"):
        ctx.cls("megno")
        nt = True
    if case.get("tree"):
        ctx.cls("tree")
        nt = True
    if case["extra"] == "merge":
        ctx.cls("merged")
    if case["cfg"]["family"] in ("whfast", "saba", "ias15", "mercurius", "janus") and case["k"] > 0:
        nt = True
    return nt


def run_copy(case, ctx):
    import warnings
    import os
    import rebound
    from .. import rb
    from ..oracles import sa_format
    warnings.simplefilter("ignore")
    names = rb.field_names()
    sim = build_state(case, ctx)
    if sim is None:
        return
    import math as _m
    if any(_m.isnan(v) for q in rb.pfloat(sim) for v in q if v is not None) and not case.get("tree"):
        ctx.skip("the generated state blew up to NaN (outside the domain: NaN != NaN numerically)")
        return
    structural_ok = case["extra"] in ("none", "testparticles") and not case.get("tree")
    if case.get("pre_remove") and structural_ok and sim.N > 2:
        settle_keep(sim)
        sim.remove(sim.N - 1)
        ctx.cls("pre_remove")
    if case.get("tree") and case.get("pre_remove") and sim.N > 2:
        # an unsorted removal while a tree exists only flags the particle (y = NaN) until the next tree update:
        # the copy is taken in that state
        sim.remove(sim.N - 1, keep_sorted=False)
        ctx.cls("tree_pending_removal_at_copy")
    m_src = rb.smap(sim)
    route = case["route"]
    if route == "copy":
        cp = sim.copy()
    elif route == "pickle":
        cp = pickle.loads(pickle.dumps(sim))
    elif route == "bytes":
        cp = rebound.Simulation(rb.stream(sim))
    else:
        path = os.path.join(ctx.scratch, "c17.bin")
        sim.save_to_file(path, delete_file=True)
        cp = rebound.Simulation(path)
        os.unlink(path)
    reattach(cp, case)      # callbacks are not copied; the user re-attaches them (the "callbacks were set" flag is persisted)
    e = equal_both(sim, cp)
    if not all(e):
        raise Violation("simulation does not compare equal to its own %s (==: %s, diff: %s, reversed ==: %s)"
                        % (route, e[0], e[1], e[2]), route=route,
                        mapdiff=sa_format.map_diff(m_src, rb.smap(cp), names)[:6])
    if rb.smap(cp) != m_src:
        raise Violation("%s differs from source in persisted content" % route,
                        diff=sa_format.map_diff(m_src, rb.smap(cp), names)[:6])
    reattach(cp, case)
    if case.get("tree") and case.get("tree_mode", ["tree", "none"])[1] != "none" and sim.N >= 2:
        # a collision *after* the copy was taken: the closest pair gets overlapping radii on both objects, the
        # search (tree based or not) of either object has to find it and both have to merge the same pair
        best = None
        ps = sim.particles
        for i in range(sim.N):
            for j in range(i + 1, sim.N):
                d = ((ps[i].x - ps[j].x) ** 2 + (ps[i].y - ps[j].y) ** 2 + (ps[i].z - ps[j].z) ** 2) ** 0.5
                if best is None or d < best[0]:
                    best = (d, i, j)
        for target in (sim, cp):
            target.particles[best[1]].r = 0.6 * best[0]
            target.particles[best[2]].r = 0.6 * best[0]
        ctx.cls("tree_collision_armed")
    N_at_copy = sim.N
    # the same structural edits on both, then both must keep evolving identically
    if structural_ok and case.get("both_ops"):
        import math
        try:
            for j, o in enumerate(case["both_ops"]):
                for target in (sim, cp):
                    if o == "add":
                        settle_keep(target)
                        a = 30.0 + 7.0 * j
                        target.add(m=1e-7, x=a, vy=math.sqrt(target.G * target.particles[0].m / a))
                    elif o == "remove" and target.N > 2:
                        settle_keep(target)
                        target.remove(target.N - 1)
                    elif o == "dt":
                        settle_keep(target)
                        target.dt = target.dt * 0.75
                    elif o == "step":
                        target.steps(1)
                    elif o == "step2":
                        target.steps(2)
                if sim.N != cp.N or c05.core_state(sim) != c05.core_state(cp):
                    raise Violation("copy (%s) and source differ after the same operation %r (#%d of %r) on both"
                                    % (route, o, j, case["both_ops"]), route=route)
        except (RuntimeError, rebound.Escape, rebound.Encounter, rebound.Collision, rebound.NoParticles):
            ctx.skip("both-op raised")
            return
        ctx.cls("both_ops")
    # independence + identical evolution under an interleaving
    done_c = done_s = 0
    for tok in case["sched"]:
        who = tok[0]
        target, other = (cp, sim) if who == "c" else (sim, cp)
        before_other = rb.smap(other)
        try:
            if tok.endswith("e") and len(tok) == 2:
                target.energy()
            elif tok.endswith("s") and len(tok) == 2:
                target.synchronize()
            else:
                target.steps(1)
                if who == "c":
                    done_c += 1
                else:
                    done_s += 1
        except (RuntimeError, rebound.Escape, rebound.Encounter, rebound.Collision, rebound.NoParticles):
            ctx.skip("step raised")
            return
        after_other = rb.smap(other)
        if before_other != after_other:
            raise Violation("operating on the %s changed the %s" % ("copy" if who == "c" else "source",
                                                                     "source" if who == "c" else "copy"),
                            diff=sa_format.map_diff(before_other, after_other, names)[:6])
    # bring both to the same number of steps and compare bitwise
    n = max(done_c, done_s)
    try:
        if done_c < n:
            cp.steps(n - done_c)
        if done_s < n:
            sim.steps(n - done_s)
    except (RuntimeError, rebound.Escape, rebound.Encounter, rebound.Collision, rebound.NoParticles):
        ctx.skip("step raised")
        return
    try:
        sim.synchronize()     # keep_unsynchronized leaves the visible particles (un)synchronised depending on
        cp.synchronize()      # whether synchronize() was called; compare both in the synchronised state
    except RuntimeError:
        ctx.skip("step raised")
        return
    fam = case["cfg"]["family"]
    keep_unsync = (fam == "whfast" and sim.ri_whfast.keep_unsynchronized == 1) or \
                  (fam == "saba" and sim.ri_saba.keep_unsynchronized == 1)     # live value: edits switch it off
    safe0 = any(p[0].endswith("safe_mode") and p[1] == 0 for p in case["cfg"].get("set", []))
    intermediate_sync = any(len(t) == 2 for t in case["sched"])
    if safe0 and not keep_unsync and intermediate_sync:
        ctx.cls("sync_changes_rounding")   # synchronising at different points legitimately changes rounding
    else:
        a, b = c05.core_state(sim), c05.core_state(cp)
        if case.get("tree"):
            # a tree may reorder the particle array when particles change cells; the order is not part of the state
            a = (sorted(a[0]),) + a[1:]
            b = (sorted(b[0]),) + b[1:]
        if sim.N != cp.N or a != b:
            raise Violation("copy (%s) and source diverge after %d steps each (N %d / %d%s)"
                            % (route, n, sim.N, cp.N, (", modules %r" % (case["tree_mode"],)) if case.get("tree") else ""),
                            route=route)
        if case.get("tree") and sim.N < N_at_copy:
            ctx.cls("tree_merged_after_copy")
        # identical histories -> identical persisted content -> compare must still say "equal"
        # (a difference here can only come from something that is not a quantity of the simulation, e.g. an address)
        ma, mb = rb.smap(sim, keep_funcptr=True), rb.smap(cp, keep_funcptr=True)
        import math
        has_nan = any(math.isnan(v) for q in rb.pfloat(sim) for v in q)
        if has_nan:
            ctx.cls("nan_state")      # a blown-up (NaN) state is outside the domain: NaN != NaN numerically
        if not case.get("tree") and ma == mb and not has_nan:
            e = equal_both(sim, cp)
            if not all(e):
                raise Violation("after the same %d steps copy (%s) and source hold identical persisted quantities but "
                                "compare reports a difference (==: %s, diff: %s, reversed: %s)" % (n, route, e[0], e[1], e[2]),
                                route=route)
    ctx.cls(route)
    if classify(case, sim, ctx):
        ctx.nontrivial()


# ---------------------------------------------------------------------------------------
def descriptors():
    from rebound.binary_field_descriptor import binary_field_descriptor_list
    out = []
    for fd in binary_field_descriptor_list():
        out.append({"type": fd.type, "dtype": fd.dtype, "name": fd.name.decode("ascii", "replace"),
                    "offset": fd.offset, "offset_N": fd.offset_N, "esize": fd.element_size})
    return out


_flips = []


def flip(addr, byte, bit):
    p = ctypes.cast(addr + byte, ctypes.POINTER(ctypes.c_ubyte))
    p[0] = p[0] ^ (1 << bit)
    _flips.append((addr, byte, bit))


def undo_flips():
    """Restore every flipped bit before the mutated copy is freed (a mutated N_root would misdirect free)."""
    while _flips:
        addr, byte, bit = _flips.pop()
        p = ctypes.cast(addr + byte, ctypes.POINTER(ctypes.c_ubyte))
        p[0] = p[0] ^ (1 << bit)


PARTICLE_STATE_BYTES = list(range(0, 96)) + list(range(104, 108))      # doubles + hash
VARCONFIG_STATE_BYTES = list(range(8, 28)) + list(range(32, 39))   # not the sign byte of lrescale: -0.0 == 0.0 is (acceptably) no difference


def run_mutate(case, ctx):
    """For every persisted field present in this state: mutate it in a fresh copy, compare must notice."""
    import warnings
    import random
    from .. import rb
    warnings.simplefilter("ignore")
    sim = build_state(case, ctx)
    if sim is None:
        return
    present = rb.smap(sim)
    raw_present = set(present) | {126, 127}
    rng = random.Random(case["mut_seed"])     # derived from the generated case only
    nmut = 0
    descs = descriptors()
    length_offsets = {fd["offset_N"] for fd in descs if fd["dtype"] in (DT_POINTER, DT_ALIGNED, DT_DP7)}
    for fd in descs:
        dt = fd["dtype"]
        if dt in (DT_OTHER, DT_END, DT_NOTFOUND):
            continue
        if fd["type"] not in raw_present:
            continue
        is_wall = fd["name"].startswith("walltime")
        kinds = []
        if dt in SCALAR_SIZE:
            kinds = ["scalar"]
        elif dt in (DT_POINTER, DT_ALIGNED, DT_DP7):
            kinds = ["array_elem", "array_len", "array_vanish"]
        elif dt in (DT_PARTICLE4, DT_FIXED, DT_PARTICLE):
            kinds = ["blob"]
        for kind in kinds:
            cp = sim.copy()
            reattach(cp, case)
            base = ctypes.addressof(cp)
            restore_len = None
            if kind == "scalar":
                size = SCALAR_SIZE[dt]
                if fd["offset"] in length_offsets:
                    # this scalar is the length of a persisted array: a random bit flip would make the structure
                    # inconsistent (harness-made out-of-bounds read); shorten by one instead
                    n = ctypes.cast(base + fd["offset"], ctypes.POINTER(ctypes.c_uint))[0]
                    if n == 0:
                        continue
                    ctypes.cast(base + fd["offset"], ctypes.POINTER(ctypes.c_uint))[0] = n - 1
                    restore_len = (fd["offset"], n)
                else:
                    flip(base + fd["offset"], rng.randrange(size), rng.randrange(8))
            elif kind == "blob":
                if dt == DT_FIXED:
                    ptr = ctypes.cast(base + fd["offset"], ctypes.POINTER(ctypes.c_void_p))[0]
                    if not ptr:
                        continue
                    flip(ptr, rng.randrange(fd["esize"]), rng.randrange(8))
                else:
                    nb = 4 if dt == DT_PARTICLE4 else 1
                    k = rng.randrange(nb)
                    flip(base + fd["offset"] + 128 * k, rng.choice(PARTICLE_STATE_BYTES), rng.randrange(8))
            else:
                n = ctypes.cast(base + fd["offset_N"], ctypes.POINTER(ctypes.c_uint))[0]
                if n == 0:
                    continue
                if kind in ("array_len", "array_vanish"):
                    if fd["name"] in ("particles", "var_config"):
                        continue    # N / N_var_config are scalar descriptors of their own or drive other invariants
                    # shorter by one element / absent altogether (field exists in only one of the two simulations)
                    ctypes.cast(base + fd["offset_N"], ctypes.POINTER(ctypes.c_uint))[0] = n - 1 if kind == "array_len" else 0
                else:
                    if dt == DT_DP7:
                        which = rng.randrange(7)
                        ptr = ctypes.cast(base + fd["offset"] + 8 * which, ctypes.POINTER(ctypes.c_void_p))[0]
                        nbytes = n * 8
                        byte = rng.randrange(nbytes)
                    else:
                        ptr = ctypes.cast(base + fd["offset"], ctypes.POINTER(ctypes.c_void_p))[0]
                        es = fd["esize"]
                        el = rng.randrange(n)
                        if fd["name"] in ("particles",):
                            # mantissa bytes of one of the 12 doubles, or the hash: compare uses numeric != on
                            # doubles, so the sign of a zero is (acceptably) not a difference of the quantity
                            byte = el * es + rng.choice([8 * q + b for q in range(12) for b in range(6)] + [104, 105, 106, 107])
                        elif fd["name"] == "ri_whfast.p_jh":
                            byte = el * es + rng.choice(list(range(0, 48)) + list(range(72, 80)))
                        elif fd["name"] == "var_config":
                            byte = el * es + rng.choice(VARCONFIG_STATE_BYTES)
                        else:
                            byte = rng.randrange(n * es)
                    if not ptr:
                        continue
                    flip(ptr, byte, rng.randrange(8))
            e = equal_both(sim, cp)
            undo_flips()
            nmut += 1
            if is_wall:
                ctx.cls("walltime")
                if not all(e):
                    raise Violation("copies differing only in %s compare as different" % fd["name"], field=fd["name"])
            else:
                ctx.cls(kind if kind != "blob" else "scalar")
                if any(e):
                    raise Violation("compare is blind to a change of persisted field %s (%s)" % (fd["name"], kind),
                                    field=fd["name"], kind=kind, results=list(e))
            if kind in ("array_len", "array_vanish"):
                ctypes.cast(base + fd["offset_N"], ctypes.POINTER(ctypes.c_uint))[0] = n   # restore before free
            if restore_len:
                ctypes.cast(base + restore_len[0], ctypes.POINTER(ctypes.c_uint))[0] = restore_len[1]
            del cp
    ctx.stat_max("fields_mutated_per_state", nmut)
    if nmut:
        ctx.nontrivial()


def run_api(case, ctx):
    """Random public-API edits of a copy: compare must say 'different' iff the field maps differ."""
    import warnings
    import rebound
    from .. import rb
    from ..oracles import sa_format
    warnings.simplefilter("ignore")
    sim = build_state(case, ctx)
    if sim is None:
        return
    cp = sim.copy()
    reattach(cp, case)
    try:
        for kind, a in case["edits"]:
            if kind in ("x", "vz", "m", "r", "add", "remove", "N_active", "dt"):
                settle_keep(cp)     # docs: with safe_mode=0 synchronise before touching particles
            if kind == "dt":
                cp.dt = cp.dt * (1.0 + 2.0 ** -(a + 40))
            elif kind == "t":
                cp.t = cp.t + 1.0
            elif kind == "G":
                cp.G = cp.G * 2.0
            elif kind in ("x", "vz", "m", "r") and cp.N > 0:
                p = cp.particles[a % cp.N]
                setattr(p, kind, getattr(p, kind) + 2.0 ** -(a + 20))
            elif kind == "hash" and cp.N > 0:
                cp.particles[a % cp.N].hash = "h%d" % a
            elif kind == "add" and cp.N_var == 0:
                cp.add(m=0.0, x=1000.0 + a)
            elif kind == "remove" and cp.N_var == 0 and cp.N > 2 and not case.get("tree"):
                cp.remove(cp.N - 1)
            elif kind == "softening":
                cp.softening = cp.softening + 0.5
            elif kind == "steps":
                cp.steps(1)
            elif kind == "N_active":
                cp.N_active = 1
            elif kind == "safe_mode":
                cp.ri_whfast.safe_mode = 1 - cp.ri_whfast.safe_mode
            elif kind == "walltime":
                cp.walltime = cp.walltime + 3.0
            elif kind == "sync":
                cp.synchronize()
    except (RuntimeError, rebound.Escape, rebound.Encounter, rebound.Collision, rebound.NoParticles):
        ctx.skip("edit raised")
        return
    ma, mb = rb.smap(sim, keep_funcptr=True), rb.smap(cp, keep_funcptr=True)
    differ = ma != mb
    e = equal_both(sim, cp)
    if differ and any(e):
        raise Violation("compare reports equal although persisted content differs after edits %s" % (case["edits"],),
                        diff=sa_format.map_diff(ma, mb, rb.field_names())[:6], results=list(e))
    if not differ and not all(e):
        raise Violation("compare reports a difference although no persisted quantity differs after edits %s" % (case["edits"],),
                        results=list(e))
    ctx.cls("differ" if differ else "same")
    if case["edits"] and classify(case, sim, ctx):
        ctx.nontrivial()


def subs(tier):
    return [
        Sub("copy", run_copy, strategy=state_case(), quick=1600, thorough=240000, shards_quick=8, shards_thorough=16),
        Sub("mutate", run_mutate, strategy=state_case(), quick=240, thorough=30000, shards_quick=6, shards_thorough=16),
        Sub("api", run_api, strategy=state_case(), quick=1200, thorough=150000, shards_quick=4, shards_thorough=16),
    ]
