"""C09 - deferred synchronisation never changes the physics.

Sub-checks
  deferred          WHFast / SABA / MERCURIUS: twin A (safe_mode=1) vs twin B (safe_mode=0, synchronised only at
                    generated points).  |A-B| <= K*eps*ops_per_step*(steps so far)*scale at every synchronisation point.
  deferred512       the same for WHFast512 (avx512 build): A synchronises after every step, B at generated points.
  eos               EOS: |A-B| bounded by an estimate of the truncation error of the (approximate) drift.
  keep              keep_unsynchronized=1 (WHFast, SABA): run D with a generated interleaving of outputs between
                    steps; every output of D equals, bit for bit, the output at that time of a run that was never
                    touched before (R_k), and to rounding the output of a deferred run without the option.
  keep512           the same for WHFast512.
  twice             synchronize(); synchronize() == synchronize(), all integrators, also before the first step.
  twice512          the same for WHFast512.
"""
import math
import os
import pickle

from hypothesis import strategies as st

from ..core import Sub, Violation
from .. import build
from .. import strategies as S

PROPERTY = "C09"
LEVEL = "exploration"
RULE = ("Generated planetary systems (2-5 bodies, up to 9 for WHFast512, optional test particles), one element of the "
        "documented option lattice of WHFast (coordinates x kernels x correctors), SABA (18 types), MERCURIUS "
        "(4 switching functions), EOS (9x9 schemes x n) or WHFast512 (N_systems, gr_potential), a step size of either "
        "sign and a generated schedule of segments [(how to advance, number of steps, operations afterwards)].  "
        "deferred*: safe-mode twin vs deferred twin compared at every synchronisation to K*eps*(operator applications per step)*steps*scale; eos: "
        "difference bounded by the measured truncation error of the drift; keep*: every output of the run with "
        "interleaved synchronize/energy/orbits/copy/save/pickle/heartbeat operations bitwise equal to the output of "
        "an untouched run stopped at that time; twice*: state after two synchronisations bitwise equal to the state "
        "after one, and the continued runs stay bitwise equal.  Non-trivial = at least one segment of >= 2 steps "
        "between synchronisations (deferred/eos), plus >= 1 intermediate operation before a later output (keep), "
        "or an unsynchronised state at the time of the double synchronisation (twice); distinct by case hash.")
ASSUMPTIONS = [
    "the trajectory is observed as the particle array (x,y,z,vx,vy,vz,m,r,hash bit patterns) and t after reb_simulation_synchronize",
    "safe mode for WHFast512 (which has no safe_mode flag) means synchronising after every step",
    "rounding tolerance K*eps*cond*scale with cond = (elementary operator applications per safe-mode step, counted from the "
    "scheme: 5 for plain WH ... 221 for corrector 17 + corrector2) * (steps+4), scale = max |r_i| resp. max |v_i| of the "
    "safe-mode twin, K=16; chosen by looking at the error distribution: max observed ratio 0.07 over quick seeds 1-8 and one thorough run (210k cases)",
    "EOS: the truncation error of the approximate drift of each twin X is estimated by halving its inner step: "
    "err_X <= 2*|X(n)-X(2n)| (valid for any order >= 1 in the asymptotic regime); allowed |A-B| = 2*(err_A+err_B) + rounding floor",
    "generated systems are well separated (no close encounters), bound, |dt| <= P_min/20",
]
CLASSES = ["deferred/family:whfast", "deferred/family:saba", "deferred/family:mercurius",
           "keep/op:sync", "keep/op:copy", "keep/op:save", "keep/op:pickle", "keep/op:energy", "keep/op:orbits",
           "keep/how:integrate_hb", "twice/pre_first_step", "twice/unsynchronized"]
VARIANTS = ["avx512"] if build.has_avx512() else []

EPS = 2.220446049250313e-16
K_ROUND = 16.0        # slack on eps * (operator applications per step) * (steps+4) * scale; measured max ratio 0.07
EOS_SAFETY = 2.0

# ---------------------------------------------------------------------------------------
# strategies


def _sets_whfast(c, k, co, c2):
    return [["ri_whfast.coordinates", c], ["ri_whfast.kernel", k], ["ri_whfast.corrector", co],
            ["ri_whfast.corrector2", c2]]


whfast_opts = st.sampled_from(S.whfast_lattice()).map(
    lambda t: {"integrator": "whfast", "family": "whfast", "set": _sets_whfast(*t)})
saba_opts = st.sampled_from(S.SABA_TYPES).map(
    lambda t: {"integrator": "saba", "family": "saba", "set": [["ri_saba.type", t]]})
mercurius_opts = st.tuples(st.sampled_from(S.MERCURIUS_L), st.sampled_from([3.0, 2.0, 4.0])).map(
    lambda t: {"integrator": "mercurius", "family": "mercurius",
               "set": [["ri_mercurius.L", t[0]], ["ri_mercurius.r_crit_hill", t[1]]]})
eos_opts = st.tuples(st.sampled_from(S.EOS_TYPES), st.sampled_from(S.EOS_TYPES), st.sampled_from([1, 2, 3, 4, 8])).map(
    lambda t: {"integrator": "eos", "family": "eos",
               "set": [["ri_eos.phi0", t[0]], ["ri_eos.phi1", t[1]], ["ri_eos.n", t[2]]]})
wh512_opts = st.tuples(st.sampled_from([0, 1])).map(
    lambda t: {"integrator": "whfast512", "family": "whfast512", "set": [["ri_whfast512.gr_potential", t[0]]]})

SAFE_PATH = {"whfast": "ri_whfast.safe_mode", "saba": "ri_saba.safe_mode", "mercurius": "ri_mercurius.safe_mode",
             "eos": "ri_eos.safe_mode"}
KEEP_PATH = {"whfast": "ri_whfast.keep_unsynchronized", "saba": "ri_saba.keep_unsynchronized",
             "whfast512": "ri_whfast512.keep_unsynchronized"}

# half of the cases use the largest step: the terms a wrong merge loses scale as eps_mass * dt^3
dt_frac = st.one_of(st.sampled_from([0.05, 0.05, 0.05, 0.02, 0.01, 0.002]), S.floats(0.002, 0.05))
dt_sign = st.sampled_from([1, 1, -1])


@st.composite
def system_tp(draw, nmin=2, nmax=5):
    """hierarchical system, optionally with the outer bodies turned into test particles"""
    # planet masses 1e-6..1e-3 of the star: the correctors / merged kicks under test act on the planet-planet
    # interaction, whose size relative to rounding is proportional to the planet masses
    # (half of the systems have all planets in the upper half-decade: second-order terms scale with mass^2)
    sy = draw(S.hierarchical_system(nmin=draw(st.sampled_from([nmin, min(3, nmax)])), nmax=nmax, allow_massless=True,
                                    mass_lo=draw(st.sampled_from([1e-5, 3e-4])), mass_hi=1e-3))
    n = len(sy["particles"])
    mode = draw(st.sampled_from(["all_active", "all_active", "tp0", "tp1"]))
    if mode != "all_active" and n >= 3:
        na = draw(st.integers(2, n - 1))
        sy["N_active"] = na
        sy["testparticle_type"] = 1 if mode == "tp1" else 0
        if mode == "tp0":
            for p in sy["particles"][na:]:
                p["m"] = 0.0
    return sy


@st.composite
def system512(draw):
    """Star 1, planets, Star 2, planets, ... (G=1), N_systems in {1,2,4}, equal number of bodies per system"""
    ns = draw(st.sampled_from([1, 1, 2, 4]))
    npl = draw(st.integers(1, 8 // ns))
    parts = []
    pmin = None
    for s in range(ns):
        sy = draw(S.hierarchical_system(nmin=npl + 1, nmax=npl + 1, G=1.0, mass_lo=1e-5, mass_hi=1e-3))
        parts += sy["particles"]
        pmin = sy["P_min"] if pmin is None else min(pmin, sy["P_min"])
    return {"G": 1.0, "particles": parts, "P_min": pmin, "N_systems": ns}


HOWS = ["steps", "step", "integrate"]
# integrate() entered on an unsynchronised state: tmax == t, or less than one step ahead (both exact_finish_time values)
HOWS_ENTER = ["steps_inow0", "steps_inow1", "steps_short0", "steps_short1"]
HOWS_ENTER512 = ["steps_inow0", "steps_short0"]


def segments(hows, min_size=1, max_size=4, nmax=12, ops=None):
    seg = {"how": st.sampled_from(hows), "n": st.one_of(st.integers(1, nmax), st.integers(2, 5)),
           "frac": st.sampled_from([0.5, 0.25, 0.9]), "flags": st.sampled_from(["r_crit", "coords", "both"])}
    if ops is not None:
        seg["ops"] = st.lists(ops, min_size=0, max_size=3)
    return st.lists(st.fixed_dictionaries(seg), min_size=min_size, max_size=max_size)


deferred_case = st.fixed_dictionaries({
    "system": system_tp(), "cfg": st.one_of(whfast_opts, saba_opts, mercurius_opts),
    "dt_frac": dt_frac, "sign": dt_sign,
    "segments": segments(HOWS + ["integrate_exact", "steps_flag", "steps_flag"] + HOWS_ENTER),
})
deferred512_case = st.fixed_dictionaries({
    "system": system512(), "cfg": wh512_opts, "dt_frac": dt_frac, "sign": st.just(1),
    "segments": segments(HOWS + HOWS_ENTER512),
})
eos_case = st.fixed_dictionaries({
    "system": S.hierarchical_system(nmin=2, nmax=4), "cfg": eos_opts,
    "dt_frac": st.sampled_from([0.02, 0.01, 0.005, 0.002]), "sign": dt_sign,
    "segments": segments(HOWS + ["integrate_exact"] + HOWS_ENTER, max_size=3, nmax=8),
})

KEEP_OPS = ["sync", "sync2", "energy", "orbits", "copy", "save", "pickle", "stream", "momentum", "com", "inow0", "inow1"]
keep_op = st.sampled_from(KEEP_OPS)
keep_case = st.fixed_dictionaries({
    "system": system_tp(), "cfg": st.one_of(whfast_opts, saba_opts),
    "dt_frac": dt_frac, "sign": dt_sign,
    "auto_archive": st.sampled_from([0, 0, 1, 3]),
    "segments": segments(HOWS + ["integrate_hb"], min_size=2, max_size=5, nmax=8, ops=keep_op),
    "tail": st.integers(1, 6),
})
keep512_case = st.fixed_dictionaries({
    "system": system512(), "cfg": wh512_opts, "dt_frac": dt_frac, "sign": st.just(1),
    "auto_archive": st.sampled_from([0, 0, 1, 3]),
    "segments": segments(HOWS + ["integrate_hb"], min_size=2, max_size=5, nmax=8, ops=keep_op),
    "tail": st.integers(1, 6),
})


@st.composite
def any_cfg(draw):
    """every integrator with its deferred-synchronisation flags: (cfg with safe/keep flags in 'set')"""
    fam = draw(st.sampled_from(["whfast", "saba", "mercurius", "eos", "whfast", "saba", "ias15", "bs", "janus",
                                "leapfrog", "trace"]))
    if fam in ("whfast", "saba", "mercurius", "eos"):
        c = draw({"whfast": whfast_opts, "saba": saba_opts, "mercurius": mercurius_opts, "eos": eos_opts}[fam])
        c = dict(c, set=[list(x) for x in c["set"]])
        safe = draw(st.sampled_from([0, 0, 1]))
        c["set"].append([SAFE_PATH[fam], safe])
        if safe == 0 and fam in KEEP_PATH and draw(st.booleans()):
            c["set"].append([KEEP_PATH[fam], 1])
        return c
    return draw(S.integrator_config([fam]))


twice_case = st.fixed_dictionaries({
    "system": system_tp(nmax=4), "cfg": any_cfg(), "dt_frac": dt_frac, "sign": dt_sign,
    "pre_sync": st.booleans(), "how": st.sampled_from(HOWS),
    "via": st.sampled_from(["synchronize", "synchronize", "inow0", "inow1"]),
    "n1": st.integers(0, 6), "n2": st.integers(0, 6), "n3": st.integers(0, 4),
})
twice512_case = st.fixed_dictionaries({
    "system": system512(), "cfg": st.tuples(wh512_opts, st.booleans()).map(
        lambda t: dict(t[0], set=[list(x) for x in t[0]["set"]] + ([[KEEP_PATH["whfast512"], 1]] if t[1] else []))),
    "dt_frac": dt_frac, "sign": st.just(1),
    "pre_sync": st.booleans(), "how": st.sampled_from(HOWS),
    "via": st.sampled_from(["synchronize", "synchronize", "inow0"]),
    "n1": st.integers(0, 6), "n2": st.integers(0, 6), "n3": st.integers(0, 4),
})

# ---------------------------------------------------------------------------------------
# execution helpers


def make(case, extra=(), dt_div=1.0):
    from .. import rb
    sy = case["system"]
    cfg = case["cfg"]
    spec = {"G": sy["G"], "particles": sy["particles"]}
    for k in ("N_active", "testparticle_type"):
        if sy.get(k) is not None:
            spec[k] = sy[k]
    sim = rb.new_sim(spec)
    sim.rand_seed = 20260209        # a fresh simulation draws its seed from the clock: twins must share it
    sim.testparticle_hidewarnings = 1
    sim.integrator = cfg["integrator"]
    for path, val in cfg["set"]:
        rb.setpath(sim, path, val)
    if cfg.get("peri_mode") is not None:
        from .c06 import set_peri_mode
        set_peri_mode(sim, cfg["peri_mode"])
    if cfg["integrator"] == "whfast512":
        sim.ri_whfast512.N_systems = sy.get("N_systems", 1)
        sim.exact_finish_time = 0
    for path, val in extra:
        rb.setpath(sim, path, val)
    sim.dt = case["sign"] * case["dt_frac"] * sy["P_min"] / dt_div
    return sim


def advance(sim, how, n, frac=0.5, each_step=None, mult=1):
    """advance by n steps (n*mult when the step was divided by mult; the exact-finish variant ends at the same time)"""
    if how.startswith("steps_"):
        # n plain steps (state left unsynchronised in deferred mode), then integrate() is entered on that state:
        # to the current time (no new step, only its final synchronisation) or to less than one step ahead
        if each_step is None:
            sim.steps(n * mult)
        else:
            for _ in range(n * mult):
                sim.step()
                each_step(sim)
        tail = how[6:]
        if tail == "inow0":
            sim.integrate(sim.t, exact_finish_time=0)
        elif tail == "inow1":
            sim.integrate(sim.t, exact_finish_time=1)
        elif tail == "short0":
            sim.integrate(sim.t + frac * sim.dt, exact_finish_time=0)      # one more full step
        elif tail == "short1":
            sim.integrate(sim.t + frac * sim.dt, exact_finish_time=1)      # one shortened step
        else:
            raise ValueError(how)
        return
    if how == "steps":
        sim.steps(n * mult)
    elif how == "step":
        for _ in range(n * mult):
            sim.step()
            if each_step is not None:
                each_step(sim)
        return
    elif how in ("integrate", "integrate_hb"):
        sim.integrate(sim.t + (n * mult - 0.5) * sim.dt, exact_finish_time=0)
    elif how == "integrate_exact":
        # n-1 full steps and a shortened last one
        sim.integrate(sim.t + ((n - 1) * mult + frac * mult) * sim.dt, exact_finish_time=1)
    else:
        raise ValueError(how)
    if each_step is not None:
        each_step(sim)


SABA_STAGES = {"1": 1, "2": 2, "3": 3, "4": 4, "10,4": 7, "8,6,4": 7, "10,6,4": 8, "h8,4,4": 6, "h8,6,4": 8, "h10,6,4": 9}


def ops_per_step(cfg):
    """Condition number of the rounding comparison: the number of elementary operator applications (Kepler
    drifts, kicks, coordinate transformations) one safe-mode step performs.  Every one contributes O(eps) relative
    rounding error; the symplectic correctors are long chains of drifts and kicks that cancel almost exactly
    (corrector 17: 16 Z-operators of 3 drifts + 2 kicks, applied and inverted every safe-mode step)."""
    sets = dict((p, v) for p, v in cfg["set"])
    fam = cfg["family"]
    if fam == "whfast":
        ops = 5 + {"default": 0, "modifiedkick": 2, "lazy": 3, "composition": 13}[sets["ri_whfast.kernel"]]
        k = sets["ri_whfast.corrector"]
        if k:
            ops += 10 * (k - 1)
        if sets["ri_whfast.corrector2"]:
            ops += 56
        return ops
    if fam == "saba":
        t = sets["ri_saba.type"]
        ops = 5 + 3 * SABA_STAGES[t[2:] if t[:2] in ("cm", "cl") else t]
        if t[:2] in ("cm", "cl"):
            ops += 6
        return ops
    return 5


RECALC_FLAGS = {
    # documented "recalculate ... this timestep" flags; the integrator synchronises first (with a warning) when
    # one is set on an unsynchronised state.  SABA shares ri_whfast's flag but does not synchronise: setting it
    # without synchronising first is outside its documented use and is not generated.
    "whfast": {"coords": ["ri_whfast.recalculate_coordinates_this_timestep"]},
    "mercurius": {"coords": ["ri_mercurius.recalculate_coordinates_this_timestep"],
                  "r_crit": ["ri_mercurius.recalculate_r_crit_this_timestep"]},
}


def set_recalc_flags(sim, fam, which):
    """set the requested flag(s) without changing anything else: nothing in the state is different, so the
    physics must not change.  Both twins get the same flags at the same step (MERCURIUS recomputes dcrit from the
    state at that time, which both twins then do)."""
    from .. import rb
    table = RECALC_FLAGS.get(fam, {})
    names = list(table) if which == "both" else [which if which in table else (list(table) or [None])[0]]
    done = []
    for nme in names:
        for path in table.get(nme, []):
            rb.setpath(sim, path, 1)
            done.append(path)
    return done


def scales(pf):
    sx = max(math.sqrt(p[0] ** 2 + p[1] ** 2 + p[2] ** 2) for p in pf)
    sv = max(math.sqrt(p[3] ** 2 + p[4] ** 2 + p[5] ** 2) for p in pf)
    return sx, sv


def maxdiff(pa, pb):
    dx = max(abs(a[k] - b[k]) for a, b in zip(pa, pb) for k in range(3))
    dv = max(abs(a[k] - b[k]) for a, b in zip(pa, pb) for k in range(3, 6))
    return dx, dv


def finite(pf):
    return all(math.isfinite(v) for p in pf for v in p[:6])


def nsteps_of(seg):
    return seg["n"]


# ---------------------------------------------------------------------------------------
# deferred: safe-mode twin vs deferred twin, rounding tolerance


def run_deferred(case, ctx):
    import warnings
    from .. import rb
    warnings.simplefilter("ignore")
    fam = case["cfg"]["family"]
    if fam == "whfast512":
        A = make(case)
        B = make(case)
        each = lambda s: s.synchronize()      # "safe mode": synchronise after every step
    else:
        A = make(case, [(SAFE_PATH[fam], 1)])
        B = make(case, [(SAFE_PATH[fam], 0)])
        each = None
    done = 0
    deferred2 = False
    for seg in case["segments"]:
        n = seg["n"]
        howA = seg["how"]
        if fam == "whfast512" and howA == "steps":
            howA = "step"
        if howA == "steps_flag":
            # steps, then a recalculate flag set on the (for B: unsynchronised) state, then more steps
            n1 = max(1, n // 2)
            n2 = max(1, n - n1)
            n = n1 + n2
            A.steps(n1)
            B.steps(n1)
            for path in set_recalc_flags(A, fam, seg.get("flags", "coords")):
                ctx.cls("flag:" + path)
            set_recalc_flags(B, fam, seg.get("flags", "coords"))
            A.steps(n2)
            B.steps(n2)
        else:
            advance(A, howA, n, seg["frac"], each_step=each if (howA == "step" or howA.startswith("steps_")) else None)
            if fam == "whfast512":
                A.synchronize()
            advance(B, seg["how"], n, seg["frac"])
        B.synchronize()
        done += n
        if n >= 2:
            deferred2 = True
        if A.steps_done != B.steps_done or rb.dbits(A.t) != rb.dbits(B.t):
            raise Violation("deferred twin is at a different time/step count than the safe-mode twin",
                            tA=A.t, tB=B.t, stepsA=A.steps_done, stepsB=B.steps_done)
        pa, pb = rb.pfloat(A), rb.pfloat(B)
        if not finite(pa):
            ctx.skip("safe-mode twin not finite")
            return
        sx, sv = scales(pa)
        dx, dv = maxdiff(pa, pb) if finite(pb) else (float("inf"), float("inf"))
        cond = ops_per_step(case["cfg"]) * (done + 4)
        tolx = K_ROUND * EPS * cond * sx
        tolv = K_ROUND * EPS * cond * sv
        ctx.stat_max("ratio_x", dx / tolx)
        ctx.stat_max("ratio_v", dv / tolv)
        ctx.stat_max("ratio_%s" % fam, max(dx / tolx, dv / tolv))
        if dx > tolx or dv > tolv:
            raise Violation("%s: deferred synchronisation differs from safe mode after %d steps: dx=%.3g (tol %.3g) "
                            "dv=%.3g (tol %.3g)" % (fam, done, dx, tolx, dv, tolv),
                            dx=dx, dv=dv, tolx=tolx, tolv=tolv, steps=done)
    ctx.cls("family:" + fam)
    for seg in case["segments"]:
        ctx.cls("how:" + seg["how"])
    if case["sign"] < 0:
        ctx.cls("backward")
    if case["system"].get("N_active") is not None:
        ctx.cls("testparticles")
    ctx.nontrivial(deferred2)


# ---------------------------------------------------------------------------------------
# EOS: the merged drift is itself approximate

def run_eos(case, ctx):
    """A: safe mode, B: deferred.  Both share the outer scheme phi0; they differ in the inner step used for the
    merged drift (and in skipped processor pairs).  The truncation error of the drift of each twin is measured by
    halving its inner step (n -> 2n): err_X <= 2*|X(n)-X(2n)| for any order >= 1, hence
    |A-B| <= 2*(|A(n)-A(2n)| + |B(n)-B(2n)|) * 2 (safety) + rounding floor."""
    import warnings
    from .. import rb
    warnings.simplefilter("ignore")
    sets = dict((p, v) for p, v in case["cfg"]["set"])
    n_in = sets["ri_eos.n"]
    A = make(case, [("ri_eos.safe_mode", 1)])
    A2 = make(case, [("ri_eos.safe_mode", 1), ("ri_eos.n", 2 * n_in)])
    B = make(case, [("ri_eos.safe_mode", 0)])
    B2 = make(case, [("ri_eos.safe_mode", 0), ("ri_eos.n", 2 * n_in)])
    done = 0
    deferred2 = False
    for seg in case["segments"]:
        n = seg["n"]
        for s in (A, A2, B, B2):
            advance(s, seg["how"], n, seg["frac"])
        B.synchronize()
        B2.synchronize()
        done += n
        if n >= 2:
            deferred2 = True
        if A.steps_done != B.steps_done or rb.dbits(A.t) != rb.dbits(B.t):
            raise Violation("deferred twin is at a different time/step count than the safe-mode twin",
                            tA=A.t, tB=B.t, stepsA=A.steps_done, stepsB=B.steps_done)
        pa, pa2, pb, pb2 = rb.pfloat(A), rb.pfloat(A2), rb.pfloat(B), rb.pfloat(B2)
        if not (finite(pa) and finite(pa2)):
            ctx.skip("safe-mode twin not finite")
            return
        sx, sv = scales(pa)
        eax, eav = maxdiff(pa, pa2)           # truncation error of the drift, safe-mode twin
        ok = finite(pb) and finite(pb2)
        ebx, ebv = maxdiff(pb, pb2) if ok else (0.0, 0.0)
        dx, dv = maxdiff(pa, pb) if ok else (float("inf"), float("inf"))
        floor_x = K_ROUND * EPS * 5 * max(1, n_in) * (done + 4) * sx
        floor_v = K_ROUND * EPS * 5 * max(1, n_in) * (done + 4) * sv
        tolx = EOS_SAFETY * 2.0 * (eax + ebx) + floor_x
        tolv = EOS_SAFETY * 2.0 * (eav + ebv) + floor_v
        ctx.stat_max("ratio_x", dx / tolx)
        ctx.stat_max("ratio_v", dv / tolv)
        ctx.stat_max("trunc_over_floor", (eax + ebx) / floor_x)
        if eax + ebx > floor_x:
            ctx.cls("truncation_dominated")
        else:
            ctx.cls("rounding_dominated")
        if dx > tolx or dv > tolv:
            raise Violation("eos: deferred synchronisation differs from safe mode by more than the drift's truncation "
                            "error after %d steps: dx=%.3g (tol %.3g, trunc A %.3g B %.3g) dv=%.3g (tol %.3g, trunc A "
                            "%.3g B %.3g)" % (done, dx, tolx, eax, ebx, dv, tolv, eav, ebv),
                            dx=dx, dv=dv, tolx=tolx, tolv=tolv, steps=done)
    ctx.cls("phi0:" + sets["ri_eos.phi0"])
    ctx.cls("phi1:" + sets["ri_eos.phi1"])
    ctx.nontrivial(deferred2)


# ---------------------------------------------------------------------------------------
# keep_unsynchronized: outputs never change the later trajectory by a bit


def do_op(sim, op, ctx, state):
    from .. import rb
    if op == "sync":
        sim.synchronize()
    elif op in ("inow0", "inow1"):
        # the same output requested through integrate() to the current time
        eft = 1 if (op == "inow1" and sim.integrator != "whfast512") else 0
        sim.integrate(sim.t, exact_finish_time=eft)
    elif op == "sync2":
        sim.synchronize()
        sim.synchronize()
    elif op == "energy":
        sim.energy()
    elif op == "orbits":
        try:
            sim.orbits()
        except ValueError:
            pass
    elif op == "copy":
        c = sim.copy()
        del c
    elif op == "save":
        sim.save_to_file(os.path.join(ctx.scratch, "k-manual.bin"))
    elif op == "pickle":
        pickle.dumps(sim)
    elif op == "stream":
        rb.stream(sim)
    elif op == "momentum":
        sim.angular_momentum()
    elif op == "com":
        sim.com()
    else:
        raise ValueError(op)


def run_keep(case, ctx):
    import warnings
    from .. import rb
    warnings.simplefilter("ignore")
    fam = case["cfg"]["family"]
    extra = [(KEEP_PATH[fam], 1)]
    if fam in SAFE_PATH:
        extra.insert(0, (SAFE_PATH[fam], 0))
    for fn in ("k-manual.bin", "k-auto.bin"):
        p = os.path.join(ctx.scratch, fn)
        if os.path.exists(p):
            os.unlink(p)

    def reference(k):
        """untouched run stopped after k steps and synchronised there (same flags), and the same without the
        keep-unsynchronised option: what a plain deferred run reports at that time"""
        R = make(case, extra)
        R0 = make(case, extra[:-1])
        if k:
            R.steps(k)
            R0.steps(k)
        R.synchronize()
        R0.synchronize()
        return rb.pstate(R), R.t, rb.pfloat(R0)

    D = make(case, extra)
    if case["auto_archive"]:
        D.save_to_file(os.path.join(ctx.scratch, "k-auto.bin"), step=case["auto_archive"])
    hb_ops = []

    def hb(simp):
        for o in hb_ops:
            do_op(D, o, ctx, None)

    if any(seg["how"] == "integrate_hb" for seg in case["segments"]):
        D.heartbeat = hb        # only called from integrate(); does nothing unless hb_ops is filled
    done = 0
    nops = 0            # operations performed before the current point
    nontrivial = False
    segs = list(case["segments"]) + [{"how": "steps", "n": case["tail"], "ops": []}]
    for i, seg in enumerate(segs):
        n = seg["n"]
        if seg["how"] == "integrate_hb":
            hb_ops[:] = [o for o in seg["ops"] if o not in ("save", "inow0", "inow1")] or ["sync"]   # no integrate() inside integrate()
            advance(D, "integrate_hb", n)
            hb_ops[:] = []
            nops += n
            ctx.cls("how:integrate_hb")
        else:
            advance(D, seg["how"], n, seg.get("frac", 0.5))
            if seg["how"] == "integrate":
                nops += 1       # integrate() synchronises at its end: an output
        done += n
        last = (i == len(segs) - 1)
        ops = list(seg["ops"]) + (["sync"] if last else [])
        for o in ops:
            do_op(D, o, ctx, None)
            ctx.cls("op:" + o)
            if o in ("sync", "sync2", "inow0", "inow1"):
                want, tw, plain = reference(done)
                got = rb.pstate(D)
                if D.steps_done != done or rb.dbits(D.t) != rb.dbits(tw):
                    raise Violation("run with intermediate operations is at t=%r after %d steps, untouched run at t=%r"
                                    % (D.t, done, tw))
                if got != want:
                    bad = [j for j in range(len(want)) if got[j] != want[j]]
                    pf = rb.pfloat(D)
                    raise Violation("%s keep_unsynchronized: output after %d steps (%d earlier operations) differs from "
                                    "the output of an untouched run stopped there: particles %s" % (fam, done, nops, bad),
                                    steps=done, earlier_ops=nops, particles=bad, got=pf[bad[0]][:6])
                # the output itself is the synchronised state (to rounding) of a plain deferred run
                pf = rb.pfloat(D)
                sx, sv = scales(plain)
                dx, dv = maxdiff(plain, pf)
                cond = ops_per_step(case["cfg"]) * (done + 4)
                tolx = K_ROUND * EPS * cond * sx
                tolv = K_ROUND * EPS * cond * sv
                ctx.stat_max("output_ratio", max(dx / tolx, dv / tolv))
                if dx or dv:
                    ctx.cls("output_not_bitwise_plain")
                if dx > tolx or dv > tolv:
                    raise Violation("%s keep_unsynchronized: output after %d steps is not the synchronised state: differs "
                                    "from a deferred run without the option by dx=%.3g (tol %.3g) dv=%.3g (tol %.3g)"
                                    % (fam, done, dx, tolx, dv, tolv), steps=done)
                if nops >= 1 and n >= 2:
                    nontrivial = True
            nops += 1
    ctx.cls("family:" + fam)
    if case["auto_archive"]:
        ctx.cls("auto_archive")
    ctx.nontrivial(nontrivial)


# ---------------------------------------------------------------------------------------
# synchronising twice == once


def run_twice(case, ctx):
    import warnings
    from .. import rb
    from ..oracles import sa_format
    warnings.simplefilter("ignore")
    P = make(case)
    Q = make(case)
    fam = case["cfg"]["family"]
    unsync_seen = False

    def is_unsync(sim):
        obj = {"whfast": "ri_whfast", "saba": "ri_saba", "mercurius": "ri_mercurius", "eos": "ri_eos",
               "whfast512": "ri_whfast512"}.get(fam)
        return obj is not None and getattr(sim, obj).is_synchronized == 0

    def sync_point(label):
        nonlocal unsync_seen
        if is_unsync(Q):
            unsync_seen = True
        via = case.get("via", "synchronize")

        def sync(sim):
            if via == "synchronize":
                sim.synchronize()
            else:       # the same output requested through integrate() to the current time
                sim.integrate(sim.t, exact_finish_time=1 if via == "inow1" else 0)
        sync(P)
        sync(Q)
        m1 = rb.smap(Q)
        sync(Q)
        m2 = rb.smap(Q)
        if m1 != m2:
            raise Violation("%s: state after a second synchronize() differs from the state after the first (%s)"
                            % (fam, label), diff=sa_format.map_diff(m1, m2, rb.field_names())[:8])
        # across two simulation objects only the particle state is compared: freshly (re)allocated integrator
        # buffers hold uninitialised memory that is serialised but never read (see false-alarm log)
        if rb.pstate(P) != rb.pstate(Q) or rb.dbits(P.t) != rb.dbits(Q.t):
            raise Violation("%s: synchronising twice leaves different particles than synchronising once (%s)"
                            % (fam, label))

    if case["pre_sync"]:
        sync_point("before the first step")
        ctx.cls("pre_first_step")
    # Adaptive integrators (IAS15, esp. the legacy adaptive_mode 0 on noise-only acceleration components; BS) can
    # collapse their step so that integrate() to a fixed time effectively never returns.  Both twins count their
    # steps in a heartbeat (which touches nothing) and stop beyond a generous budget; such a case is skipped.
    adaptive = fam in ("ias15", "bs", "trace")
    counts = {"P": 0, "Q": 0}
    budget = [0]

    def counter(sim, key):
        def hb(simp):
            counts[key] += 1
            if counts[key] > budget[0]:
                sim.stop()
        return hb

    if adaptive and case["how"] == "integrate":
        P.heartbeat = counter(P, "P")
        Q.heartbeat = counter(Q, "Q")
    for k, n in enumerate((case["n1"], case["n2"], case["n3"])):
        if n:
            counts["P"] = counts["Q"] = 0
            budget[0] = 200 * n + 50
            advance(P, case["how"], n)
            advance(Q, case["how"], n)
            if counts["P"] > budget[0] or counts["Q"] > budget[0]:
                ctx.skip("adaptive step collapse: integrate() exceeded 200x its step budget (documented for IAS15 adaptive_mode 0)")
                return
        sync_point("after segment %d" % k)
    if rb.pstate(P) != rb.pstate(Q) or rb.dbits(P.t) != rb.dbits(Q.t):
        raise Violation("%s: trajectories diverge after double synchronisation" % fam)
    ctx.cls("family:" + fam)
    ctx.cls("via:" + case.get("via", "synchronize"))
    if unsync_seen:
        ctx.cls("unsynchronized")
    ctx.nontrivial(unsync_seen or case["pre_sync"])


# ---------------------------------------------------------------------------------------


def subs(tier):
    out = [
        Sub("deferred", run_deferred, strategy=deferred_case, quick=2400, thorough=60000, shards_quick=8),
        Sub("eos", run_eos, strategy=eos_case, quick=800, thorough=20000, shards_quick=8),
        Sub("keep", run_keep, strategy=keep_case, quick=1600, thorough=40000, shards_quick=8),
        Sub("twice", run_twice, strategy=twice_case, quick=1600, thorough=40000, shards_quick=8),
    ]
    if build.has_avx512():
        out += [
            Sub("deferred512", run_deferred, strategy=deferred512_case, quick=800, thorough=20000, shards_quick=4,
                variant="avx512"),
            Sub("keep512", run_keep, strategy=keep512_case, quick=800, thorough=20000, shards_quick=4, variant="avx512"),
            Sub("twice512", run_twice, strategy=twice512_case, quick=400, thorough=10000, shards_quick=4,
                variant="avx512"),
        ]
    return out


def extra_evidence(tier):
    if not build.has_avx512():
        return {"variants_skipped": {"whfast512": "no AVX512 on this machine: deferred512/keep512/twice512 not run"}}
    return {}
