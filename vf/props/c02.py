"""C02 - every force routine computes the specified pairwise Newtonian sum."""
import ctypes
import math
import random

from hypothesis import strategies as st

from ..core import Sub, Violation
from .. import strategies as S

PROPERTY = "C02"
LEVEL = "exploration"
RULE = ("Generated configurations (N 0..200, 80% <= 12; masses incl. exact zeros and ratios to 1e-12; 6 values of G; softening 0 "
        "or >0; N_active in {-1,0..N}; testparticle_type 0/1; gravity_ignore_terms 0/1/2; ghost boxes 0..2 per axis with "
        "open/periodic/shear boundaries (shear: generated t, OMEGA); root layouts 1..3 per axis; opening_angle2 in "
        "{0,0.0025,0.01,0.1,0.23,0.25,0.5,0.97,1}; routines BASIC, COMPENSATED, TREE, JACOBI, MERCURIUS mode 0/1 (4 built-in "
        "changeover functions + a Python one, generated dcrit, full and partial encounter maps), TRACE interaction/Kepler "
        "(generated K masks and encounter maps); both also after reb_simulation_remove_particle of a generated encounter "
        "member while mode==1 (map invariants, partial forces and their sum against the current partition)).  The exported reb_simulation_update_acceleration is called on a simulation "
        "built from the case and ax,ay,az are compared with an O(N^2) reference written from the documentation (numpy longdouble; "
        "cross-checked against an independent mpmath loop for N<=8), tolerance (n_terms+16)*eps*sum|terms| (16*eps*sum|terms| "
        "for COMPENSATED).  TREE theta>0: equality with the Barnes-Hut sum predicted from a geometric octree + the multipole "
        "bound.  TREE theta=0 also after generated histories (leapfrog steps, in-place edits of mass/position/radius/softening/G "
        "between steps; reference from the current particle data; sum m a = 0).  JACOBI additionally: one WHFast step with gravity=jacobi equals the step through gravity=basic + interaction-step "
        "Jacobi term.  Non-trivial = N>=3 and at least one of: test particles present, ignore_terms != 0, ghost boxes, a zero-mass "
        "body, a tree with >= 2 levels and an accepted cell, an encounter mask / changeover weight with both 0 and 1 entries.  "
        "Distinct by case hash.")
ASSUMPTIONS = [
    "specification of the pairwise sum: docs/simulationvariables.md (softening, N_active, testparticle_type, "
    "gravity_ignore_terms) + the property statement; ghost images = integer multiples of the box lengths "
    "(for shear: plus the y displacement returned by reb_boundary_get_ghostbox, checked to be congruent to "
    "-1.5*i*OMEGA*Lx*t modulo Ly and bounded by 1.5 Ly); a particle's own images are not part of the sum",
    "numpy.longdouble is the x87 80-bit format (eps 1.08e-19), asserted at start-up",
    "after a tree update results are matched to the generated bodies by (position, mass) fingerprint, not by index (the tree "
    "may reorder the particle array)",
    "tree geometry: cells halve the root box, a particle belongs to the lower half along an axis iff x < centre; cases where an "
    "opening decision is within rounding of the threshold are not asserted (counted as skipped)",
    "MERCURIUS/TRACE internal inputs (dcrit, encounter_map, current_Ks, mode) are written through the ctypes mirror after "
    "reb_integrator_{mercurius,trace}_part1 allocated them; TRACE is given heliocentric input (particle 0 at the origin)",
    "JACOBI main domain: all particles active, no softening (the documented partition/softening semantics of JACOBI and TREE "
    "are asserted by the enumerated sub documented_partition, currently under open findings)",
    "type-0 test particles with non-zero mass are generated for BASIC/COMPENSATED only (the library warns about them)",
    "the Python attribute for C gravity_ignore_terms is `gravity_ignore` in 4.4.8; the harness sets whichever field exists",
    "OPENMP / MPI / QUADRUPOLE builds are not compiled and not covered",
]
CLASSES = ["direct/basic", "direct/compensated", "direct/testparticles_type0", "direct/testparticles_type1",
           "direct/ignore1", "direct/ignore2", "direct/ghost", "direct/shear", "direct/zero_mass", "direct/softened",
           "direct/N>50", "direct/N_active=0", "direct/momentum", "tree_theta0/ghost", "tree_history/mass_edit_after_steps", "tree_history/edit_nudge", "tree_bound/prediction_checked",
           "tree_bound/bound_checked", "tree_bound/apriori_bound_checked", "mercurius_split/two_part_identity",
           "mercurius_split/partial_encounter_map", "mercurius_split/pairs_in_changeover", "mercurius_real_step/encounter_built_by_integrator",
           "mercurius_real_step/two_or_more_testparticles_in_map_type1", "mercurius_split/remove_active_member",
           "mercurius_split/remove_testparticle_member", "mercurius_split/remove_active_with_testparticles_in_map",
           "mercurius_split/remove_two_part_identity", "trace_split/remove_active_member",
           "trace_split/remove_active_with_testparticles_in_map", "trace_split/two_part_identity",
           "trace_split/K_mixed", "jacobi_whfast_step/massless_testparticles", "documented_partition/tree",
           "documented_partition/jacobi"]

EPS = 2.0 ** -52

KEY_COMP_GHOST = "C02-compensated-ignores-ghostboxes"
KEY_TREE_PART = "C02-tree-ignores-active-partition"
KEY_JAC_PART = "C02-jacobi-ignores-active-partition"
KEY_JAC_SOFT = "C02-jacobi-ignores-softening"


# ---------------------------------------------------------------------------------------
# generators

G_VALUES = [1.0, 1.0, 4 * math.pi ** 2, 0.9, 6.674e-11, 2.959122082855911e-04]


def mass_st():
    return st.one_of(st.just(0.0), S.logfloats(1e-12, 1.0), S.logfloats(1e-12, 1.0), S.logfloats(1e-3, 1e3),
                     st.sampled_from([1.0, 1e-3, 1e-12]))


@st.composite
def config(draw, nmax=200, allow_box=True, force_box=False, all_active=False, small_frac=0.8):
    if draw(S.floats(0.0, 1.0)) < small_frac:
        N = draw(st.integers(0, 12))
    else:
        N = draw(st.integers(13, nmax))
    box = None
    if force_box or (allow_box and draw(st.booleans())):
        box = {"size": draw(st.sampled_from([1.0, 10.0, 2.5, 100.0])),
               "rx": draw(st.sampled_from([1, 1, 2, 3])), "ry": draw(st.sampled_from([1, 1, 2, 3])),
               "rz": draw(st.sampled_from([1, 1, 2, 3]))}
        half = [box["size"] * box[k] / 2 for k in ("rx", "ry", "rz")]
    else:
        R = draw(st.sampled_from([1.0, 30.0, 1e-3, 1.5e11]))
        half = [R, R, R]
    c = {"N": N, "box": box, "G": draw(st.sampled_from(G_VALUES)),
         "soft": draw(st.sampled_from([0.0, 0.0, 1e-3, 0.05, 1.0])) * half[0],
         "m0": draw(st.sampled_from([1.0, 1.0, 0.5, 1.989e30, 1e-3]))}
    if N <= 16:
        c["pos"] = [[draw(S.floats(-0.999, 0.999)) * half[k] for k in range(3)] for _ in range(N)]
        c["m"] = [c["m0"] * draw(mass_st()) for _ in range(N)]
    else:
        c["seed"] = draw(st.integers(0, 2 ** 31))
        c["zero_frac"] = draw(st.sampled_from([0.0, 0.1, 0.5]))
        c["half"] = half
    if all_active:
        c["n_active"], c["tp_type"], c["ignore"] = -1, 0, 0
    else:
        c["n_active"] = draw(st.one_of(st.just(-1), st.integers(0, N), st.integers(0, min(N, 3))))
        c["tp_type"] = draw(st.sampled_from([0, 1]))
        c["ignore"] = draw(st.sampled_from([0, 0, 1, 2]))
    if box is not None:
        c["boundary"] = draw(st.sampled_from(["open", "periodic", "shear", "none"]))
        if c["boundary"] != "none":
            cap = 2 if N <= 40 else 1
            c["ng"] = [draw(st.sampled_from([0, 0, 1, cap])) for _ in range(3)]
            if N > 100:
                c["ng"][2] = 0
        if c["boundary"] == "shear":
            c["t"] = draw(st.one_of(S.floats(0.0, 50.0), st.just(0.0), S.floats(-20.0, 0.0)))
            c["OMEGA"] = draw(st.sampled_from([1.0, 0.3, 2.0]))
    return c


def expand(c):
    """-> (pos, m) lists; large-N cases carry a seed instead of explicit coordinates (deterministic expansion)."""
    if "pos" in c:
        return c["pos"], c["m"]
    rnd = random.Random(c["seed"])
    N = c["N"]
    half = c["half"]
    pos = [[(2 * rnd.random() - 1) * 0.999 * half[k] for k in range(3)] for _ in range(N)]
    m = []
    for _ in range(N):
        if rnd.random() < c["zero_frac"]:
            m.append(0.0)
        else:
            m.append(c["m0"] * 10 ** rnd.uniform(-12, 0))
    return pos, m


# ---------------------------------------------------------------------------------------
# library access

def build_sim(c, gravity, pos, m, extra=None):
    import rebound
    sim = rebound.Simulation()
    sim.G = c["G"]
    if c.get("box"):
        b = c["box"]
        sim.configure_box(b["size"], b["rx"], b["ry"], b["rz"])
    if c.get("boundary") and c["boundary"] != "none":
        sim.boundary = c["boundary"]
        sim.N_ghost_x, sim.N_ghost_y, sim.N_ghost_z = c.get("ng", [0, 0, 0])
    sim.gravity = gravity
    sim.softening = c["soft"]
    if "t" in c:
        sim.t = c["t"]
        sim.ri_sei.OMEGA = c["OMEGA"]
    for k, v in (extra or {}).items():
        setattr(sim, k, v)
    for i in range(len(m)):
        sim.add(m=m[i], x=pos[i][0], y=pos[i][1], z=pos[i][2])
    sim.N_active = c["n_active"]
    sim.testparticle_type = c["tp_type"]
    set_ignore_terms(sim, c["ignore"])
    return sim


def set_ignore_terms(sim, v):
    """C field gravity_ignore_terms; the Python mirror (4.4.8) calls it `gravity_ignore`."""
    T = type(sim)
    name = "gravity_ignore_terms" if hasattr(T, "gravity_ignore_terms") else "gravity_ignore"
    if not hasattr(T, name):
        raise RuntimeError("Simulation mirror has no gravity_ignore(_terms) field")
    setattr(sim, name, v)


def update_acc(sim):
    from rebound import clibrebound as L
    f = L.reb_simulation_update_acceleration
    f.restype = None
    f(ctypes.byref(sim))


def read_acc(sim):
    import numpy as np
    N = sim.N
    if N == 0:
        return np.zeros((0, 3))
    from rebound import Particle
    assert ctypes.sizeof(Particle) % 8 == 0
    w = ctypes.sizeof(Particle) // 8
    buf = (ctypes.c_double * (w * N)).from_address(ctypes.addressof(sim._particles.contents))
    a = np.frombuffer(buf, dtype=np.float64).reshape(N, w)
    off = Particle.ax.offset // 8
    return a[:, off:off + 3].copy()


class Vec6d(ctypes.Structure):
    _fields_ = [(k, ctypes.c_double) for k in ("x", "y", "z", "vx", "vy", "vz")]


def lib_ghostbox(sim, i, j, k):
    from rebound import clibrebound as L
    f = L.reb_boundary_get_ghostbox
    f.restype = Vec6d
    f.argtypes = [ctypes.c_void_p, ctypes.c_int, ctypes.c_int, ctypes.c_int]
    return f(ctypes.addressof(sim), i, j, k)


def image_shifts(c, sim, ctx):
    """The image set of the specification.  open/periodic: integer multiples of the box lengths.  shear: the y
    displacement of column i is read from the library after checking it against the shearing-sheet definition."""
    from ..oracles import c02_forces_ref as R
    if not c.get("box") or c.get("boundary", "none") == "none":
        return [(0.0, 0.0, 0.0)]
    b = c["box"]
    L3 = (b["size"] * b["rx"], b["size"] * b["ry"], b["size"] * b["rz"])
    ng = c.get("ng", [0, 0, 0])
    shear = None
    if c["boundary"] == "shear":
        import mpmath as mp
        mp.mp.dps = 40
        disp = {}
        for i in range(-ng[0], ng[0] + 1):
            gb = lib_ghostbox(sim, i, 0, 0)
            want = mp.mpf(-1.5) * i * mp.mpf(c["OMEGA"]) * mp.mpf(L3[0]) * mp.mpf(c["t"])
            q = (mp.mpf(gb.y) - want) / mp.mpf(L3[1])
            dev = abs(q - mp.nint(q)) * L3[1]
            tol = 16 * EPS * (abs(float(want)) + L3[1])
            if dev > tol or abs(gb.y) > 1.5 * L3[1] * (1 + 1e-12) or gb.x != L3[0] * i or gb.z != 0.0:
                raise Violation("shear ghost box column %d: displacement (%r,%r,%r) is not the sheared image "
                                "(-1.5*i*OMEGA*Lx*t = %s modulo Ly=%r)" % (i, gb.x, gb.y, gb.z, mp.nstr(want, 17), L3[1]))
            disp[i] = gb.y
        shear = lambda i: disp[i]
    return R.ghost_shifts(L3, ng, shear)


def n_images(c):
    if not c.get("box") or c.get("boundary", "none") == "none":
        return 1
    ng = c.get("ng", [0, 0, 0])
    return (2 * ng[0] + 1) * (2 * ng[1] + 1) * (2 * ng[2] + 1)


_ld_checked = []


def reference(c, pos, m, mask, shifts, ctx, weight_ld=None, weight_mp=None):
    """longdouble reference (+ mpmath cross-check for small N: a disagreement is a harness error)."""
    import numpy as np
    from ..oracles import c02_forces_ref as R
    if not _ld_checked:
        assert np.finfo(np.longdouble).eps < 2e-19, "numpy.longdouble is not extended precision on this machine"
        _ld_checked.append(1)
    acc, cond, rmin2 = R.direct_ld(pos, m, c["G"], c["soft"], mask, shifts, weight_ld)
    N = len(m)
    if 0 < N <= 8 and len(shifts) <= 27 and rmin2 > 0 and np.all(np.isfinite(acc.astype(float))):
        amp = R.direct_mp(pos, m, c["G"], c["soft"], mask.tolist(), shifts, weight_mp)
        import mpmath as mp
        for i in range(N):
            for k in range(3):
                d = abs(mp.mpf(float(acc[i, k])) + mp.mpf(float(acc[i, k] - np.longdouble(float(acc[i, k])))) - amp[i][k])
                if d > 1e-17 * (cond[i] + 1e-300) * (N * len(shifts) + 4):
                    raise RuntimeError("oracle self-check: longdouble and mpmath references disagree: %r vs %s (cond %r)"
                                       % (float(acc[i, k]), mp.nstr(amp[i][k], 25), cond[i]))
        ctx.cls("ref_crosschecked_mp")
    return acc, cond, rmin2


def compare(got, acc, cond, nterms, K0, per_term, what, ctx, stat, **info):
    """|got_i - acc_i|_inf <= (per_term*nterms_i + K0) * eps * cond_i."""
    import numpy as np
    N = len(cond)
    if N == 0:
        return
    g = np.asarray(got, dtype=np.longdouble)
    if not np.all(np.isfinite(got)):
        i = int(np.argwhere(~np.isfinite(got))[0][0])
        raise Violation("%s: acceleration of particle %d is not finite: %r (reference %r)"
                        % (what, i, got[i].tolist(), acc[i].astype(float).tolist()), particle=i, **info)
    err = np.max(np.abs(g - acc), axis=1).astype(float)
    tol = (per_term * np.asarray(nterms, dtype=float) + K0) * EPS * np.asarray(cond, dtype=float)
    with np.errstate(divide="ignore", invalid="ignore"):
        ratio = np.where(tol > 0, err / tol, np.where(err > 0, np.inf, 0.0))
    worst = int(np.argmax(ratio))
    ctx.stat_max(stat, min(float(ratio[worst]), 1e300))
    if ratio[worst] > 1.0:
        raise Violation("%s: particle %d: got (%.17g, %.17g, %.17g), reference (%.17g, %.17g, %.17g), |err| %.3g > tol %.3g "
                        "(sum|terms| %.3g, %d terms)"
                        % ((what, worst) + tuple(got[worst].tolist()) + tuple(acc[worst].astype(float).tolist())
                           + (err[worst], tol[worst], cond[worst], int(nterms[worst]))),
                        particle=worst, err=float(err[worst]), tol=float(tol[worst]), **info)


def classify(c, m, ctx, extra_nt=False):
    N = c["N"]
    n = N if c["n_active"] < 0 else c["n_active"]
    nt = extra_nt
    if n < N:
        ctx.cls("testparticles_type%d" % c["tp_type"])
        nt = True
    if n == 0 and N > 0:
        ctx.cls("N_active=0")
    if c["ignore"]:
        ctx.cls("ignore%d" % c["ignore"])
        nt = True
    if n_images(c) > 1:
        ctx.cls("ghost")
        nt = True
        if c.get("boundary") == "shear":
            ctx.cls("shear")
    if any(x == 0.0 for x in m):
        ctx.cls("zero_mass")
        nt = True
    if c["soft"] > 0:
        ctx.cls("softened")
    if N > 50:
        ctx.cls("N>50")
    if nt and N >= 3:
        ctx.nontrivial()


# ---------------------------------------------------------------------------------------
# direct summation routines

direct_case = st.fixed_dictionaries({"cfg": config(), "gravity": st.sampled_from(["basic", "compensated"])})


def run_direct(case, ctx):
    import numpy as np
    import warnings
    from ..oracles import c02_forces_ref as R
    warnings.simplefilter("ignore")
    c = case["cfg"]
    grav = case["gravity"]
    pos, m = expand(c)
    N = c["N"]
    sim = build_sim(c, grav, pos, m)
    shifts = image_shifts(c, sim, ctx)
    comp_ghost = grav == "compensated" and len(shifts) > 1
    if comp_ghost and ctx.finding_open(KEY_COMP_GHOST):
        ctx.excluded(KEY_COMP_GHOST)
        return
    mask = R.acts_matrix(N, c["n_active"], c["tp_type"], c["ignore"])
    acc, cond, rmin2 = reference(c, pos, m, mask, shifts, ctx)
    if not (rmin2 > 0) and N > 1 and mask.any():
        ctx.skip("coincident particles without softening")
        return
    if not np.all(np.isfinite(acc.astype(float))) or not np.all(np.isfinite(cond)):
        ctx.skip("reference overflows")
        return
    update_acc(sim)
    got = read_acc(sim)
    ctx.cls(grav)
    classify(c, m, ctx)
    nterms = mask.sum(axis=1) * len(shifts)
    if grav == "basic":
        compare(got, acc, cond, nterms, 16, 1, "gravity=basic", ctx, "basic_err/tol", gravity=grav)
    else:
        compare(got, acc, cond, nterms, 16, 0, "gravity=compensated", ctx, "compensated_err/tol", gravity=grav)
    # momentum: all particles active, nothing ignored  ->  sum m_i a_i = 0
    n = N if c["n_active"] < 0 else c["n_active"]
    if n == N and c["ignore"] == 0 and N >= 2:
        mm = np.array(m, dtype=np.longdouble)
        P = np.sum(mm[:, None] * got.astype(np.longdouble), axis=0)
        scale = float(np.sum(mm * cond))
        per = 1.0 if grav == "basic" else 0.0
        tol = (per * (N * len(shifts)) + 16 + N) * EPS * scale
        r = float(np.max(np.abs(P))) / tol if tol > 0 else (0.0 if float(np.max(np.abs(P))) == 0 else float("inf"))
        ctx.stat_max("momentum/tol", r)
        ctx.cls("momentum")
        if r > 1:
            raise Violation("gravity=%s: all particles active but sum m_i a_i = %r, tolerance %.3g"
                            % (grav, P.astype(float).tolist(), tol), gravity=grav)


# ---------------------------------------------------------------------------------------
# tree, zero opening angle: must reproduce the direct sum

tree0_case = st.fixed_dictionaries({"cfg": config(force_box=True, all_active=True, nmax=120)})


def prepare_tree(sim):
    from rebound import clibrebound as L
    L.reb_simulation_update_tree.restype = None
    L.reb_simulation_update_tree_gravity_data.restype = None
    L.reb_simulation_update_tree(ctypes.byref(sim))
    L.reb_simulation_update_tree_gravity_data(ctypes.byref(sim))


def read_acc_by_identity(sim, pos, m, ctx):
    """Accelerations in the ORDER OF THE CASE.  A tree update may pull a particle out of its cell and re-insert it,
    which reorders the particle array (documented: the tree may reorder particles), so results are matched to the
    generated bodies by their (position, mass) fingerprint - positions are distinct by construction - not by index."""
    import numpy as np
    got = read_acc(sim)
    n = sim.N
    ps = sim.particles
    cur = [(ps[i].x, ps[i].y, ps[i].z, ps[i].m) for i in range(n)]
    want = {(p[0], p[1], p[2]): (k, m[k]) for k, p in enumerate(pos)}
    out = np.empty((len(pos), 3))
    seen = set()
    for i, (x, y, z, mi) in enumerate(cur):
        hit = want.get((x, y, z))
        if hit is None or hit[1] != mi or hit[0] in seen:
            raise Violation("after the tree update particle %d has position/mass (%r, %r, %r, %r) which is not one of the bodies "
                            "that were added" % (i, x, y, z, mi))
        seen.add(hit[0])
        out[hit[0]] = got[i]
    if len(seen) != len(pos):
        raise Violation("after the tree update %d of the %d bodies are missing" % (len(pos) - len(seen), len(pos)))
    if any(cur[k][:3] != tuple(pos[k]) for k in range(n)):
        ctx.cls("tree_update_reordered_particles")
    return out


def distinct_positions(pos):
    return len({tuple(p) for p in pos}) == len(pos)


def run_tree0(case, ctx):
    import numpy as np
    import warnings
    from ..oracles import c02_forces_ref as R
    warnings.simplefilter("ignore")
    c = case["cfg"]
    pos, m = expand(c)
    N = c["N"]
    if not distinct_positions(pos):
        ctx.skip("two particles with identical coordinates cannot be added to the tree (documented error)")
        return
    sim = build_sim(c, "tree", pos, m, extra={"opening_angle2": 0.0})
    if sim.N != N:
        raise Violation("tree: %d of %d in-box particles were added" % (sim.N, N))
    shifts = image_shifts(c, sim, ctx)
    mask = R.acts_matrix(N, -1, 0, 0)
    acc, cond, rmin2 = reference(c, pos, m, mask, shifts, ctx)
    if not np.all(np.isfinite(acc.astype(float))) or not np.all(np.isfinite(cond)):
        ctx.skip("reference overflows")
        return
    prepare_tree(sim)
    if sim.N != N:
        raise Violation("tree update removed %d particles that are inside the box" % (N - sim.N))
    update_acc(sim)
    got = read_acc_by_identity(sim, pos, m, ctx)
    classify(c, m, ctx, extra_nt=N >= 3)
    nterms = mask.sum(axis=1) * len(shifts)
    compare(got, acc, cond, nterms, 16, 1, "gravity=tree, opening_angle2=0", ctx, "tree0_err/tol")


# ---------------------------------------------------------------------------------------
# tree, zero opening angle, after a history: the force must follow the CURRENT particle data

hist_op = st.one_of(
    st.tuples(st.just("steps"), st.integers(1, 3)),
    st.tuples(st.just("mass"), st.integers(0, 63), st.sampled_from([0.0, 0.5, 2.0, 10.0, 1e-6, 1.0])),
    st.tuples(st.just("mass"), st.integers(0, 63), S.logfloats(1e-3, 1e3)),
    st.tuples(st.just("newmass"), st.integers(0, 63), S.logfloats(1e-6, 1.0)),
    st.tuples(st.just("nudge"), st.integers(0, 63), st.tuples(S.floats(-1, 1), S.floats(-1, 1), S.floats(-1, 1)),
              st.sampled_from([1e-9, 1e-6, 1e-3])),
    st.tuples(st.just("radius"), st.integers(0, 63), S.floats(0.0, 0.01)),
    st.tuples(st.just("soft"), st.sampled_from([0.0, 1e-3, 0.05])),
    st.tuples(st.just("G"), st.sampled_from(G_VALUES)),
)
tree_hist_case = st.fixed_dictionaries({
    "cfg": config(force_box=True, all_active=True, nmax=24, small_frac=0.7),
    "ops": st.lists(hist_op, min_size=2, max_size=8),
    "dt_frac": st.sampled_from([1e-4, 1e-3, 1e-2]),
})


def run_tree_history(case, ctx):
    import numpy as np
    import warnings
    from ..oracles import c02_forces_ref as R
    warnings.simplefilter("ignore")
    c = dict(case["cfg"])
    pos, m = expand(c)
    N = c["N"]
    if N < 2:
        ctx.skip("N<2")
        return
    if not distinct_positions(pos):
        ctx.skip("two particles with identical coordinates cannot be added to the tree (documented error)")
        return
    sim = build_sim(c, "tree", pos, m, extra={"opening_angle2": 0.0})
    sim.integrator = "leapfrog"
    b = c["box"]
    L3 = [b["size"] * b[k] for k in ("rx", "ry", "rz")]
    Mtot = sum(m)
    tdyn = math.sqrt(min(L3) ** 3 / (c["G"] * Mtot)) if Mtot > 0 else 1.0
    sim.dt = case["dt_frac"] * tdyn
    edited = set()
    nev = [0]

    def evaluate(where):
        n = sim.N
        ps = sim.particles
        for i in range(n):
            if any(abs(v) > L3[k] / 2 for k, v in enumerate((ps[i].x, ps[i].y, ps[i].z))):
                return False                 # a body left the box: what happens next is the boundary module's business (C15)
        prepare_tree(sim)                    # the documented tree update of reb_simulation_step
        if sim.N != n:
            raise Violation("tree update changed N from %d to %d although every particle is inside the box (%s)" % (n, sim.N, where))
        ps = sim.particles
        cpos = [[ps[i].x, ps[i].y, ps[i].z] for i in range(n)]
        cm = [ps[i].m for i in range(n)]
        if not distinct_positions(cpos):
            return False
        cc = dict(c, G=sim.G, soft=sim.softening)
        if "t" in c:
            cc["t"] = sim.t
        shifts = image_shifts(cc, sim, ctx)
        mask = R.acts_matrix(n, -1, 0, 0)
        acc, cond, rmin2 = reference(cc, cpos, cm, mask, shifts, ctx)
        if not np.all(np.isfinite(acc.astype(float))) or not np.all(np.isfinite(cond)):
            return False
        update_acc(sim)
        got = read_acc(sim)
        nterms = mask.sum(axis=1) * len(shifts)
        compare(got, acc, cond, nterms, 16, 1, "gravity=tree theta=0 %s vs reference from the current particle data" % where, ctx,
                "treehist_err/tol", where=where)
        mm = np.array(cm, dtype=np.longdouble)
        P = np.sum(mm[:, None] * got.astype(np.longdouble), axis=0)
        tol = (n * len(shifts) + 16 + n) * EPS * float(np.sum(mm * cond))
        pm = float(np.max(np.abs(P)))
        if tol > 0:
            ctx.stat_max("treehist_momentum/tol", pm / tol)
        if pm > tol:
            raise Violation("gravity=tree theta=0 %s: all particles active but sum m_i a_i = %r (tolerance %.3g)"
                            % (where, P.astype(float).tolist(), tol), where=where)
        nev[0] += 1
        return True

    stepped = False
    for k, o in enumerate(case["ops"]):
        kind = o[0]
        n = sim.N
        if n < 2:
            break
        if kind == "steps":
            # time step from the current masses and G: bodies should mostly stay inside their cells
            Mnow = sum(sim.particles[i].m for i in range(n))
            sim.dt = case["dt_frac"] * (math.sqrt(min(L3) ** 3 / (sim.G * Mnow)) if Mnow > 0 else 1.0)
            # a very close pair would be kicked across many boxes in one leapfrog step (the periodic wrap then loops
            # once per box length: astronomically long for coordinates of 1e14 box sizes): outside "bodies stay in
            # their cells"; counted and skipped
            ps = [(sim.particles[i].x, sim.particles[i].y, sim.particles[i].z, sim.particles[i].m) for i in range(n)]
            soft2 = sim.softening ** 2
            kick = 0.0
            for i in range(n):
                for j in range(i + 1, n):
                    d2 = (ps[i][0] - ps[j][0]) ** 2 + (ps[i][1] - ps[j][1]) ** 2 + (ps[i][2] - ps[j][2]) ** 2 + soft2
                    if d2 > 0:
                        kick = max(kick, abs(sim.G) * max(ps[i][3], ps[j][3]) / d2 * sim.dt * sim.dt)
            if kick > 0.05 * min(L3):
                ctx.skip("a close pair would be kicked across the box in one step")
                return
            try:
                sim.steps(o[1])
            except RuntimeError:
                ctx.skip("a body left the box during the steps (library reports it)")
                return
            stepped = True
            continue
        if kind == "mass":
            p = sim.particles[o[1] % n]
            p.m = p.m * o[2]
        elif kind == "newmass":
            sim.particles[o[1] % n].m = c["m0"] * o[2]
        elif kind == "nudge":
            p = sim.particles[o[1] % n]
            p.x += o[2][0] * o[3] * b["size"]
            p.y += o[2][1] * o[3] * b["size"]
            p.z += o[2][2] * o[3] * b["size"]
        elif kind == "radius":
            sim.particles[o[1] % n].r = o[2] * b["size"]
        elif kind == "soft":
            sim.softening = o[1] * b["size"]
        elif kind == "G":
            sim.G = o[1]
        edited.add(kind)
        ctx.cls("edit_" + kind)
        if not evaluate("after op %d (%s)" % (k, kind)):
            ctx.skip("state outside the asserted domain (body left the box / coincident / overflow)")
            return
    if not evaluate("at the end of the history"):
        ctx.skip("state outside the asserted domain (body left the box / coincident / overflow)")
        return
    if stepped:
        ctx.cls("stepped")
    classify(c, m, ctx)
    if stepped and (edited & {"mass", "newmass"}) and N >= 3:
        ctx.cls("mass_edit_after_steps")
        ctx.nontrivial()


# ---------------------------------------------------------------------------------------
# tree, finite opening angle: exact Barnes-Hut prediction + multipole bound

THETA2 = [0.0025, 0.01, 0.1, 0.23, 0.25, 0.5, 0.97, 1.0]
tree_case = st.fixed_dictionaries({"cfg": config(force_box=True, all_active=True, nmax=40, small_frac=0.6),
                                   "theta2": st.sampled_from(THETA2)})


def run_tree(case, ctx):
    import numpy as np
    import warnings
    from ..oracles import c02_forces_ref as R
    from ..oracles import c02_octree_ref as T
    warnings.simplefilter("ignore")
    LD = np.longdouble
    c = case["cfg"]
    th2 = case["theta2"]
    pos, m = expand(c)
    N = c["N"]
    if N == 0:
        ctx.skip("N=0")
        return
    if not distinct_positions(pos):
        ctx.skip("two particles with identical coordinates cannot be added to the tree (documented error)")
        return
    sim = build_sim(c, "tree", pos, m, extra={"opening_angle2": th2})
    shifts = image_shifts(c, sim, ctx)
    b = c["box"]
    nroot = (b["rx"], b["ry"], b["rz"])
    roots, X, M = T.build(pos, m, b["size"], nroot)
    dep = T.depth(roots)
    Lmax = max(abs(v) for s in shifts for v in s) + b["size"] * max(nroot)
    com_err = 4.0 * (dep + 2) * EPS * Lmax
    G = LD(c["G"])
    s2 = LD(c["soft"]) ** 2
    pred = np.zeros((N, 3), dtype=LD)
    exact = np.zeros((N, 3), dtype=LD)
    cond = np.zeros(N)
    bound = np.zeros(N)
    nterms = np.zeros(N)
    ambiguous = False
    ncell = 0
    for i in range(N):
        for g in shifts:
            xt = (g[0] + pos[i][0], g[1] + pos[i][1], g[2] + pos[i][2])
            leaves, cells, amb = T.walk(roots, i, xt, th2, com_err)
            ambiguous = ambiguous or amb
            ncell += len(cells)
            xtl = np.array(xt, dtype=LD)
            # predicted tree force
            srcs = [X[k] for k in leaves] + [cl.com for cl in cells]
            ms = [M[k] for k in leaves] + [cl.M for cl in cells]
            if not srcs:
                continue
            Y = np.array(srcs, dtype=LD)
            W = np.array(ms, dtype=LD)
            D = xtl[None, :] - Y
            r2 = np.sum(D * D, axis=1)
            rs2 = r2 + s2
            if np.any(rs2 == 0):
                ctx.skip("target coincides with a source and no softening")
                return
            w = G * W / (rs2 * np.sqrt(rs2))
            pred[i] -= np.sum(w[:, None] * D, axis=0)
            dn = np.sqrt(r2)
            e = float(np.sqrt(np.sum(xtl * xtl))) if any(v != 0 for v in g) else 0.0
            isleaf = np.array([1.0] * len(leaves) + [0.0] * len(cells))
            cond[i] += float(np.sum(np.abs(w) * (dn + 4 * (e + (1 - isleaf) * com_err / EPS))))
            nterms[i] += len(srcs)
            # exact force of the same particles, and the multipole bound of every accepted cell
            ex_idx = list(leaves)
            for cl in cells:
                members = [k for k in cl.idx if not (k == i and not any(v != 0 for v in g))]
                if len(members) != len(cl.idx):
                    bound[i] = float("inf")      # the cell holding the target itself was accepted (theta too large)
                ex_idx.extend(members)
                if cl.M > 0:
                    dist = np.sqrt(np.sum((X[np.array(cl.idx)] - cl.com) ** 2, axis=1))
                    mk = M[np.array(cl.idx)]
                    bb = float(np.max(np.where(mk > 0, dist, 0)))
                    d = float(np.sqrt(np.sum((xtl - cl.com) ** 2)))
                    if d > bb:
                        bound[i] += float(G * LD(4.5) * np.sum(mk * dist * dist) / LD(d - bb) ** 4)
                    else:
                        bound[i] = float("inf")
            if ex_idx:
                Y = X[np.array(ex_idx)]
                W = M[np.array(ex_idx)]
                D = xtl[None, :] - Y
                rs2 = np.sum(D * D, axis=1) + s2
                if np.any(rs2 == 0):
                    ctx.skip("target coincides with a source and no softening")
                    return
                w = G * W / (rs2 * np.sqrt(rs2))
                exact[i] -= np.sum(w[:, None] * D, axis=0)
    if not np.all(np.isfinite(pred.astype(float))) or not np.all(np.isfinite(cond)):
        ctx.skip("reference overflows")
        return
    # oracle self-check (pure mathematics about the oracle's own numbers): monopole error <= multipole bound
    gap = np.max(np.abs(pred - exact), axis=1).astype(float)
    for i in range(N):
        if np.isfinite(bound[i]) and gap[i] > bound[i] * (1 + 1e-9) + 64 * EPS * cond[i]:
            raise RuntimeError("oracle self-check: predicted monopole error %r exceeds the multipole bound %r (particle %d)"
                               % (gap[i], bound[i], i))
    prepare_tree(sim)
    if sim.N != N:
        raise Violation("tree update removed %d particles that are inside the box" % (N - sim.N))
    update_acc(sim)
    got = read_acc_by_identity(sim, pos, m, ctx)
    ctx.cls("theta2=%g" % th2)
    if dep >= 2:
        ctx.cls("depth>=2")
    if ncell:
        ctx.cls("cells_accepted")
    classify(c, m, ctx, extra_nt=(dep >= 2 and ncell > 0))
    if not np.all(np.isfinite(got)):
        raise Violation("gravity=tree theta2=%g: non-finite acceleration %r" % (th2, got.tolist()))
    # (B) the property's literal statement: tree error within the multipole bound of the accepted cells
    rnd = (nterms + 16) * EPS * cond
    err_exact = np.max(np.abs(got.astype(LD) - exact), axis=1).astype(float)
    if not ambiguous:
        for i in range(N):
            if np.isfinite(bound[i]):
                lim = bound[i] + rnd[i]
                if lim > 0:
                    ctx.stat_max("tree_err/(multipole_bound+rounding)", err_exact[i] / lim)
                if err_exact[i] > lim:
                    raise Violation("gravity=tree theta2=%g: particle %d: |a_tree - a_exact| = %.3g exceeds the multipole bound %.3g "
                                    "(+rounding %.3g) of the cells the opening criterion accepts" % (th2, i, err_exact[i], bound[i], rnd[i]),
                                    particle=i, theta2=th2)
        ctx.cls("bound_checked")
        # (A) exact Barnes-Hut prediction
        compare(got, pred, cond, nterms, 16, 1, "gravity=tree theta2=%g vs predicted Barnes-Hut sum" % th2, ctx, "tree_pred_err/tol",
                theta2=th2)
        ctx.cls("prediction_checked")
    else:
        ctx.skip("an opening decision lies within rounding of the threshold (prediction ambiguous)")
    # (C) a-priori bound independent of the oracle's decomposition, small opening angles only
    th = math.sqrt(th2)
    if math.sqrt(3) * th < 0.5:
        Cth = 13.5 * th2 * (1 + math.sqrt(3) * th) ** 2 / (1 - math.sqrt(3) * th) ** 4
        mask = R.acts_matrix(N, -1, 0, 0)
        acc, cond_d, rmin2 = reference(c, pos, m, mask, shifts, ctx)
        unsoft = dict(c, soft=0.0)
        mag = np.zeros(N)
        Xl = np.array(pos, dtype=LD)
        Ml = np.array(m, dtype=LD)
        selfimg = np.zeros(N)
        for g in shifts:
            gv = np.array(g, dtype=LD)
            D = (Xl + gv)[:, None, :] - Xl[None, :, :]
            r2 = np.sum(D * D, axis=2)
            nz = bool(np.any(gv != 0))
            with np.errstate(divide="ignore"):
                t = np.where(r2 > 0, G * Ml[None, :] / np.where(r2 > 0, r2, 1), 0)
            if not nz:
                t = t * (1 - np.eye(N))
            else:
                selfimg += np.diag(t).astype(float)
            mag += np.sum(t, axis=1).astype(float)
        lim = Cth * mag + selfimg + (nterms + 16) * EPS * cond_d
        err = np.max(np.abs(got.astype(LD) - acc), axis=1).astype(float)
        with np.errstate(divide="ignore", invalid="ignore"):
            ratio = np.where(lim > 0, err / lim, np.where(err > 0, np.inf, 0))
        ctx.stat_max("tree_err/apriori_bound", float(np.max(ratio)))
        ctx.cls("apriori_bound_checked")
        if np.max(ratio) > 1:
            i = int(np.argmax(ratio))
            raise Violation("gravity=tree theta2=%g: particle %d: |a_tree - a_direct| = %.3g exceeds the a-priori monopole bound %.3g"
                            % (th2, i, err[i], lim[i]), particle=i, theta2=th2)


# ---------------------------------------------------------------------------------------
# MERCURIUS / TRACE: the two partial forces and their sum

@st.composite
def helio_config(draw, nmax=12):
    N = draw(st.integers(2, nmax))
    R = draw(st.sampled_from([1.0, 30.0, 1e-3]))
    c = {"N": N, "box": None, "G": draw(st.sampled_from(G_VALUES)),
         "soft": draw(st.sampled_from([0.0, 0.0, 1e-3, 0.05])) * R, "m0": draw(st.sampled_from([1.0, 0.5, 1.989e30]))}
    c["pos"] = [[draw(S.floats(-0.999, 0.999)) * R for k in range(3)] for _ in range(N)]
    c["m"] = [c["m0"]] + [c["m0"] * draw(mass_st()) for _ in range(N - 1)]
    c["n_active"] = draw(st.one_of(st.just(-1), st.integers(1, N)))
    c["tp_type"] = draw(st.sampled_from([0, 1]))
    c["ignore"] = 0
    c["R"] = R
    return c


merc_case = st.fixed_dictionaries({
    "cfg": helio_config(),
    "L": st.sampled_from(["mercury", "infinity", "C4", "C5", "python_smoothstep"]),
    "dcrit": st.lists(st.one_of(st.just(0.0), S.floats(0.0, 3.0), S.logfloats(1e-3, 10.0)), min_size=12, max_size=12),
    "members": st.lists(st.booleans(), min_size=12, max_size=12),
    "remove": st.one_of(st.none(), st.integers(0, 63), st.integers(0, 63)),
    "members2": st.lists(st.sampled_from([True, True, True, False]), min_size=12, max_size=12),
    "all_members2": st.booleans(),
})


def star_term(pos, m0, G, soft):
    import numpy as np
    LD = np.longdouble
    X = np.array(pos, dtype=LD)
    r2 = np.sum(X * X, axis=1) + LD(soft) ** 2
    r2[0] = 1
    w = LD(G) * LD(m0) / (r2 * np.sqrt(r2))
    w[0] = 0
    a = -w[:, None] * X
    cond = (w * np.sqrt(np.sum(X * X, axis=1))).astype(float)
    return a, cond


def heliocentric_mask(N, n_active, tp_type):
    from ..oracles import c02_forces_ref as R
    return R.acts_matrix(N, n_active, tp_type, 2)


def check_map_invariants(what, emap, eN, eNa, N, n_eff, expected, ctx):
    """Encounter map after a removal, on the integrator's own terms: map[0]=0, strictly increasing valid indices,
    encounter_N_active = number of entries that are active, and the members are the old ones renumbered."""
    got = [int(emap[k]) for k in range(eN)]
    ok = (eN >= 1 and got[0] == 0 and all(0 <= g < N for g in got) and all(a < b for a, b in zip(got, got[1:])))
    if not ok:
        raise Violation("%s: encounter map %r (encounter_N=%d) is not an increasing list of valid indices < N=%d starting with 0"
                        % (what, got, eN, N), map=got)
    if got != expected:
        raise Violation("%s: encounter map %r, expected the remaining members renumbered %r" % (what, got, expected), map=got)
    na = len([g for g in got if g < n_eff])
    if eNa != na:
        raise Violation("%s: encounter_N_active = %d but %d of the encounter members %r are active (N_active=%d)"
                        % (what, eNa, na, got, n_eff), map=got, encounter_N_active=eNa)


def remove_particle(sim, idx):
    from rebound import clibrebound as L
    f = L.reb_simulation_remove_particle
    f.restype = ctypes.c_int
    f.argtypes = [ctypes.c_void_p, ctypes.c_int, ctypes.c_int]
    return f(ctypes.addressof(sim), idx, 1)


def run_mercurius(case, ctx):
    import numpy as np
    import warnings
    from rebound import clibrebound as L
    from ..oracles import c02_forces_ref as R
    warnings.simplefilter("ignore")
    LD = np.longdouble
    c = case["cfg"]
    N = c["N"]
    pos, m = c["pos"], c["m"]
    if not distinct_positions(pos) and c["soft"] == 0:
        ctx.skip("coincident particles without softening")
        return
    sim = build_sim(c, "basic", pos, m)
    sim.integrator = "mercurius"
    sim.dt = 1e-3
    keep = None
    if case["L"] == "python_smoothstep":
        def smooth(simp, d, dc):
            if dc <= 0:
                return 1.0
            y = (d - 0.25 * dc) / (0.75 * dc)
            return 0.0 if y <= 0 else (1.0 if y >= 1 else y * y * (3 - 2 * y))
        sim.ri_mercurius.L = smooth
        keep = smooth
    else:
        sim.ri_mercurius.L = case["L"]
    L.reb_integrator_mercurius_part1.restype = None
    L.reb_integrator_mercurius_part1(ctypes.byref(sim))       # allocates dcrit / encounter_map, moves to heliocentric coords
    rim = sim.ri_mercurius
    hp = [[sim.particles[i].x, sim.particles[i].y, sim.particles[i].z] for i in range(N)]
    if hp[0] != [0.0, 0.0, 0.0]:
        raise Violation("mercurius part1: central body not at the origin of the heliocentric frame: %r" % hp[0])
    scale = c["R"]
    dcrit = [case["dcrit"][i] * scale for i in range(N)]
    for i in range(N):
        rim._dcrit[i] = dcrit[i]

    Lfn = sim.ri_mercurius._L
    simref = ctypes.byref(sim)

    def Lval(d, dc):
        return float(Lfn(simref, ctypes.c_double(d), ctypes.c_double(dc)))

    Xd = np.array(hp)
    D = Xd[:, None, :] - Xd[None, :, :]
    rr = np.sqrt(np.sum(D * D, axis=2) + c["soft"] ** 2)
    Lmat = np.zeros((N, N))
    for i in range(N):
        for j in range(N):
            if i != j and i and j:
                Lmat[i, j] = Lval(float(rr[i, j]), max(dcrit[i], dcrit[j]))
                if not (-L_SLACK <= Lmat[i, j] <= 1.0 + L_SLACK):
                    raise Violation("switching function %s returned %r outside [0,1] for d=%r dcrit=%r"
                                    % (case["L"], Lmat[i, j], float(rr[i, j]), max(dcrit[i], dcrit[j])))
    mask = heliocentric_mask(N, c["n_active"], c["tp_type"])
    n = N if c["n_active"] < 0 else c["n_active"]
    # mode 0: L-weighted planet-planet part
    rim.mode = 0
    update_acc(sim)
    a0 = read_acc(sim)
    ref0, cond0, rmin2 = R.direct_ld(hp, m, c["G"], c["soft"], mask, weight=lambda r: Lmat.astype(LD))
    if not (rmin2 > 0) and mask.any():
        ctx.skip("coincident particles without softening")
        return
    star, cond_s = star_term(hp, m[0], c["G"], c["soft"])
    if not np.all(np.isfinite(star.astype(float))):
        ctx.skip("particle at the position of the central body without softening")
        return
    nterms = mask.sum(axis=1)
    ctx.cls("L=" + case["L"])
    frac = Lmat[(mask) & (Lmat > 0) & (Lmat < 1)]
    mixed = bool(np.any(Lmat[mask] == 0) and np.any(Lmat[mask] > 0)) or len(frac) > 0
    if len(frac):
        ctx.cls("pairs_in_changeover")
    classify(c, m, ctx, extra_nt=mixed)
    compare(a0, ref0, cond0, nterms, 24, 2, "mercurius mode 0 (L-weighted part)", ctx, "merc_mode0_err/tol")
    # mode 1, every particle in the encounter map: (1-L)-weighted part + star; the two parts add up to the full force
    rim.mode = 1
    rim._encounter_N = N
    rim._encounter_N_active = n
    for i in range(N):
        rim._encounter_map[i] = i
    update_acc(sim)
    a1 = read_acc(sim)
    full, condf, _ = R.direct_ld(hp, m, c["G"], c["soft"], mask)
    full = full + star
    condf = condf + cond_s
    compare(a0 + a1, full, condf, 2 * nterms + 2, 48, 2, "mercurius mode 0 + mode 1 (all particles in encounter) vs full heliocentric force",
            ctx, "merc_sum_err/tol")
    ctx.cls("two_part_identity")
    # mode 1 with a sub-set of particles in the encounter map: only members, only member sources
    mem = [0] + [i for i in range(1, N) if case["members"][i]]
    if 1 < len(mem) < N:
        rim._encounter_N = len(mem)
        rim._encounter_N_active = len([i for i in mem if i < n])
        for k, i in enumerate(mem):
            rim._encounter_map[k] = i
        update_acc(sim)
        a1s = read_acc(sim)
        inmem = np.zeros(N, dtype=bool)
        inmem[mem] = True
        msub = mask & inmem[:, None] & inmem[None, :]
        ref1, cond1, _ = R.direct_ld(hp, m, c["G"], c["soft"], msub, weight=lambda r: (1 - Lmat).astype(LD))
        ref1 = ref1 + star
        cond1 = cond1 + cond_s
        sel = np.array(mem)
        compare(a1s[sel], ref1[sel], cond1[sel], msub.sum(axis=1)[sel] + 1, 24, 2,
                "mercurius mode 1 restricted to encounter members %r" % mem, ctx, "merc_mode1_err/tol")
        ctx.cls("partial_encounter_map")
    # ---- a particle is removed while the encounter is being integrated (mode 1): collision/merger or user removal
    if case.get("remove") is not None and N >= 3:
        mem2 = [0] + [i for i in range(1, N) if case["members2"][i] or case["all_members2"]]
        victim = 1 + case["remove"] % (N - 1)
        rim.mode = 1
        rim._encounter_N = len(mem2)
        rim._encounter_N_active = len([i for i in mem2 if i < n])
        for k in range(N):
            rim._encounter_map[k] = mem2[k] if k < len(mem2) else 0
        for i in range(N):
            rim._dcrit[i] = dcrit[i]
        if remove_particle(sim, victim) != 1 or sim.N != N - 1:
            raise Violation("reb_simulation_remove_particle(%d) during a MERCURIUS encounter did not remove the particle" % victim)
        if victim not in mem2:
            # not reachable through the integrator (only encounter members move in mode 1); what the map looks like
            # afterwards is recorded, not asserted
            ctx.cls("remove_nonmember(record only)")
        else:
            N2 = N - 1
            n_set = c["n_active"] if c["n_active"] < 0 else c["n_active"] - (1 if victim < c["n_active"] else 0)
            if sim.N_active != n_set:
                raise Violation("removing particle %d: N_active %d, expected %d" % (victim, sim.N_active, n_set))
            n2 = N2 if n_set < 0 else n_set
            exp = [i if i < victim else i - 1 for i in mem2 if i != victim]
            what = "mercurius mode 1, particle %d (%s) removed from encounter %r" % (victim, "active" if victim < n else "test particle", mem2)
            check_map_invariants(what, rim._encounter_map, rim._encounter_N, rim._encounter_N_active, N2, n2, exp, ctx)
            ctx.cls("remove_active_member" if victim < n else "remove_testparticle_member")
            hp2 = [[sim.particles[i].x, sim.particles[i].y, sim.particles[i].z] for i in range(N2)]
            m2 = [sim.particles[i].m for i in range(N2)]
            dc2 = [rim._dcrit[i] for i in range(N2)]
            if dc2 != dcrit[:victim] + dcrit[victim + 1:]:
                raise Violation("%s: dcrit %r is not the old list with entry %d removed" % (what, dc2, victim))
            X2 = np.array(hp2)
            D2 = X2[:, None, :] - X2[None, :, :]
            rr2 = np.sqrt(np.sum(D2 * D2, axis=2) + c["soft"] ** 2)
            L2 = np.zeros((N2, N2))
            for i in range(1, N2):
                for j in range(1, N2):
                    if i != j:
                        L2[i, j] = Lval(float(rr2[i, j]), max(dc2[i], dc2[j]))
            mask2 = heliocentric_mask(N2, n_set, c["tp_type"])
            star2, cond_s2 = star_term(hp2, m2[0], c["G"], c["soft"])
            inm = np.zeros(N2, dtype=bool)
            inm[exp] = True
            ms2 = mask2 & inm[:, None] & inm[None, :]
            ref, cnd, _ = R.direct_ld(hp2, m2, c["G"], c["soft"], ms2, weight=lambda r: (1 - L2).astype(LD))
            update_acc(sim)
            a1r = read_acc(sim)
            sel = np.array(exp)
            compare(a1r[sel], (ref + star2)[sel], (cnd + cond_s2)[sel], ms2.sum(axis=1)[sel] + 1, 24, 2,
                    what + ": (1-L)-weighted part + star for the remaining members", ctx, "merc_remove_mode1_err/tol")
            if len(exp) == N2:
                rim.mode = 0
                update_acc(sim)
                a0r = read_acc(sim)
                fullr, condr, _ = R.direct_ld(hp2, m2, c["G"], c["soft"], mask2)
                compare(a0r + a1r, fullr + star2, condr + cond_s2, 2 * mask2.sum(axis=1) + 2, 48, 2,
                        what + ": mode 0 + mode 1 vs full heliocentric force of the current partition", ctx, "merc_remove_sum_err/tol")
                ctx.cls("remove_two_part_identity")
            if n2 < N2 and len([i for i in exp if i >= n2]) >= 2 and victim < n:
                ctx.cls("remove_active_with_testparticles_in_map")
                ctx.nontrivial()
    del keep


# ---------------------------------------------------------------------------------------
# MERCURIUS with the encounter state built by the integrator itself: one real (tiny) step of a system that
# holds a cluster of bodies inside each other's dcrit, then the bookkeeping and the two force parts are read back.

@st.composite
def cluster_case(draw):
    N = draw(st.integers(3, 8))
    G = draw(st.sampled_from([1.0, 4 * math.pi ** 2, 0.9]))
    base = [draw(S.floats(0.5, 1.0)) * draw(st.sampled_from([1.0, -1.0])), draw(S.floats(-0.5, 0.5)), draw(S.floats(-0.2, 0.2))]
    pos = [[0.0, 0.0, 0.0]]
    m = [1.0]
    for k in range(1, N):
        far = draw(st.sampled_from([False, False, False, True]))
        if far:
            pos.append([-(k + 1.5) * base[0], (k + 1.0) * 0.7, 0.3 * k])
        else:
            pos.append([base[a] + 0.004 * (k if a == 0 else 0) + 0.02 * draw(S.floats(-1.0, 1.0)) for a in range(3)])
        m.append(draw(st.sampled_from([1e-3, 1e-3, 3e-4, 1e-4, 0.0])))
    return {"N": N, "box": None, "G": G, "soft": 0.0, "m0": 1.0, "pos": pos, "m": m, "R": 1.0,
            "n_active": draw(st.one_of(st.just(-1), st.integers(1, N), st.integers(1, min(N, 3)))),
            "tp_type": draw(st.sampled_from([0, 1, 1])), "ignore": 0,
            "L": draw(st.sampled_from(["mercury", "infinity", "C4", "C5"])), "dt": draw(st.sampled_from([1e-7, 1e-6]))}


def run_mercurius_step(c, ctx):
    import numpy as np
    import warnings
    from ..oracles import c02_forces_ref as R
    warnings.simplefilter("ignore")
    LD = np.longdouble
    N, pos, m = c["N"], c["pos"], c["m"]
    if not distinct_positions(pos):
        ctx.skip("coincident particles")
        return
    sim = build_sim(c, "basic", pos, m)
    sim.integrator = "mercurius"
    sim.ri_mercurius.L = c["L"]
    sim.ri_mercurius.safe_mode = 0            # stay in democratic heliocentric coordinates after the step
    sim.dt = c["dt"]
    sim.step()
    rim = sim.ri_mercurius
    n = N if c["n_active"] < 0 else c["n_active"]
    dcrit = [rim._dcrit[i] for i in range(N)]
    # members the encounter prediction must have found: an active body and any other body that start the step closer
    # than max(dcrit) (the prediction takes the minimum over the step, which is <= the starting distance)
    X0 = np.array(pos)
    must = set()
    for i in range(1, n):
        for j in range(i + 1, N):
            if np.sqrt(np.sum((X0[i] - X0[j]) ** 2)) < 0.999 * max(dcrit[i], dcrit[j]):
                must.update((i, j))
    eN, eNa = rim._encounter_N, rim._encounter_N_active
    if eN < 2:
        if must:
            raise Violation("mercurius step: bodies %r start inside dcrit of an active body but no encounter was integrated" % sorted(must))
        ctx.cls("no_encounter")
        return
    mem = [int(rim._encounter_map[k]) for k in range(eN)]
    what = "mercurius after one real step, integrator-built encounter map %r" % mem
    if mem[0] != 0 or any(not (0 <= g < N) for g in mem) or any(a >= b for a, b in zip(mem, mem[1:])):
        raise Violation(what + ": not an increasing list of valid indices starting with 0")
    if not must <= set(mem):
        raise Violation(what + ": bodies %r start inside dcrit of an active body but are not in the map" % sorted(must - set(mem)))
    na = len([g for g in mem if g < n])
    if eNa != na:
        raise Violation("%s: encounter_N_active = %d but %d of the members are active (N_active=%d, testparticle_type=%d)"
                        % (what, eNa, na, c["n_active"], c["tp_type"]), map=mem, encounter_N_active=eNa)
    ctx.cls("encounter_built_by_integrator")
    ntp = len([g for g in mem if g >= n])
    if ntp >= 2:
        ctx.cls("two_or_more_testparticles_in_map_type%d" % c["tp_type"])
        ctx.nontrivial()
    # (b) the two force parts with the integrator's own map / counts / dcrit, current heliocentric positions
    hp = [[sim.particles[i].x, sim.particles[i].y, sim.particles[i].z] for i in range(N)]
    if hp[0] != [0.0, 0.0, 0.0] or not distinct_positions(hp):
        ctx.skip("central body not at the origin after the step / coincident")
        return
    mcur = [sim.particles[i].m for i in range(N)]
    Lfn = rim._L
    simref = ctypes.byref(sim)
    Xd = np.array(hp)
    D = Xd[:, None, :] - Xd[None, :, :]
    rr = np.sqrt(np.sum(D * D, axis=2))
    Lmat = np.zeros((N, N))
    for i in range(1, N):
        for j in range(1, N):
            if i != j:
                Lmat[i, j] = float(Lfn(simref, ctypes.c_double(float(rr[i, j])), ctypes.c_double(max(dcrit[i], dcrit[j]))))
    mask = heliocentric_mask(N, c["n_active"], c["tp_type"])
    star, cond_s = star_term(hp, mcur[0], c["G"], 0.0)
    inm = np.zeros(N, dtype=bool)
    inm[mem] = True
    msub = mask & inm[:, None] & inm[None, :]
    ref1, cond1, _ = R.direct_ld(hp, mcur, c["G"], 0.0, msub, weight=lambda r: (1 - Lmat).astype(LD))
    rim.mode = 1
    update_acc(sim)
    a1 = read_acc(sim)
    sel = np.array(mem)
    compare(a1[sel], (ref1 + star)[sel], (cond1 + cond_s)[sel], msub.sum(axis=1)[sel] + 1, 24, 2,
            what + ": (1-L)-weighted part + star", ctx, "merc_step_mode1_err/tol")
    rim.mode = 0
    update_acc(sim)
    a0 = read_acc(sim)
    ref0, cond0, _ = R.direct_ld(hp, mcur, c["G"], 0.0, mask, weight=lambda r: Lmat.astype(LD))
    compare(a0, ref0, cond0, mask.sum(axis=1), 24, 2, what + ": L-weighted part", ctx, "merc_step_mode0_err/tol")
    if len(mem) == N:
        full, condf, _ = R.direct_ld(hp, mcur, c["G"], 0.0, mask)
        compare(a0 + a1, full + star, condf + cond_s, 2 * mask.sum(axis=1) + 2, 48, 2,
                what + ": mode 0 + mode 1 vs full heliocentric force of the partition", ctx, "merc_step_sum_err/tol")
        ctx.cls("two_part_identity")


# the C4/C5 polynomials have alternating coefficients up to 3465 (sum of magnitudes ~1.1e4): evaluated in double
# they may leave [0,1] or lose monotonicity by that many ulps near y=1
L_SLACK = 64 * EPS * 1.1e4


def run_switching(case, ctx):
    """Built-in changeover functions: 0 <= L <= 1, non-decreasing in d, 0 below 0.1 dcrit, 1 above dcrit."""
    from rebound import clibrebound as L
    name, dc, ds = case["L"], case["dcrit"], sorted(case["d"])
    f = getattr(L, "reb_integrator_mercurius_L_" + name)
    f.restype = ctypes.c_double
    f.argtypes = [ctypes.c_void_p, ctypes.c_double, ctypes.c_double]
    prev = None
    for d in ds + [0.1 * dc, dc, 0.0999 * dc, 1.0001 * dc]:
        v = f(None, d * 1.0, dc)
        if not (-L_SLACK <= v <= 1.0 + L_SLACK):
            raise Violation("L_%s(d=%r, dcrit=%r) = %r outside [0,1]" % (name, d, dc, v))
        if d <= 0.0999 * dc and v != 0.0:
            raise Violation("L_%s(d=%r, dcrit=%r) = %r, expected 0 below 0.1 dcrit" % (name, d, dc, v))
        if d >= 1.0001 * dc and v != 1.0:
            raise Violation("L_%s(d=%r, dcrit=%r) = %r, expected 1 above dcrit" % (name, d, dc, v))
    vals = [f(None, d, dc) for d in ds]
    for a, b, da, db in zip(vals, vals[1:], ds, ds[1:]):
        if b < a - L_SLACK:
            raise Violation("L_%s not monotone: L(%r)=%r > L(%r)=%r (dcrit %r)" % (name, da, a, db, b, dc))
    ctx.cls(name)
    if any(0 < v < 1 for v in vals):
        ctx.nontrivial()


switch_case = st.fixed_dictionaries({"L": st.sampled_from(["mercury", "infinity", "C4", "C5"]),
                                     "dcrit": S.logfloats(1e-6, 1e6),
                                     "d": st.lists(S.floats(0.0, 1.2), min_size=4, max_size=40)}).map(
    lambda c: dict(c, d=[x * c["dcrit"] for x in c["d"]]))


trace_case = st.fixed_dictionaries({
    "cfg": helio_config(),
    "K": st.lists(st.sampled_from([0, 0, 1]), min_size=78, max_size=78),
    "extra_members": st.lists(st.sampled_from([False, False, True]), min_size=12, max_size=12),
    "all_members": st.sampled_from([False, False, True]),
    "remove": st.one_of(st.none(), st.integers(0, 63)),
})


def run_trace(case, ctx):
    import numpy as np
    import warnings
    from rebound import clibrebound as L
    from ..oracles import c02_forces_ref as R
    warnings.simplefilter("ignore")
    c = dict(case["cfg"])
    N = c["N"]
    pos = [list(p) for p in c["pos"]]
    pos[0] = [0.0, 0.0, 0.0]                      # heliocentric frame: the routine's precondition
    m = c["m"]
    if not distinct_positions(pos) and c["soft"] == 0:
        ctx.skip("coincident particles without softening")
        return
    sim = build_sim(c, "basic", pos, m)
    sim.integrator = "trace"
    sim.dt = 1e-3
    L.reb_integrator_trace_part1.restype = None
    L.reb_integrator_trace_part1(ctypes.byref(sim))           # allocates current_Ks / encounter_map, selects gravity TRACE
    rit = sim.ri_trace
    n = N if c["n_active"] < 0 else c["n_active"]
    K = np.zeros((N, N), dtype=int)
    it = iter(case["K"])
    for i in range(N):
        for j in range(i + 1, N):
            v = next(it)
            if i < n:                      # a pair needs at least one active member to have a close encounter
                K[i, j] = K[j, i] = v
    member = np.zeros(N, dtype=bool)
    member[0] = True
    for i in range(N):
        for j in range(i + 1, N):
            if K[i, j]:
                member[i] = member[j] = True
    for i in range(1, N):
        if case["extra_members"][i] or case["all_members"]:
            member[i] = True
    mem = [i for i in range(N) if member[i]]
    for i in range(N):
        for j in range(N):
            rit._current_Ks[i * N + j] = int(K[i, j]) if i < j else 0
    rit._encounter_N = len(mem)
    rit._encounter_N_active = len([i for i in mem if i < n])
    for k in range(N):
        rit._encounter_map[k] = mem[k] if k < len(mem) else 0
    mask = heliocentric_mask(N, c["n_active"], c["tp_type"])
    full, condf, rmin2 = R.direct_ld(pos, m, c["G"], c["soft"], mask)
    if not (rmin2 > 0) and mask.any():
        ctx.skip("coincident particles without softening")
        return
    star, cond_s = star_term(pos, m[0], c["G"], c["soft"])
    if not np.all(np.isfinite(star.astype(float))):
        ctx.skip("particle at the position of the central body without softening")
        return
    Kb = K.astype(bool)
    ref_int, cond_i, _ = R.direct_ld(pos, m, c["G"], c["soft"], mask & ~Kb)
    ref_kep, cond_k, _ = R.direct_ld(pos, m, c["G"], c["soft"], mask & Kb)
    # interaction part
    rit._mode = 0
    update_acc(sim)
    ai = read_acc(sim)
    nterms = mask.sum(axis=1)
    mixed = bool(np.any(Kb[mask]) and np.any(~Kb[mask]))
    ctx.cls("K_mixed" if mixed else ("K_all0" if not np.any(Kb[mask]) else "K_all1"))
    classify(c, m, ctx, extra_nt=mixed)
    compare(ai, ref_int, cond_i + 1e-300, (mask & ~Kb).sum(axis=1), 24, 1, "trace interaction part (pairs with K=0)", ctx,
            "trace_int_err/tol")
    # Kepler part: members only
    if len(mem) > 1:
        rit._mode = 1
        update_acc(sim)
        ak = read_acc(sim)
        sel = np.array(mem)
        compare(ak[sel], (ref_kep + star)[sel], (cond_k + cond_s)[sel], (mask & Kb).sum(axis=1)[sel] + 1, 24, 1,
                "trace Kepler part (star + pairs with K=1) for encounter members %r" % mem, ctx, "trace_kep_err/tol")
        tot = ai + ak
        sel1 = np.array([i for i in mem if i > 0])
        compare(tot[sel1], (full + star)[sel1], (condf + cond_s)[sel1], 2 * nterms[sel1] + 2, 48, 1,
                "trace interaction + Kepler part vs full heliocentric force", ctx, "trace_sum_err/tol")
        ctx.cls("two_part_identity")
        if len(mem) < N:
            ctx.cls("partial_encounter_map")
    # ---- a particle is removed during the Kepler (BS) part
    if case.get("remove") is not None and N >= 3 and len(mem) > 1:
        victim = 1 + case["remove"] % (N - 1)
        rit._mode = 1
        if remove_particle(sim, victim) != 1 or sim.N != N - 1:
            raise Violation("reb_simulation_remove_particle(%d) during a TRACE Kepler step did not remove the particle" % victim)
        if victim not in mem:
            ctx.cls("remove_nonmember(record only)")
            return
        N2 = N - 1
        n_set = c["n_active"] if c["n_active"] < 0 else c["n_active"] - (1 if victim < c["n_active"] else 0)
        if sim.N_active != n_set:
            raise Violation("removing particle %d: N_active %d, expected %d" % (victim, sim.N_active, n_set))
        n2 = N2 if n_set < 0 else n_set
        exp = [i if i < victim else i - 1 for i in mem if i != victim]
        what = "trace Kepler part, particle %d (%s) removed from encounter %r" % (victim, "active" if victim < n else "test particle", mem)
        check_map_invariants(what, rit._encounter_map, rit._encounter_N, rit._encounter_N_active, N2, n2, exp, ctx)
        ctx.cls("remove_active_member" if victim < n else "remove_testparticle_member")
        keepi = [i for i in range(N) if i != victim]
        K2 = Kb[np.ix_(keepi, keepi)]
        for i in range(N2):
            for j in range(i + 1, N2):
                if bool(rit._current_Ks[i * N2 + j]) != bool(K2[i, j]):
                    raise Violation("%s: current_Ks[%d,%d] = %d after the removal, the pair had %d before"
                                    % (what, i, j, rit._current_Ks[i * N2 + j], int(K2[i, j])))
        pos2 = [[sim.particles[i].x, sim.particles[i].y, sim.particles[i].z] for i in range(N2)]
        m2 = [sim.particles[i].m for i in range(N2)]
        mask2 = heliocentric_mask(N2, n_set, c["tp_type"])
        star2, cond_s2 = star_term(pos2, m2[0], c["G"], c["soft"])
        refk, condk, _ = R.direct_ld(pos2, m2, c["G"], c["soft"], mask2 & K2)
        refi, condi, _ = R.direct_ld(pos2, m2, c["G"], c["soft"], mask2 & ~K2)
        update_acc(sim)
        akr = read_acc(sim)
        if len(exp) > 1:
            sel = np.array(exp)
            compare(akr[sel], (refk + star2)[sel], (condk + cond_s2)[sel], (mask2 & K2).sum(axis=1)[sel] + 1, 24, 1,
                    what + ": star + K=1 pairs for the remaining members", ctx, "trace_remove_kep_err/tol")
        rit._mode = 0
        update_acc(sim)
        air = read_acc(sim)
        compare(air, refi, condi + 1e-300, (mask2 & ~K2).sum(axis=1), 24, 1, what + ": interaction part (K=0 pairs)", ctx,
                "trace_remove_int_err/tol")
        if n2 < N2 and len([i for i in exp if i >= n2]) >= 2 and victim < n:
            ctx.cls("remove_active_with_testparticles_in_map")
            ctx.nontrivial()


# ---------------------------------------------------------------------------------------
# JACOBI routine: direct terms without the (0,1) pair + Jacobi terms of the Wisdom-Holman interaction Hamiltonian

@st.composite
def jacobi_config(draw):
    N = draw(st.integers(1, 12))
    R = draw(st.sampled_from([1.0, 30.0, 1e-3]))
    c = {"N": N, "box": None, "G": draw(st.sampled_from(G_VALUES)), "soft": 0.0,
         "m0": draw(st.sampled_from([1.0, 0.5, 1.989e30]))}
    c["pos"] = [[draw(S.floats(-0.999, 0.999)) * R for k in range(3)] for _ in range(N)]
    c["m"] = [c["m0"]] + [c["m0"] * draw(mass_st()) for _ in range(N - 1)]
    c["n_active"], c["tp_type"], c["ignore"] = -1, 0, draw(st.sampled_from([0, 1]))
    return c


def run_jacobi(case, ctx):
    import numpy as np
    import mpmath as mp
    import warnings
    from ..oracles import c02_forces_ref as R
    warnings.simplefilter("ignore")
    LD = np.longdouble
    c = case["cfg"]
    N = c["N"]
    pos, m = c["pos"], c["m"]
    if not distinct_positions(pos):
        ctx.skip("coincident particles without softening")
        return
    sim = build_sim(c, "jacobi", pos, m)
    sim.integrator = "whfast"
    mask = R.acts_matrix(N, -1, 0, 1)                     # all pairs except {0,1}
    accd, condd, rmin2 = R.direct_ld(pos, m, c["G"], 0.0, mask)
    try:
        accj, condj, acc1 = R.jacobi_terms_mp(pos, m, c["G"])
    except ZeroDivisionError:
        ctx.skip("a particle sits exactly on the centre of mass of the interior bodies")
        return
    ref = np.zeros((N, 3), dtype=LD)
    for i in range(N):
        for k in range(3):
            v = mp.mpf(float(accd[i, k])) + mp.mpf(float(accd[i, k] - LD(float(accd[i, k])))) + accj[i][k]
            hi = float(v)
            ref[i, k] = LD(hi) + LD(float(v - mp.mpf(hi)))
    cond = condd + np.array(condj)
    if not np.all(np.isfinite(ref.astype(float))) or not np.all(np.isfinite(cond)):
        ctx.skip("reference overflows")
        return
    # oracle self-check: the i=1 Jacobi term cancels the direct (0,1) pair (that is why both are omitted)
    if N >= 2:
        full01 = R.direct_mp(pos, m, c["G"], 0.0, (R.acts_matrix(N, -1, 0, 0) & ~mask).tolist())
        for i in range(N):
            for k in range(3):
                if abs(full01[i][k] + acc1[i][k]) > mp.mpf(10) ** -30 * (abs(full01[i][k]) + 1):
                    raise RuntimeError("oracle self-check: Jacobi term of body 1 does not cancel the (0,1) pair")
    update_acc(sim)
    got = read_acc(sim)
    classify(c, m, ctx, extra_nt=N >= 3)
    nterms = 3 * np.full(N, max(N - 1, 0))
    compare(got, ref, cond, nterms, 32, 1, "gravity=jacobi", ctx, "jacobi_err/tol")


jacobi_case = st.fixed_dictionaries({"cfg": jacobi_config()})

# WHFast in Jacobi coordinates reaches the same Hamiltonian through two code paths: gravity=basic with
# gravity_ignore_terms=1 plus the Jacobi term added in the interaction step, or gravity=jacobi.
jstep_case = st.fixed_dictionaries({
    "system": S.hierarchical_system(nmin=2, nmax=6, allow_massless=True),
    "dt_frac": st.sampled_from([0.01, 0.03, 0.05]),
    "n_test": st.integers(0, 2),
    "corrector": st.sampled_from([0, 0, 3, 11]),
})


def run_jacobi_step(case, ctx):
    import numpy as np
    import warnings
    from .. import rb
    from ..oracles import c02_forces_ref as R
    warnings.simplefilter("ignore")
    sysd = case["system"]
    parts = [dict(p) for p in sysd["particles"]]
    N = len(parts)
    q = min(case["n_test"], N - 2) if N > 2 else 0
    for p in parts[N - q:] if q else []:
        p["m"] = 0.0
    sims = []
    for grav in ("basic", "jacobi"):
        sim = rb.new_sim({"G": sysd["G"], "particles": parts})
        sim.integrator = "whfast"
        sim.ri_whfast.coordinates = "jacobi"
        sim.ri_whfast.corrector = case["corrector"]
        sim.ri_whfast.safe_mode = 1
        if q:
            sim.N_active = N - q
        sim.dt = case["dt_frac"] * sysd["P_min"]
        sim.gravity = grav
        sim.step()
        if sim.gravity != grav:
            raise Violation("whfast changed the selected gravity routine from %s to %s" % (grav, sim.gravity))
        sims.append(sim)
    a, b = (np.array(rb.pfloat(s))[:, :6] for s in sims)
    pos = [[p["x"], p["y"], p["z"]] for p in parts]
    m = [p["m"] for p in parts]
    _, cond, _ = R.direct_ld(pos, m, sysd["G"], 0.0, R.acts_matrix(N, -1, 0, 0))
    amax = float(np.max(cond)) if N else 0.0
    dt = abs(sims[0].dt)
    xmax = float(np.max(np.abs(a[:, :3])))
    vmax = float(np.max(np.abs(a[:, 3:])))
    K = 64.0 * (N + 8) * (1 + 2 * (case["corrector"] > 0) * case["corrector"])
    tolx = K * EPS * (xmax + dt * vmax + dt * dt * amax)
    tolv = K * EPS * (vmax + dt * amax)
    ex = float(np.max(np.abs(a[:, :3] - b[:, :3])))
    ev = float(np.max(np.abs(a[:, 3:] - b[:, 3:])))
    ctx.stat_max("jstep_x/tol", ex / tolx)
    ctx.stat_max("jstep_v/tol", ev / tolv)
    ctx.cls("corrector%d" % case["corrector"])
    if q:
        ctx.cls("massless_testparticles")
    if N >= 3:
        ctx.nontrivial()
    if ex > tolx or ev > tolv:
        raise Violation("one WHFast step (Jacobi coordinates) with gravity=jacobi differs from the step with gravity=basic: "
                        "max|dx| %.3g (tol %.3g), max|dv| %.3g (tol %.3g)" % (ex, tolx, ev, tolv),
                        basic=a.tolist(), jacobi=b.tolist())


# ---------------------------------------------------------------------------------------
# documented active / test-particle semantics in the routines that have no test-particle pass of their own
# (small enumerated grid: every case currently matches an open finding, see known_findings.json)

def partition_cases(tier):
    out = []
    base_pos = [[0.0, 0.0, 0.0], [1.0, 0.1, 0.0], [-0.3, 1.4, 0.2], [0.5, -0.8, 1.1], [-1.2, -0.4, -0.7]]
    for routine in ("tree", "jacobi"):
        for n_active in (1, 2, 3):
            for tp_type in (0, 1):
                for tm in (0.0, 1e-3):
                    for ignore in (0, 1, 2):
                        if routine == "jacobi" and ignore != 1:
                            continue
                        out.append({"routine": routine, "pos": base_pos, "m": [1.0, 1e-3, 2e-3][:n_active] + [tm] * (5 - n_active),
                                    "n_active": n_active, "tp_type": tp_type, "ignore": ignore, "soft": 0.0})
    for soft in (0.05,):
        out.append({"routine": "jacobi", "pos": base_pos, "m": [1.0, 1e-3, 2e-3, 1e-4, 0.0], "n_active": -1, "tp_type": 0,
                    "ignore": 1, "soft": soft})
    return out


def run_partition(case, ctx):
    import numpy as np
    import warnings
    from ..oracles import c02_forces_ref as R
    warnings.simplefilter("ignore")
    N = len(case["m"])
    c = {"N": N, "G": 1.0, "soft": case["soft"], "n_active": case["n_active"], "tp_type": case["tp_type"],
         "ignore": case["ignore"], "box": {"size": 8.0, "rx": 1, "ry": 1, "rz": 1} if case["routine"] == "tree" else None}
    pos, m = case["pos"], case["m"]
    n = N if c["n_active"] < 0 else c["n_active"]
    massive_tp = any(x != 0 for x in m[n:])
    if case["routine"] == "tree":
        # the tree walk has no notion of N_active / testparticle_type / gravity_ignore_terms
        deviates = (massive_tp or c["ignore"] != 0)
        key = KEY_TREE_PART
    else:
        deviates = massive_tp or c["soft"] > 0
        key = KEY_JAC_PART if massive_tp else KEY_JAC_SOFT
    if massive_tp and c["tp_type"] == 0:
        ctx.cls("massive_type0_testparticles(library warns: unexpected behaviour)")
        ctx.skip("type-0 test particles with mass: the library itself warns about this configuration")
        return
    if deviates and ctx.finding_open(key):
        ctx.excluded(key)
        return
    ctx.cls(case["routine"])
    if deviates:
        ctx.nontrivial()
    sim = build_sim(c, case["routine"], pos, m, extra={"opening_angle2": 0.0} if case["routine"] == "tree" else None)
    if case["routine"] == "jacobi":
        sim.integrator = "whfast"
        mask = R.acts_matrix(N, c["n_active"], c["tp_type"], 1)
        accd, condd, _ = R.direct_ld(pos, m, 1.0, c["soft"], mask)
        # WHFast builds its Jacobi coordinates from all masses when testparticle_type=1 and from the active ones otherwise
        mj = list(m) if c["tp_type"] == 1 else [x if i < n else 0.0 for i, x in enumerate(m)]
        accj, condj, _ = R.jacobi_terms_mp(pos, mj, 1.0, soft=c["soft"])
        ref = accd + np.array([[float(v) for v in row] for row in accj], dtype=np.longdouble)
        cond = condd + np.array(condj)
        what = "gravity=jacobi with N_active=%d testparticle_type=%d softening=%g" % (c["n_active"], c["tp_type"], c["soft"])
    else:
        prepare_tree(sim)
        mask = R.acts_matrix(N, c["n_active"], c["tp_type"], c["ignore"])
        ref, cond, _ = R.direct_ld(pos, m, 1.0, c["soft"], mask)
        what = "gravity=tree(theta=0) with N_active=%d testparticle_type=%d gravity_ignore_terms=%d" % (c["n_active"], c["tp_type"], c["ignore"])
    update_acc(sim)
    got = read_acc_by_identity(sim, pos, m, ctx) if case["routine"] == "tree" else read_acc(sim)
    if case["routine"] == "tree" and any(sim.particles[k].x != pos[k][0] for k in range(N)):
        ctx.skip("tree update reordered the particles: the index-based partition of the case no longer applies")
        return
    compare(got, ref, cond + 1e-300, np.full(N, 3 * N), 1e4, 1, what + " vs documented active/test-particle semantics", ctx,
            "partition_err/tol")


def subs(tier):
    return [
        Sub("direct", run_direct, strategy=direct_case, quick=2400, thorough=120000, shards_quick=8, shards_thorough=16),
        Sub("tree_theta0", run_tree0, strategy=tree0_case, quick=800, thorough=40000, shards_quick=8, shards_thorough=16),
        Sub("jacobi", run_jacobi, strategy=jacobi_case, quick=800, thorough=40000, shards_quick=8, shards_thorough=16),
        Sub("jacobi_whfast_step", run_jacobi_step, strategy=jstep_case, quick=800, thorough=20000, shards_quick=4, shards_thorough=8),
        Sub("documented_partition", run_partition, cases=partition_cases, quick=1, thorough=1, shards_quick=1, shards_thorough=1),
        Sub("mercurius_split", run_mercurius, strategy=merc_case, quick=1000, thorough=40000, shards_quick=8, shards_thorough=16),
        Sub("mercurius_real_step", run_mercurius_step, strategy=cluster_case(), quick=600, thorough=16000, shards_quick=8,
            shards_thorough=16),
        Sub("switching_functions", run_switching, strategy=switch_case, quick=2000, thorough=40000, shards_quick=4,
            shards_thorough=8, journal=False),
        Sub("trace_split", run_trace, strategy=trace_case, quick=1000, thorough=40000, shards_quick=8, shards_thorough=16),
        Sub("tree_history", run_tree_history, strategy=tree_hist_case, quick=320, thorough=16000, shards_quick=8, shards_thorough=16),
        Sub("tree_bound", run_tree, strategy=tree_case, quick=640, thorough=24000, shards_quick=8, shards_thorough=16),
    ]
