"""C12 - coordinate transformations are mutual inverses and carry the centre of mass."""
import ctypes
import math

from hypothesis import strategies as st

from ..core import Sub, Violation
from .. import strategies as S

PROPERTY = "C12"
LEVEL = "exploration"
RULE = ("Generated particle sets (N 1..12, masses incl. exact zeros and ratios 1e-12..1e3 relative to particle 0, "
        "N_active 1..N, positions/velocities/accelerations with optional large common offset) in harness-owned "
        "ctypes Particle arrays passed to the exported reb_particles_transform_* functions (all four coordinate "
        "systems per case), to reb_integrator_{mercurius,trace}_inertial_to_dh/dh_to_inertial and to "
        "move_to_hel/move_to_com.  Oracles: mpmath evaluation of the textbook definitions (forward map, slot 0 = "
        "total active mass + COM), inverse(forward(x)) = x, pos/posvel/acc variant agreement; the six Jacobi entry points "
        "also with a separate p_mass array whose masses differ from the .m members of the transformed set (variational-"
        "particle calling convention; oracle built from the p_mass masses); tolerance "
        "K*eps*(|B||A|1)_i*max|x| from the oracle's own matrices.  Non-trivial = N>=3 and (N_active<N or a "
        "zero-mass body or a mass ratio < 1e-9); distinct by case hash.")
ASSUMPTIONS = [
    "particle 0 has positive mass (all four coordinate systems divide by m_0 or by partial mass sums starting with m_0)",
    "the array receiving an inverse transform already carries the particle masses (how WHFast calls these functions)",
    "'to rounding error' = K*eps*(|A^-1||A|1)_i*max_k|x_k| with A the exact linear map (normwise in the coordinates, "
    "componentwise in the mass-dependent coefficients); K = 4*(N+8)",
    "mercurius/trace heliocentric shifts treat testparticle_type=1 bodies as contributing to the centre of mass",
]
CLASSES = ["roundtrip/jacobi", "roundtrip/democraticheliocentric", "roundtrip/whds", "roundtrip/barycentric",
           "roundtrip/testparticles", "roundtrip/zero_mass", "roundtrip/ratio<1e-9", "roundtrip/heavy_later_body"]

EPS = 2.0 ** -52
SENT = 7.7e77
SYSTEMS = ("jacobi", "democraticheliocentric", "whds", "barycentric")
KEY_JACOBI = "C12-jacobi-inverse-mass-subtraction"


def K_of(N):
    return 4.0 * (N + 8)


# ---------------------------------------------------------------------------------------
# generator

def _mass_rel():
    return st.one_of(
        st.just(0.0),
        S.logfloats(1e-12, 1.0),
        S.logfloats(1e-12, 1.0),
        S.logfloats(1e-6, 1e-2),
        st.sampled_from([1e-12, 1e-9, 1e-3, 1.0, 0.5]),
        S.logfloats(1.0, 1e3),
        S.logfloats(1.0, 1e12),
    )


@st.composite
def particle_set(draw, nmin=1, nmax=12, heavy=True):
    N = draw(st.one_of(st.integers(nmin, min(nmax, 5)), st.integers(nmin, nmax)))
    m0 = draw(st.sampled_from([1.0, 0.5, 2.0, 1e-3, 1.989e30, 0.9]))
    rel = [draw(_mass_rel()) for _ in range(N - 1)]
    if not heavy:
        rel = [min(r, 1.0) for r in rel]
    m = [m0] + [m0 * r for r in rel]
    n_active = draw(st.one_of(st.just(N), st.integers(1, N)))
    scale = draw(st.sampled_from([1.0, 1.0, 30.0, 1e-3, 1.5e11]))
    off = draw(st.sampled_from([0.0, 0.0, 0.0, 1e3, -1e6])) * scale
    vec = st.tuples(S.floats(-1.0, 1.0), S.floats(-1.0, 1.0), S.floats(-1.0, 1.0))
    planar = draw(st.booleans()) and draw(st.booleans())

    def block(o):
        out = []
        for _ in range(N):
            a = draw(vec)
            out.append([a[0] * scale + o, a[1] * scale - o, (0.0 if planar else a[2] * scale)])
        return out
    return {"m": m, "n_active": n_active, "x": block(off), "v": block(0.0 if draw(st.booleans()) else off),
            "a": block(0.0)}


# ---------------------------------------------------------------------------------------
# library access

_lib = {}


def lib():
    if not _lib:
        from rebound import clibrebound as L, Particle
        PP = ctypes.POINTER(Particle)
        u = ctypes.c_uint
        for s in SYSTEMS:
            margs = [PP, PP, PP, u, u] if s == "jacobi" else [PP, PP, u, u]
            names = ["inertial_to_%s_posvel" % s, "%s_to_inertial_posvel" % s, "%s_to_inertial_pos" % s]
            if s == "jacobi":
                names += ["inertial_to_jacobi_posvelacc", "inertial_to_jacobi_acc", "jacobi_to_inertial_acc"]
            if s == "barycentric":
                names += ["barycentric_to_inertial_acc"]
            for nme in names:
                f = getattr(L, "reb_particles_transform_" + nme)
                f.restype = None
                f.argtypes = margs
                _lib[nme] = f
        _lib["Particle"] = Particle
    return _lib


def make_array(case, fields="xva", swap=None, masses=True, sentinel=False):
    """ctypes Particle array.  swap='a->x' puts the acceleration block into the position slots (variant checks)."""
    P = lib()["Particle"]
    N = len(case["m"])
    arr = (P * N)()
    for i in range(N):
        p = arr[i]
        if sentinel:
            p.x = p.y = p.z = p.vx = p.vy = p.vz = p.ax = p.ay = p.az = SENT
            p.m = SENT
        if masses:
            p.m = case["m"][i]
        if not sentinel:
            x = case["a"][i] if swap == "a->x" else case["x"][i]
            p.x, p.y, p.z = x
            p.vx, p.vy, p.vz = case["v"][i]
            p.ax, p.ay, p.az = case["a"][i]
    return arr


def call(name, out, inp, mass, N, n):
    f = lib()[name]
    if "jacobi" in name:
        f(out, inp, mass, N, n) if name.startswith("jacobi_to") else f(inp, out, mass, N, n)
    else:
        f(out, inp, N, n) if not name.startswith("inertial_to") else f(inp, out, N, n)


def block(arr, N, which):
    f = {"x": ("x", "y", "z"), "v": ("vx", "vy", "vz"), "a": ("ax", "ay", "az")}[which]
    return [[getattr(arr[i], k) for k in f] for i in range(N)]


def cols(blk):
    return [[row[c] for row in blk] for c in range(3)]


def gmax(blk):
    return max([abs(v) for row in blk for v in row] + [0.0])


def classify(case, ctx, sub):
    m, n, N = case["m"], case["n_active"], len(case["m"])
    nt = False
    if n < N:
        ctx.cls("testparticles")
        nt = True
    if any(x == 0.0 for x in m[1:]):
        ctx.cls("zero_mass")
        nt = True
    pos = [x for x in m if x > 0]
    if min(pos) / max(pos) < 1e-9:
        ctx.cls("ratio<1e-9")
        nt = True
    if heavy_ratio(case) > 8:
        ctx.cls("heavy_later_body")
    if nt and N >= 3:
        ctx.nontrivial()


def heavy_ratio(case):
    """max over 1 <= j <= n-2 of M / eta_j (M total active mass, eta_j = m_0+..+m_j): how much the bodies after j
    outweigh everything up to j.  The Jacobi inverse recovers eta_j as M - m_{n-1} - ... - m_{j+1}, i.e. with
    relative error ~ n*eps*M/eta_j, and uses it as a divisor for j = n-2 .. 1."""
    m, n = case["m"], case["n_active"]
    if n < 3:
        return 0.0
    M = sum(m[:n])
    eta = m[0]
    r = 0.0
    for j in range(1, n - 1):
        eta += m[j]
        r = max(r, M / eta)
    return r


def oracle(case, system):
    """-> dict with exact forward images and yardsticks for x, v, a (mp numbers)."""
    from ..oracles import c12_coords_mp as O
    Ap, Av, M = O.matrices(system, case["m"], case["n_active"])
    N = len(case["m"])
    out = {"M": M}
    yp = O.yardsticks(Ap, system, case["m"], case["n_active"], False)
    yv = yp if system in ("jacobi", "barycentric") else O.yardsticks(Av, system, case["m"], case["n_active"], True)
    for which, A, yd in (("x", Ap, yp), ("v", Av, yv), ("a", Ap, yp)):
        out[which] = {"y": O.apply(A, cols(case[which])), "fwd": yd[0], "rt": yd[1], "max": gmax(case[which])}
    return out


def cmp_block(got, exp_cols, yard, xmax, K, what, ctx, stat, **info):
    """got: N x 3 floats, exp_cols: 3 lists of N mp numbers (or floats); yard: per-particle coefficient."""
    import mpmath as mp
    N = len(got)
    for i in range(N):
        for c in range(3):
            g = got[i][c]
            e = exp_cols[c][i]
            tol = K * EPS * yard[i] * xmax
            if g != g or abs(g) == float("inf"):
                raise Violation("%s: particle %d component %d is %r" % (what, i, c, g), **info)
            err = float(abs(mp.mpf(g) - e))
            if tol > 0:
                ctx.stat_max(stat, err / tol)
            if err > tol:
                raise Violation("%s: particle %d comp %d: got %.17g, expected %s, |err| %.3g > tol %.3g"
                                % (what, i, c, g, mp.nstr(e, 20), err, tol),
                                particle=i, component=c, err=err, tol=tol, **info)


# ---------------------------------------------------------------------------------------
# sub-checks

def run_definition(case, ctx):
    """forward maps equal the mathematical definitions; slot 0 = (total active mass, COM pos, COM vel)."""
    import mpmath as mp
    N, n = len(case["m"]), case["n_active"]
    K = K_of(N)
    classify(case, ctx, "definition")
    for s in SYSTEMS:
        ctx.cls(s)
        o = oracle(case, s)
        A = make_array(case)
        B = make_array(case, sentinel=True, masses=False)
        call("inertial_to_%s_posvel" % s, B, A, A, N, n)
        # slot 0 mass
        M = o["M"]
        got = B[0].m
        if abs(mp.mpf(got) - M) > K * EPS * M:
            raise Violation("%s forward: slot 0 mass %.17g, sum of active masses %s" % (s, got, mp.nstr(M, 20)), system=s)
        cmp_block(block(B, N, "x"), o["x"]["y"], o["x"]["fwd"], o["x"]["max"], K, s + " forward positions", ctx,
                  "fwd_err/tol", system=s)
        cmp_block(block(B, N, "v"), o["v"]["y"], o["v"]["fwd"], o["v"]["max"], K, s + " forward velocities", ctx,
                  "fwd_err/tol", system=s)
        if s == "jacobi":
            for nme in ("inertial_to_jacobi_posvelacc", "inertial_to_jacobi_acc"):
                B2 = make_array(case, sentinel=True, masses=False)
                call(nme, B2, A, A, N, n)
                cmp_block(block(B2, N, "a"), o["a"]["y"], o["a"]["fwd"], o["a"]["max"], K, nme + " accelerations",
                          ctx, "fwd_err/tol", system=s)
                if nme.endswith("posvelacc"):
                    cmp_block(block(B2, N, "x"), o["x"]["y"], o["x"]["fwd"], o["x"]["max"], K, nme + " positions",
                              ctx, "fwd_err/tol", system=s)
                    cmp_block(block(B2, N, "v"), o["v"]["y"], o["v"]["fwd"], o["v"]["max"], K, nme + " velocities",
                              ctx, "fwd_err/tol", system=s)


def run_roundtrip(case, ctx):
    """inverse(forward(x)) = x for positions and velocities (and accelerations where an acc pair exists)."""
    N, n = len(case["m"]), case["n_active"]
    K = K_of(N)
    classify(case, ctx, "roundtrip")
    for s in SYSTEMS:
        ctx.cls(s)
        o = oracle(case, s)
        A = make_array(case)
        B = make_array(case, sentinel=True, masses=False)
        call("inertial_to_%s_posvel" % s, B, A, A, N, n)
        C = make_array(case, sentinel=True, masses=True)
        call("%s_to_inertial_posvel" % s, C, B, A, N, n)
        relax = 1.0
        if s == "jacobi" and ctx.finding_open(KEY_JACOBI) and heavy_ratio(case) > 8:
            # known finding: eta_{i-1} is recovered as eta_i - m_i, relative error eps*m_i/eta_{i-1}; keep asserting
            # the bound that follows from exactly that loss (linear in the ratio) so the search continues past it
            ctx.excluded(KEY_JACOBI)
            relax = n * heavy_ratio(case)
        for which in ("x", "v"):
            exp = cols(case[which])
            yard = [r * relax for r in o[which]["rt"]]
            cmp_block(block(C, N, which), exp, yard, o[which]["max"], K,
                      "%s round trip %s" % (s, "positions" if which == "x" else "velocities"), ctx,
                      "rt_err/tol" if relax == 1.0 else "rt_err/tol(relaxed)", system=s,
                      heavy_ratio=heavy_ratio(case))
        if s == "jacobi":
            B2 = make_array(case, sentinel=True, masses=False)
            call("inertial_to_jacobi_acc", B2, A, A, N, n)
            B2[0].m = B[0].m
            C2 = make_array(case, sentinel=True, masses=True)
            call("jacobi_to_inertial_acc", C2, B2, A, N, n)
            yard = [r * relax for r in o["a"]["rt"]]
            cmp_block(block(C2, N, "a"), cols(case["a"]), yard, o["a"]["max"], K, "jacobi round trip accelerations",
                      ctx, "rt_err/tol" if relax == 1.0 else "rt_err/tol(relaxed)", system=s)


def run_variants(case, ctx):
    """pos-only / posvel / acc variants agree: same inputs, same linear map."""
    N, n = len(case["m"]), case["n_active"]
    K = 2 * K_of(N)
    classify(case, ctx, "variants")
    for s in SYSTEMS:
        ctx.cls(s)
        o = oracle(case, s)
        A = make_array(case)
        B = make_array(case, sentinel=True, masses=False)
        call("inertial_to_%s_posvel" % s, B, A, A, N, n)
        C = make_array(case, sentinel=True, masses=True)
        call("%s_to_inertial_posvel" % s, C, B, A, N, n)
        # pos-only inverse against the position part of the posvel inverse
        Cp = make_array(case, sentinel=True, masses=True)
        call("%s_to_inertial_pos" % s, Cp, B, A, N, n)
        ref = block(C, N, "x")
        got = block(Cp, N, "x")
        if got == ref:
            ctx.cls("pos_bitwise_equal")
        cmp_block(got, cols(ref), o["x"]["rt"], o["x"]["max"], K, "%s inverse: pos variant vs posvel variant" % s, ctx,
                  "var_err/tol", system=s)
        if s in ("jacobi", "barycentric"):
            # acc variant of the inverse == pos variant applied to the same numbers sitting in the position slots
            Bx = make_array(case, sentinel=True, masses=False)
            for i in range(N):
                Bx[i].m = B[i].m
                Bx[i].x, Bx[i].y, Bx[i].z = case["a"][i]
                Bx[i].ax, Bx[i].ay, Bx[i].az = case["a"][i]
            Ca = make_array(case, sentinel=True, masses=True)
            Cx = make_array(case, sentinel=True, masses=True)
            call("%s_to_inertial_acc" % s, Ca, Bx, A, N, n)
            call("%s_to_inertial_pos" % s, Cx, Bx, A, N, n)
            ga, gx = block(Ca, N, "a"), block(Cx, N, "x")
            if ga == gx:
                ctx.cls("acc_bitwise_equal")
            cmp_block(ga, cols(gx), o["a"]["rt"], gmax(case["a"]), K,
                      "%s inverse: acc variant vs pos variant on the same numbers" % s, ctx, "var_err/tol", system=s)
        if s == "jacobi":
            Ax = make_array(case, swap="a->x")
            Bf = make_array(case, sentinel=True, masses=False)
            Ba = make_array(case, sentinel=True, masses=False)
            Bpva = make_array(case, sentinel=True, masses=False)
            call("inertial_to_jacobi_posvel", Bf, Ax, A, N, n)
            call("inertial_to_jacobi_acc", Ba, A, A, N, n)
            call("inertial_to_jacobi_posvelacc", Bpva, A, A, N, n)
            ga, gx, gp = block(Ba, N, "a"), block(Bf, N, "x"), block(Bpva, N, "a")
            if ga == gx == gp:
                ctx.cls("fwd_acc_bitwise_equal")
            cmp_block(ga, cols(gx), o["a"]["fwd"], o["a"]["max"], K, "jacobi forward: acc variant vs posvel on same numbers",
                      ctx, "var_err/tol", system=s)
            cmp_block(gp, cols(gx), o["a"]["fwd"], o["a"]["max"], K, "jacobi forward: posvelacc acc part vs posvel on same numbers",
                      ctx, "var_err/tol", system=s)
            cmp_block(block(Bpva, N, "x"), cols(block(B, N, "x")), o["x"]["fwd"], o["x"]["max"], K,
                      "jacobi forward: posvelacc positions vs posvel", ctx, "var_err/tol", system=s)
            cmp_block(block(Bpva, N, "v"), cols(block(B, N, "v")), o["v"]["fwd"], o["v"]["max"], K,
                      "jacobi forward: posvelacc velocities vs posvel", ctx, "var_err/tol", system=s)


# ---------------------------------------------------------------------------------------
# Jacobi entry points with a SEPARATE p_mass array (how WHFast transforms variational particles: the set being
# transformed is particles+index whose .m members are 0 or mass variations, the masses come from the real particles).
# Only the six Jacobi functions take a p_mass argument; the other systems read the masses from the arrays themselves.

@st.composite
def pmass_case(draw):
    ps = draw(particle_set(nmin=1, nmax=10))
    N = len(ps["m"])
    m0 = ps["m"][0]
    kind = draw(st.sampled_from(["zeros", "variation", "variation", "scaled"]))
    if kind == "zeros":
        sm = [0.0] * N
    elif kind == "scaled":
        f = draw(st.sampled_from([0.5, 3.0, 1e-3]))
        sm = [x * f for x in ps["m"]]
    else:
        sm = [draw(st.one_of(st.just(0.0), S.floats(-1.0, 1.0), S.floats(-1.0, 1.0))) * m0 for _ in range(N)]
    return dict(ps, set_m=sm)


def run_pmass(case, ctx):
    import mpmath as mp
    N, n = len(case["m"]), case["n_active"]
    K = K_of(N)
    classify(case, ctx, "jacobi_pmass")
    if case["set_m"] != case["m"]:
        ctx.cls("set_masses_differ")
    if all(x == 0.0 for x in case["set_m"]):
        ctx.cls("set_masses_zero")
    o = oracle(case, "jacobi")                     # linear map built from the p_mass masses

    def set_array():
        A = make_array(case)
        for i in range(N):
            A[i].m = case["set_m"][i]
        return A
    A = set_array()
    P = make_array(case, sentinel=True, masses=True)     # masses only: coordinates of p_mass must never be read
    outs = {}
    for nme in ("inertial_to_jacobi_posvel", "inertial_to_jacobi_posvelacc", "inertial_to_jacobi_acc"):
        B = make_array(case, sentinel=True, masses=False)
        call(nme, B, A, P, N, n)
        outs[nme] = B
        which = {"inertial_to_jacobi_posvel": "xv", "inertial_to_jacobi_posvelacc": "xva", "inertial_to_jacobi_acc": "a"}[nme]
        for w in which:
            cmp_block(block(B, N, w), o[w]["y"], o[w]["fwd"], o[w]["max"], K,
                      "%s with separate p_mass: %s" % (nme, {"x": "positions", "v": "velocities", "a": "accelerations"}[w]),
                      ctx, "pmass_fwd_err/tol", entry=nme)
        if "x" in which:
            M = o["M"]
            if abs(mp.mpf(B[0].m) - M) > K * EPS * M:
                raise Violation("%s with separate p_mass: slot 0 mass %.17g, sum of the active p_mass masses %s"
                                % (nme, B[0].m, mp.nstr(M, 20)), entry=nme)
    # variant agreement on identical inputs
    Bpv, Bpva, Ba = (outs[k] for k in ("inertial_to_jacobi_posvel", "inertial_to_jacobi_posvelacc", "inertial_to_jacobi_acc"))
    for w, other in (("x", Bpv), ("v", Bpv), ("a", Ba)):
        cmp_block(block(Bpva, N, w), cols(block(other, N, w)), o[w]["fwd"], o[w]["max"], 2 * K,
                  "separate p_mass: posvelacc vs %s variant (%s)" % ("acc" if w == "a" else "posvel", w), ctx, "pmass_var_err/tol")
    # inverses (posvel, pos, acc) applied to the posvelacc image and to the posvel/acc images return the original set
    relax = 1.0
    if ctx.finding_open(KEY_JACOBI) and heavy_ratio(case) > 8:
        ctx.excluded(KEY_JACOBI)
        relax = n * heavy_ratio(case)
    stat = "pmass_rt_err/tol" if relax == 1.0 else "pmass_rt_err/tol(relaxed)"
    for label, Bxv, Bacc in (("posvelacc", Bpva, Bpva), ("posvel/acc", Bpv, Ba)):
        C = make_array(case, sentinel=True, masses=False)
        call("jacobi_to_inertial_posvel", C, Bxv, P, N, n)
        for w in ("x", "v"):
            cmp_block(block(C, N, w), cols(case[w]), [r * relax for r in o[w]["rt"]], o[w]["max"], K,
                      "separate p_mass: jacobi_to_inertial_posvel(%s image) %s" % (label, w), ctx, stat, heavy_ratio=heavy_ratio(case))
        Cp = make_array(case, sentinel=True, masses=False)
        call("jacobi_to_inertial_pos", Cp, Bxv, P, N, n)
        cmp_block(block(Cp, N, "x"), cols(case["x"]), [r * relax for r in o["x"]["rt"]], o["x"]["max"], K,
                  "separate p_mass: jacobi_to_inertial_pos(%s image)" % label, ctx, stat, heavy_ratio=heavy_ratio(case))
        Bq = Bacc
        if Bacc is Ba:
            Bq = make_array(case, sentinel=True, masses=False)      # acc variant writes no slot-0 mass: supply it
            for i in range(N):
                Bq[i].ax, Bq[i].ay, Bq[i].az = Ba[i].ax, Ba[i].ay, Ba[i].az
            Bq[0].m = Bpv[0].m
        Ca = make_array(case, sentinel=True, masses=False)
        call("jacobi_to_inertial_acc", Ca, Bq, P, N, n)
        cmp_block(block(Ca, N, "a"), cols(case["a"]), [r * relax for r in o["a"]["rt"]], o["a"]["max"], K,
                  "separate p_mass: jacobi_to_inertial_acc(%s image)" % label, ctx, stat, heavy_ratio=heavy_ratio(case))


# ---------------------------------------------------------------------------------------
# hybrid integrators' heliocentric shifts and the public frame changes (operate on a Simulation)

hybrid_case = st.fixed_dictionaries({
    "set": particle_set(nmin=1, nmax=10, heavy=True),
    "which": st.sampled_from(["mercurius", "trace"]),
    "tp_type": st.sampled_from([0, 0, 1]),
    "use_minus1": st.booleans(),
})


def build_sim(case):
    import rebound
    ps = case["set"]
    N = len(ps["m"])
    sim = rebound.Simulation()
    for i in range(N):
        sim.add(m=ps["m"][i], x=ps["x"][i][0], y=ps["x"][i][1], z=ps["x"][i][2],
                vx=ps["v"][i][0], vy=ps["v"][i][1], vz=ps["v"][i][2])
    n = ps["n_active"]
    if n == N and case.get("use_minus1"):
        sim.N_active = -1
    else:
        sim.N_active = n
    sim.testparticle_type = case.get("tp_type", 0)
    return sim


def sim_block(sim, which):
    f = {"x": ("x", "y", "z"), "v": ("vx", "vy", "vz")}[which]
    ps = sim.particles
    return [[getattr(ps[i], k) for k in f] for i in range(sim.N)]


def run_hybrid(case, ctx):
    import mpmath as mp
    from rebound import clibrebound as L
    from ..oracles import c12_coords_mp as O
    ps = dict(case["set"])
    N = len(ps["m"])
    n_eff = N if case["tp_type"] == 1 else ps["n_active"]
    eff = dict(ps, n_active=n_eff)
    classify(eff, ctx, "hybrid")
    ctx.cls(case["which"])
    ctx.cls("tp_type%d" % case["tp_type"])
    K = K_of(N)
    sim = build_sim(case)
    w = case["which"]
    fwd = getattr(L, "reb_integrator_%s_inertial_to_dh" % w)
    inv = getattr(L, "reb_integrator_%s_dh_to_inertial" % w)
    fwd.restype = inv.restype = None
    o = oracle(eff, "democraticheliocentric")
    fwd(ctypes.byref(sim))
    ri = getattr(sim, "ri_" + w)
    com_p, com_v = ri._com_pos, ri._com_vel
    gx, gv = sim_block(sim, "x"), sim_block(sim, "v")
    # definition: slot 0 -> stored COM; particle 0 itself sits at the origin with barycentric velocity
    ex = [list(c) for c in o["x"]["y"]]
    ev = [list(c) for c in o["v"]["y"]]
    comx = [ex[c][0] for c in range(3)]
    comv = [ev[c][0] for c in range(3)]
    cmp_block([[com_p.x, com_p.y, com_p.z]], [[comx[c]] for c in range(3)], [o["x"]["fwd"][0]], o["x"]["max"], K,
              w + " inertial_to_dh stored com_pos", ctx, "fwd_err/tol")
    cmp_block([[com_v.x, com_v.y, com_v.z]], [[comv[c]] for c in range(3)], [o["v"]["fwd"][0]], o["v"]["max"], K,
              w + " inertial_to_dh stored com_vel", ctx, "fwd_err/tol")
    for c in range(3):
        ex[c][0] = mp.mpf(0)
        ev[c][0] = mp.mpf(ps["v"][0][c]) - comv[c]
    yv = list(o["v"]["fwd"])
    yv[0] = 2.0
    cmp_block(gx, ex, o["x"]["fwd"], o["x"]["max"], K, w + " inertial_to_dh positions", ctx, "fwd_err/tol")
    cmp_block(gv, ev, yv, o["v"]["max"], K, w + " inertial_to_dh velocities", ctx, "fwd_err/tol")
    inv(ctypes.byref(sim))
    for which in ("x", "v"):
        cmp_block(sim_block(sim, which), cols(ps[which]), o[which]["rt"], o[which]["max"], K,
                  "%s dh_to_inertial(inertial_to_dh) %s" % (w, which), ctx, "rt_err/tol")


frames_case = st.fixed_dictionaries({
    "set": particle_set(nmin=1, nmax=10, heavy=True),
    "op": st.sampled_from(["hel", "com"]),
})


def run_frames(case, ctx):
    """move_to_hel: particle 0 becomes the origin; move_to_com: the COM of all particles becomes the origin;
    both are rigid shifts (same vector subtracted from every particle)."""
    import mpmath as mp
    mp.mp.dps = 60
    ps = case["set"]
    N = len(ps["m"])
    ctx.cls(case["op"])
    classify(dict(ps, n_active=N), ctx, "frames")
    K = K_of(N)
    sim = build_sim({"set": dict(ps, n_active=N), "use_minus1": True})
    if case["op"] == "hel":
        sim.move_to_hel()
        shift = {"x": [mp.mpf(v) for v in ps["x"][0]], "v": [mp.mpf(v) for v in ps["v"][0]]}
        yard = [2.0] * N
    else:
        sim.move_to_com()
        M = mp.fsum(mp.mpf(m) for m in ps["m"])
        shift = {}
        for which in ("x", "v"):
            shift[which] = [mp.fsum(mp.mpf(ps["m"][i]) * mp.mpf(ps[which][i][c]) for i in range(N)) / M for c in range(3)]
        yard = [2.0] * N
    for which in ("x", "v"):
        exp = [[mp.mpf(ps[which][i][c]) - shift[which][c] for i in range(N)] for c in range(3)]
        cmp_block(sim_block(sim, which), exp, yard, gmax(ps[which]), K, "move_to_%s %s" % (case["op"], which), ctx,
                  "fwd_err/tol")


def subs(tier):
    return [
        Sub("definition", run_definition, strategy=particle_set(), quick=1600, thorough=24000, shards_quick=8, shards_thorough=16),
        Sub("roundtrip", run_roundtrip, strategy=particle_set(), quick=1600, thorough=24000, shards_quick=8, shards_thorough=16),
        Sub("variants", run_variants, strategy=particle_set(), quick=1200, thorough=16000, shards_quick=8, shards_thorough=16),
        Sub("jacobi_pmass", run_pmass, strategy=pmass_case(), quick=640, thorough=12000, shards_quick=8, shards_thorough=16),
        Sub("hybrid_dh", run_hybrid, strategy=hybrid_case, quick=1600, thorough=24000, shards_quick=8, shards_thorough=16),
        Sub("frames", run_frames, strategy=frames_case, quick=800, thorough=12000, shards_quick=4, shards_thorough=8),
    ]
