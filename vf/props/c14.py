"""C14 - particle bookkeeping stays consistent under any add/remove/hash history.

One op language, three interpreters:
  * `c_api`   : the C functions through ctypes (reb_simulation_add / _remove_particle / _remove_particle_by_hash /
                _particle_by_hash / _remove_all_particles) against a Python list model;
  * `py_api`  : the Python container (sim.add, sim.remove, sim.particles[i] / ["name"] / slices / iteration,
                del sim.particles) against the same model;
  * `asan`    : the same histories encoded as bytes and replayed by vf/chelpers/c14_driver.c (own C array model)
                linked against the ASan+UBSan build; `fuzz` is the libFuzzer campaign over that byte language.
"""
import glob
import hashlib
import math
import os
import struct
import subprocess

from hypothesis import strategies as st

from ..core import Sub, Violation

PROPERTY = "C14"
LEVEL = "exploration"
RULE = ("Generated histories (lists of add[1-4 or 60-187 particles; zero / pooled-duplicate / unique / named hashes], "
        "remove by index [absolute or from the end, in and out of range, sorted or not], remove by hash [present/absent], "
        "set hash, lookup, look-up-everything, remove all, set N_active, tree update / MERCURIUS step) in three variants "
        "(plain, box+tree gravity, integrator mercurius), executed through the C API, through the Python container, and "
        "as byte strings by a C driver on the ASan+UBSan build (plus a libFuzzer campaign over the byte language). "
        "Oracle: a list model of (tag, hash) + N_active; tags are unique and travel in the particle radius.  "
        "Non-trivial = the history contains a lookup after a mutation that followed an earlier lookup (stale cached table), "
        "or crosses a storage growth boundary (128/256/512), or issues an invalid request; distinct by case hash.  "
        "For `fuzz` one case is one campaign; its executions are reported in stats, not in evaluations.")
ASSUMPTIONS = [
    "state observed through reb_simulation_save_to_stream parsed by the independent format reader (N, N_active, particle records, ri_mercurius.dcrit)",
    "N_active rule: decremented iff an order-preserving removal hits an index < N_active; unchanged by add; -1 after remove-all; "
    "after an unsorted removal, a tree update or the removal of the last particle the value is recorded, not asserted",
    "with a tree, unsorted removal flags the particle (y=NaN) and the next reb_simulation_update_tree drops it; order-preserving removal is refused",
    "MERCURIUS forces order-preserving removal; every surviving particle keeps its critical radius (dcrit)",
    "a name hashes to MurmurHash3_x86_32(name, seed 1983) in C and in Python (values are persisted in archives)",
    "lookup among duplicates may return any particle carrying the hash",
    "clang ASan/UBSan reports are faithful; libFuzzer (clang 14) as campaign engine",
]
_CLS = ["variant/plain", "variant/tree", "variant/mercurius", "invalid_index", "invalid_hash", "growth128", "growth256",
        "growth512", "stale_lookup", "lookup_dup", "lookup_zero", "lookup_absent", "rm_sorted", "rm_unsorted",
        "rm_by_hash", "rm_last_particle", "n_active_dec", "tree_flag", "tree_update_removed", "tree_sorted_refused",
        "dcrit_shift", "dcrit_short", "rm_all", "invalid_add_outside"]
CLASSES = ["c_api/" + c for c in _CLS] + ["py_api/" + c for c in _CLS] + ["py_api/named", "py_api/held_access",
                                                                          "py_api/storage_full", "py_api/held_after_realloc"]

POOL = [1, 2, 0xFFFFFFFF, 0x80000000, 0x7FFFFFFF, 12345, 0xDEADBEEF, 3]
NAMES = ["star", "planet1", "planet2", "a", "", "earth-moon barycentre", "x" * 37, "Zz9_"]
TAGSCALE = 2.0 ** 40
PREC = struct.Struct("<12d8xI20x")      # reb_particle record of docs/binaryformat.md: 12 doubles, c*, hash, pad, ap*, sim*
VARIANT_NAMES = ["plain", "tree", "mercurius"]


def murmur3_32(data, seed):
    """MurmurHash3_x86_32, written from the reference description (independent of src/tools.c)."""
    c1, c2 = 0xcc9e2d51, 0x1b873593
    h = seed & 0xFFFFFFFF
    n = len(data)
    nb = n // 4
    for i in range(nb):
        k = int.from_bytes(data[4 * i:4 * i + 4], "little")
        k = (k * c1) & 0xFFFFFFFF
        k = ((k << 15) | (k >> 17)) & 0xFFFFFFFF
        k = (k * c2) & 0xFFFFFFFF
        h ^= k
        h = ((h << 13) | (h >> 19)) & 0xFFFFFFFF
        h = (h * 5 + 0xe6546b64) & 0xFFFFFFFF
    tail = data[4 * nb:]
    k = 0
    if len(tail) >= 3:
        k ^= tail[2] << 16
    if len(tail) >= 2:
        k ^= tail[1] << 8
    if len(tail) >= 1:
        k ^= tail[0]
        k = (k * c1) & 0xFFFFFFFF
        k = ((k << 15) | (k >> 17)) & 0xFFFFFFFF
        k = (k * c2) & 0xFFFFFFFF
        h ^= k
    h ^= n
    h ^= h >> 16
    h = (h * 0x85ebca6b) & 0xFFFFFFFF
    h ^= h >> 13
    h = (h * 0xc2b2ae35) & 0xFFFFFFFF
    h ^= h >> 16
    return h


def add_count(n):
    return n % 4 + 1 if n < 128 else 60 + (n - 128)


def sel_hash(hk, hv, owntag=None):
    if hk == 0:
        return 0
    if hk == 1:
        return POOL[hv % 8]
    if hk == 2:
        return 0x1000 + (owntag if owntag is not None else hv % 1024)
    return murmur3_32(NAMES[hv % len(NAMES)].encode("ascii"), 1983)


def make_particle(variant, tag):
    t = float(tag)
    p = {"x": 0.0, "y": 0.0, "z": 0.0, "vx": 0.0, "vy": 0.0, "vz": 0.0}
    if variant == "mercurius":
        if tag == 0:
            p["m"] = 1.0
        else:
            a, ph = 1.0 + 0.37 * t, 2.399963229728653 * t
            v = math.sqrt(1.0 / a)
            p.update(m=1e-7 * (1 + tag % 5), x=a * math.cos(ph), y=a * math.sin(ph), z=0.001 * (tag % 7),
                     vx=-v * math.sin(ph), vy=v * math.cos(ph))
    else:
        p.update(m=1.0 + tag % 3, x=(math.fmod(t * 0.6180339887498949, 1.0) - 0.5) * 90.0,
                 y=(math.fmod(t * 0.7548776662466927, 1.0) - 0.5) * 90.0,
                 z=(math.fmod(t * 0.5698402909980532, 1.0) - 0.5) * 90.0, vx=t, vy=-t, vz=0.5 * t)
    p["r"] = (t + 1.0) / TAGSCALE
    return p


# ---------------------------------------------------------------------------------------
# strategies

def _hsel(named):
    # (kind, value): zero / pooled (value % 8 -> duplicates arise) / unique-by-tag (small tags: usually present) / named
    kinds = [0, 1, 1, 1, 2, 2, 2] + ([3, 3, 3] if named else [])
    return st.tuples(st.sampled_from(kinds), st.one_of(st.integers(0, 9), st.integers(0, 9), st.integers(0, 1023)))


def op_strategy(named, py):
    hs = _hsel(named)
    small_n = st.integers(0, 127)
    big_n = st.integers(128, 255)
    k8 = st.one_of(st.integers(-2, 6), st.integers(-2, 6), st.integers(-128, 127))
    ops = [
        (16, st.tuples(hs, small_n).map(lambda t: ["add", t[0][0], t[0][1], t[1]])),
        (1, st.tuples(hs, big_n).map(lambda t: ["add", t[0][0], t[0][1], t[1]])),
        (16, st.tuples(st.integers(0, 1), k8, st.integers(0, 1)).map(lambda t: ["rm_i", t[0], t[1], t[2]])),
        (12, st.tuples(hs, st.integers(0, 1)).map(lambda t: ["rm_h", t[0][0], t[0][1], t[1]])),
        (8, st.tuples(st.integers(0, 255), hs).map(lambda t: ["set_h", t[0], t[1][0], t[1][1]])),
        (16, hs.map(lambda t: ["look", t[0], t[1]])),
        (8, st.integers(0, 255).map(lambda k: ["n_active", k])),
        (12, st.just(["aux"])),
        (6, st.just(["look_all"])),
        (5, st.tuples(st.integers(0, 255), st.integers(0, 3)).map(lambda t: ["add_out", t[0], t[1]])),
    ]
    if py:
        ops += [
            (6, k8.map(lambda k: ["py_get", k])),
            (4, st.tuples(st.one_of(st.none(), st.integers(-6, 12)), st.one_of(st.none(), st.integers(-6, 300)),
                          st.sampled_from([None, 1, 2, -1, 3])).map(lambda t: ["py_slice", t[0], t[1], t[2]])),
            (2, st.just(["py_iter"])),
            (4, st.tuples(st.integers(0, 255), hs).map(lambda t: ["py_set", t[0], t[1][0], t[1][1]])),
            (8, st.just(["py_held"])),
        ]
    # weighted choice (st.one_of drops repeated strategies, so the weights go through an index)
    idx = []
    for i, (w, _) in enumerate(ops):
        idx += [i] * w
    return st.sampled_from(idx).flatmap(lambda i: ops[i][1])


def history_strategy(named, py, variants=("plain", "tree", "mercurius")):
    hs = _hsel(named)
    first = st.tuples(hs, st.integers(0, 127)).map(lambda t: [["add", t[0][0], t[0][1], t[1]]])
    grow = st.lists(st.tuples(st.sampled_from([0, 1, 2]), st.integers(0, 40), st.integers(128, 255))
                    .map(lambda t: ["add", t[0], t[1], t[2]]), min_size=1, max_size=5)
    body = st.lists(op_strategy(named, py), min_size=4, max_size=40)
    # a history: [optional first add | growth prefix] + body, where "remove all" is spliced in rarely
    def splice(t):
        pre, ops, ra, pos = t
        ops = list(ops)
        if ra:
            ops.insert(pos % (len(ops) + 1), ["rm_all"])
        return pre + ops
    prefixes = [first, grow, st.just([])]
    weights = [0, 0, 0, 0, 0, 1, 2]
    if py:
        # skeletons for a held container: fill the storage exactly (next add reallocates), use the container, grow by
        # a few, come back to the same count without using it, use it again; and remove-all + re-add the same count
        def cross(t):
            j, (hk, hv), n, rm, mid = t
            cnt = add_count(n)
            out = [["to_boundary", j, hk % 3, hv], ["py_held"], ["add", hk % 3, hv, n]]
            out += [["rm_i", r[0], r[1], r[2]] for r in rm[:cnt]] + [["rm_i", 1, 0, 1]] * max(0, cnt - len(rm))
            return out + mid + [["py_held"]]
        rm1 = st.tuples(st.integers(0, 1), st.integers(0, 5), st.integers(0, 1))
        skel_cross = st.tuples(st.sampled_from([0, 0, 0, 1, 1, 2]), hs, st.integers(0, 3), st.lists(rm1, min_size=0, max_size=4),
                               st.sampled_from([[], [], [["aux"]], [["look_all"]]])).map(cross)
        skel_rmall = st.tuples(hs, st.sampled_from([0, 1, 2, 3, 130, 200])).map(
            lambda t: [["add", t[0][0] % 3, t[0][1], t[1]], ["py_held"], ["rm_all"], ["add", t[0][0] % 3, t[0][1] + 1, t[1]], ["py_held"]])
        prefixes += [skel_cross, skel_rmall]
        weights += [3, 3, 4]
    return st.fixed_dictionaries({
        "variant": st.sampled_from(list(variants)),
        "flags": st.integers(0, 1),
        "ops": st.tuples(st.sampled_from(weights).flatmap(lambda i: prefixes[i]), body, st.sampled_from([0, 0, 0, 1]),
                         st.integers(0, 40)).map(splice),
    })


# ---------------------------------------------------------------------------------------
# byte encoding for the C driver (only the ops of the common language)

OPC = {"add": 0, "rm_i": 1, "rm_h": 2, "set_h": 3, "look": 4, "rm_all": 5, "n_active": 6, "aux": 7, "look_all": 8, "add_out": 9}


def encode(case):
    b = bytearray([VARIANT_NAMES.index(case["variant"]), case.get("flags", 0) & 255])
    for o in case["ops"]:
        k = o[0]
        if k not in OPC:
            continue
        b.append(OPC[k])
        if k == "add":
            b += bytes([o[1] % 3, o[2] & 255, (o[2] >> 8) & 255, o[3] & 255])
        elif k == "rm_i":
            b += bytes([o[1] & 1, o[2] & 255, o[3] & 1])
        elif k == "rm_h":
            b += bytes([o[1] % 3, o[2] & 255, (o[2] >> 8) & 255, o[3] & 1])
        elif k == "set_h":
            b += bytes([o[1] & 255, o[2] % 3, o[3] & 255, (o[3] >> 8) & 255])
        elif k == "look":
            b += bytes([o[1] % 3, o[2] & 255, (o[2] >> 8) & 255])
        elif k == "n_active":
            b.append(o[1] & 255)
        elif k == "add_out":
            b += bytes([o[1] & 255, o[2] & 3])
    return bytes(b)


def decode(raw):
    """Bytes -> case (for readable reports of libFuzzer artifacts)."""
    if len(raw) < 2:
        return {"variant": "plain", "flags": 0, "ops": []}
    case = {"variant": VARIANT_NAMES[raw[0] % 3], "flags": raw[1], "ops": []}
    pos, n = 2, len(raw)
    nargs = {0: 4, 1: 3, 2: 4, 3: 4, 4: 3, 5: 0, 6: 1, 7: 0, 8: 0, 9: 2}
    names = {v: k for k, v in OPC.items()}
    while pos < n:
        op = raw[pos] % 10
        pos += 1
        if pos + nargs[op] > n:
            break
        a = raw[pos:pos + nargs[op]]
        pos += nargs[op]
        if op == 0:
            case["ops"].append(["add", a[0] % 3, a[1] | (a[2] << 8), a[3]])
        elif op == 1:
            case["ops"].append(["rm_i", a[0] & 1, a[1] - 256 if a[1] > 127 else a[1], a[2] & 1])
        elif op == 2:
            case["ops"].append(["rm_h", a[0] % 3, a[1] | (a[2] << 8), a[3] & 1])
        elif op == 3:
            case["ops"].append(["set_h", a[0], a[1] % 3, a[2] | (a[3] << 8)])
        elif op == 4:
            case["ops"].append(["look", a[0] % 3, a[1] | (a[2] << 8)])
        elif op == 6:
            case["ops"].append(["n_active", a[0]])
        elif op == 9:
            case["ops"].append(["add_out", a[0], a[1] % 4])
        else:
            case["ops"].append([names[op]])
    return case


# ---------------------------------------------------------------------------------------
# Python-side interpreter (model + two front ends)

class Entry:
    __slots__ = ("tag", "hash", "flagged", "rec")

    def __init__(self, tag, h, rec):
        self.tag, self.hash, self.flagged, self.rec = tag, h, False, rec


_ids = None


def field_ids():
    global _ids
    if _ids is None:
        from .. import rb
        _ids = {v: k for k, v in rb.field_names().items()}
    return _ids


def read_state(sim):
    """(field map, N, N_active, [(x..vz, ax..az, m, r, last_collision, hash)], dcrit list) via the archive stream."""
    from .. import rb
    ids = field_ids()
    m = rb.smap(sim)
    N = struct.unpack("<I", m[ids["N"]])[0] if ids["N"] in m else 0
    na = struct.unpack("<i", m[ids["N_active"]])[0] if ids["N_active"] in m else -1
    raw = m.get(ids["particles"], b"")
    if len(raw) != 128 * N:
        raise Violation("serialised particle array has %d bytes for N=%d" % (len(raw), N))
    recs = list(PREC.iter_unpack(raw))
    d = m.get(ids["ri_mercurius.dcrit"], b"")
    dcrit = list(struct.unpack("<%dd" % (len(d) // 8), d)) if d else []
    return m, N, na, recs, dcrit


def tag_of(rec, ntags):
    t = rec[10] * TAGSCALE - 1.0
    if not (t >= 0.0) or t >= ntags or t != math.floor(t):
        return None
    return int(t)


def bits(x):
    return struct.pack("<d", x)


class Runner:
    def __init__(self, case, ctx, front):
        import ctypes
        import rebound
        self.ct = ctypes
        self.rebound = rebound
        self.L = rebound.clibrebound
        self.ctx = ctx
        self.front = front
        self.variant = case["variant"]
        self.P = []
        self.ntags = 0
        self.na = -1
        self.na_known = True
        self.steps = 0
        self.lookup_done = False
        self.mut_since_lookup = False
        self.cls = set()
        self.opno = 0
        self.op = None
        sim = rebound.Simulation()
        if self.variant == "tree":
            nr = 2 if case.get("flags", 0) & 1 else 1
            sim.configure_box(100.0 / nr, nr, nr, nr)
            sim.gravity = "tree"
            sim.integrator = "leapfrog"
        elif self.variant == "mercurius":
            sim.integrator = "mercurius"
            sim.dt = 1e-2
        self.sim = sim
        self.cls.add("variant/" + self.variant)
        # long-lived container objects (a user keeps `ps = sim.particles`): A is used after every operation, B only at
        # the generated "py_held" points, so that reallocations and count round trips happen between two uses of B
        self.psA = sim.particles if front == "py" else None
        self.psB = sim.particles if front == "py" else None
        self.blockers = []
        self.wt = 0

    # ----- helpers
    def fail(self, msg, **kw):
        raise Violation("%s/%s op#%d %s: %s" % (self.front, self.variant, self.opno, self.op, msg),
                        model=[(e.tag, e.hash, e.flagged) for e in self.P][:40], model_N_active=self.na, **kw)

    def messages(self):
        """Drain stored messages; returns list of error texts (warnings dropped)."""
        errs = []
        buf = self.ct.create_string_buffer(2048)
        self.L.reb_simulation_get_next_message.restype = self.ct.c_int
        while self.L.reb_simulation_get_next_message(self.ct.byref(self.sim), buf):
            s = buf.value.decode("ascii", "replace")
            if s[:1] == "e":
                errs.append(s[1:])
        return errs

    def has(self, h):
        return any(e.hash == h for e in self.P)

    def skip_null_table(self):
        """Under `--sanitize` the library is built with UBSan's nonnull-attribute check and aborts on qsort(NULL, 0, ..)
        when a hash is looked up before any lookup table was ever allocated (empty simulation, first lookup).  No
        memory is touched; it is recorded as finding C14-qsort-null-empty-table and stepped over when that is open."""
        if self.P:
            self.table_alloc = True
            return False
        if getattr(self, "table_alloc", False) or os.environ.get("VERIF_VARIANT_OVERRIDE") != "asan":
            return False
        if self.ctx.finding_open("C14-qsort-null-empty-table"):
            self.ctx.excluded("C14-qsort-null-empty-table")
            return True
        return False

    def verify(self, ordered, state=None):
        m, N, na, recs, dcrit = state or read_state(self.sim)
        if N != len(self.P):
            self.fail("N=%d, model has %d particles" % (N, len(self.P)))
        if self.sim.N != N:
            self.fail("sim.N=%d but serialised N=%d" % (self.sim.N, N))
        by_tag = {e.tag: e for e in self.P}
        seen = set()
        new_order = []
        for i, rec in enumerate(recs):
            t = tag_of(rec, self.ntags)
            if t is None:
                self.fail("particle %d carries no valid tag (r=%r)" % (i, rec[10]))
            if t not in by_tag:
                self.fail("particle %d has tag %d which the model removed" % (i, t))
            if t in seen:
                self.fail("tag %d appears twice" % t)
            seen.add(t)
            e = by_tag[t]
            if ordered and self.P[i].tag != t:
                self.fail("particle %d has tag %d, model expects tag %d (order not preserved)" % (i, t, self.P[i].tag),
                          actual=[tag_of(r, self.ntags) for r in recs][:40])
            if rec[12] != e.hash:
                self.fail("particle %d (tag %d) hash %d, model %d" % (i, t, rec[12], e.hash))
            if self.variant != "mercurius":
                q = e.rec
                for j, nm in ((0, "x"), (2, "z"), (3, "vx"), (4, "vy"), (5, "vz"), (9, "m")):
                    if bits(rec[j]) != bits(q[nm]):
                        self.fail("particle %d (tag %d) %s changed: %r != %r" % (i, t, nm, rec[j], q[nm]))
                if (not math.isnan(rec[1])) if e.flagged else bits(rec[1]) != bits(q["y"]):
                    self.fail("particle %d (tag %d) y=%r (flagged=%s)" % (i, t, rec[1], e.flagged))
            elif bits(rec[9]) != bits(e.rec["m"]):
                self.fail("particle %d (tag %d) mass changed" % (i, t))
            new_order.append(e)
        self.P = new_order
        if self.na_known:
            if na != self.na:
                self.fail("N_active=%d, model %d" % (na, self.na))
        else:
            self.na, self.na_known = na, True
        return m, N, na, recs, dcrit

    def mutated(self):
        if self.lookup_done:
            self.mut_since_lookup = True

    # ----- front-end primitives; each returns (ok, raised_or_ret)
    def fe_add(self, rec, hk, hv, h):
        sim, rebound, ct = self.sim, self.rebound, self.ct
        if self.front == "c":
            p = rebound.Particle(m=rec["m"], x=rec["x"], y=rec["y"], z=rec["z"], vx=rec["vx"], vy=rec["vy"], vz=rec["vz"],
                                 r=rec["r"], hash=ct.c_uint32(h))
            self.L.reb_simulation_add(ct.byref(sim), p)
            errs = self.messages()
            if errs:
                self.fail("valid add produced an error: %s" % errs[0])
        else:
            if hk == 3:
                hv_ = NAMES[hv % len(NAMES)]
            else:
                hv_ = h if (h + self.ntags) % 2 else ct.c_uint32(h)
            try:
                sim.add(m=rec["m"], x=rec["x"], y=rec["y"], z=rec["z"], vx=rec["vx"], vy=rec["vy"], vz=rec["vz"],
                        r=rec["r"], hash=hv_)
            except RuntimeError as e:
                self.fail("valid add raised: %s" % e)

    def fe_remove(self, index, h, hk, hv, ks):
        """Returns True if the front end reported success (C: return value 1; Python: no exception)."""
        sim, ct = self.sim, self.ct
        if self.front == "c":
            if h is None:
                ret = self.L.reb_simulation_remove_particle(ct.byref(sim), ct.c_int(index), ct.c_int(ks))
            else:
                ret = self.L.reb_simulation_remove_particle_by_hash(ct.byref(sim), ct.c_uint32(h), ct.c_int(ks))
            errs = self.messages()
            if ret not in (0, 1):
                self.fail("remove returned %r" % ret)
            if ret == 0 and not errs:
                self.fail("remove returned 0 without an error message")
            if ret == 1 and errs:
                self.fail("remove returned 1 with an error message: %s" % errs[0])
            return ret == 1
        try:
            if h is None:
                sim.remove(index=index, keep_sorted=bool(ks))
            elif hk == 3:
                sim.remove(hash=NAMES[hv % len(NAMES)], keep_sorted=bool(ks))
            elif (h + index) % 2:
                sim.remove(hash=h, keep_sorted=bool(ks))
            else:
                sim.remove(hash=ct.c_uint32(h), keep_sorted=bool(ks))
        except RuntimeError:
            self.messages()
            return False
        return True

    def fe_lookup(self, h, hk, hv):
        """Index of the returned particle or None."""
        sim, ct = self.sim, self.ct
        base = ct.addressof(sim._particles.contents) if sim.N else 0
        if self.front == "c":
            f = self.L.reb_simulation_particle_by_hash
            f.restype = ct.c_void_p
            a = f(ct.byref(sim), ct.c_uint32(h))
            if not a:
                return None
            addr = a
        else:
            key = NAMES[hv % len(NAMES)] if hk == 3 else ct.c_uint32(h)
            try:
                p = sim.particles[key]
            except self.rebound.ParticleNotFound:
                return None
            addr = ct.addressof(p)
            if p.hash.value != h:
                self.fail("sim.particles[%r] returned a particle with hash %d, wanted %d" % (key, p.hash.value, h))
        off = addr - base
        if not sim.N or off < 0 or off % 128 or off // 128 >= sim.N:
            self.fail("lookup(%d) returned an address outside particles[0..N) (offset %d, N=%d)" % (h, off, sim.N))
        return off // 128

    # ----- ops
    def do_add(self, hk, hv, n):
        cnt = add_count(n)
        for j in range(cnt):
            if self.ntags >= 2900:
                break
            tag = self.ntags
            self.ntags += 1
            h = sel_hash(hk, hv + j, tag)
            rec = make_particle(self.variant, tag)
            before = len(self.P)
            self.P.append(Entry(tag, h, rec))
            self.fe_add(rec, hk, hv + j, h)
            for g in (128, 256, 512):
                if before == g:
                    self.cls.add("growth%d" % g)
            if hk == 3:
                self.cls.add("named")
        self.mutated()
        self.verify(True)

    def do_remove(self, index, h, hk, hv, ks):
        from ..oracles import sa_format
        from .. import rb
        if h is not None and self.skip_null_table():
            return
        st0 = read_state(self.sim)
        valid = self.has(h) if h is not None else 0 <= index < len(self.P)
        ok = self.fe_remove(index, h, hk, hv, ks)
        sorted_ = bool(ks) or self.variant == "mercurius"
        if h is not None:
            self.lookup_done = True     # removal by hash consults (and may rebuild) the table
            self.cls.add("rm_by_hash")
        refused = self.variant == "tree" and sorted_
        if refused and valid and len(self.P) == 1 and ok:
            refused = False      # removing the only particle: order is vacuous, a clean removal is acceptable too
        if not valid or refused:
            what = "invalid request" if not valid else "order-preserving removal with a tree"
            if ok:
                self.fail("%s reported success" % what)
            st1 = read_state(self.sim)
            if st1[0] != st0[0]:
                self.fail("%s failed but changed the simulation" % what,
                          diff=sa_format.map_diff(st0[0], st1[0], rb.field_names())[:6])
            self.verify(True, st1)
            self.cls.add(("invalid_hash" if h is not None else "invalid_index") if not valid else "tree_sorted_refused")
            return
        if not ok:
            self.fail("valid removal (index %r hash %r sorted %d) failed" % (index, h, ks))
        m, N, na, recs, dcrit = read_state(self.sim)
        if self.variant == "tree" and not (len(self.P) == 1 and N == 0):
            # flagged, dropped at next tree update
            if h is None:
                k = index
            else:
                k = [i for i, e in enumerate(self.P) if e.hash == h and not e.flagged and i < N and math.isnan(recs[i][1])]
                k = k or [i for i, e in enumerate(self.P) if e.hash == h and e.flagged]
                if not k:
                    self.fail("remove by hash %d with a tree flagged no particle carrying that hash" % h)
                k = k[0]
            self.P[k].flagged = True
            self.cls.add("tree_flag")
            self.verify(True, (m, N, na, recs, dcrit))
            return
        tags = {tag_of(r, self.ntags) for r in recs}
        gone = [i for i, e in enumerate(self.P) if e.tag not in tags]
        if N != len(self.P) - 1 or len(gone) != 1:
            self.fail("removal: N=%d (model had %d), %d particles vanished" % (N, len(self.P), len(gone)))
        k = gone[0]
        if h is not None and self.P[k].hash != h:
            self.fail("remove by hash %d removed a particle with hash %d" % (h, self.P[k].hash))
        if h is None and k != index:
            self.fail("remove index %d removed the particle at index %d" % (index, k))
        del self.P[k]
        self.mutated()
        if not self.P:
            self.na_known = False
            self.cls.add("rm_last_particle")
        elif sorted_:
            if self.na >= 0 and k < self.na:
                self.na -= 1
                self.cls.add("n_active_dec")
        else:
            self.na_known = False
        self.cls.add("rm_sorted" if sorted_ else "rm_unsorted")
        self.verify(sorted_, (m, N, na, recs, dcrit))
        if sorted_ and self.variant == "mercurius" and st0[4]:
            d0, L = st0[4], len(st0[4])
            if len(dcrit) != L:
                self.fail("dcrit length changed by a removal: %d -> %d" % (L, len(dcrit)))
            for j in range(min(L, st0[1])):
                if j == k:
                    continue
                nj = j - 1 if j > k else j
                if bits(dcrit[nj]) != bits(d0[j]):
                    self.fail("dcrit of the surviving particle at old index %d (new %d) is %r, was %r" % (j, nj, dcrit[nj], d0[j]))
            self.cls.add("dcrit_shift")
            if L < st0[1]:
                self.cls.add("dcrit_short")

    def do_lookup(self, hk, hv, h=None):
        h = sel_hash(hk, hv) if h is None else h
        if self.skip_null_table():
            return
        idx = self.fe_lookup(h, hk, hv)
        has = self.has(h)
        if has and idx is None:
            self.fail("lookup(%d): not found, but a particle carries that hash" % h)
        if not has and idx is not None:
            self.fail("lookup(%d): returned particle %d, but no particle carries that hash" % (h, idx))
        if idx is not None and self.P[idx].hash != h:
            self.fail("lookup(%d) returned particle %d whose hash is %d" % (h, idx, self.P[idx].hash))
        if self.mut_since_lookup:
            self.cls.add("stale_lookup")
            self.mut_since_lookup = False
        self.lookup_done = True
        if not has:
            self.cls.add("lookup_absent")
        elif h == 0:
            self.cls.add("lookup_zero")
        elif sum(1 for e in self.P if e.hash == h) > 1:
            self.cls.add("lookup_dup")

    def run(self, ops):
        ct, sim = self.ct, self.sim
        for o in ops:
            self.opno += 1
            self.op = o
            k = o[0]
            if k == "add":
                self.do_add(o[1], o[2], o[3])
            elif k == "rm_i":
                index = len(self.P) - 1 - o[2] if o[1] & 1 else o[2]
                self.do_remove(index, None, None, None, o[3])
            elif k == "rm_h":
                self.do_remove(0, sel_hash(o[1], o[2]), o[1], o[2], o[3])
            elif k == "set_h":
                if self.P:
                    i = o[1] % len(self.P)
                    h = sel_hash(o[2], o[3])
                    if self.front == "py" and o[2] == 3:
                        sim.particles[i].hash = NAMES[o[3] % len(NAMES)]
                    elif self.front == "py" and (h + i) % 2:
                        sim.particles[i].hash = h
                    else:
                        sim.particles[i].hash = ct.c_uint32(h)
                    self.P[i].hash = h
                    self.mutated()
                    self.verify(True)
            elif k == "look":
                st0 = read_state(sim)
                self.do_lookup(o[1], o[2])
                if read_state(sim)[0] != st0[0]:
                    self.fail("lookup changed the simulation")
            elif k == "look_all":
                for e in list(self.P):
                    self.do_lookup(0, 0, e.hash)
                for h in POOL + [0, 0x1000 + 1023]:
                    self.do_lookup(0, 0, h)
                self.verify(True)
            elif k == "rm_all":
                if self.front == "c":
                    self.L.reb_simulation_remove_all_particles(ct.byref(sim))
                    self.messages()
                else:
                    try:
                        del sim.particles
                    except RuntimeError as e:
                        self.fail("del sim.particles raised: %s" % e)
                self.P = []
                self.na, self.na_known = -1, True
                self.mutated()
                self.cls.add("rm_all")
                self.verify(True)
            elif k == "n_active":
                self.na, self.na_known = o[1] % (len(self.P) + 2) - 1, True
                sim.N_active = self.na
            elif k == "add_out":
                self.do_add_out(o[1], o[2])
            elif k == "aux":
                self.do_aux()
            elif self.front == "py":
                self.do_py(o)
            if self.front == "py":
                self.check_container(self.psA, "held container (used after every operation)", full=False)
                self.check_container(sim.particles, "fresh sim.particles", full=False)
        sim = None

    def do_add_out(self, sel, mg):
        """Tree variant: an add outside the configured box is an invalid request: it must fail and change nothing."""
        if self.variant != "tree":
            return
        from ..oracles import sa_format
        from .. import rb
        ct, sim = self.ct, self.sim
        half = 50.0
        out = [math.nextafter(half, math.inf), half + 1e-4, 75.0, 1e6][mg % 4]
        if sel & 4:
            out = -out
        pos = {"x": 1.0, "y": 2.0, "z": 3.0}
        pos["xyz"[sel % 3]] = out
        h = POOL[sel % 8]
        st0 = read_state(sim)
        if self.front == "c":
            p = self.rebound.Particle(m=1.0, x=pos["x"], y=pos["y"], z=pos["z"], vx=0.0, vy=0.0, vz=0.0, r=0.0, hash=ct.c_uint32(h))
            self.L.reb_simulation_add(ct.byref(sim), p)
            failed = bool(self.messages())
        else:
            try:
                sim.add(m=1.0, x=pos["x"], y=pos["y"], z=pos["z"], vx=0.0, vy=0.0, vz=0.0, r=0.0, hash=ct.c_uint32(h))
                failed = False
            except RuntimeError:
                self.messages()
                failed = True
        if not failed:
            self.fail("add at %s=%r (outside the box, half size %r) reported no error" % ("xyz"[sel % 3], out, half))
        st1 = read_state(sim)
        if st1[0] != st0[0]:
            self.fail("rejected add outside the box (%s=%r) changed the simulation" % ("xyz"[sel % 3], out),
                      diff=sa_format.map_diff(st0[0], st1[0], rb.field_names())[:6])
        self.cls.add("invalid_add_outside")
        self.verify(True, st1)

    def do_aux(self):
        ct, sim = self.ct, self.sim
        if self.variant == "tree":
            self.L.reb_simulation_update_tree(ct.byref(sim))
            errs = self.messages()
            if errs:
                self.fail("tree update produced an error: %s" % errs[0])
            anyf = any(e.flagged for e in self.P)
            self.P = [e for e in self.P if not e.flagged]
            if anyf:
                self.na_known = False
                self.cls.add("tree_update_removed")
                self.mutated()
            self.verify(not anyf)
        elif self.variant == "mercurius":
            if len(self.P) >= 2 and self.P[0].tag == 0 and self.steps < 4 and (self.na == -1 or self.na >= 1):
                self.steps += 1
                try:
                    sim.step()
                except RuntimeError as e:
                    self.fail("step raised: %s" % e)
                m, N, na, recs, dcrit = self.verify(True)
                if len(dcrit) < N:
                    self.fail("after a step dcrit has %d entries for N=%d" % (len(dcrit), N))

    def check_container(self, ps, label, full, state=None):
        """All index-type accessors of one Particles object against the model, plus a write through it."""
        sim = self.sim
        n = len(self.P)
        exp = [(e.hash, bits(e.rec["r"])) for e in self.P]
        if len(ps) != n:
            self.fail("%s: len() is %d, model has %d particles" % (label, len(ps), n))
        if n == 0:
            if list(ps) != []:
                self.fail("%s: iteration yields particles for N=0" % label)
            return
        if full or n <= 48:
            got = [(p.hash.value, bits(p.r)) for p in ps]
            if got != exp:
                bad = [i for i in range(min(len(got), n)) if got[i] != exp[i]]
                self.fail("%s: iteration shows %d particles, %d differ from the model (first at index %s)"
                          % (label, len(got), len(bad), bad[:1]))
        idx = sorted({0, 1 % n, n // 2, n - 1, (self.opno * 7919) % n})
        for i in idx:
            for j in (i, i - n):
                try:
                    p = ps[j]
                except (AttributeError, IndexError, ValueError) as e:
                    self.fail("%s: [%d] raised %s for N=%d" % (label, j, type(e).__name__, n))
                if (p.hash.value, bits(p.r)) != exp[i] or p.index != i:
                    self.fail("%s: [%d] is (hash %d, r %r, index %d), model has (hash %d, tag %d) at index %d"
                              % (label, j, p.hash.value, p.r, p.index, exp[i][0], self.P[i].tag, i))
        a = (self.opno * 31) % n
        sl = slice(a, min(n, a + 9), 1 + self.opno % 2)
        if [(p.hash.value, bits(p.r)) for p in ps[sl]] != exp[sl]:
            self.fail("%s: slice %r differs from the model" % (label, sl))
        # write-through: a value assigned through the container must land in the simulation
        self.wt += 1
        i = (self.opno * 13 + self.wt) % n
        v = 1000.0 * self.opno + self.wt + 0.25
        ps[i].last_collision = v
        back = sim.particles[i].last_collision
        if bits(back) != bits(v):
            self.fail("%s: [%d].last_collision = %r did not reach the simulation (fresh sim.particles[%d] reads %r)"
                      % (label, i, v, i, back))
        if full:
            recs = read_state(sim)[3]
            if bits(recs[i][11]) != bits(v):
                self.fail("%s: [%d].last_collision = %r did not reach the serialised state (%r)" % (label, i, v, recs[i][11]))

    def do_py(self, o):
        ct, sim = self.ct, self.sim
        k = o[0]
        n = len(self.P)
        if k == "py_held":
            # heap blocks kept alive so that a later growth of the particle storage has to relocate it
            if len(self.blockers) < 64:
                for _ in range(8):
                    self.blockers.append(ct.create_string_buffer(3000))
            addr = ct.addressof(sim._particles.contents) if sim.N else 0
            if getattr(self, "b_last", None) is not None and self.b_last[0] == sim.N and sim.N and self.b_last[1] != addr:
                self.cls.add("held_after_realloc")   # same count as at the previous use, storage relocated in between
            self.check_container(self.psB, "held container (used at 'py_held' points only)", full=True)
            self.b_last = (sim.N, addr)
            self.cls.add("held_access")
            return
        if k == "to_boundary":
            # fill the storage exactly: the next add reallocates
            target = 128 << (o[1] % 3)
            while target < n:
                target *= 2
            if target - n > 0 and self.ntags + (target - n) < 2900:
                hk, hv = o[2], o[3]
                for j in range(target - n):
                    tag = self.ntags
                    self.ntags += 1
                    h = sel_hash(hk, hv + j, tag)
                    rec = make_particle(self.variant, tag)
                    self.P.append(Entry(tag, h, rec))
                    self.fe_add(rec, hk, hv + j, h)
                self.mutated()
                self.verify(True)
            if len(self.P) == sim.N_allocated:
                self.cls.add("storage_full")
            return
        if k == "py_get":
            i = o[1]
            try:
                p = sim.particles[i]
            except (AttributeError, IndexError):
                if -n <= i < n:
                    self.fail("sim.particles[%d] raised for N=%d" % (i, n))
                self.cls.add("invalid_index")
                return
            if not (-n <= i < n):
                self.fail("sim.particles[%d] returned a particle for N=%d" % (i, n))
            e = self.P[i]
            if p.hash.value != e.hash or bits(p.r) != bits(e.rec["r"]) or p.index != i % n:
                self.fail("sim.particles[%d] is (hash %d, r %r, index %d), model (hash %d, tag %d)"
                          % (i, p.hash.value, p.r, p.index, e.hash, e.tag))
        elif k == "py_slice":
            sl = slice(o[1], o[2], o[3])
            got = [(p.hash.value, bits(p.r)) for p in sim.particles[sl]]
            exp = [(e.hash, bits(e.rec["r"])) for e in self.P[sl]]
            if got != exp:
                self.fail("sim.particles[%r] returned %d particles, model slice has %d (or contents differ)" % (sl, len(got), len(exp)))
        elif k == "py_iter":
            got = [(p.hash.value, bits(p.r)) for p in sim.particles]
            exp = [(e.hash, bits(e.rec["r"])) for e in self.P]
            if got != exp or len(sim.particles) != n:
                self.fail("iteration over sim.particles gives %d particles (len %d), model %d (or contents differ)"
                          % (len(got), len(sim.particles), n))
        elif k == "py_set":
            if self.variant != "plain" or not self.P or self.ntags >= 2900:
                return
            i = o[1] % n
            tag = self.ntags
            self.ntags += 1
            h = sel_hash(o[2], o[3], tag)
            rec = make_particle(self.variant, tag)
            p = self.rebound.Particle(m=rec["m"], x=rec["x"], y=rec["y"], z=rec["z"], vx=rec["vx"], vy=rec["vy"],
                                      vz=rec["vz"], r=rec["r"], hash=ct.c_uint32(h))
            sim.particles[i] = p
            self.P[i] = Entry(tag, h, rec)
            self.mutated()
            self.verify(True)


def run_history(front):
    def fn(case, ctx):
        import warnings
        warnings.simplefilter("ignore")
        r = Runner(case, ctx, front)
        try:
            r.run(case["ops"])
        finally:
            for c in r.cls:
                ctx.cls(c)
        if r.cls & {"stale_lookup", "growth128", "growth256", "growth512", "invalid_index", "invalid_hash", "invalid_add_outside"}:
            ctx.nontrivial()
    return fn


# ---------------------------------------------------------------------------------------
# ASan driver and libFuzzer target

_exe = {}

# Sanitizer set: memory errors (ASan) and the UBSan checks; not `nonnull-attribute` (qsort(NULL, 0, ...) on a lookup
# table that was never allocated is flagged by it, touches no memory, and is outside the property statement) and not
# float-divide-by-zero (IEEE semantics are relied upon throughout the code base).
SAN_FLAGS = ["-O1", "-g", "-fno-omit-frame-pointer", "-fsanitize=address,undefined", "-fno-sanitize-recover=undefined",
             "-fno-sanitize=float-divide-by-zero,nonnull-attribute", "-fsanitize=fuzzer-no-link"]


def _rt_env():
    env = dict(os.environ)
    env.pop("LD_PRELOAD", None)
    env["ASAN_OPTIONS"] = "detect_leaks=0:abort_on_error=0:exitcode=77:allocator_may_return_null=1"
    env["UBSAN_OPTIONS"] = "print_stacktrace=1:halt_on_error=1"
    return env


def driver_exe(kind="driver"):
    """Compile the tree's sources with ASan+UBSan (+ libFuzzer coverage instrumentation, so that the campaign is
    guided by branches in particle.c / tree.c and not only by the driver's model code) and link them statically with
    vf/chelpers/c14_driver.c: once with main() (replay driver), once as libFuzzer target.  Cached by content hash."""
    from .. import build
    if kind in _exe:
        return _exe[kind]
    src = os.path.join(build.VERIF, "vf", "chelpers", "c14_driver.c")
    h = hashlib.sha256(open(src, "rb").read() + repr(SAN_FLAGS).encode()).hexdigest()[:10]
    d = os.path.join(build.BUILD_ROOT, "c14san-%s-%s" % (build.tree_hash("asan"), h))
    names = {"driver": "c14_driver", "fuzz": "c14_fuzz"}
    if not os.path.exists(os.path.join(d, ".done")):
        import shutil
        from concurrent.futures import ThreadPoolExecutor
        tmp = d + ".tmp%d" % os.getpid()
        shutil.rmtree(tmp, ignore_errors=True)
        os.makedirs(os.path.join(tmp, "obj"))
        inc = os.path.join(build.REPO, "src")

        def comp(sname):
            o = os.path.join(tmp, "obj", sname[:-2] + ".o")
            r = subprocess.run(["clang"] + build.COMMON + SAN_FLAGS + ["-I", inc, "-c", os.path.join(inc, sname), "-o", o],
                               capture_output=True, text=True)
            if r.returncode != 0:
                raise RuntimeError("c14 sanitizer build failed: %s\n%s" % (sname, r.stderr[-3000:]))
            return o
        with ThreadPoolExecutor(16) as ex:
            objs = list(ex.map(comp, build.SOURCES))
        for k, extra in (("driver", []), ("fuzz", ["-DC14_FUZZER", "-fsanitize=fuzzer"])):
            cmd = ["clang", "-D_GNU_SOURCE", "-w"] + SAN_FLAGS + extra + ["-I", inc, src] + objs + \
                  ["-lm", "-lrt", "-lpthread", "-o", os.path.join(tmp, names[k])]
            r = subprocess.run(cmd, capture_output=True, text=True)
            if r.returncode != 0:
                raise RuntimeError("c14 %s link failed\n%s" % (k, r.stderr[-3000:]))
        shutil.rmtree(os.path.join(tmp, "obj"))
        open(os.path.join(tmp, ".done"), "w").write("ok")
        try:
            os.rename(tmp, d)
        except OSError:
            shutil.rmtree(tmp, ignore_errors=True)
    for k in names:
        _exe[k] = os.path.join(d, names[k])
    return _exe[kind]


def prepare(tier):
    driver_exe("driver")
    driver_exe("fuzz")


def _report(stderr):
    lines = [l for l in stderr.splitlines() if l.strip()]
    key = [l for l in lines if "C14-MODEL-VIOLATION" in l or "ERROR: AddressSanitizer" in l or "runtime error:" in l
           or "SUMMARY:" in l or "ERROR: LeakSanitizer" in l]
    frames = [l.strip() for l in lines if l.strip().startswith("#") and ("/src/" in l or "reb_" in l)][:6]
    return key[:4], frames


def run_asan(case, ctx):
    raw = bytes.fromhex(case["raw"]) if "raw" in case else encode(case)
    path = os.path.join(ctx.scratch, "h.bin")
    with open(path, "wb") as f:
        f.write(raw)
    exe = driver_exe("driver")
    try:
        r = subprocess.run([exe, path], env=_rt_env(), capture_output=True, text=True, errors="replace", timeout=300)
    except subprocess.TimeoutExpired:
        raise Violation("asan driver did not finish within 300 s", raw=raw.hex())
    variant = VARIANT_NAMES[raw[0] % 3] if raw else "plain"
    ctx.cls("variant/" + variant)
    ops = case.get("ops") or decode(raw)["ops"]
    n = 0
    for o in ops:
        if o[0] == "add":
            n += add_count(o[3])
    if n >= 129:
        ctx.cls("growth128")
    if n >= 129 or any(o[0] in ("rm_i", "rm_h") for o in ops):
        ctx.nontrivial()   # growth crossed or removals (valid or not) executed under the sanitizers
    if r.returncode != 0:
        key, frames = _report(r.stderr)
        raise Violation("asan driver rc=%d: %s" % (r.returncode, " | ".join(key) or r.stderr[-300:]),
                        frames=frames, raw=raw.hex(), ops=ops[:60])


FUZZ_SEEDS = [
    {"variant": "plain", "flags": 0, "ops": [["add", 1, 0, 3], ["look", 1, 0], ["rm_i", 0, 1, 1], ["look", 1, 1], ["rm_h", 1, 2, 0], ["look_all"]]},
    {"variant": "plain", "flags": 0, "ops": [["add", 2, 0, 200], ["add", 0, 0, 200], ["rm_i", 1, 0, 0], ["look_all"], ["rm_all"], ["add", 1, 3, 2]]},
    {"variant": "tree", "flags": 1, "ops": [["add", 1, 0, 3], ["rm_i", 0, 1, 0], ["aux"], ["rm_i", 0, 0, 1], ["add", 2, 0, 130], ["rm_h", 1, 1, 0], ["aux"], ["rm_all"], ["add", 0, 0, 1], ["aux"]]},
    {"variant": "tree", "flags": 0, "ops": [["add", 1, 0, 2], ["add_out", 4, 0], ["look_all"], ["add_out", 1, 2], ["add", 2, 0, 1], ["aux"]]},
    {"variant": "mercurius", "flags": 0, "ops": [["add", 1, 0, 3], ["aux"], ["add", 2, 0, 1], ["rm_i", 0, 1, 1], ["aux"], ["rm_i", 0, 9, 1], ["n_active", 3], ["rm_i", 0, 1, 0]]},
]


def run_fuzz(case, ctx):
    exe = driver_exe("fuzz")
    cdir = os.path.join(ctx.scratch, "corpus-%d" % case["shard"])
    adir = os.path.join(ctx.scratch, "artifacts-%d" % case["shard"])
    for d in (cdir, adir):
        os.makedirs(d, exist_ok=True)
    for i, s in enumerate(FUZZ_SEEDS):
        with open(os.path.join(cdir, "seed%d" % i), "wb") as f:
            f.write(encode(s))
    import time
    env = _rt_env()
    t_end = time.time() + case["wall"]
    execs = cov = 0
    chunk_no = 0
    while execs < case["runs"]:
        # the campaign runs in chunks on one corpus directory so that a wall cap keeps what was done so far
        n = min(case["chunk"], case["runs"] - execs)
        seed = (ctx.seed * 100000 + case["shard"] * 1000 + chunk_no + 1) & 0x7FFFFFFF
        chunk_no += 1
        left = t_end - time.time()
        if left <= 5:
            break
        cmd = [exe, "-seed=%d" % seed, "-runs=%d" % n, "-max_len=%d" % case["max_len"], "-timeout=120",
               "-rss_limit_mb=4096", "-print_final_stats=1", "-artifact_prefix=" + adir + "/", cdir]
        try:
            r = subprocess.run(cmd, env=env, capture_output=True, text=True, errors="replace", timeout=left)
        except subprocess.TimeoutExpired:
            break
        done = 0
        for l in r.stderr.splitlines():
            if l.startswith("stat::number_of_executed_units:"):
                done = int(l.split(":")[-1])
            if " cov: " in l:
                try:
                    cov = max(cov, int(l.split(" cov: ")[1].split()[0]))
                except ValueError:
                    pass
        if r.returncode != 0:
            arts = sorted(glob.glob(os.path.join(adir, "*")))
            raw = open(arts[0], "rb").read() if arts else b""
            key, frames = _report(r.stderr)
            raise Violation("libFuzzer campaign rc=%d: %s" % (r.returncode, " | ".join(key) or r.stderr[-300:]),
                            frames=frames, raw=raw.hex(), ops=decode(raw)["ops"][:60],
                            replay_hint="put {'raw': <hex>} as case of sub 'asan' to replay")
        # libFuzzer counts the re-read corpus units of each chunk as executions too; only new runs are credited
        execs += n if done >= n else done
    ctx.stat_max("fuzz_execs_per_campaign", execs)
    ctx.stat_max("fuzz_cov_edges", cov)
    ctx.stat_max("fuzz_corpus_units", len(os.listdir(cdir)))
    ctx.cls("campaign")
    if execs < case["runs"]:
        ctx.skip("campaign stopped by wall cap after %d%% of its runs (remainder inconclusive)" % (100 * execs // case["runs"]))
    if execs >= min(case["runs"], 20000):
        ctx.nontrivial()


def fuzz_cases(tier):
    if tier == "quick":
        return [{"shard": i, "runs": 30000, "chunk": 30000, "max_len": 160, "wall": 300} for i in range(2)]
    return [{"shard": i, "runs": 1000000, "chunk": 100000, "max_len": 320, "wall": 3000} for i in range(12)]


def subs(tier):
    return [
        Sub("c_api", run_history("c"), strategy=history_strategy(named=False, py=False), quick=2000, thorough=80000,
            shards_quick=6, shards_thorough=16),
        Sub("py_api", run_history("py"), strategy=history_strategy(named=True, py=True), quick=2000, thorough=80000,
            shards_quick=6, shards_thorough=16),
        Sub("asan", run_asan, strategy=history_strategy(named=False, py=False), quick=1200, thorough=30000,
            shards_quick=4, shards_thorough=16),
        Sub("fuzz", run_fuzz, cases=fuzz_cases, quick=2, thorough=12, shards_quick=2, shards_thorough=12,
            timeout_quick=400, timeout_thorough=3600),
    ]
