"""C15 - boundary conditions and the spatial tree keep every particle accounted for."""
import math

from hypothesis import strategies as st

from ..core import Sub, Violation
from .. import strategies as S

PROPERTY = "C15"
LEVEL = "exploration"
RULE = ("Generated histories (op lists: step*n, add inside the box, unsorted removal between steps and from inside the "
        "additional_forces / post_timestep_modifications callbacks, explicit tree update, move_to_com, restart from sim.copy() / pickle / "
        "file at any point with callbacks re-attached) of 1-60 "
        "free-streaming particles (leapfrog; gravity none or tree with G=0 so that the motion is exactly predictable; "
        "collisions none / tree / direct with the merge resolver) with |v dt| up to 3.5 root boxes per step, box sizes "
        "1 / 10 / 3.7 / 12.539722611734991, 1-3 root boxes per axis, boundaries periodic / shear / open.  Oracles: a "
        "per-step shadow model in longdouble (wrapped coordinates = free-streamed coordinates minus whole box lengths, "
        "shear: plus the image's velocity offset and time-dependent azimuthal offset; open: exactly the particles "
        "predicted outside at a scheduled check are gone), and a read-only walk of the tree (C helper) at the moment "
        "the tree is used (additional_forces callback, right after the tree update and the centre-of-mass pass) and "
        "after explicit updates: leaves <-> particles bijection, back pointers, containment, counts, geometry, "
        "masses/centres of mass, and the theta=0 tree force against the direct sum over all ghost images.  border_hist "
        "puts particles exactly on cell / root-box faces.  Non-trivial = at least one root-box (or box) crossing and "
        "at least one removal/merger/re-insertion followed by >= 5 more steps; distinct by case hash.")
ASSUMPTIONS = [
    "schedule of boundary checks read from the anchors: mid-step (after the first leapfrog drift) iff a tree is in use, "
    "and at the end of every step; the tree is rebuilt mid-step and at the start of a tree collision search",
    "with G = 0 tree gravity leaves velocities unchanged, so leapfrog free-streams exactly",
    "containment and cell geometry are asserted to 16*eps*(|centre|+width+|x|): cell centres are themselves rounded",
    "a particle removed in a tree simulation is flagged (y = NaN) and leaves the array at the next tree update",
    "particles are added strictly inside the box; removing the last particle / remove_all with a tree is C14's subject",
    "no two particles are generated closer than 1e-10 root boxes in every coordinate (exact coincidence is a documented "
    "tree error; pairs a few ulps apart cannot be separated by cells whose centres are rounded: the insertion recurses "
    "without bound - observed, reported, not asserted)",
    "shear image offsets are asserted for t >= 0 only (for t < 0 the library picks a different representative)",
    "image of a particle in shear-periodic boxes: (x - n Lx, y + 3/2 n OMEGA Lx t mod Ly, vy + 3/2 n OMEGA Lx) "
    "(docs/boundaryconditions.md, Rein & Liu 2012)",
]
CLASSES = ["boundary_hist/move_to_com", "boundary_hist/move_to_com_crossed_face", "boundary_hist/restore/copy", "boundary_hist/restore/pickle", "boundary_hist/restore/file",
           "boundary_hist/restore_with_pending_removal", "boundary_hist/removed_in_callback", "boundary_hist/collision_search_walks", "boundary_hist/collision/tree", "boundary_hist/collision/linetree",
           "boundary_hist/boundary/periodic", "boundary_hist/boundary/shear", "boundary_hist/boundary/open",
           "boundary_hist/tree/gravity", "boundary_hist/tree/collision", "boundary_hist/tree/none",
           "boundary_hist/crossed_root", "boundary_hist/crossed_box", "boundary_hist/multi_box_step",
           "boundary_hist/removed_open", "boundary_hist/merged", "boundary_hist/user_removed",
           "boundary_hist/user_added", "boundary_hist/midstep_walks", "boundary_hist/force_check",
           "border_hist/border/root_face", "border_hist/border/outer_face", "border_hist/border/cell_face",
           "border_hist/midstep_walks", "border_hist/force_check"]

BOXES = [1.0, 10.0, 3.7, 12.539722611734991]
# every ordering of the three box lengths occurs (all equal; one longer / one shorter in each axis; all six strict orders)
LAYOUTS = [(1, 1, 1), (2, 2, 2),
           (2, 1, 1), (1, 2, 1), (1, 1, 2), (3, 1, 1), (1, 1, 3),
           (1, 2, 2), (2, 1, 2), (2, 2, 1),
           (1, 2, 3), (1, 3, 2), (2, 1, 3), (2, 3, 1), (3, 1, 2), (3, 2, 1)]
RESTORES = ["copy", "pickle", "file"]
KEY_ADD_FLAGGED = "add-onto-flagged-particle"   # leaf split with a flagged (y = NaN) resident never terminates
KEY_RESTORE = "restore-flagged-particle"     # loading a tree simulation that holds a particle flagged for removal
KEY_BORDER = "tree-border-reinsert"
KEY_UPPER = "rootbox-upper-face"


# ---------------------------------------------------------------------------------------
# generator

@st.composite
def particle(draw, L, L0, dt, hashv, border, radius):
    x = []
    for k in range(3):
        if border and draw(st.integers(0, 2)) > 0:
            if draw(st.integers(0, 2)) == 0:
                # exactly on one of the two OUTER faces of this axis (each of the six faces with equal weight)
                c = draw(st.sampled_from([-0.5, 0.5])) * L[k]
            else:
                # exactly on a face of a cell of some level: -L/2 + L0 * j / 2**lev
                lev = draw(st.sampled_from([0, 0, 1, 1, 2, 3, 6]))
                nmax = int(round(L[k] / L0)) * 2 ** lev
                j = draw(st.integers(0, nmax))
                c = -L[k] / 2 + L0 * (j / float(2 ** lev))
                c = min(max(c, -L[k] / 2), L[k] / 2)
            # (not around 0.0: its neighbours are denormals, closer together than any cell can resolve)
            nudge_ulps = draw(st.sampled_from([0, 0, 0, 1, -1, 2])) if c != 0.0 else 0
            for _ in range(abs(nudge_ulps)):       # a few ulps next to the face (towards the inside at the outer faces)
                c = math.nextafter(c, 0.0 if abs(c) >= L[k] / 2 else (math.inf if nudge_ulps > 0 else -math.inf))
            x.append(c)
        else:
            x.append(draw(S.floats(-0.499, 0.499)) * L[k])
    vs = draw(st.sampled_from([0.0, 0.01, 0.3, 1.0, 1.0, 3.5])) * L0 / abs(dt)
    if border and draw(st.booleans()):
        ax = draw(st.integers(0, 2))
        v = [0.0, 0.0, 0.0]
        v[ax] = vs * draw(S.floats(-1.0, 1.0))      # moving inside a face
    else:
        v = [vs * draw(S.floats(-1.0, 1.0)) for _ in range(3)]
    if border and draw(st.integers(0, 3)) == 0:
        # ARRIVE on an outer face by drifting: after a whole step (end of step: collision search / explicit update) or
        # after the first half step (mid-step tree update), e.g. z = 7, vz = 3, dt = 1, Lz = 20
        ax = draw(st.integers(0, 2))
        face = draw(st.sampled_from([-0.5, 0.5])) * L[ax]
        frac = draw(st.sampled_from([1.0, 0.5]))
        v[ax] = draw(st.sampled_from([-1.0, 1.0])) * draw(st.sampled_from([0.125, 0.25, 0.5, 1.0, 1.5])) * L0 / abs(dt)
        x0 = face - frac * dt * v[ax]
        x0 -= L[ax] * round(x0 / L[ax])
        if abs(x0) < L[ax] / 2:
            x[ax] = x0
            for j in range(3):
                if j != ax:     # two arriving particles must not land on the same point of the face
                    x[j] = min(max(x[j] + L0 * 1.2345e-7 * (1 + ((hashv * 7919 + j * 104729) % 1009) / 100.0),
                                   -L[j] / 2), L[j] / 2)
    return {"x": x[0], "y": x[1], "z": x[2], "vx": v[0], "vy": v[1], "vz": v[2],
            # (two massless bodies make the merge formulas 0/0: masses > 0 whenever collisions are on)
            "m": draw(st.sampled_from([0.0, 1e-3, 1.0])) if (not radius and draw(st.integers(0, 3)) == 0)
            else draw(S.logfloats(1e-6, 1.0)),
            "r": radius * draw(S.logfloats(1e-2, 1.0)) if radius else 0.0, "hash": hashv}


@st.composite
def history(draw, border=False):
    boundary = draw(st.sampled_from(["periodic", "periodic", "shear", "open"]))
    L0 = draw(st.sampled_from(BOXES))
    lay = draw(st.sampled_from(LAYOUTS))
    L = [L0 * lay[0], L0 * lay[1], L0 * lay[2]]
    gravity = draw(st.sampled_from(["none", "tree", "tree"]))
    collision = draw(st.sampled_from(["none", "none", "tree", "tree", "linetree", "direct", "line"]))
    if border and gravity == "none" and collision not in ("tree", "linetree"):
        gravity = "tree"
    nghost = [draw(st.sampled_from([0, 0, 1] if collision == "none" else [0, 1, 1, 2])) for _ in range(3)] \
        if boundary in ("periodic", "shear") else [0, 0, 0]
    dt = draw(st.sampled_from([0.01, 0.3, 1.0])) * draw(st.sampled_from([1.0, 1.0, -1.0]))
    cfg = {"boundary": boundary, "L0": L0, "layout": list(lay), "L": L, "gravity": gravity, "collision": collision,
           "nghost": nghost, "omega": draw(st.sampled_from([1.0, 0.37])), "dt": dt,
           "t0": draw(S.floats(0.0, 30.0)) if boundary == "shear" else 0.0,
           "keep_sorted": 0, "rand_seed": draw(st.integers(0, 2 ** 31 - 1)), "border": border}
    radius = 0.08 * L0 if collision != "none" else 0.0
    n = draw(st.one_of(st.integers(1, 8), st.integers(5, 60 if not border else 20)))
    parts = [draw(particle(L, L0, dt, 1 + i, border, radius)) for i in range(n)]
    if radius and boundary in ("periodic", "shear"):
        # pairs touching THROUGH a box face (one just inside the +face, its partner just inside the -face), approaching
        # slowly enough not to cross the face within a step: they merge across the boundary via a ghost image
        for k in range(draw(st.integers(0, 3))):
            ax = draw(st.sampled_from([1, 2] if boundary == "shear" else [0, 1, 2]))
            nghost[ax] = max(nghost[ax], 1)
            r1, r2 = radius * draw(S.floats(0.3, 1.0)), radius * draw(S.floats(0.3, 1.0))
            a, b = draw(S.floats(0.05, 0.45)) * r1, draw(S.floats(0.05, 0.45)) * r2
            base = [draw(S.floats(-0.45, 0.45)) * L[j] + 3.21e-3 * (k + 1) * L0 for j in range(3)]
            u = draw(S.floats(0.01, 0.3)) * min(a, b) / abs(dt)
            two = []
            for sgn, rr, gap, hv in ((1.0, r1, a, 500 + 2 * k), (-1.0, r2, b, 501 + 2 * k)):
                x = [base[j] + 0.1 * rr * draw(S.floats(-1.0, 1.0)) for j in range(3)]
                x[ax] = sgn * (L[ax] / 2 - gap)
                v = [0.0, 0.0, 0.0]
                v[ax] = sgn * u
                two.append({"x": x[0], "y": x[1], "z": x[2], "vx": v[0], "vy": v[1], "vz": v[2],
                            "m": draw(S.logfloats(1e-3, 1.0)), "r": rr, "hash": hv})
            if draw(st.booleans()):
                two.reverse()       # which of the two has the lower index (= survives) varies
            pos_ = draw(st.integers(0, len(parts)))
            parts[pos_:pos_] = two
    cfg["nghost"] = nghost
    # energy tracking switches the open boundary to its other removal path (sorted removal, needs no tree)
    tree_any = gravity == "tree" or collision in ("tree", "linetree")
    cfg["track_energy_offset"] = draw(st.sampled_from([0, 1])) if not (boundary == "open" and tree_any) else 0
    if boundary == "open" and draw(st.booleans()):
        # 2-4 index-adjacent particles that leave through the same face in the same step
        ax = draw(st.integers(0, 2))
        sgn = draw(st.sampled_from([-1.0, 1.0]))
        grp = []
        for k in range(draw(st.sampled_from([2, 2, 3, 4]))):
            q = draw(particle(L, L0, dt, 600 + k, False, radius))
            gap = draw(S.floats(0.01, 0.2)) * L0
            q["xyz"[ax]] = sgn * (L[ax] / 2 - gap)
            # crosses the face in the first (mid-step check) or in the second half of the step
            q["v" + "xyz"[ax]] = sgn * (dt / abs(dt)) * gap / abs(dt) * draw(st.sampled_from([1.3, 3.0, 1.3, 8.0]))
            grp.append(q)
        pos_ = draw(st.integers(0, len(parts)))
        parts[pos_:pos_] = grp
    if draw(st.integers(0, 2)) == 0 and parts:
        # an off-centre heavy particle: a shift to the centre-of-mass frame then pushes the others across box faces
        hv = parts[draw(st.integers(0, len(parts) - 1))]
        hv["m"] = 100.0
        for j, ax in enumerate("xyz"):
            if draw(st.booleans()):
                hv[ax] = draw(st.sampled_from([-1.0, 1.0])) * draw(S.floats(0.25, 0.47)) * L[j]
    ops = []
    nops = draw(st.integers(2, 10))
    h = 1000
    for _ in range(nops):
        kind = draw(st.sampled_from(["step", "step", "step", "add", "remove", "remove_cb", "walk", "restore",
                                     "move_to_com"]))
        if kind == "step":
            ops.append(["step", draw(st.sampled_from([1, 1, 2, 3, 7])), draw(st.booleans())])
            if collision != "none" and draw(st.integers(0, 3)) == 0:    # a restart directly after a step with mergers
                ops[-1][2] = False
                ops.append(["restore", draw(st.sampled_from(RESTORES))])
        elif kind == "add":
            h += 1
            ops.append(["add", draw(particle(L, L0, dt, h, border, radius))])
        elif kind == "remove":
            ops.append(["remove", draw(st.integers(0, 1000))])
            if draw(st.integers(0, 2)) == 0:    # a restart directly after a removal that is still pending in the tree
                ops.append(["restore", draw(st.sampled_from(RESTORES))])
        elif kind == "restore":
            ops.append(["restore", draw(st.sampled_from(RESTORES))])
        elif kind == "move_to_com":
            ops.append(["move_to_com"])     # user-level frame shift between steps
        elif kind == "remove_cb":
            # unsorted removal issued from inside a callback during the next step: still pending when the collision
            # search runs ("forces" = additional_forces, mid-step; "post" = post_timestep_modifications)
            ops.append(["remove_cb", draw(st.integers(0, 1000)), draw(st.sampled_from(["forces", "post"]))])
        else:
            ops.append(["walk"])
    ops.append(["step", draw(st.sampled_from([1, 5, 6])), True])
    return {"cfg": cfg, "particles": parts, "ops": ops, "force_check": draw(st.booleans())}


# ---------------------------------------------------------------------------------------
# helpers

def nudge(q, cfg):
    """Generic histories keep particles off exact cell faces (border_hist is the sub-check for those)."""
    d = cfg["L0"] * 1.2345e-7
    out = dict(q)
    for k, ax in enumerate("xyz"):
        # (irregular in the hash: identical generated particles must not end up equally spaced on a line, where the
        # merger of the outer two lands exactly on the middle one)
        out[ax] = q[ax] + d * (1 + ((q["hash"] * 7919 + k * 104729) % 1009) / 100.0)
    return out


def on_face(x, L, L0):
    """0 = generic, 1 = on a cell face, 2 = on a root-box face, 3 = on the outer face"""
    u = (x + L / 2) / L0
    if abs(abs(x) - L / 2) <= 1e-12 * L:
        return 3
    if abs(u - round(u)) <= 1e-12:
        return 2
    v = u * 64
    if abs(v - round(v)) <= 1e-9:
        return 1
    return 0


def too_close(parts, L0, extra=None, period=None):
    """Two particles closer than 1e-10 root boxes in every coordinate - directly or, with periodic boundaries, through a
    periodic image: exact coincidence is a documented error of the tree (and 0/0 in the force of an image), and a
    pair a few ulps apart cannot be separated by cells whose centres are themselves rounded."""
    pts = [(q["x"], q["y"], q["z"]) for q in parts]

    def near(p, q):
        for k in range(3):
            d = abs(p[k] - q[k])
            if period is not None:
                d = min(d, abs(d - period[k]))
            if d >= 1e-10 * L0:
                return False
        return True
    if extra is not None:
        return any(near(p, extra) for p in pts)
    for i in range(len(pts)):
        for j in range(i + 1, len(pts)):
            if near(pts[i], pts[j]):
                return True
    return False


def coincidence_explains(s0, cur, cfg, R):
    """The tree reported 'two particles with the same coordinates'.  That is its documented answer to an input outside
    this property's domain - but only if two particles really are at the same point at an instant at which the tree
    is rebuilt: at the start, after the first half drift or at the end of the step (free streaming of the pre-step
    state s0, same double operations as leapfrog, compared modulo the box lengths), or in the current array `cur`
    (mergers, restores; a flagged particle is re-inserted at y = 0 by a restore).  Otherwise the error is a finding."""
    import numpy as np
    L = np.array(cfg["L"])
    periodic = cfg["boundary"] in ("periodic", "shear")

    def dup(X, comps=(0, 1, 2)):
        n = len(X)
        for i in range(n):
            d = np.abs(X[i + 1:] - X[i])
            if periodic:
                same = (d == 0) | (d == L[None, :])
            else:
                same = d == 0
            if len(d) and same[:, list(comps)].all(axis=1).any():
                return True
        return False
    inst = []
    if s0 is not None and len(s0):
        X0, V = R.pos(s0), R.vel(s0)
        h = 0.5 * cfg["dt"]
        Xh = X0 + h * V
        inst += [X0, Xh, Xh + h * V]
    if cur is not None and len(cur):
        Xc = R.pos(cur).copy()
        Xc[np.isnan(Xc[:, 1]), 1] = 0.0
        inst.append(Xc)
    comps = (0, 2) if cfg["boundary"] == "shear" else (0, 1, 2)     # (a shear wrap shifts y by a time-dependent offset)
    return any(dup(X, comps) for X in inst)


def new_sim(case):
    import warnings
    import rebound
    from . import c13
    warnings.simplefilter("ignore")
    cfg = case["cfg"]
    sim = rebound.Simulation()
    sim.configure_box(cfg["L0"], *cfg["layout"])
    sim.boundary = cfg["boundary"]
    sim.N_ghost_x, sim.N_ghost_y, sim.N_ghost_z = cfg["nghost"]
    sim.ri_sei.OMEGA = cfg["omega"]
    sim.integrator = "leapfrog"
    sim.gravity = cfg["gravity"]
    sim.G = 0.0
    sim.collision = cfg["collision"]
    if cfg["collision"] != "none":
        sim.collision_resolve = "merge"
    sim.collision_resolve_keep_sorted = 0
    sim.track_energy_offset = cfg.get("track_energy_offset", 0)
    sim.dt = cfg["dt"]
    sim.t = cfg["t0"]
    sim.rand_seed = cfg["rand_seed"]
    return sim


def inside(q, L):
    return all(abs(q[ax]) < 0.5 * L[k] for k, ax in enumerate("xyz"))


def predict(s0, cfg, tree_in_use, R):
    """Free streaming of one leapfrog step from the (in-box) state s0.
    Returns U1 (unwrapped end positions, longdouble), and for open boundaries a status per particle:
    0 = stays, 1 = removed, 2 = within rounding of a face at a check (either is accepted)."""
    import numpy as np
    LD = R.LD
    X = R.pos(s0)
    V = R.vel(s0)
    dt = cfg["dt"]
    U1 = X.astype(LD) + LD(dt) * V.astype(LD)
    status = np.zeros(len(s0), dtype=np.int8)
    if cfg["boundary"] == "open":
        h = 0.5 * dt
        Xh = X + h * V              # the same double operations as the integrator
        X1 = Xh + h * V
        half = np.array(cfg["L"]) / 2
        checks = ([Xh] if tree_in_use else []) + [X1]
        for C in checks:
            out = (np.abs(C) > half[None, :]).any(axis=1)
            near = (np.abs(np.abs(C) - half[None, :]) <= 8 * R.EPS * (np.abs(C) + half[None, :])).any(axis=1)
            status[out & (status == 0)] = 1
            status[near & (status != 1)] = 2
            status[near & out] = 2
    return U1, status


def check_step(s0, s1, t1, cfg, tree_in_use, R, ctx, user_removed):
    """One step: s0 = alive rows before, s1 = alive rows after (structured arrays); t1 = time after the step."""
    import numpy as np
    LD = R.LD
    L = cfg["L"]
    o0 = {int(h): i for i, h in enumerate(s0["hash"])}
    o1 = {int(h): i for i, h in enumerate(s1["hash"])}
    if len(o1) != len(s1):
        raise Violation("duplicate particle after a step", hashes=sorted(int(h) for h in s1["hash"])[:20])
    new = set(o1) - set(o0)
    if new:
        raise Violation("a particle appeared during a step: hashes %s" % sorted(new)[:5])
    gone = set(o0) - set(o1)
    # merger survivors: stamped with this step's time during this step (t1 can coincide with the initial stamp 0)
    stamped = {h for h in o1 if h in o0 and s1["last_collision"][o1[h]] == t1 and s0["last_collision"][o0[h]] != t1} \
        if cfg["collision"] != "none" else set()
    U1, status = predict(s0, cfg, tree_in_use, R)
    b = cfg["boundary"]
    # --- who is still there
    if b in ("periodic", "shear"):
        if cfg["collision"] == "none":
            if gone:
                raise Violation("%s boundary: particle(s) lost during a step: hashes %s (N %d -> %d)"
                                % (b, sorted(gone)[:5], len(s0), len(s1)))
        elif len(gone) != len(stamped):
            raise Violation("%d particle(s) vanished but %d merger survivor(s) are stamped" % (len(gone), len(stamped)),
                            gone=sorted(gone)[:10])
    else:
        must_go = {int(s0["hash"][i]) for i in range(len(s0)) if status[i] == 1}
        may_go = {int(s0["hash"][i]) for i in range(len(s0)) if status[i] == 2}
        kept_wrong = must_go & set(o1)
        if kept_wrong:
            raise Violation("open boundary: particle(s) outside the box at a boundary check were kept: hashes %s"
                            % sorted(kept_wrong)[:5])
        unexplained = gone - must_go - may_go
        if cfg["collision"] == "none":
            if unexplained:
                raise Violation("open boundary: particle(s) inside the box were removed: hashes %s" % sorted(unexplained)[:5])
        else:
            # a merger can involve a particle that would otherwise have left: only the count is fixed
            if len(unexplained) > len(stamped):
                raise Violation("open boundary: %d particle(s) inside the box vanished but only %d merger(s) happened"
                                % (len(unexplained), len(stamped)), gone=sorted(unexplained)[:10])
        if gone & (must_go | may_go):
            ctx.cls("removed_open")
    if stamped:
        ctx.cls("merged")
    if cfg["collision"] != "none":
        # every particle's mass is accounted for: total mass of (survivors) = total mass before - mass of those that left
        left = [o0[h] for h in gone if b == "open" and status[o0[h]] in (1, 2)]
        m0 = s0["m"].astype(LD).sum()
        m1 = s1["m"].astype(LD).sum()
        mleft_hi = s0["m"][left].astype(LD).sum() if left else LD(0)
        tol = 64 * R.EPS * (np.abs(s0["m"]).astype(LD).sum()) * (2 + len(stamped))
        if m1 > m0 + tol or m1 < m0 - mleft_hi - tol:
            raise Violation("total mass not accounted for across a step with mergers: %r -> %r" % (float(m0), float(m1)))
    # --- where they are
    half = np.array(L) / 2
    X1 = R.pos(s1)
    if b in ("periodic", "shear") and len(s1):
        # (a merger happens after the boundary check and its centre of mass is rounded: merged bodies are not asserted)
        # (a merger happens after the boundary check and its centre of mass is rounded: merged bodies may sit a
        # rounding error - not more - outside)
        is_st = np.array([int(h) in stamped for h in s1["hash"]])
        lim = np.where(is_st[:, None], half[None, :] * (1 + 8 * R.EPS), half[None, :])
        outside = (np.abs(X1) > lim).any(axis=1)
        if outside.any():
            k = int(np.nonzero(outside)[0][0])
            raise Violation("%s boundary: particle hash %d is outside the box after the step%s: %r"
                            % (b, int(s1["hash"][k]), " (survivor of a merger)" if is_st[k] else "", X1[k].tolist()))
    crossed_root = crossed_box = multi = False
    om = cfg["omega"]
    for h, i1 in o1.items():
        if h in stamped:
            continue
        i0 = o0[h]
        x1 = X1[i1].astype(LD)
        v0 = np.array([s0["vx"][i0], s0["vy"][i0], s0["vz"][i0]])
        v1 = np.array([s1["vx"][i1], s1["vy"][i1], s1["vz"][i1]])
        u = U1[i0]
        scale = np.abs(R.pos(s0)[i0]).astype(LD) + abs(LD(cfg["dt"])) * np.abs(v0).astype(LD)
        if b == "open":
            tol = 8 * R.EPS * scale
            if (np.abs(x1 - u) > tol).any() or not np.array_equal(v0, v1):
                raise Violation("open boundary: a surviving particle is not where free streaming puts it (hash %d)" % h,
                                got=X1[i1].tolist(), expected=[float(a) for a in u])
            n = [0, 0, 0]
        else:
            n = [int(np.rint((u[k] - x1[k]) / LD(L[k]))) for k in range(3)]
            if b == "shear":
                sh = LD(1.5) * n[0] * LD(om) * LD(L[0])
                # x: whole box lengths; vy: image velocity; y: image offset at time t1 modulo Ly; z: whole box lengths
                ey = u[1] + sh * LD(t1) - x1[1]
                n[1] = int(np.rint(ey / LD(L[1])))
                res = np.array([u[0] - n[0] * LD(L[0]) - x1[0], ey - n[1] * LD(L[1]), u[2] - n[2] * LD(L[2]) - x1[2]])
                tol = 64 * R.EPS * (scale + np.array([abs(n[0]) * L[0], abs(n[1]) * L[1] + abs(sh * LD(t1)) + L[1],
                                                     abs(n[2]) * L[2]], dtype=LD))
                dvy = LD(v1[1]) - (LD(v0[1]) + sh)
                if abs(dvy) > 16 * R.EPS * (abs(v0[1]) + abs(sh)) or v1[0] != v0[0] or v1[2] != v0[2]:
                    raise Violation("shear boundary: velocity after %d radial wraps is not the image velocity (hash %d)"
                                    % (n[0], h), v0=v0.tolist(), v1=v1.tolist(), expected_vy=float(LD(v0[1]) + sh))
            else:
                res = np.array([u[k] - n[k] * LD(L[k]) - x1[k] for k in range(3)])
                tol = 64 * R.EPS * (scale + np.array([abs(n[k]) * L[k] for k in range(3)], dtype=LD))
                if not np.array_equal(v0, v1):
                    raise Violation("periodic boundary changed a velocity (hash %d)" % h)
            ctx.stat_max("wrap_residual/tol", float(np.max(np.abs(res) / (tol + 1e-300))))
            if (np.abs(res) > tol).any():
                raise Violation("%s boundary: coordinates changed by something other than whole box lengths%s (hash %d)"
                                % (b, " plus the shear offset" if b == "shear" else "", h),
                                residual=[float(a) for a in res], tol=[float(a) for a in tol], n=n, t=t1)
            if any(n):
                crossed_box = True
            if max(abs(a) for a in n) >= 2:
                multi = True
        # root-box crossing (from the unwrapped motion)
        r0 = np.floor((R.pos(s0)[i0] + half) / cfg["L0"])
        r1 = np.floor((np.array([float(a) for a in u]) + half) / cfg["L0"])
        if (r0 != r1).any():
            crossed_root = True
    if crossed_root:
        ctx.cls("crossed_root")
    if crossed_box:
        ctx.cls("crossed_box")
    if multi:
        ctx.cls("multi_box_step")
    return crossed_root or crossed_box, bool(gone or stamped)


def check_move_to_com(s0, s1, t, cfg, R, ctx):
    """sim.move_to_com() between steps: every unwrapped coordinate is shifted by the centre of mass of the state before
    (computed here in longdouble), velocities by the centre-of-mass velocity; the boundary condition then maps the
    result back into the box by whole box lengths (shear: plus the image's offsets at time t); open: exactly the
    particles the shift pushed out are removed.  Tolerance 64*(N+2)*eps*(largest coordinate/velocity magnitude + n L):
    the library accumulates the centre of mass particle by particle in double."""
    import numpy as np
    LD = R.LD
    L = cfg["L"]
    b = cfg["boundary"]
    n0 = len(s0)
    m = s0["m"].astype(LD)
    M = m.sum()
    X0, V0 = R.pos(s0).astype(LD), R.vel(s0).astype(LD)
    com = (m[:, None] * X0).sum(axis=0) / M
    vcom = (m[:, None] * V0).sum(axis=0) / M
    U, W = X0 - com[None, :], V0 - vcom[None, :]
    kx = 64 * R.EPS * (n0 + 2) * (np.abs(X0).max(axis=0) + np.abs(com))
    kv = 64 * R.EPS * (n0 + 2) * (np.abs(V0).max(axis=0) + np.abs(vcom)) + 1e-300
    o0 = {int(h): i for i, h in enumerate(s0["hash"])}
    o1 = {int(h): i for i, h in enumerate(s1["hash"])}
    half = np.array(L) / 2
    if b in ("periodic", "shear"):
        if set(o0) != set(o1) or len(o1) != len(s1):
            raise Violation("move_to_com under a %s boundary changed the set of particles: lost %s (N %d -> %d)"
                            % (b, sorted(set(o0) - set(o1))[:5], n0, len(s1)))
    else:
        for h, i in o0.items():
            out = (np.abs(U[i]) > half + kx).any()
            inn = (np.abs(U[i]) < half - kx).all()
            if out and h in o1:
                raise Violation("move_to_com, open boundary: particle hash %d was shifted out of the box but kept" % h)
            if inn and h not in o1:
                raise Violation("move_to_com, open boundary: particle hash %d is inside the box after the shift but was removed" % h)
        if set(o1) - set(o0):
            raise Violation("move_to_com created particles")
    X1, V1 = R.pos(s1), R.vel(s1)
    if b in ("periodic", "shear") and len(s1) and (np.abs(X1) > half[None, :]).any():
        k = int(np.nonzero((np.abs(X1) > half[None, :]).any(axis=1))[0][0])
        raise Violation("%s boundary: particle hash %d is outside the box after move_to_com: %r"
                        % (b, int(s1["hash"][k]), X1[k].tolist()))
    crossed = False
    for h, i1 in o1.items():
        i0 = o0[h]
        x1, v1 = X1[i1].astype(LD), V1[i1].astype(LD)
        u, w = U[i0], W[i0]
        if b == "open":
            n = [0, 0, 0]
            res = u - x1
            dv = w - v1
            tol = kx
        else:
            n = [int(np.rint((u[k] - x1[k]) / LD(L[k]))) for k in range(3)]
            sh = LD(0)
            ey = u[1] - x1[1]
            if b == "shear":
                sh = LD(1.5) * n[0] * LD(cfg["omega"]) * LD(L[0])
                ey = u[1] + sh * LD(t) - x1[1]
                n[1] = int(np.rint(ey / LD(L[1])))
            res = np.array([u[0] - n[0] * LD(L[0]) - x1[0], ey - n[1] * LD(L[1]), u[2] - n[2] * LD(L[2]) - x1[2]])
            dv = np.array([w[0] - v1[0], w[1] + sh - v1[1], w[2] - v1[2]])
            tol = kx + 64 * R.EPS * np.array([abs(n[0]) * L[0], abs(n[1]) * L[1] + abs(sh * LD(t)) + L[1], abs(n[2]) * L[2]], dtype=LD)
            if any(n):
                crossed = True
        ctx.stat_max("move_to_com_residual/tol", float(np.max(np.abs(res) / tol)))
        if (np.abs(res) > tol).any():
            raise Violation("move_to_com: coordinates are not (state before - centre of mass) modulo whole box lengths (hash %d)" % h,
                            residual=[float(a) for a in res], tol=[float(a) for a in tol], n=n)
        if (np.abs(dv) > kv + 16 * R.EPS * abs(sh if b == "shear" else 0)).any():
            raise Violation("move_to_com: velocities are not (state before - centre-of-mass velocity) (hash %d)" % h,
                            dv=[float(a) for a in dv])
    ctx.cls("move_to_com")
    if crossed:
        ctx.cls("move_to_com_crossed_face")
    return crossed


def force_check(sim, cfg, R, ctx):
    """theta = 0: the tree force must be the direct sum over all particles in all ghost images (each exactly once)."""
    import numpy as np
    LD = R.LD
    sim.G = 1.0
    sim.opening_angle2 = 0.0
    sim.dt = 0.0
    sim.collision = "none"
    try:
        sim.step()
    except RuntimeError as e:
        raise Violation("library reported an error during a step: %s" % e)
    s = R.snapshot(sim)
    s = s[~np.isnan(s["y"])]
    n = len(s)
    if n < 2:
        return
    X = R.pos(s).astype(LD)
    m = s["m"].astype(LD)
    gcfg = {"boundary": cfg["boundary"], "L": cfg["L"], "nghost": cfg["nghost"], "omega": cfg["omega"]}
    if R.has_tie(gcfg, sim.t, full=True):   # every ring that gravity sums over, not only the innermost one
        return
    A = np.zeros((n, 3), dtype=LD)
    C = np.zeros((n, 3), dtype=LD)
    absX = np.abs(X).sum(axis=1)
    for sh, vs, amb in R.images(gcfg, sim.t, full=True):
        d = (X[:, None, :] + sh.astype(LD)[None, None, :]) - X[None, :, :]
        r2 = (d * d).sum(axis=2)
        np.fill_diagonal(r2, 1)
        rr = np.sqrt(r2)
        w = m[None, :] / (r2 * rr)
        np.fill_diagonal(w, 0)
        A -= (w[:, :, None] * d).sum(axis=1)
        # condition: |term| plus the effect of the rounding of the separation itself (coordinates, image shift and,
        # for shear, the phase vy*t from which the azimuthal offset is reduced) on a 1/r^2 force: 3 |term| * delta/r
        S = absX[:, None] + absX[None, :] + np.abs(sh).sum() + abs(LD(vs[1]) * LD(sim.t))
        C += (w[:, :, None] * np.abs(d)).sum(axis=1) + (3 * w * S)[:, :, None].sum(axis=1)
    got = np.stack([s["ax"], s["ay"], s["az"]], axis=1).astype(LD)
    tol = 64 * R.EPS * C * (1 + math.log2(n + 1)) + 1e-300
    ctx.stat_max("force_err/tol", float(np.max(np.abs(got - A) / tol)))
    if (np.abs(got - A) > tol).any():
        k = int(np.nonzero((np.abs(got - A) > tol).any(axis=1))[0][0])
        raise Violation("tree force with opening angle 0 differs from the direct sum over all particles and images "
                        "(particle hash %d): tree %r, direct %r" % (int(s["hash"][k]), [float(a) for a in got[k]],
                                                                       [float(a) for a in A[k]]), N=n)
    ctx.cls("force_check")


class SkipCase(Exception):
    pass


def run_history(case, ctx):
    try:
        return _run_history(case, ctx)
    except SkipCase as e:
        ctx.skip(str(e))


def _run_history(case, ctx):
    import numpy as np
    from ..oracles import c13_collref as R, c15_treecheck as T
    from . import c13
    cfg = case["cfg"]
    border = cfg.get("border", False)
    L = cfg["L"]
    box = {"L0": cfg["L0"], "layout": cfg["layout"]}
    parts = case["particles"] if border else [nudge(q, cfg) for q in case["particles"]]
    parts = [q for q in parts if inside(q, L) or (border and all(abs(q[ax]) <= 0.5 * L[k] for k, ax in enumerate("xyz")))]
    period = L if cfg["boundary"] in ("periodic", "shear") else None
    if not parts or too_close(parts, cfg["L0"], period=period):
        ctx.skip("coincident or nearly coincident particles")
        return
    faces = [max(on_face(q[ax], L[k], cfg["L0"]) for k, ax in enumerate("xyz")) for q in parts]
    if border:
        if max(faces) == 3 and max(cfg["layout"]) > 1 and ctx.finding_open(KEY_UPPER):
            ctx.excluded(KEY_UPPER)
            return
        if max(faces) >= 1 and ctx.finding_open(KEY_BORDER):
            ctx.excluded(KEY_BORDER)
            return
        for f, name in ((1, "cell_face"), (2, "root_face"), (3, "outer_face")):
            if f in faces:
                ctx.cls("border/" + name)
    sim = new_sim(case)
    coll_tree = cfg["collision"] in ("tree", "linetree")
    tree_cfg = cfg["gravity"] == "tree" or coll_tree
    try:
        c13.fast_add(sim, parts)
    except RuntimeError as e:
        raise Violation("adding particles inside the box failed: %s" % e)
    problems = []
    walks = [0]

    def midstep(sp):
        try:
            if T.has_tree(sim):
                st_ = {}
                T.check(sim, box, gravity_data=(cfg["gravity"] == "tree"), stats=st_)
                walks[0] += 1
                for k, v in st_.items():
                    ctx.stat_max(k, v)
        except T.Problem as e:
            problems.append(str(e))
        except Exception as e:
            problems.append("HARNESS:" + repr(e))
        if pending and pending[0][1] == "forces":
            remove_now()
    pending = []            # at most one [k, where] waiting for the next step
    removed_cb = set()      # hashes removed from inside a callback during the current step

    def remove_now():
        try:
            import ctypes
            from rebound import clibrebound
            k = pending.pop(0)[0]
            s_ = R.snapshot(sim)
            idx = [i for i in range(len(s_)) if not np.isnan(s_["y"][i])]
            if len(idx) < 3:
                return          # removing the last particle(s) of a tree simulation is C14's subject
            i = idx[k % len(idx)]
            clibrebound.reb_simulation_remove_particle.restype = ctypes.c_int
            ret = clibrebound.reb_simulation_remove_particle(ctypes.byref(sim), ctypes.c_int(i), ctypes.c_int(0))
            if ret != 1:
                problems.append("unsorted removal of an existing particle from a callback returned %d" % ret)
            removed_cb.add(int(s_["hash"][i]))
        except Exception as e:
            problems.append("HARNESS:" + repr(e))

    def poststep(sp):
        if pending and pending[0][1] == "post":
            remove_now()

    def attach():
        """(Re-)attach the callbacks by name, as a user restarting from a copy / pickle / file would."""
        sim.additional_forces = midstep
        sim.post_timestep_modifications = poststep
        if coll_tree:
            sim.collision_resolve = resolver
        elif cfg["collision"] != "none":
            sim.collision_resolve = "merge"
    sim.additional_forces = midstep
    sim.post_timestep_modifications = poststep
    # the tree as the collision search uses it: walked from inside the resolver on the first collision of a step (before
    # anything has been merged), and right after every step in which nothing was merged (the search has just rebuilt
    # the tree and nothing has moved since)
    coll = {"calls": 0, "merged": 0, "walked": 0}
    if coll_tree:
        import ctypes
        import rebound
        from rebound import clibrebound
        mergefn = clibrebound.reb_collision_resolve_merge
        mergefn.restype = ctypes.c_int
        mergefn.argtypes = [ctypes.POINTER(rebound.Simulation), rebound.simulation.CollisionS]

        def resolver(sp, c):
            try:
                if coll["calls"] == 0:
                    try:
                        T.check(sim, box, gravity_data=False)
                        coll["walked"] += 1
                    except T.Problem as e:
                        problems.append("COLL:" + str(e))
                coll["calls"] += 1
                N = sim.N
                if not (0 <= c.p1 < N and 0 <= c.p2 < N) or c.p1 == c.p2:
                    problems.append("RES:collision handed to the resolver with indices p1=%d p2=%d outside 0..N-1 (N=%d)"
                                    % (c.p1, c.p2, N))
                    return 0
                pa, pb = sim.particles[c.p1], sim.particles[c.p2]
                if pa.y != pa.y or pb.y != pb.y or pa.hash.value in removed_cb or pb.hash.value in removed_cb:
                    problems.append("RES:collision handed to the resolver for a particle that has been removed "
                                    "(hashes %d, %d)" % (pa.hash.value, pb.hash.value))
                    return 0
                ret = mergefn(sp, c)
                if ret:
                    coll["merged"] += 1
                return ret
            except Exception as e:
                problems.append("HARNESS:" + repr(e))
                return 0
        sim.collision_resolve = resolver
    crossed = False
    event_at = None
    steps_done = 0
    used_hashes = {q["hash"] for q in parts}

    def alive():
        s = R.snapshot(sim)
        return s[~np.isnan(s["y"])]

    def explicit_walk(tag):
        if not tree_cfg:
            return
        a = alive()
        if len(a) and (np.abs(R.pos(a)) > (np.array(L) / 2)[None, :]).any():
            return      # a body merged at the end of the step sits a rounding error outside the box until the next check
        n_alive = len(a)
        try:
            sim.update_tree()
            sim.process_messages()
        except RuntimeError as e:
            if "same coordinates" in str(e) and coincidence_explains(None, a, cfg, R):
                raise SkipCase("two particles at exactly the same point")
            raise Violation("tree update reported an error: %s" % e)
        if sim.N != n_alive:
            raise Violation("after a tree update N=%d but %d particles were not flagged as removed" % (sim.N, n_alive))
        try:
            T.check(sim, box, gravity_data=False)
        except T.Problem as e:
            raise Violation("tree invariant broken after an explicit update (%s): %s" % (tag, e))

    for op in case["ops"]:
        kind = op[0]
        if kind == "step":
            for _ in range(op[1]):
                s0 = alive()
                coll["calls"] = coll["merged"] = 0
                removed_cb.clear()
                try:
                    sim.step()
                except RuntimeError as e:
                    if "same coordinates" in str(e) and coincidence_explains(s0, R.snapshot(sim), cfg, R):
                        ctx.skip("two particles at exactly the same point")
                        return
                    raise Violation("library reported an error during a step: %s" % e)
                for p in problems:
                    if p.startswith("HARNESS:"):
                        raise RuntimeError(p)
                if problems:
                    if problems[0].startswith("RES:"):
                        raise Violation("%s collision search: %s" % (cfg["collision"], problems[0][4:]), step=steps_done)
                    if problems[0].startswith("COLL:"):
                        raise Violation("tree invariant broken at the moment the collision search uses the tree: %s"
                                        % problems[0][5:], step=steps_done)
                    raise Violation("tree invariant broken at the moment the tree is used (mid-step): %s" % problems[0],
                                    step=steps_done)
                if coll_tree and coll["merged"] == 0 and T.has_tree(sim):
                    try:
                        T.check(sim, box, gravity_data=False)
                        coll["walked"] += 1
                    except T.Problem as e:
                        raise Violation("tree invariant broken right after the %s collision search of a step (nothing "
                                        "was merged, nothing moved since): %s" % (cfg["collision"], e), step=steps_done)
                steps_done += 1
                s1 = alive()
                if removed_cb:
                    # removed by the user from inside a callback during this step: must be gone, everything else as usual
                    still = removed_cb & {int(h) for h in s1["hash"]}
                    if still:
                        raise Violation("particle removed from inside a callback is still there after the step: hashes %s"
                                        % sorted(still))
                    s0 = s0[[int(h) not in removed_cb for h in s0["hash"]]]
                    ctx.cls("removed_in_callback")
                    if event_at is None:
                        event_at = steps_done
                c, ev = check_step(s0, s1, sim.t, cfg, tree_cfg, R, ctx, None)
                crossed = crossed or c
                if ev and event_at is None:
                    event_at = steps_done
            if op[2]:
                explicit_walk("after step")
        elif kind == "add":
            q = op[1] if border else nudge(op[1], cfg)
            cur = alive()
            if q["hash"] in used_hashes or not (inside(q, L) or border) or \
                    too_close([{"x": cur["x"][i], "y": cur["y"][i], "z": cur["z"][i]} for i in range(len(cur))],
                              cfg["L0"], extra=(q["x"], q["y"], q["z"]), period=period):
                continue
            if border and not all(abs(q[ax]) <= 0.5 * L[k] for k, ax in enumerate("xyz")):
                continue
            raw = R.snapshot(sim)
            fl = [i for i in range(len(raw)) if np.isnan(raw["y"][i])]
            if tree_cfg and any(abs(raw["x"][i] - q["x"]) < 1e-10 * cfg["L0"] and abs(raw["z"][i] - q["z"]) < 1e-10 * cfg["L0"]
                                for i in fl) and ctx.finding_open(KEY_ADD_FLAGGED):
                ctx.excluded(KEY_ADD_FLAGGED)   # replacement placed onto a particle that is only flagged for removal
                continue
            used_hashes.add(q["hash"])
            try:
                c13.fast_add(sim, [q])
            except RuntimeError as e:
                raise Violation("adding a particle inside the box failed: %s" % e)
            ctx.cls("user_added")
            if event_at is None:
                event_at = steps_done
        elif kind == "remove":
            s = R.snapshot(sim)
            idx = [i for i in range(len(s)) if not np.isnan(s["y"][i])]
            if len(idx) < 3:
                continue        # removing the last particle(s) of a tree simulation is C14's subject
            i = idx[op[1] % len(idx)]
            h = int(s["hash"][i])
            try:
                sim.remove(index=i, keep_sorted=False)
            except RuntimeError as e:
                raise Violation("unsorted removal of an existing particle failed: %s" % e)
            after = alive()
            if h in set(int(x) for x in after["hash"]) or len(after) != len(idx) - 1:
                raise Violation("unsorted removal did not remove exactly the requested particle")
            ctx.cls("user_removed")
            if event_at is None:
                event_at = steps_done
        elif kind == "restore":
            import os
            import pickle
            import rebound
            before = R.snapshot(sim)
            fl = np.isnan(before["y"])
            if tree_cfg and fl.any() and ctx.finding_open(KEY_ADD_FLAGGED) and any(
                    abs(before["x"][i] - before["x"][j]) < 1e-10 * cfg["L0"] and abs(before["z"][i] - before["z"][j]) < 1e-10 * cfg["L0"]
                    for i in np.nonzero(fl)[0] for j in np.nonzero(~fl)[0]):
                ctx.excluded(KEY_ADD_FLAGGED)   # the rebuild inserts a live particle into the leaf of a flagged one
                continue
            if np.isnan(before["y"]).any() and tree_cfg and ctx.finding_open(KEY_RESTORE):
                ctx.excluded(KEY_RESTORE)       # restoring with a flag-only removal pending: known finding, see report
                continue
            try:
                if op[1] == "copy":
                    new = sim.copy()
                elif op[1] == "pickle":
                    new = pickle.loads(pickle.dumps(sim))
                else:
                    path = os.path.join(ctx.scratch, "c15_restore.bin")
                    if os.path.exists(path):
                        os.unlink(path)
                    sim.save_to_file(path)
                    new = rebound.Simulation(path)
                    os.unlink(path)
                new.process_messages()
            except RuntimeError as e:
                if "same coordinates" in str(e) and coincidence_explains(None, before, cfg, R):
                    # two particles at exactly the same point (a merger can land on another particle): the tree's
                    # documented error; the restored object is then not usable - not an input this property speaks about
                    ctx.skip("two particles at exactly the same point")
                    return
                raise Violation("restoring the simulation (%s) failed: %s" % (op[1], e))
            sim = new
            attach()
            after = R.snapshot(sim)
            # the restored object holds the same particles (flagged ones included: they leave at the next tree update)
            if len(after) != len(before) or any(not c13.same_row(before[i], after[i]) for i in range(len(before))):
                raise Violation("restored simulation (%s) does not hold the same particles" % op[1],
                                N_before=len(before), N_after=len(after))
            ctx.cls("restore/" + op[1])
            if np.isnan(before["y"]).any():
                ctx.cls("restore_with_pending_removal")
        elif kind == "remove_cb":
            # (with tree gravity and a DIRECT search the flagged particle (y = NaN) used to be reported as colliding with
            # every other particle: fixed in /repo, regression case corpus/C15/fixed-direct-search-flagged-particle.json)
            del pending[:]
            pending.append([op[1], op[2]])
        elif kind == "move_to_com":
            raw = R.snapshot(sim)
            if np.isnan(raw["y"]).any() or len(raw) == 0 or float(raw["m"].sum()) <= 0.0:
                continue        # a pending flag-only removal (NaN would enter the centre of mass) or no mass
            try:
                sim.move_to_com()
                sim.process_messages()      # "no queued error"
            except RuntimeError as e:
                if "same coordinates" in str(e) and coincidence_explains(None, R.snapshot(sim), cfg, R):
                    raise SkipCase("two particles at exactly the same point")
                raise Violation("move_to_com reported an error: %s" % e, N_before=len(raw), N_after=sim.N)
            after = alive()
            if check_move_to_com(raw, after, sim.t, cfg, R, ctx):
                crossed = True
            if tree_cfg and T.has_tree(sim):
                # move_to_com itself rebuilds the tree (documented in its source): walk it now
                try:
                    T.check(sim, box, gravity_data=False)
                except T.Problem as e:
                    raise Violation("tree invariant broken after move_to_com: %s" % e)
            if event_at is None:
                event_at = steps_done
        elif kind == "walk":
            explicit_walk("walk op")
    if walks[0]:
        ctx.cls("midstep_walks")
    if coll["walked"]:
        ctx.cls("collision_search_walks")
    if case.get("force_check") and cfg["gravity"] == "tree" and len(alive()) >= 2:
        sim.additional_forces = midstep
        force_check(sim, cfg, R, ctx)
        if problems:
            raise Violation("tree invariant broken at the moment the tree is used (force check): %s" % problems[0])
    ctx.cls("boundary/" + cfg["boundary"])
    ctx.cls("tree/gravity" if cfg["gravity"] == "tree" else ("tree/collision" if coll_tree else "tree/none"))
    if coll_tree:
        ctx.cls("collision/" + cfg["collision"])
    if crossed and event_at is not None and steps_done - event_at >= 5:
        ctx.nontrivial()
    elif border and max(faces) >= 1 and steps_done >= 3:
        ctx.nontrivial()


def subs(tier):
    return [
        Sub("boundary_hist", run_history, strategy=history(border=False), quick=2000, thorough=48000, shards_quick=8,
            shards_thorough=16, timeout_quick=1500),
        Sub("border_hist", run_history, strategy=history(border=True), quick=1000, thorough=24000, shards_quick=8,
            shards_thorough=16, timeout_quick=1500),
    ]


def prepare(tier):
    from .. import build
    build.helper("c15_treewalk", "opt")
