"""C07 - a crash during an archive write never loses completed snapshots (fault enumeration)."""
import os
import struct

from hypothesis import strategies as st

from ..core import Sub, Violation
from .. import strategies as S
from .c06 import apply_cfg

PROPERTY = "C07"
LEVEL = "fault_enumeration"
RULE = ("Generated uninterrupted runs (integrators that promise bit-wise restarts; manual snapshots and automatic "
        "step cadence) are recorded as the sequence of file images after each write.  Crash model: a prefix of the "
        "bytes of ONE write reached the disk: every prefix of the initial file; for an append, the in-place 12-byte "
        "trailer patch torn at every byte (nothing appended), the full patch plus every prefix of the appended bytes, "
        "and 'appended bytes landed, patch did not'.  Every byte offset of every write is enumerated (exhaustive per "
        "archive).  Oracle per image: opening (Python Simulationarchive and C reb_simulationarchive_create_from_file) "
        "must not crash; no complete snapshot -> error; otherwise exactly the completed snapshots are exposed "
        "(cut inside the final 12-byte trailer of a snapshot: k or k+1 accepted) and each equals the uninterrupted "
        "run's; restarting from the last exposed snapshot and appending with the same cadence reproduces the "
        "uninterrupted archive's snapshots.  Non-trivial = image whose cut lies strictly inside a snapshot; distinct by "
        "(archive, write, kind, offset).")
ASSUMPTIONS = [
    "crash model: bytes of a single write reach the disk as a prefix (plus the patch/append reordering class); no arbitrary corruption",
    "file images of an interrupted write are computed from the images before/after that write (verified: they differ only in the 12-byte trailer patch and the appended tail)",
    "a snapshot 'completed' once its END field is on disk; a cut inside its 12-byte trailer may expose it or not",
]
CLASSES = ["crashcut/cut/first_header", "crashcut/cut/first_field", "crashcut/cut/first_trailer",
           "crashcut/cut/torn_patch", "crashcut/cut/append_field", "crashcut/cut/append_end",
           "crashcut/cut/append_trailer", "crashcut/cut/append_without_patch", "crashcut/restart/done"]

BITWISE_FAMS = ["whfast", "saba", "leapfrog", "ias15", "janus", "mercurius", "eos"]

archive_case = st.fixed_dictionaries({
    "system": S.hierarchical_system(nmin=2, nmax=3),
    "cfg": S.integrator_config(BITWISE_FAMS),
    "dt_frac": st.sampled_from([0.02, 0.05]),
    "mode": st.sampled_from(["manual", "manual", "step", "interval", "interval"]),
    "backward": st.booleans(),
    "gaps": st.lists(st.integers(1, 6), min_size=2, max_size=4),
    "step": st.integers(2, 5),
    "ops_between": st.lists(st.sampled_from(["none", "none", "add", "remove", "dt"]), min_size=4, max_size=4),
    "restart_stride": st.sampled_from([7, 11, 13]),
})


def make_sim(case):
    from .. import rb
    sysd = case["system"]
    sim = rb.new_sim({"G": sysd["G"], "particles": sysd["particles"]})
    cfg = case["cfg"]
    apply_cfg(sim, cfg)
    # bit-wise restarts with deferred synchronisation need keep_unsynchronized (docs); otherwise use safe mode
    for p, v in cfg.get("set", []):
        if p.endswith("safe_mode") and v == 0:
            fam = p.split(".")[0]
            if fam in ("ri_whfast", "ri_saba"):
                setattr(getattr(sim, fam), "keep_unsynchronized", 1)
            else:
                setattr(getattr(sim, fam), "safe_mode", 1)
    sim.dt = case["dt_frac"] * sysd["P_min"] * (-1.0 if case.get("backward") else 1.0)
    return sim


def between(sim, op, j):
    """Edits between snapshots (make the delta structurally interesting)."""
    import math
    if op == "add":
        sim.ri_whfast.keep_unsynchronized = 0
        sim.ri_saba.keep_unsynchronized = 0
        sim.synchronize()
        a = 40.0 + 13.0 * j
        sim.add(m=0.0, x=a, vy=math.sqrt(sim.G * sim.particles[0].m / a))
    elif op == "remove" and sim.N > 2:
        sim.ri_whfast.keep_unsynchronized = 0
        sim.ri_saba.keep_unsynchronized = 0
        sim.synchronize()
        sim.remove(sim.N - 1)
    elif op == "dt":
        sim.ri_whfast.keep_unsynchronized = 0
        sim.ri_saba.keep_unsynchronized = 0
        sim.synchronize()
        sim.dt = sim.dt * 0.5


def arm(sim, case, path):
    """(Re-)attach the automatic snapshots with the cadence of the case (what a user does first, and again on restart)."""
    if case["mode"] == "step":
        sim.save_to_file(path, step=case["step"])
    else:
        sim.save_to_file(path, interval=(case["step"] + 0.37) * abs(case["dt_frac"] * case["system"]["P_min"]))


def uninterrupted(case, path, upto=None, start_sim=None, start_k=0):
    """Runs the scripted history writing to `path`.  Returns list of file images after each write.
    With start_sim/start_k the history is resumed after snapshot start_k-1 (restart)."""
    import rebound
    sim = start_sim if start_sim is not None else make_sim(case)
    images = []
    gaps = case["gaps"]
    if case["mode"] == "manual":
        k = start_k
        if start_sim is None:
            sim.save_to_file(path)
            images.append(open(path, "rb").read())
            k = 1
        for j in range(k - 1, len(gaps)):
            sim.steps(gaps[j])
            between(sim, case["ops_between"][j % 4], j)
            sim.save_to_file(path)
            images.append(open(path, "rb").read())
    else:
        # automatic cadence by step count; images are taken from a heartbeat after each step
        nsteps_total = sum(gaps) * 2
        stepI = case["step"]
        last = [len(open(path, "rb").read()) if os.path.exists(path) else -1]

        def hb(simp):
            try:
                n = os.path.getsize(path)
            except OSError:
                return
            if n != last[0]:
                last[0] = n
                images.append(open(path, "rb").read())
        arm(sim, case, path)
        sim.heartbeat = hb
        target_steps = nsteps_total
        # integrate a whole number of steps (no exact finishing: bitwise restart)
        tmax = sim.t + (target_steps - sim.steps_done + 0.5) * sim.dt
        case["_tmax"] = tmax            # the restart continues to the same absolute end time
        sim.integrate(tmax, exact_finish_time=0)
        hb(None)
    return images, sim


def crash_images(prev, cur):
    """All crash images of the write that turned file image `prev` into `cur` (prev None = initial write).
    Yields (kind, offset, bytes)."""
    if prev is None:
        for n in range(len(cur)):
            yield ("first", n, cur[:n])
        return
    L = len(prev)
    assert cur[:L - 12] == prev[:L - 12], "append changed bytes before the previous trailer"
    newtr = cur[L - 12:L]
    tail = cur[L:]
    for j in range(0, 12):          # torn patch (j patched bytes), nothing appended; j=0 is the intact previous file
        if j == 0:
            continue
        yield ("torn_patch", j, prev[:L - 12] + newtr[:j] + prev[L - 12 + j:])
    for n in range(len(tail)):      # full patch + prefix of appended bytes
        yield ("append", n, prev[:L - 12] + newtr + tail[:n])
    for n in (len(tail), len(tail) - 1, len(tail) - 12, len(tail) // 2):   # appended bytes landed, patch did not
        if n > 0:
            yield ("append_without_patch", n, prev + tail[:n])


def classify_cut(kind, off, prev, cur):
    from ..oracles import sa_format
    if kind == "first":
        if off < 64:
            return "first_header"
        if off > len(cur) - 12:
            return "first_trailer"
        return "first_field"
    if kind == "torn_patch":
        return "torn_patch"
    if kind == "append_without_patch":
        return "append_without_patch"
    tail_len = len(cur) - len(prev)
    if off > tail_len - 12:
        return "append_trailer"
    if off > tail_len - 28:
        return "append_end"
    return "append_field"


def run_crashcut(case, ctx):
    import warnings
    import json
    import ctypes
    import rebound
    from rebound import clibrebound
    from .. import rb
    from ..oracles import sa_format
    warnings.simplefilter("ignore")
    names = rb.field_names()
    path = os.path.join(ctx.scratch, "u.bin")
    if os.path.exists(path):
        os.unlink(path)
    try:
        images, simfinal = uninterrupted(case, path)
    except (RuntimeError, rebound.Escape, rebound.Encounter, rebound.Collision, rebound.NoParticles):
        ctx.skip("uninterrupted run raised")
        return
    if len(images) < 2:
        ctx.skip("fewer than two writes")
        return
    # reference: snapshots of the uninterrupted archive
    sa = rebound.Simulationarchive(path)
    if sa.nblobs != len(images):
        raise Violation("uninterrupted archive has %d snapshots after %d writes" % (sa.nblobs, len(images)))
    ref_maps = [rb.smap(sa[i]) for i in range(sa.nblobs)]
    ref_t = [sa.t[i] for i in range(sa.nblobs)]
    del sa
    cpath = os.path.join(ctx.scratch, "c.bin")
    marker = os.path.join(ctx.scratch, "marker")
    resfile = os.path.join(ctx.scratch, "res.json")
    # enumerate all images of all writes
    work = []
    for k in range(len(images)):
        prev = images[k - 1] if k else None
        for kind, off, img in crash_images(prev, images[k]):
            work.append((k, kind, off, img, classify_cut(kind, off, prev or b"", images[k])))
    clibrebound.reb_simulationarchive_create_from_file.restype = ctypes.c_void_p
    clibrebound.reb_simulationarchive_free.argtypes = [ctypes.c_void_p]
    clibrebound.reb_simulation_create_from_file.restype = ctypes.c_void_p
    clibrebound.reb_simulation_free.argtypes = [ctypes.c_void_p]

    def end_field_on_disk(k, kind, off):
        """True if the END field of snapshot k is fully contained in the image (snapshot content complete)."""
        if kind == "first":
            return off >= len(images[0]) - 12
        if kind == "append":
            return off >= (len(images[k]) - len(images[k - 1])) - 12
        return False

    def eval_one(k, kind, off, img, cls, full_load=True):
        with open(cpath, "wb") as f:
            f.write(img)
        allowed = {k}
        if end_field_on_disk(k, kind, off):
            allowed.add(k + 1)
        if kind == "append_without_patch":
            # the previous trailer still says "last snapshot": the appended bytes are unreachable garbage or,
            # if the reader follows them, a complete snapshot; both k and (if complete) k+1 are legitimate
            if off == len(images[k]) - len(images[k - 1]):
                allowed.add(k + 1)
        # 1. python front end
        try:
            sa = rebound.Simulationarchive(cpath)
            n = sa.nblobs
        except RuntimeError as e:
            sa, n = None, 0
        if n == 0:
            if 0 not in allowed:
                return ("opening fails although %d snapshot(s) were completely written" % k, {})
            if sa is not None:
                return ("no complete snapshot in the file but no error is reported (nblobs=%d)" % n, {})
        else:
            if n not in allowed:
                return ("archive exposes %d snapshots, %s completed" % (n, sorted(allowed)), {"nblobs": n})
            for i in range(n):
                if rb.dbits(sa.t[i]) != rb.dbits(ref_t[i]):
                    return ("exposed snapshot %d has time %r, uninterrupted run %r" % (i, sa.t[i], ref_t[i]), {})
                if not full_load and i < n - 1:
                    continue    # quick tier: earlier snapshots are loaded and compared for every 8th image only
                try:
                    s = sa[i]
                except Exception as e:
                    return ("exposed snapshot %d cannot be loaded: %r" % (i, e), {})
                m = rb.smap(s)
                if m != ref_maps[i]:
                    return ("exposed snapshot %d differs from the uninterrupted run's" % i,
                            {"diff": sa_format.map_diff(ref_maps[i], m, names)[:6]})
        del sa
        # 2. C front end
        p = clibrebound.reb_simulationarchive_create_from_file(cpath.encode("ascii"))
        if p:
            nb = ctypes.cast(p, ctypes.POINTER(rebound.Simulationarchive)).contents.nblobs
            clibrebound.reb_simulationarchive_free(p)
            if nb not in allowed or nb == 0:
                return ("C front end exposes %d snapshots, %s completed" % (nb, sorted(allowed)), {"nblobs": nb})
        else:
            if 0 not in allowed:
                return ("C front end returns NULL although %d snapshot(s) completed" % k, {})
        # 3. C front end, direct load of the last snapshot
        q = clibrebound.reb_simulation_create_from_file(cpath.encode("ascii"), ctypes.c_int64(-1))
        if q:
            tq = ctypes.cast(q, ctypes.POINTER(rebound.Simulation)).contents.t
            clibrebound.reb_simulation_free(q)
            if n == 0:
                return ("reb_simulation_create_from_file returns a simulation although no snapshot is complete", {})
            if rb.dbits(tq) != rb.dbits(ref_t[n - 1]):
                return ("reb_simulation_create_from_file(-1) gives t=%r, last exposed snapshot has t=%r" % (tq, ref_t[n - 1]), {})
        else:
            if n > 0:
                return ("reb_simulation_create_from_file returns NULL although %d snapshots are exposed" % n, {})
        return None

    def restart_one(k, kind, off, img):
        """Restart from the last exposed snapshot of the crash image and continue the scripted history."""
        with open(cpath, "wb") as f:
            f.write(img)
        try:
            sa = rebound.Simulationarchive(cpath)
        except RuntimeError:
            return None
        n = sa.nblobs
        sim = sa[n - 1]
        del sa
        cfg = case["cfg"]
        for p, v in cfg.get("set", []):
            if p in ("ri_mercurius.L",):
                rb.setpath(sim, p, v)
        if case["mode"] == "manual":
            # resume after snapshot n-1
            imgs, _ = uninterrupted(case, cpath, start_sim=sim, start_k=n)
        else:
            arm(sim, case, cpath)
            sim.integrate(case["_tmax"], exact_finish_time=0)
        sa2 = rebound.Simulationarchive(cpath)
        if sa2.nblobs != len(ref_maps):
            return ("after restart from snapshot %d the archive has %d snapshots, uninterrupted run %d"
                    % (n - 1, sa2.nblobs, len(ref_maps)), {"nblobs": sa2.nblobs})
        for i in range(sa2.nblobs):
            if rb.dbits(sa2.t[i]) != rb.dbits(ref_t[i]):
                return ("after restart snapshot %d has time %r, uninterrupted %r" % (i, sa2.t[i], ref_t[i]), {})
            m = rb.smap(sa2[i])
            if m != ref_maps[i]:
                return ("after restart from snapshot %d, snapshot %d differs from the uninterrupted run's" % (n - 1, i),
                        {"diff": sa_format.map_diff(ref_maps[i], m, names)[:6]})
        return None

    # ---- run in contained workers; a dying worker identifies the image through the marker file
    start = 0
    counts = {}
    nontriv = 0
    stride = case["restart_stride"] if ctx.tier == "quick" else 1
    while start < len(work):
        pid = os.fork()
        if pid == 0:
            out = {"fail": None, "counts": {}, "done": start}
            try:
                dn = os.open(os.devnull, os.O_WRONLY)     # the C front end reports errors on stderr
                os.dup2(dn, 2)
            except OSError:
                pass
            try:
                with open(marker, "w") as mf:
                    for idx in range(start, len(work)):
                        k, kind, off, img, cls = work[idx]
                        mf.seek(0)
                        mf.write("%d\n" % idx)
                        mf.flush()
                        r = eval_one(k, kind, off, img, cls, full_load=(ctx.tier != "quick" or idx % 8 == 0))
                        # restart from the last intact snapshot: every image of the last write and of the
                        # first append (restart from snapshot 0, steps_done == 0), a sample of the others
                        edge = k in (1, len(images) - 1)
                        if r is None and k >= 1 and kind != "append_without_patch" and \
                                (idx % (stride if edge else 4 * stride + 1) == 0 or
                                 (edge and cls in ("torn_patch", "append_end"))):
                            r = restart_one(k, kind, off, img)
                            out["counts"]["restart"] = out["counts"].get("restart", 0) + 1
                        out["counts"][cls] = out["counts"].get(cls, 0) + 1
                        if r is not None:
                            out["fail"] = {"idx": idx, "msg": r[0], "details": r[1]}
                            break
                        out["done"] = idx + 1
            except BaseException as e:
                import traceback
                out["error"] = traceback.format_exc()
            with open(resfile, "w") as f:
                json.dump(out, f, default=repr)
            os._exit(0)
        _, st = os.waitpid(pid, 0)
        if os.path.exists(resfile):
            out = json.load(open(resfile))
            os.unlink(resfile)
            for c, v in out["counts"].items():
                counts[c] = counts.get(c, 0) + v
            if out.get("error"):
                raise RuntimeError("worker error: " + out["error"])
            if out["fail"]:
                k, kind, off, img, cls = work[out["fail"]["idx"]]
                raise Violation("write %d cut (%s, offset %d, class %s): %s" % (k, kind, off, cls, out["fail"]["msg"]),
                                write=k, kind=kind, offset=off, cls=cls, image_len=len(img), **out["fail"]["details"])
            start = len(work)
        else:
            idx = int(open(marker).read().strip() or start)
            k, kind, off, img, cls = work[idx]
            sig = os.WTERMSIG(st) if os.WIFSIGNALED(st) else None
            raise Violation("write %d cut (%s, offset %d, class %s): opening the file kills the process (signal %s)"
                            % (k, kind, off, cls, sig), write=k, kind=kind, offset=off, cls=cls, signal=sig,
                            image_len=len(img))
    for c, v in counts.items():
        name = "restart/done" if c == "restart" else "cut/" + c
        ctx.classes[name] = ctx.classes.get(name, 0) + v
        ctx._cur_classes.append(name)
    ctx.cls("mode/" + case["mode"])
    if case.get("backward"):
        ctx.cls("backward")
    ctx.stat_max("images_per_archive", len(work))
    # evidence counts IMAGES: each (archive, write, kind, offset) is one evaluation; non-trivial = the cut lies
    # strictly inside a snapshot (every generated image does: boundary images are the intact files)
    from ..core import case_hash
    ah = case_hash(case)
    for idx in range(len(work)):
        ctx.nontrivial_hashes.add("%s:%d" % (ah[:10], idx))
    ctx.evaluations += len(work) - 1


def _asan_driver():
    """Compile the harness-owned reader driver against the ASan+UBSan build (cached in the build dir)."""
    import hashlib
    import subprocess
    from .. import build
    d = build.build("asan")
    src = os.path.join(build.VERIF, "vf", "chelpers", "c07_asan_reader.c")
    h = hashlib.sha256(open(src, "rb").read()).hexdigest()[:10]
    exe = os.path.join(d, "c07_asan_reader2-" + h)
    if not os.path.exists(exe):
        cc, flags, ld = build.VARIANTS["asan"]
        cmd = [cc, "-D_GNU_SOURCE", "-w"] + flags + ld + ["-I", os.path.join(d, "include"), src, "-L", d,
               "-l:librebound.so", "-Wl,-rpath," + d, "-lm", "-o", exe + ".tmp%d" % os.getpid()]
        r = subprocess.run(cmd, capture_output=True, text=True)
        if r.returncode != 0:
            raise RuntimeError("asan driver build failed: " + r.stderr[-2000:])
        os.rename(exe + ".tmp%d" % os.getpid(), exe)
    return exe


def prepare(tier):
    _asan_driver()


def run_asan(case, ctx):
    """All crash images of a generated archive through the C readers of the ASan+UBSan build."""
    import subprocess
    import warnings
    import rebound
    warnings.simplefilter("ignore")
    path = os.path.join(ctx.scratch, "ua.bin")
    if os.path.exists(path):
        os.unlink(path)
    try:
        images, _ = uninterrupted(case, path)
    except (RuntimeError, rebound.Escape, rebound.Encounter, rebound.Collision, rebound.NoParticles):
        ctx.skip("uninterrupted run raised")
        return
    if len(images) < 2:
        ctx.skip("fewer than two writes")
        return
    work = []
    for k in range(len(images)):
        prev = images[k - 1] if k else None
        for kind, off, img in crash_images(prev, images[k]):
            work.append((k, kind, off, img))
    pack = os.path.join(ctx.scratch, "pack.bin")
    with open(pack, "wb") as f:
        for k, kind, off, img in work:
            f.write(struct.pack("<I", len(img)))
            f.write(img)
    exe = _asan_driver()
    rt = subprocess.run(["clang", "-print-file-name=libclang_rt.asan-x86_64.so"], capture_output=True, text=True).stdout.strip()
    env = dict(os.environ, LD_LIBRARY_PATH=os.path.dirname(rt) + ":" + os.environ.get("LD_LIBRARY_PATH", ""), ASAN_OPTIONS="detect_leaks=0:abort_on_error=0:exitcode=66", UBSAN_OPTIONS="halt_on_error=1:exitcode=67")
    r = subprocess.run([exe, pack, os.path.join(ctx.scratch, "img.bin")], capture_output=True, text=True, env=env, timeout=3000)
    lines = r.stdout.strip().splitlines()
    if r.returncode != 0 or not lines or not lines[-1].startswith("DONE"):
        idx = None
        for l in reversed(lines):
            if l.startswith("IMG"):
                idx = int(l.split()[1])
                break
        k, kind, off, img = work[idx] if idx is not None else (None, None, None, b"")
        rep = [l for l in r.stderr.splitlines() if "ERROR" in l or "SUMMARY" in l or "runtime error" in l][:4]
        raise Violation("sanitizer build: reading crash image of write %s (%s, offset %s) fails with exit code %d: %s"
                        % (k, kind, off, r.returncode, " | ".join(rep)[:400]), write=k, kind=kind, offset=off,
                        exitcode=r.returncode)
    from ..core import case_hash
    ah = case_hash(case)
    for idx in range(len(work)):
        ctx.nontrivial_hashes.add("%s:%d" % (ah[:10], idx))
    ctx.evaluations += len(work) - 1
    ctx.classes["asan_images"] = ctx.classes.get("asan_images", 0) + len(work)


def subs(tier):
    return [
        Sub("crashcut", run_crashcut, strategy=archive_case, quick=24, thorough=480, shards_quick=16,
            shards_thorough=16, timeout_quick=600),
        Sub("asan_reader", run_asan, strategy=archive_case, quick=8, thorough=160, shards_quick=4,
            shards_thorough=16, timeout_quick=600),
    ]


def extra_evidence(tier):
    return {"exhaustive_per_archive": True,
            "note": "evaluations counts crash images (archive, write, kind, offset); every byte offset of every write of each generated archive is enumerated; per_subcheck.evaluations likewise"}
