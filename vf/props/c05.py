"""C05 - a saved simulation restores bit-for-bit and continues bit-for-bit."""
import os
import pickle

from hypothesis import strategies as st

from ..core import Sub, Violation
from .. import strategies as S
from .c06 import apply_cfg, set_peri_mode

PROPERTY = "C05"
LEVEL = "exploration"
RULE = ("Generated simulations (integrator from the documented option lattice, every documented user-settable "
        "option drawn non-default with probability 1/2, optional variational particles / MEGNO / merging "
        "collisions / test particles), advanced k steps (also unsynchronised and adaptive mid-run states), saved by "
        "file, by stream (pickle / bytes) and by copy, restored, callbacks re-attached by name, both continued m "
        "steps.  Oracle: field maps (own parser) of original and restored identical; every option set reads back "
        "identical on the restored object; particle bits, t, dt, steps_done equal after every further step; "
        "re-saving the restored simulation reproduces the map.  Non-trivial = >=1 non-default option, k>=1, m>=1 and "
        "an integrator with cross-step state; distinct by case hash.")
ASSUMPTIONS = [
    "callbacks (collision resolver, MERCURIUS L, TRACE S/S_peri) are re-attached by the user by name after restore, as the property states",
    "pointer members, struct padding, walltime and the callbacks-used flag are not persisted quantities",
]
CLASSES = ["roundtrip/unsync", "roundtrip/variation", "roundtrip/megno", "roundtrip/merged", "roundtrip/file",
           "roundtrip/pickle", "roundtrip/copy", "roundtrip/bytes", "roundtrip/testparticles"]

# (path, candidate non-default values); written from docs/integrators.md and docs/simulationvariables.md
COMMON_OPTS = [
    ("softening", [1e-3, 1e-5]),
    ("testparticle_hidewarnings", [1]),
    ("exit_max_distance", [1e5]),
    ("exit_min_distance", [1e-9]),
    ("track_energy_offset", [1]),
    ("usleep", [0.0]),
    ("rand_seed", [12345, 7]),
    ("minimum_collision_velocity", [1e-9]),
    ("collision_resolve_keep_sorted", [1]),
    ("exact_finish_time", [0]),
    ("opening_angle2", [0.3]),
    ("force_is_velocity_dependent", [1]),
]
FAMILY_OPTS = {
    "whfast": [("ri_whfast.recalculate_coordinates_this_timestep", [1])],
    "saba": [],
    "eos": [],
    "ias15": [("ri_ias15.min_dt", [1e-9])],
    "bs": [("ri_bs.min_dt", [1e-9]), ("ri_bs.max_dt", [1e3])],
    "janus": [("ri_janus.recalculate_integer_coordinates_this_timestep", [1])],
    "mercurius": [("ri_mercurius.recalculate_coordinates_this_timestep", [1]),
                  ("ri_mercurius.recalculate_r_crit_this_timestep", [1])],
    "trace": [("ri_trace.r_crit_hill", [2.5, 4.0]), ("ri_trace.peri_crit_eta", [0.5, 2.0])],
    "leapfrog": [],
}
# settings of *other* integrators are persisted too, whatever integrator is selected
FOREIGN_OPTS = [
    ("ri_whfast.corrector", [11]), ("ri_whfast.safe_mode", [0]), ("ri_saba.type", ["10,6,4"]),
    ("ri_eos.phi0", ["lf4"]), ("ri_eos.n", [4]), ("ri_ias15.epsilon", [1e-7]), ("ri_ias15.adaptive_mode", [1]),
    ("ri_bs.eps_rel", [1e-7]), ("ri_janus.order", [8]), ("ri_janus.scale_pos", [1e-14]),
    ("ri_mercurius.r_crit_hill", [5.0]), ("ri_mercurius.safe_mode", [0]), ("ri_sei.OMEGA", [2.0]),
    ("ri_sei.OMEGAZ", [3.0]), ("ri_whfast512.gr_potential", [1]), ("ri_whfast512.N_systems", [2]),
    ("ri_trace.peri_mode", ["PARTIAL_BS", "FULL_IAS15"]), ("ri_whfast.kernel", ["lazy"]),
    ("ri_whfast.coordinates", ["whds"]), ("ri_eos.safe_mode", [0]), ("ri_saba.safe_mode", [0]),
]


@st.composite
def roundtrip_case(draw):
    cfg = draw(S.integrator_config())
    fam = cfg["family"]
    sysd = draw(S.hierarchical_system(nmin=2, nmax=5, emax=0.6 if fam in ("ias15", "bs") else 0.3,
                                      allow_massless=True))
    opts = []
    pool = COMMON_OPTS + FAMILY_OPTS[fam]
    for path, vals in pool:
        if draw(st.booleans()):
            opts.append([path, draw(st.sampled_from(vals))])
    for path, vals in FOREIGN_OPTS:
        if path.split(".")[0] == "ri_" + fam or (fam == "saba" and path.startswith("ri_whfast")) \
                or (fam == "mercurius" and path.startswith(("ri_whfast", "ri_ias15"))) \
                or (fam == "trace" and path.startswith(("ri_whfast", "ri_bs", "ri_ias15", "ri_trace.peri_mode"))):
            continue
        if draw(st.integers(0, 3)) == 0:
            opts.append([path, draw(st.sampled_from(vals))])
    extra = draw(st.sampled_from(["none", "none", "variation", "variation2", "megno", "merge", "testparticles"]))
    if extra in ("variation", "variation2", "megno") and fam not in ("ias15", "bs"):
        if fam == "whfast" and dict(map(tuple, cfg["set"])).get("ri_whfast.coordinates") == "jacobi" \
                and dict(map(tuple, cfg["set"])).get("ri_whfast.kernel") == "default" and extra != "variation2":
            pass
        else:
            extra = "none"
    if extra == "merge" and fam in ("janus",):
        extra = "none"
    return {
        "system": sysd, "cfg": cfg, "opts": opts, "extra": extra,
        "dt_frac": draw(st.sampled_from([0.01, 0.037, 0.05])),
        "backward": draw(st.integers(0, 4)) == 0,
        "k": draw(st.integers(0, 12)), "m": draw(st.integers(1, 8)),
        "method": draw(st.sampled_from(["file", "pickle", "copy", "bytes"])),
        "presave_ops": draw(st.lists(st.sampled_from(["synchronize", "energy", "none"]), max_size=2)),
    }


def setopt(sim, path, val):
    from .. import rb
    if path == "ri_trace.peri_mode":
        set_peri_mode(sim, val)
    else:
        rb.setpath(sim, path, val)


def getopt(sim, path):
    from .. import rb
    if path == "ri_trace.peri_mode":
        v = sim.ri_trace.peri_mode
        m = {0: "PARTIAL_BS", 1: "FULL_BS", 2: "FULL_IAS15"}
        return m.get(v, v)
    return rb.getpath(sim, path)


def norm(v):
    if isinstance(v, str):
        return v.lower().replace(" ", "").replace("(", "").replace(")", "")
    return v


def reattach(sim, case):
    """Function pointers are not persisted: the user re-attaches the same named callbacks."""
    for path, val in case["cfg"].get("set", []):
        if path in ("ri_mercurius.L", "ri_trace.S_peri", "ri_trace.S"):
            setopt(sim, path, val)
    if case["extra"] == "merge":
        sim.collision_resolve = "merge"


def build(case):
    import rebound
    from .. import rb
    sysd = case["system"]
    parts = [dict(p) for p in sysd["particles"]]
    if case["extra"] == "merge":
        # give the two innermost planets radii and put a twin next to the first planet so that a merger happens early
        p1 = parts[1]
        twin = dict(p1)
        d = 0.02 * (abs(p1["x"]) + abs(p1["y"]) + abs(p1["z"])) or 0.02     # never on top of the planet
        twin["x"] += d
        twin["vx"] = p1["vx"] - 0.3 * abs(p1["vy"] + 1e-3) * 0.1
        twin["m"] = max(p1["m"], 1e-7) * 0.5
        twin["r"] = 0.8 * d
        p1["r"] = 0.8 * d
        parts.append(twin)
    sim = rb.new_sim({"G": sysd["G"], "particles": parts})
    apply_cfg(sim, case["cfg"])
    for path, val in case["opts"]:
        setopt(sim, path, val)
    if case["extra"] == "merge":
        sim.collision = "direct"
        sim.collision_resolve = "merge"
    if case["extra"] == "testparticles":
        sim.N_active = max(1, sim.N - 1)
        sim.testparticle_type = 1 if len(parts) % 2 else 0
    if case["extra"] == "variation":
        sim.add_variation()
    elif case["extra"] == "variation2":
        v1 = sim.add_variation()
        v2 = sim.add_variation()
        sim.add_variation(order=2, first_order=v1, first_order_2=v2)
        v1.particles[1].x = 1.0
        v2.particles[1].vy = 1.0
    elif case["extra"] == "megno":
        sim.init_megno(seed=5)
    sgn = -1.0 if case["backward"] else 1.0
    sim.dt = sgn * case["dt_frac"] * sysd["P_min"]
    return sim


def restore(sim, method, ctx):
    import rebound
    from .. import rb
    if method == "file":
        path = os.path.join(ctx.scratch, "s.bin")
        sim.save_to_file(path, delete_file=True)
        r = rebound.Simulation(path)
        os.unlink(path)
        return r
    if method == "pickle":
        return pickle.loads(pickle.dumps(sim))
    if method == "copy":
        return sim.copy()
    return rebound.Simulation(rb.stream(sim))


def core_state(sim):
    from .. import rb
    return (rb.pstate(sim), rb.dbits(sim.t), rb.dbits(sim.dt), sim.steps_done, rb.dbits(sim.dt_last_done))


def run_roundtrip(case, ctx):
    import warnings
    import rebound
    from .. import rb
    from ..oracles import sa_format
    warnings.simplefilter("ignore")
    names = rb.field_names()
    fam = case["cfg"]["family"]
    sim = build(case)
    try:
        if case["k"]:
            sim.steps(case["k"])
        for o in case["presave_ops"]:
            if o == "synchronize":
                sim.synchronize()
            elif o == "energy":
                sim.energy()
    except (RuntimeError, rebound.Escape, rebound.Encounter, rebound.Collision, rebound.NoParticles):
        ctx.skip("setup raised")
        return
    merged = sim.N < len(case["system"]["particles"]) + (1 if case["extra"] == "merge" else 0)
    m0 = rb.smap(sim)
    res = restore(sim, case["method"], ctx)
    m1 = rb.smap(res)
    if m0 != m1:
        raise Violation("restored (%s) simulation's persisted content differs from the original" % case["method"],
                        diff=sa_format.map_diff(m0, m1, names)[:8])
    m0b = rb.smap(sim)
    if m0b != m0:
        raise Violation("saving changed the persisted content of the original", diff=sa_format.map_diff(m0, m0b, names)[:8])
    # every option that was set reads back on the restored object
    for path, val in list(case["opts"]) + [p for p in case["cfg"].get("set", []) if p[0] not in
                                           ("ri_mercurius.L", "ri_trace.S_peri", "ri_trace.S")]:
        a, b = getopt(sim, path), getopt(res, path)
        if norm(a) != norm(b):
            raise Violation("setting %s: original %r, restored (%s) %r" % (path, a, case["method"], b), setting=path)
    if "peri_mode" in case["cfg"]:
        a, b = getopt(sim, "ri_trace.peri_mode"), getopt(res, "ri_trace.peri_mode")
        if a != b:
            raise Violation("setting ri_trace.peri_mode: original %r, restored (%s) %r" % (a, case["method"], b),
                            setting="ri_trace.peri_mode")
    for nm in ("integrator", "gravity", "collision", "boundary"):
        if getattr(sim, nm) != getattr(res, nm):
            raise Violation("module %s: original %r restored %r" % (nm, getattr(sim, nm), getattr(res, nm)))
    reattach(res, case)
    # continue both
    for j in range(case["m"]):
        try:
            sim.steps(1)
            err0 = None
        except (RuntimeError, rebound.Escape, rebound.Encounter, rebound.Collision, rebound.NoParticles) as e:
            err0 = type(e).__name__
        try:
            res.steps(1)
            err1 = None
        except (RuntimeError, rebound.Escape, rebound.Encounter, rebound.Collision, rebound.NoParticles) as e:
            err1 = type(e).__name__
        if err0 != err1:
            raise Violation("continuation step %d: original raised %r, restored raised %r" % (j + 1, err0, err1))
        if err0:
            break
        if sim.N != res.N:
            raise Violation("continuation step %d: N differs %d vs %d" % (j + 1, sim.N, res.N))
        a, b = core_state(sim), core_state(res)
        if a != b:
            bad = [i for i, (x, y) in enumerate(zip(a[0], b[0])) if x != y]
            raise Violation("continuation (%s) diverges at step %d after restore: particles %s, t %s dt %s steps %s"
                            % (case["method"], j + 1, bad[:4], a[1] == b[1], a[2] == b[2], a[3] == b[3]),
                            method=case["method"], step=j + 1)
    m0e, m1e = rb.smap(sim), rb.smap(res)
    if m0e != m1e:
        raise Violation("persisted content differs after continuing %d steps" % case["m"],
                        diff=sa_format.map_diff(m0e, m1e, names)[:8])
    ctx.cls(case["method"])
    ctx.cls("fam:" + fam)
    if case["extra"] in ("variation", "variation2"):
        ctx.cls("variation")
    if case["extra"] == "megno":
        ctx.cls("megno")
    if case["extra"] == "testparticles":
        ctx.cls("testparticles")
    if merged:
        ctx.cls("merged")
    unsync = any((p[0].endswith("safe_mode") and p[1] == 0) for p in case["cfg"].get("set", [])) and case["k"] > 0 \
        and "synchronize" not in case["presave_ops"]
    if unsync:
        ctx.cls("unsync")
    if case["backward"]:
        ctx.cls("backward")
    if (case["opts"] or case["cfg"].get("set")) and case["k"] >= 1 and case["m"] >= 1 and fam != "leapfrog":
        ctx.nontrivial()


# ---------------------------------------------------------------------------------------------------------
# fieldwise: every scalar of the persisted-field table, observed through the *Python* structure layout
# (an independent description of struct reb_simulation), is perturbed, saved, restored and read back.
# The stream comparison of `roundtrip` reads both sides through the C table and cannot see a table row that
# points at the wrong member; this sub can.
SCALAR_DTYPES = {0: "double", 1: "int", 2: "uint", 3: "uint32", 4: "int64", 5: "uint64", 7: "vec3d"}
# not perturbed: value is structural (must agree with the arrays) or rewritten by the writer itself
# (save_messages is a boolean the Python constructor forces to 1 on every object it creates)
FW_FIXED = {"N", "N_var", "simulationarchive_version", "walltime", "walltime_last_steps", "functionpointers",
            "visualization", "header", "sablob", "save_messages"}
FW_ENUM = {"collision": [1, 4], "integrator": [4, 7], "boundary": [1, 2], "gravity": [0, 2],   # no tree modules: no box configured
           "ri_whfast.coordinates": [1, 2], "ri_whfast.kernel": [1, 3], "ri_saba.type": [0x4, 0x104],
           "ri_eos.phi0": [1, 3], "ri_eos.phi1": [2, 5], "ri_trace.peri_mode": [0, 2], "N_active": [1, 2],
           "testparticle_type": [1], "status": [-1], "N_root_x": [1], "N_root_y": [1], "N_root_z": [1], "N_root": [1]}
FW_FAMS = ["ias15", "whfast", "mercurius"]


def _fw_resolve(sim, name):
    obj = sim
    parts = name.split(".")
    for i, p in enumerate(parts):
        names = [f[0] for f in type(obj)._fields_]
        if p in names:
            q = p
        elif "_" + p in names:
            q = "_" + p
        else:
            return None
        if i == len(parts) - 1:
            return obj, q
        obj = getattr(obj, q)


def _fw_table():
    from rebound.binary_field_descriptor import binary_field_descriptor_list
    out = []
    for fd in binary_field_descriptor_list():
        n = fd.name.decode("ascii", "replace")
        if fd.dtype in SCALAR_DTYPES and n not in ("end",):
            out.append((n, int(fd.dtype)))
    return out


def fieldwise_cases(tier):
    from .. import build
    build.activate("opt")
    tab = _fw_table()
    cases = []
    for fam in FW_FAMS:
        for method in ("file", "pickle", "copy", "bytes"):
            for n, dt in tab:
                if n not in FW_FIXED:
                    for alt in (0, 1):
                        cases.append({"fam": fam, "method": method, "fields": [n], "alt": alt})
            for alt in (0, 1):
                cases.append({"fam": fam, "method": method, "fields": "all", "alt": alt})
    return cases


def _fw_get(sim, name, dt):
    from .. import rb
    r = _fw_resolve(sim, name)
    if r is None:
        return None
    v = getattr(r[0], r[1])
    if dt == 7:
        return (rb.dbits(v.x), rb.dbits(v.y), rb.dbits(v.z))
    if dt == 0:
        return rb.dbits(v)
    return int(v)


def _fw_perturb(sim, name, dt, alt, salt):
    r = _fw_resolve(sim, name)
    if r is None:
        return False
    obj, q = r
    cur = getattr(obj, q)
    if name in FW_ENUM:
        vals = FW_ENUM[name]
        v = vals[alt % len(vals)]
        if name == "N_active":
            v = min(v, sim.N)
        setattr(obj, q, v)
    elif dt == 0:
        setattr(obj, q, [0.37, 2.5][alt] + salt * 1e-3)
    elif dt == 7:
        cur.x, cur.y, cur.z = 0.5 + alt + salt * 1e-3, 1.5 + alt, -2.5 - alt
    else:
        setattr(obj, q, int(cur) + 1 + alt if int(cur) < 1000 else 1 + alt)
    return True


def run_fieldwise(case, ctx):
    import warnings
    from .. import rb
    from ..oracles import sa_format
    warnings.simplefilter("ignore")
    tab = _fw_table()
    sim = rb.new_sim({"G": 1.0, "particles": [
        {"m": 1.0}, {"m": 1e-3, "x": 1.0, "vy": 1.0}, {"m": 1e-4, "x": -2.2, "vy": -0.67, "z": 0.05}]})
    sim.integrator = case["fam"]
    sim.dt = 0.05
    sim.steps(2)
    todo = [n for n, _ in tab if n not in FW_FIXED] if case["fields"] == "all" else case["fields"]
    done = []
    for i, (n, dt) in enumerate(tab):
        if n in todo and _fw_perturb(sim, n, dt, case["alt"], i):
            done.append(n)
    if not done:
        ctx.skip("field has no counterpart in the Python structure")
        return
    before = {n: _fw_get(sim, n, dt) for n, dt in tab}
    res = restore(sim, case["method"], ctx)
    after_orig = {n: _fw_get(sim, n, dt) for n, dt in tab}
    after = {n: _fw_get(res, n, dt) for n, dt in tab}
    for n, dt in tab:
        if before[n] is None or n in FW_FIXED:
            continue
        if after_orig[n] != before[n] and n in done:
            raise Violation("saving (%s) changed %s of the original: %r -> %r" % (case["method"], n, before[n], after_orig[n]),
                            field=n)
        if after[n] != after_orig[n]:
            raise Violation("%s: original %r, restored (%s) %r [as read through the Python structure; perturbed: %s]"
                            % (n, after_orig[n], case["method"], after[n], done if len(done) < 4 else "all"), field=n)
    m0, m1 = rb.smap(sim), rb.smap(res)
    if m0 != m1:
        raise Violation("restored (%s) simulation's persisted content differs from the original" % case["method"],
                        diff=sa_format.map_diff(m0, m1, rb.field_names())[:8])
    ctx.cls("fieldwise/" + case["method"])
    ctx.cls("fieldwise/" + ("all" if case["fields"] == "all" else SCALAR_DTYPES[dict(tab)[done[0]]]))
    ctx.nontrivial()


# ---------------------------------------------------------------------------------------------------------
# post_merge: a crowded system in which a merger happens early, saved afterwards, then a LONG continuation with
# close encounters (hybrid integrators decide per step what to do from state that must all be persisted).
@st.composite
def post_merge_case(draw):
    n_extra = draw(st.integers(2, 3))
    planets = []
    for k in range(n_extra):
        planets.append({"da": draw(S.floats(0.02, 0.09)) * (1 if k % 2 == 0 else -1) * (1 + k // 2),
                        "e": draw(S.floats(0.0, 0.1)), "f": draw(S.floats(0.0, 6.28)),
                        "m": draw(st.sampled_from([1e-4, 3e-5, 3e-4]))})
    integ = draw(st.sampled_from(["trace", "trace", "trace", "mercurius"]))
    return {"planets": planets, "f0": draw(S.floats(0.0, 6.28)), "integrator": integ,
            "peri_mode": draw(st.sampled_from(["PARTIAL_BS", "FULL_BS", "FULL_IAS15"])),
            "dt": draw(st.sampled_from([0.05, 0.1, 0.2])), "k": draw(st.integers(2, 5)),
            "method": draw(st.sampled_from(["file", "pickle", "copy", "bytes"])),
            "n_cont": draw(st.sampled_from([200, 400]))}


def run_post_merge(case, ctx):
    import warnings
    import rebound
    from .. import rb
    warnings.simplefilter("ignore")
    sim = rebound.Simulation()
    sim.add(m=1.0)
    sim.add(m=1e-4, a=1.0, e=0.05, f=case["f0"], r=1e-4)
    p = sim.particles[1]
    sim.add(m=5e-5, x=p.x + 1e-4, y=p.y, z=p.z, vx=p.vx, vy=p.vy, vz=p.vz, r=1e-4)     # overlapping twin: merges at once
    for q in case["planets"]:
        sim.add(m=q["m"], a=1.0 + q["da"], e=q["e"], f=q["f"], r=1e-6)
    N0 = sim.N
    sim.integrator = case["integrator"]
    if case["integrator"] == "trace":
        set_peri_mode(sim, case["peri_mode"])
    sim.dt = case["dt"]
    sim.collision = "direct"
    sim.collision_resolve = "merge"
    budget = [0]

    def limiter(simp):
        budget[0] += 1
    try:
        sim.steps(case["k"])
    except (RuntimeError, rebound.Escape, rebound.Encounter, rebound.Collision, rebound.NoParticles):
        ctx.skip("setup raised")
        return
    if sim.N != N0 - 1:
        ctx.skip("no single early merger")
        return
    m0 = rb.smap(sim)
    res = restore(sim, case["method"], ctx)
    res.collision_resolve = "merge"
    if rb.smap(res) != m0:
        from ..oracles import sa_format
        raise Violation("restored (%s) simulation's persisted content differs from the original after a merger" % case["method"],
                        diff=sa_format.map_diff(m0, rb.smap(res), rb.field_names())[:8])
    enc = 0
    for j in range(case["n_cont"]):
        try:
            sim.steps(1)
            e0 = None
        except (RuntimeError, rebound.Escape, rebound.Encounter, rebound.Collision, rebound.NoParticles) as e:
            e0 = type(e).__name__
        try:
            res.steps(1)
            e1 = None
        except (RuntimeError, rebound.Escape, rebound.Encounter, rebound.Collision, rebound.NoParticles) as e:
            e1 = type(e).__name__
        if e0 != e1:
            raise Violation("continuation step %d after a merger: original raised %r, restored (%s) raised %r"
                            % (j + 1, e0, case["method"], e1))
        if e0:
            break
        if case["integrator"] == "trace":
            enc += 1 if sim.ri_trace._encounter_N > 1 else 0
        else:
            enc += 1 if sim.ri_mercurius._encounter_N > 1 else 0
        if sim.N != res.N or core_state(sim) != core_state(res):
            raise Violation("%s: %d steps after a restore (%s) that followed a merger, original and restored differ "
                            "(N %d / %d, %d encounter steps so far)" % (case["integrator"], j + 1, case["method"], sim.N, res.N, enc),
                            method=case["method"], step=j + 1)
    ctx.cls("post_merge/" + case["integrator"])
    ctx.cls("post_merge/" + case["method"])
    if enc:
        ctx.cls("post_merge/encounters")
        ctx.nontrivial()
    ctx.stat_max("post_merge_encounter_steps", enc)


def subs(tier):
    return [
        Sub("post_merge", run_post_merge, strategy=post_merge_case(), quick=320, thorough=16000,
            shards_quick=8, shards_thorough=16),
        Sub("roundtrip", run_roundtrip, strategy=roundtrip_case(), quick=2400, thorough=400000,
            shards_quick=12, shards_thorough=16),
        Sub("fieldwise", run_fieldwise, cases=fieldwise_cases, exhaustive=True, shards_quick=4, shards_thorough=4),
    ]
