"""C08 - integrate() honours its time, step-size and status contract."""
import math
from fractions import Fraction

from hypothesis import strategies as st

from ..core import Sub, Violation
from .. import strategies as S

PROPERTY = "C08"
LEVEL = "exploration"
RULE = ("Generated (system, integrator configuration from the documented lattice, dt of either sign, start time, "
        "sequence of integrate() calls with targets ahead of / behind / equal to / one ulp from / near zero relative "
        "to the current time, exact_finish_time 0/1), observed through a Python heartbeat that records "
        "(t, dt, dt_last_done, steps_done, status, particle bytes) at every step boundary.  Oracles: the finish-time "
        "inequalities of the property; monotone heartbeat times; |dt| restored; tmax==t leaves the state bitwise "
        "unchanged; for fixed-step schemes every step advances t by the user's dt and the step count equals "
        "ceil((tmax-t0)/dt) in exact rational arithmetic; split runs (exact_finish_time=0) bitwise equal to the single "
        "run; exit conditions evaluated independently in extended precision on the recorded boundary states and on "
        "a twin advanced with step().  Non-trivial = |dt| > remaining interval, or backward, or tmax==t, or >= 2 "
        "pieces, or an exit condition firing at boundary k* >= 1, or an adaptive scheme whose last step was "
        "shortened; distinct by case hash.")
ASSUMPTIONS = [
    "the heartbeat is called once before the first step and once after every step (it is the only observation channel between steps)",
    "for adaptive schemes 'restores the step size' means: dt after the call is the last full step taken before the "
    "final approach to tmax began (dt_last_done at the last boundary where the proposed step first reached tmax, "
    "decided from the heartbeat's own (t, dt) records, not from the status field), or the user's dt if there was none",
    "keep_unsynchronized=1 is only combined with exact_finish_time=0 and one direction (changing dt while the drift is "
    "half done is outside the documented use of safe_mode=0); bitwise splitting is asserted for safe_mode=1 and for "
    "keep_unsynchronized=1 only",
    "IAS15 adaptive_mode=0 step collapse on systems with a noise-only acceleration component is a documented limitation "
    "(comment in integrator_ias15.c): such runs are skipped and counted, not reported",
    "a last step that passed tmax by rounding only may be followed by t being set to tmax (proposed fix C08-last-step-overshoot)",
    "time recurrences accepted per step: t+dt or (t+dt/2)+dt/2",
    "halting collisions are defined at step boundaries only for the non-hybrid integrators (MERCURIUS/TRACE search inside encounter sub-steps)",
]
CLASSES = ["contract/min_dt", "contract/max_dt", "contract/eft0", "contract/eft1", "contract/backward", "contract/equal", "contract/ulp", "contract/nearzero",
           "contract/dt_gt_interval", "contract/adaptive_shortened", "contract/retry_last_step",
           "status/escape", "status/encounter", "status/collision", "status/noparticles", "status/stop",
           "status/success", "status/k0", "status/at_last_boundary", "status/at_last_boundary_eft1", "split/pieces>=2", "status_now/Escape", "status_now/Encounter", "status_now/NoParticles", "status_now/stop", "status_now/success", "status_now/after_previous_call"]

FIXED_FAMS = ["whfast", "saba", "eos", "janus", "mercurius", "trace", "leapfrog"]


# ---------------------------------------------------------------------------------------------
# set-up shared by the sub-checks

def set_peri_mode(sim, name):
    m = {"PARTIAL_BS": 0, "FULL_BS": 1, "FULL_IAS15": 2}
    try:
        sim.ri_trace.peri_mode = name
    except TypeError:
        sim.ri_trace.peri_mode = m[name]


def apply_cfg(sim, cfg):
    from .. import rb
    sim.integrator = cfg["integrator"]
    for path, val in cfg.get("set", []):
        rb.setpath(sim, path, val)
    if "peri_mode" in cfg:
        set_peri_mode(sim, cfg["peri_mode"])


def make_sim(case):
    from .. import rb
    sysd = case["system"]
    sim = rb.new_sim({"G": sysd["G"], "particles": sysd["particles"]})
    apply_cfg(sim, case["cfg"])
    sim.t = case["t0"]
    sim.dt = case["usign"] * case["dt_frac"] * sysd["P_min"]
    base = abs(sim.dt)
    if not case["cfg"]["fixed_step"]:
        sim.dt *= case.get("dt_big", 1.0)   # adaptive schemes: also first guesses far above what they will accept
    # documented step-size limits of the adaptive schemes, in units of the user's step: min_dt comparable to and
    # larger than the stub that is left before tmax (IAS15: a step clamped to min_dt is never rejected, so any value
    # terminates; BS rejects unconverged steps, so its floor stays well below what it needs)
    lim = case.get("limits") or {}
    fam = case["cfg"]["family"]
    if fam == "ias15" and lim.get("min"):
        sim.ri_ias15.min_dt = lim["min"] * base
    if fam == "bs":
        if lim.get("min"):
            sim.ri_bs.min_dt = 0.1 * lim["min"] * base
        if lim.get("max"):
            sim.ri_bs.max_dt = lim["max"] * base
    return sim


def trace_backward_guard(case, ctx, backward):
    """Known finding (DESIGN defect 12): TRACE's encounter / pericentre loops are written for dt>0 only
    ('TODO: Support backwards integrations' in integrator_trace.c).  While it is open, backward TRACE runs are
    made with pericentre switching disabled by construction (S_peri=none); the bodies are >= 8 Hill radii apart."""
    if case["cfg"]["family"] == "trace" and backward and ctx.finding_open("C08-trace-backward"):
        ctx.excluded("C08-trace-backward")
        return True
    return False


def keeps_unsynchronized(cfg):
    return any(p.endswith("keep_unsynchronized") and v == 1 for p, v in cfg["set"])


def mode0_fragile(cfg):
    """IAS15 adaptive_mode=0 divides the error estimate by every single acceleration component; integrator_ias15.c
    documents that it "might fail in cases where a particle does not experience any (physical) acceleration besides
    roundoff errors" - e.g. the z components of a planar sub-system: the controller then collapses the step to
    ~1e-23.  A collapse in that mode is not counted against integrate()."""
    return cfg["family"] == "ias15" and ["ri_ias15.adaptive_mode", 0] in cfg["set"]


STALL = 300


def stalled(times):
    """True if the time has not changed (bitwise) over the last STALL step boundaries."""
    from .. import rb
    return len(times) > STALL and all(rb.dbits(t) == rb.dbits(times[-1]) for t in times[-STALL:])


def adv_candidates(t, dt):
    return (t + dt, (t + dt / 2.) + dt / 2.)


def sgn(x):
    return 1.0 if x > 0 else (-1.0 if x < 0 else 0.0)


# ---------------------------------------------------------------------------------------------
# sub-check "contract": items 1-5

call = st.one_of(
    st.fixed_dictionaries({"mode": st.just("rel"), "d": S.logfloats(0.02, 45.0), "back": st.booleans(),
                           "eft": st.sampled_from([0, 1])}),
    st.fixed_dictionaries({"mode": st.just("rel"), "d": S.logfloats(0.02, 45.0), "back": st.booleans(),
                           "eft": st.sampled_from([0, 1])}),
    st.fixed_dictionaries({"mode": st.just("rel"), "d": st.sampled_from([1.0, 2.0, 3.0, 0.5, 10.0, 7.0]),
                           "back": st.booleans(), "eft": st.sampled_from([0, 1])}),
    st.fixed_dictionaries({"mode": st.just("equal"), "eft": st.sampled_from([0, 1])}),
    st.fixed_dictionaries({"mode": st.just("ulp"), "back": st.booleans(), "eft": st.sampled_from([0, 1])}),
    st.fixed_dictionaries({"mode": st.just("nearzero"), "v": st.sampled_from([0.0, 1e-30, -1e-30, 1e-9, -1e-9, 1e-5, -1e-5]),
                           "eft": st.sampled_from([0, 1])}),
)

T0S = [0.0, 0.0, 0.0, 12.5, -7.25, 3.0e5, -1.0e6, 0.1, 100.0]

contract_case = st.fixed_dictionaries({
    "system": S.hierarchical_system(nmin=2, nmax=4),
    "cfg": S.integrator_config(),
    "dt_frac": S.logfloats(1e-3, 0.06),
    "usign": st.sampled_from([1.0, 1.0, -1.0]),
    "dt_big": st.sampled_from([1.0, 1.0, 8.0, 40.0]),
    "limits": st.fixed_dictionaries({"min": st.sampled_from([0.0, 0.0, 0.2, 0.5, 1.0, 2.0]),
                                     "max": st.sampled_from([0.0, 0.0, 0.5, 2.0])}),
    "t0": st.sampled_from(T0S),
    "calls": st.lists(call, min_size=1, max_size=4),
})


def run_contract(case, ctx):
    import rebound
    from .. import rb
    from ..oracles import c04_invariants as inv
    rb.quiet()
    cfg = case["cfg"]
    fam = cfg["family"]
    fixed = cfg["fixed_step"]
    sim = make_sim(case)
    dt_unit = abs(sim.dt)
    log = []
    limit = [10 ** 9]

    def hb(p):
        log.append((sim.t, sim.dt, sim.dt_last_done, sim.steps_done, sim._status))
        if len(log) > limit[0]:
            sim.stop()
    sim.heartbeat = hb
    nontrivial = len(case["calls"]) >= 2
    keep = keeps_unsynchronized(cfg)
    first_dir = None
    for ci, c in enumerate(case["calls"]):
        t0 = sim.t
        mode = c["mode"]
        eft = c["eft"]
        if keep:
            # keep_unsynchronized=1 leaves the drift half-done between calls; changing dt (exact finishing) or the
            # direction in that state is outside what the docs allow (safe_mode=0: synchronize before changing dt)
            eft = 0
            if first_dir is None and "back" in c:
                first_dir = c["back"]
            if mode == "nearzero":
                mode = "equal"
            if "back" in c:
                c = dict(c, back=first_dir)
        if mode == "equal":
            tmax = t0
        elif mode == "ulp":
            tmax = math.nextafter(t0, -math.inf if c["back"] else math.inf)
            if t0 == 0.0:
                tmax = -1e-300 if c["back"] else 1e-300
        elif mode == "nearzero":
            tmax = c["v"]
            if abs(t0 - tmax) > 300 * dt_unit:      # keep the run short: use this target only from nearby
                tmax = t0 + sgn(tmax - t0) * 17.7 * dt_unit
        else:
            tmax = t0 + (-1.0 if c["back"] else 1.0) * c["d"] * dt_unit
        dirn = sgn(tmax - t0)
        if trace_backward_guard(case, ctx, dirn < 0):
            sim.ri_trace.S_peri = "none"
        dt0 = sim.dt
        steps0 = sim.steps_done
        p0 = inv.pbytes(sim)
        log.clear()
        cap = abs(dt0)
        if fam == "bs" and sim.ri_bs.max_dt > 0:
            cap = min(cap, sim.ri_bs.max_dt)        # a user-set max_dt legitimately bounds every step
        nexp = abs(tmax - t0) / cap if cap != 0 else 0
        limit[0] = int(60 * nexp + 4000)
        where = "call %d (%s, eft=%d, t0=%r, tmax=%r, dt=%r, %s)" % (ci, mode, eft, t0, tmax, dt0, fam)
        bs_floor = fam == "bs" and sim.ri_bs.min_dt > 0
        try:
            sim.integrate(tmax, exact_finish_time=eft)
        except (rebound.Escape, rebound.Encounter, rebound.Collision, rebound.NoParticles, rebound.GenericError,
                RuntimeError) as e:
            if bs_floor and isinstance(e, (rebound.GenericError, RuntimeError)) and "min_dt" in str(e):
                # BS cannot meet its tolerances at the user's min_dt: giving up with an error is a legitimate
                # outcome (retrying the same step forever is not)
                ctx.cls("bs_min_dt_error")
                return
            raise Violation("integrate raised %s although no exit condition is configured; %s" % (type(e).__name__, where))
        st_ = sim._status
        if len(log) > limit[0] and bs_floor and ctx.finding_open("C08-bs-min-dt-stall") and \
                rb.dbits(log[-1][0]) == rb.dbits(log[-200][0]) and rb.dbits(abs(log[-1][1])) == rb.dbits(sim.ri_bs.min_dt):
            ctx.excluded("C08-bs-min-dt-stall")     # BS retries a rejected step of size min_dt forever
            return
        if len(log) > limit[0] and mode0_fragile(cfg):
            ctx.skip("ias15 adaptive_mode=0 step collapse (documented limitation)")
            return
        if len(log) > limit[0]:
            # the property fixes the number of steps only for fixed-step schemes; an adaptive scheme that keeps
            # advancing with steps far below the user's dt is slow, not wrong: only a true stall is reported
            if fixed or stalled([l[0] for l in log]):
                raise Violation("integrate makes no progress towards tmax: %d steps taken where ~%d are implied%s; %s"
                                % (len(log) - 1, int(nexp) + 1,
                                   "" if fixed else ", t unchanged over the last %d steps" % STALL, where), tail=log[-4:])
            ctx.skip("adaptive run stopped by the step budget while still advancing (no verdict)")
            return
        if st_ != 0:
            raise Violation("integrate returned status %d without exit condition; %s" % (st_, where))
        t1 = sim.t
        n = len(log) - 1
        ctx.cls("eft%d" % eft)
        if ci == 0 and fam in ("ias15", "bs") and (case.get("limits") or {}).get("min"):
            ctx.cls("min_dt")
        if ci == 0 and fam == "bs" and (case.get("limits") or {}).get("max"):
            ctx.cls("max_dt")
        # --- 4. tmax == t: no-op
        if dirn == 0:
            ctx.cls("equal")
            nontrivial = True
            if len(log) < 1:
                raise Violation("integrate(t) with tmax equal to the current time did not call the heartbeat (it is "
                                "called at the beginning of every integration); %s" % where)
            if inv.pbytes(sim) != p0 or rb.dbits(t1) != rb.dbits(t0) or rb.dbits(sim.dt) != rb.dbits(dt0) \
                    or sim.steps_done != steps0:
                raise Violation("integrate(t) with tmax equal to the current time changed the state; %s" % where,
                                t=(t0, t1), dt=(dt0, sim.dt), steps=(steps0, sim.steps_done),
                                particles_changed=inv.pbytes(sim) != p0)
            continue
        if dirn < 0:
            ctx.cls("backward")
            nontrivial = True
        if mode in ("ulp", "nearzero"):
            ctx.cls(mode)
        if abs(dt0) > abs(tmax - t0):
            ctx.cls("dt_gt_interval")
            nontrivial = True
        if sim.steps_done - steps0 != n:
            raise Violation("steps_done advanced by %d but %d steps were observed by the heartbeat; %s"
                            % (sim.steps_done - steps0, n, where))
        if n < 1:
            raise Violation("integrate towards a different time took no step; %s" % where)
        ts = [l[0] for l in log]
        # --- 2. monotone
        for k in range(1, len(ts)):
            if (ts[k] - ts[k - 1]) * dirn < 0:
                if eft == 1 and k == n and ctx.finding_open("C08-last-step-reversed-retry") and \
                        abs(ts[k] - ts[k - 1]) <= 8 * 2.0 ** -52 * max(abs(ts[max(k - 2, 0)]), abs(tmax)):
                    ctx.excluded("C08-last-step-reversed-retry")   # rounding-sized retry step after passing tmax
                    continue
                raise Violation("time moved against the direction of integration at step %d: %r -> %r; %s"
                                % (k, ts[k - 1], ts[k], where), times=ts[max(0, k - 3):k + 2])
        snapped = eft == 1 and t1 == tmax and (ts[-1] - tmax) * dirn > 0 and \
            abs(ts[-1] - tmax) <= 8 * 2.0 ** -52 * max(abs(ts[-2]), abs(tmax))
        if snapped:
            ctx.cls("snapped_to_tmax")   # a last step that passed tmax by rounding only may be set to tmax
        if rb.dbits(ts[-1]) != rb.dbits(t1) and not snapped and (t1 - ts[-1]) * dirn < 0:
            raise Violation("the last step ended at %r, past the target by %.3e (not rounding: %.1f ulp), and t was then "
                            "moved back against the direction of integration to %r; %s"
                            % (ts[-1], abs(ts[-1] - tmax), abs(ts[-1] - tmax) / (2.0 ** -52 * max(abs(ts[-2]), abs(tmax), 1e-300)),
                               t1, where), times=ts[-3:])
        if (rb.dbits(ts[-1]) != rb.dbits(t1) and not snapped) or rb.dbits(ts[0]) != rb.dbits(t0):
            raise Violation("time changed outside of steps: first/last heartbeat %r/%r, before/after %r/%r; %s"
                            % (ts[0], ts[-1], t0, t1, where))
        # --- 1. finish time
        if eft == 1:
            tol = 1e-12 * abs(tmax) if tmax != 0 else 1e-12
            ctx.stat_max("eft1_err_over_tol", abs(t1 - tmax) / tol)
            if not abs(t1 - tmax) <= tol:
                raise Violation("exact_finish_time=1: ended at %r, |t-tmax| = %.3e > %.3e; %s"
                                % (t1, abs(t1 - tmax), tol, where))
        else:
            if not (t1 - tmax) * dirn >= 0:
                raise Violation("exact_finish_time=0: ended at %r before the target; %s" % (t1, where))
            if not (ts[-2] - tmax) * dirn < 0:
                raise Violation("exact_finish_time=0: overshoot of a full step or more: previous boundary %r was "
                                "already at/past the target, ended at %r; %s" % (ts[-2], t1, where))
        # --- 3. dt restored
        dt1 = sim.dt
        if fixed:
            if rb.dbits(abs(dt1)) != rb.dbits(abs(dt0)):
                raise Violation("step size not restored: |dt| %r before, %r after; %s" % (abs(dt0), abs(dt1), where))
        elif eft == 1:
            # the final approach begins at the last boundary j where the proposed step (dt seen by the heartbeat,
            # before integrate shortens it) would reach tmax while the one before did not
            js = []
            last_mode = False
            for j in range(n):
                over = (log[j][0] + log[j][1]) * dirn >= tmax * dirn
                if over and not last_mode:
                    js.append(j)
                last_mode = over
            if js:
                j = js[-1]
                exp = log[j][2] if log[j][2] != 0.0 else math.copysign(dt0, dirn)
                if abs(tmax - ts[-2]) < abs(log[-2][1]):
                    ctx.cls("adaptive_shortened")
                    nontrivial = True
                if rb.dbits(dt1) != rb.dbits(exp):
                    raise Violation("adaptive step size after exact finish is %r; the last full step before the final "
                                    "approach was %r (boundary %d of %d); %s" % (dt1, exp, j, n, where),
                                    tail=log[-4:])
            if not (abs(dt1) > 0 and math.isfinite(dt1)):
                raise Violation("dt after the call is %r; %s" % (dt1, where))
        if not fixed and dt1 * dirn <= 0:
            raise Violation("adaptive dt %r after the call points against the direction integrated; %s" % (dt1, where))
        # --- 5. fixed-step: every step is the user's dt, count implied by dt
        if fixed:
            dtu = math.copysign(dt0, dirn)
            kfull = 0
            for k in range(1, n + 1):
                if any(rb.dbits(ts[k]) == rb.dbits(x) for x in adv_candidates(ts[k - 1], dtu)):
                    if kfull == k - 1:
                        kfull = k
            trailing = n - kfull
            if eft == 0 and trailing:
                raise Violation("fixed step: step %d advanced t from %r to %r, not by dt=%r; %s"
                                % (kfull + 1, ts[kfull], ts[kfull + 1], dtu, where))
            if eft == 1 and trailing > 2:
                raise Violation("exact finish: %d steps differ from dt=%r (at most the shortened last step and one "
                                "retry are implied); %s" % (trailing, dtu, where), times=ts[-5:])
            if trailing == 2:
                ctx.cls("retry_last_step")
            q = Fraction(tmax) - Fraction(t0)
            q = q / Fraction(dtu)
            nq = math.ceil(q)
            # accumulated rounding of the time recurrence, in units of steps
            slack = Fraction(4 * (n + 2) * 2.0 ** -52 * max(abs(t0), abs(tmax), abs(t1))) / abs(Fraction(dtu))
            allowed = {nq}
            if math.ceil(q - slack) != nq or math.ceil(q + slack) != nq:
                allowed |= {math.ceil(q - slack), math.ceil(q + slack)}
            allowed = {max(a, 1) for a in allowed}
            if eft == 1 and trailing == 2:
                allowed |= {a + 1 for a in allowed}
            if n not in allowed:
                raise Violation("fixed step: %d steps taken, step size implies %s ((tmax-t0)/dt = %.17g); %s"
                                % (n, sorted(allowed), float(q), where))
    if nontrivial:
        ctx.nontrivial()


# ---------------------------------------------------------------------------------------------
# sub-check "split": item 6

def splittable(cfg):
    fam = cfg["family"]
    if not cfg["fixed_step"]:
        return False
    sets = dict((a, b) for a, b in cfg["set"])
    if fam == "whfast":
        return sets.get("ri_whfast.safe_mode", 1) == 1 or sets.get("ri_whfast.keep_unsynchronized", 0) == 1
    if fam == "saba":
        return sets.get("ri_saba.safe_mode", 1) == 1 or sets.get("ri_saba.keep_unsynchronized", 0) == 1
    if fam == "eos":
        return sets.get("ri_eos.safe_mode", 1) == 1
    if fam == "mercurius":
        return sets.get("ri_mercurius.safe_mode", 1) == 1
    return True


split_case = st.fixed_dictionaries({
    "system": S.hierarchical_system(nmin=2, nmax=4),
    "cfg": S.integrator_config().filter(splittable),
    "dt_frac": S.logfloats(1e-3, 0.06),
    "usign": st.sampled_from([1.0, -1.0]),
    "back": st.booleans(),
    "t0": st.sampled_from(T0S),
    "total": S.logfloats(1.5, 60.0),
    "cuts": st.lists(st.one_of(S.floats(0.0, 1.0), st.sampled_from([0.0, 0.5, 1.0])), min_size=1, max_size=4),
})


def run_split(case, ctx):
    import rebound
    from .. import rb
    from ..oracles import c04_invariants as inv
    rb.quiet()
    fam = case["cfg"]["family"]
    dirn = -1.0 if case["back"] else 1.0
    guard = trace_backward_guard(case, ctx, dirn < 0)
    sims = []
    for which in (0, 1):
        sim = make_sim(case)
        if guard:
            sim.ri_trace.S_peri = "none"
        sims.append(sim)
    a, b = sims
    t0 = a.t
    T = t0 + dirn * case["total"] * abs(a.dt)
    a.integrate(T, exact_finish_time=0)
    pieces = 0
    for c in sorted(case["cuts"]):
        target = t0 + c * (T - t0)
        if (target - b.t) * dirn < 0:
            continue        # already passed by the overshoot of the previous piece: would turn the run around
        if (target - T) * dirn > 0:
            continue
        b.integrate(target, exact_finish_time=0)
        pieces += 1
    if (T - b.t) * dirn >= 0:
        b.integrate(T, exact_finish_time=0)
        pieces += 1
    if pieces >= 2:
        ctx.cls("pieces>=2")
        ctx.nontrivial()
    ctx.cls(fam)
    if rb.dbits(a.t) != rb.dbits(b.t) or a.steps_done != b.steps_done:
        raise Violation("split run ends at t=%r after %d steps, single run at t=%r after %d steps (%s)"
                        % (b.t, b.steps_done, a.t, a.steps_done, fam))
    if inv.pbytes(a) != inv.pbytes(b):
        pa, pb = inv.parr(a), inv.parr(b)
        raise Violation("split run (%d pieces, exact_finish_time=0, %s) is not bitwise equal to the single run"
                        % (pieces, fam), maxdiff=float(abs(pa[:, :6] - pb[:, :6]).max()))


# ---------------------------------------------------------------------------------------------
# sub-check "status": item 7

# thresholds are placed at quantile q of the range the watched quantity sweeps in a pilot run of the same case
# (q<0 / q>1: already true at the first boundary / never true)
Q = st.one_of(S.floats(0.02, 0.98), S.floats(0.02, 0.98), S.floats(0.02, 0.98), st.sampled_from([-0.2, 1.2]))

# "at": aim at one step boundary of the pilot run (fraction of its length; 1.0 = the last boundary, which for
# exact_finish_time=1 is the end of the shortened step): the threshold is put half-way between the extreme reached
# before that boundary and the value at it, so that the condition first becomes true exactly there
AT = st.one_of(st.none(), st.just(1.0), st.just(1.0), S.floats(0.0, 1.0))

cond = st.one_of(
    st.fixed_dictionaries({"kind": st.just("escape"), "q": Q, "at": AT}),
    st.fixed_dictionaries({"kind": st.just("encounter"), "q": Q, "at": AT}),
    st.fixed_dictionaries({"kind": st.just("collision"), "q": Q,
                           "share": S.floats(0.05, 0.95)}),
    st.fixed_dictionaries({"kind": st.just("noparticles"), "k": st.integers(0, 40)}),
    st.fixed_dictionaries({"kind": st.just("stop"), "k": st.integers(0, 40)}),
)

status_case = st.fixed_dictionaries({
    "system": S.hierarchical_system(nmin=2, nmax=4, emax=0.3),
    "cfg": S.integrator_config(),
    "dt_frac": S.logfloats(4e-3, 0.06),
    "usign": st.sampled_from([1.0, -1.0]),
    "back": st.booleans(),
    "t0": st.sampled_from([0.0, 0.0, 12.5, -7.25]),
    "eft": st.sampled_from([0, 1]),
    "total": S.logfloats(2.0, 90.0),
    "conds": st.lists(cond, min_size=1, max_size=3),
})

EXC_OF = {"escape": "Escape", "encounter": "Encounter", "collision": "Collision", "noparticles": "NoParticles"}
STATUS_OF = {"escape": 4, "encounter": 3, "collision": 7, "noparticles": 2, "stop": 5, "success": 0}


def pred_margins(a, emax, emin, coll):
    """Evaluate the exit predicates on a boundary state in extended precision.
    Returns {kind: True/False/None} (None = within rounding of the threshold: no verdict)."""
    from ..oracles import c04_invariants as inv
    import numpy as np
    LD = np.longdouble
    x = a[:, 0:3].astype(LD)
    v = a[:, 3:6].astype(LD)
    rad = a[:, inv.R].astype(LD)
    n = len(a)
    out = {}
    amb = LD(64 * 2.0 ** -52)

    def verdict(val, thr):      # val > thr ?
        if abs(val - thr) <= amb * max(abs(val), abs(thr)):
            return None
        return bool(val > thr)

    def merge(cur, new):        # "any" over items with three-valued logic
        if cur is True or new is True:
            return True
        if cur is None or new is None:
            return None
        return False
    if emax:
        r = False
        for i in range(n):
            r = merge(r, verdict((x[i] * x[i]).sum(), LD(emax) * LD(emax)))
        out["escape"] = r
    if emin:
        r = False
        for i in range(n):
            for j in range(i):
                d = x[i] - x[j]
                w = verdict(LD(emin) * LD(emin), (d * d).sum())
                r = merge(r, w)
        out["encounter"] = r
    if coll:
        r = False
        for i in range(n):
            for j in range(n):
                if i == j:
                    continue
                d = x[i] - x[j]
                sr = rad[i] + rad[j]
                r2 = (d * d).sum()
                over = verdict(r2, sr * sr)          # True: not overlapping
                if over is True:
                    continue
                dv = v[i] - v[j]
                vr = (dv * d).sum()
                sc = abs(dv * d).sum()
                if abs(vr) <= amb * sc:
                    appr = None
                else:
                    appr = bool(vr < 0)
                if over is False and appr is True:
                    r = True
                elif appr is False:
                    pass
                else:
                    r = merge(r, None)
        out["collision"] = r
    return out


def run_status(case, ctx):
    import rebound
    from .. import rb
    from ..oracles import c04_invariants as inv
    rb.quiet()
    cfg = case["cfg"]
    fam = cfg["family"]
    dirn = -1.0 if case["back"] else 1.0
    guard = trace_backward_guard(case, ctx, dirn < 0)
    sim = make_sim(case)
    twin = make_sim(case)
    if guard:
        sim.ri_trace.S_peri = "none"
        twin.ri_trace.S_peri = "none"
    a0 = inv.parr(sim)
    n = len(a0)
    t0 = sim.t
    tmax = t0 + dirn * case["total"] * abs(sim.dt)
    # pilot run (no exit conditions): the range swept by the watched quantities decides where thresholds go
    series = []
    pilot = make_sim(case)
    if guard:
        pilot.ri_trace.S_peri = "none"

    def hbp(p):
        a = inv.parr(pilot)
        dmax = max(float((a[i, 0:3] ** 2).sum() ** 0.5) for i in range(n))
        pd = sorted((float(((a[i, 0:3] - a[j, 0:3]) ** 2).sum() ** 0.5), i, j) for i in range(n) for j in range(i))
        series.append((dmax, pd[0]))
        if len(series) > 60 * case["total"] + 4000:
            pilot.stop()
    pilot.heartbeat = hbp
    pilot.integrate(tmax, exact_finish_time=case["eft"])
    pilot = None
    emax = emin = 0.0
    coll = False
    aimed = False
    kstop = knone = None
    kinds = []
    for c in case["conds"]:
        k = c["kind"]
        if k in kinds:
            continue
        jat = None
        if c.get("at") is not None and len(series) >= 2:
            jat = max(1, min(len(series) - 1, int(round(c["at"] * (len(series) - 1)))))
        if k == "escape":
            lo, hi = min(x[0] for x in series), max(x[0] for x in series)
            emax = lo + c["q"] * (hi - lo)
            if jat is not None:
                before = max(x[0] for x in series[:jat])
                if series[jat][0] > before:
                    emax = 0.5 * (before + series[jat][0])
                    aimed = True
            if not emax > 0:
                continue
        elif k == "encounter":
            lo, hi = min(x[1][0] for x in series), max(x[1][0] for x in series)
            emin = hi - c["q"] * (hi - lo)
            if jat is not None:
                before = min(x[1][0] for x in series[:jat])
                if series[jat][1][0] < before:
                    emin = 0.5 * (before + series[jat][1][0])
                    aimed = True
            if not emin > 0:
                continue
        elif k == "collision":
            if fam in ("mercurius", "trace"):
                continue
            lo, hi = min(x[1][0] for x in series), max(x[1][0] for x in series)
            d = hi - c["q"] * (hi - lo)
            if not d > 0:
                continue
            _, i, j = min(x[1] for x in series)        # the pair that comes closest
            for s_ in (sim, twin):
                s_.particles[i].r = d * c["share"]
                s_.particles[j].r = d * (1 - c["share"])
            coll = True
        elif k == "noparticles":
            if keeps_unsynchronized(cfg):
                continue
            if fam == "bs" and c["k"] >= 1 and ctx.finding_open("C08-bs-noparticles"):
                ctx.excluded("C08-bs-noparticles")
                continue
            knone = c["k"]
        elif k == "stop":
            kstop = c["k"]
        kinds.append(k)
    if not kinds:
        ctx.skip("no applicable condition")
        return
    if emax:
        sim.exit_max_distance = emax
    if emin:
        sim.exit_min_distance = emin
    if coll:
        sim.collision = "direct"
        sim.collision_resolve = "halt"
    steps0 = sim.steps_done
    states = []
    limit = int(60 * case["total"] + 4000)

    def hb(p):
        k = len(states)
        states.append((sim.t, inv.parr(sim), sim.steps_done))
        if knone is not None and k == knone:
            sim.synchronize()       # safe_mode=0: the user synchronizes before modifying particles (docs)
            while sim.N > 0:
                sim.remove(sim.N - 1)
        if kstop is not None and k == kstop:
            sim.stop()
        if k > limit:
            sim.stop()
    sim.heartbeat = hb
    exc = None
    try:
        sim.integrate(tmax, exact_finish_time=case["eft"])
    except (rebound.Escape, rebound.Encounter, rebound.Collision, rebound.NoParticles) as e:
        exc = type(e).__name__
    except (rebound.GenericError, RuntimeError) as e:
        raise Violation("integrate raised %s: %s" % (type(e).__name__, e))
    status = sim._status
    nb = len(states) - 1
    if nb > limit and mode0_fragile(cfg):
        ctx.skip("ias15 adaptive_mode=0 step collapse (documented limitation)")
        return
    if nb > limit:
        if cfg["fixed_step"] or stalled([x[0] for x in states]):
            raise Violation("integrate makes no progress towards tmax (%s)" % fam)
        ctx.skip("adaptive run stopped by the step budget while still advancing (no verdict)")
        return
    where = "(%s, eft=%d, conds=%s, %d boundaries)" % (fam, case["eft"], kinds, nb)
    # independent evaluation on the recorded boundary states
    kstar = None
    true_at = None
    for k, (t, a, sd) in enumerate(states):
        tr = set()
        amb = set()
        pm = pred_margins(a, emax, emin, coll and k >= 1)
        for kind, val in pm.items():
            if val is True:
                tr.add(kind)
            elif val is None:
                amb.add(kind)
        if knone is not None and k >= knone:
            tr.add("noparticles")
        if kstop is not None and k == kstop:
            tr.add("stop")
        if amb and not tr:
            ctx.skip("predicate within rounding of its threshold")
            return
        if tr:
            kstar, true_at, maybe_at = k, tr, amb
            break
    reached = (case["eft"] == 0 and (states[-1][0] - tmax) * dirn >= 0) or \
              (case["eft"] == 1 and abs(states[-1][0] - tmax) <= (1e-12 * abs(tmax) if tmax else 1e-12))
    got = exc or {5: "stop", 0: "success"}.get(status, "status %d" % status)
    if kstar is None:
        # no condition became true at any recorded boundary: the run must be a plain success ending at tmax
        if exc is not None or status != 0:
            raise Violation("integrate ended with %s after %d steps but no exit condition is true at any step "
                            "boundary %s" % (got, nb, where))
        if not reached:
            raise Violation("integrate returned success at t=%r without reaching tmax=%r %s" % (sim.t, tmax, where))
        ctx.cls("success")
        return
    if kstar < nb:
        raise Violation("exit condition %s true at step boundary %d, integrate continued to boundary %d and ended "
                        "with %s %s" % (sorted(true_at), kstar, nb, got, where))
    # kstar == nb: the last boundary is the first where something is true
    if sim.steps_done - steps0 != nb:
        raise Violation("steps_done advanced by %d, %d steps observed %s" % (sim.steps_done - steps0, nb, where))
    allowed = set()
    for kind in true_at | maybe_at:      # conditions within rounding of their threshold at k* may or may not count
        allowed.add(EXC_OF.get(kind, kind))
    # tmax being reached at the same boundary does not turn a true condition into a success: the distance checks run
    # after every completed step, the final (possibly shortened) one included, before the end of the interval is
    # looked at, and a status set by stop() / a halting collision is kept
    if got not in allowed:
        raise Violation("at step boundary %d the true exit condition(s) are %s; integrate ended with %s %s"
                        % (kstar, sorted(true_at), got, where))
    for kind in true_at:
        ctx.cls(kind)
    if kstar == 0:
        ctx.cls("k0")
    if reached:
        ctx.cls("at_last_boundary")
        if case["eft"] == 1:
            ctx.cls("at_last_boundary_eft1")
    if aimed:
        ctx.cls("aimed")
    if kstar >= 1:
        ctx.nontrivial()
    # twin advanced with step(): same trajectory, one step at a time, no exit machinery involved
    sets = dict((a_, b_) for a_, b_ in cfg["set"])
    safe = all(sets.get("ri_%s.safe_mode" % f, 1) == 1 for f in ("whfast", "saba", "eos", "mercurius"))
    if cfg["fixed_step"] and safe and "noparticles" not in true_at:
        twin.dt = math.copysign(twin.dt, dirn)
        if coll:
            twin.collision = "direct"
            twin.collision_resolve = "halt"
        for k in range(1, nb + 1):
            if case["eft"] == 1 and (twin.t + twin.dt) * dirn >= tmax * dirn:
                twin.dt = tmax - twin.t
            twin.step()
            if rb.dbits(twin.t) != rb.dbits(states[k][0]) or inv.pbytes(twin) != \
                    states[k][1][:, [0, 1, 2, 3, 4, 5, inv.M, inv.R]].tobytes():
                raise Violation("state seen at step boundary %d inside integrate differs from %d calls of step() %s"
                                % (k, k, where), t=(states[k][0], twin.t))
        ctx.cls("twin")


# ---------------------------------------------------------------------------------------------
# sub-check "status_now": target == current time with an exit condition that already holds

now_case = st.fixed_dictionaries({
    "system": S.hierarchical_system(nmin=2, nmax=4),
    "cfg": S.integrator_config(),
    "dt_frac": S.logfloats(4e-3, 0.06),
    "usign": st.sampled_from([1.0, -1.0]),
    "t0": st.sampled_from([0.0, 0.0, 12.5, -7.25]),
    "eft": st.sampled_from([0, 1]),
    "pre": st.one_of(st.just(None), st.fixed_dictionaries({"d": S.floats(0.5, 20.0), "back": st.booleans(),
                                                           "eft": st.sampled_from([0, 1])})),
    "escape": st.one_of(st.none(), S.floats(0.6, 0.98), S.floats(1.02, 1.5)),      # exit_max_distance / max |x_i|
    "encounter": st.one_of(st.none(), S.floats(0.6, 0.98), S.floats(1.02, 1.5)),   # exit_min_distance / min pair distance
    "stop": st.booleans(),
    "empty": st.sampled_from([False, False, False, True]),
    "offset": st.sampled_from(["equal", "equal", "equal", "ulp+", "ulp-"]),
})


def run_status_now(case, ctx):
    """integrate(tmax) with tmax equal to the current time (fresh simulation, or right after a previous call ended
    there) is still an integrate() call: the heartbeat is called once ("at the beginning of the simulation",
    docs/simulationvariables.md) and the exit checks that follow it are made, so a condition that already holds is
    reported, not swallowed.  The 'ulp' offsets make one tiny step and must report the same condition at boundary 0."""
    import rebound
    from .. import rb
    from ..oracles import c04_invariants as inv
    rb.quiet()
    cfg = case["cfg"]
    fam = cfg["family"]
    sim = make_sim(case)
    if case["pre"]:
        pre = case["pre"]
        back = pre["back"]
        if trace_backward_guard(case, ctx, back):
            sim.ri_trace.S_peri = "none"
        eft = 0 if keeps_unsynchronized(cfg) else pre["eft"]
        sim.integrate(sim.t + (-1.0 if back else 1.0) * pre["d"] * abs(sim.dt), exact_finish_time=eft)
        ctx.cls("after_previous_call")
    a = inv.parr(sim)
    n = len(a)
    emax = emin = 0.0
    if case["escape"] is not None:
        emax = case["escape"] * max(float((a[i, 0:3] ** 2).sum() ** 0.5) for i in range(n))
        sim.exit_max_distance = emax
    if case["encounter"] is not None:
        emin = case["encounter"] * min(float(((a[i, 0:3] - a[j, 0:3]) ** 2).sum() ** 0.5) for i in range(n) for j in range(i))
        sim.exit_min_distance = emin
    empty = case["empty"] and not keeps_unsynchronized(cfg)
    if empty:
        sim.synchronize()
        while sim.N > 0:
            sim.remove(sim.N - 1)
    calls = [0]
    states = []

    def hb(p):
        calls[0] += 1
        if len(states) < 5000:
            states.append(inv.parr(sim))
        else:
            sim.stop()
        if case["stop"] and calls[0] == 1:
            sim.stop()
    sim.heartbeat = hb
    t0 = sim.t
    steps0 = sim.steps_done
    tmax = t0
    if case["offset"] != "equal" and t0 != 0.0 and not (fam == "trace" and case["offset"] == "ulp-"
                                                         and ctx.finding_open("C08-trace-backward")):
        tmax = math.nextafter(t0, math.inf if case["offset"] == "ulp+" else -math.inf)
    exc = None
    try:
        sim.integrate(tmax, exact_finish_time=case["eft"])
    except (rebound.Escape, rebound.Encounter, rebound.Collision, rebound.NoParticles) as e:
        exc = type(e).__name__
    except (rebound.GenericError, RuntimeError) as e:
        raise Violation("integrate raised %s: %s" % (type(e).__name__, e))
    got = exc or {5: "stop", 0: "success"}.get(sim._status, "status %d" % sim._status)
    where = "(%s, eft=%d, target %s current time%s, escape=%r encounter=%r stop=%r empty=%r)" % (
        fam, case["eft"], "==" if tmax == t0 else "one ulp from", ", after a previous call" if case["pre"] else "",
        case["escape"], case["encounter"], case["stop"], empty)
    if calls[0] < 1:
        raise Violation("integrate() returned without calling the heartbeat once %s" % where)
    if len(states) >= 5000:
        ctx.skip("adaptive run stopped by the step budget (no verdict)")
        return
    # expected outcome from the boundaries integrate() actually visited: with a target one ulp ahead/behind and no
    # condition at boundary 0 a step is taken (a full one for exact_finish_time=0) and the checks apply at its end
    expected = None
    kstar = None
    for k, ak in enumerate(states):
        tr = set()
        amb = set()
        if empty:
            tr.add("NoParticles")       # reb_check_exit overrides whatever the heartbeat set when N == 0
        else:
            for kind, val in pred_margins(ak, emax, emin, False).items():
                if val is True:
                    tr.add(EXC_OF[kind])
                elif val is None:
                    amb.add(EXC_OF[kind])
            if k == 0 and case["stop"] and not tr:
                tr.add("stop")          # the distance checks run after the heartbeat and overwrite USER
                if amb:
                    tr |= amb
        if amb and not tr:
            ctx.skip("predicate within rounding of its threshold")
            return
        if tr:
            expected, kstar = tr | amb, k
            break
    if expected is None:
        expected, kstar = {"success"}, len(states) - 1
    if kstar != len(states) - 1:
        raise Violation("exit condition(s) %s hold at step boundary %d; integrate went on to boundary %d and ended "
                        "with %s %s" % (sorted(expected), kstar, len(states) - 1, got, where))
    if got not in expected:
        raise Violation("exit condition(s) %s hold at step boundary %d; integrate ended with %s %s"
                        % (sorted(expected), kstar, got, where))
    if expected != {"success"}:
        if kstar == 0 and sim.steps_done != steps0:
            raise Violation("an exit condition holds before the first step, yet %d step(s) were taken %s"
                            % (sim.steps_done - steps0, where))
        ctx.nontrivial()
        if kstar > 0:
            ctx.cls("after_first_step")
    for e_ in expected:
        ctx.cls(e_)
    ctx.cls("equal" if tmax == t0 else "ulp")


def subs(tier):
    return [
        Sub("contract", run_contract, strategy=contract_case, quick=2400, thorough=100000, shards_quick=8, shards_thorough=16),
        Sub("split", run_split, strategy=split_case, quick=800, thorough=30000, shards_quick=4, shards_thorough=16),
        Sub("status_now", run_status_now, strategy=now_case, quick=800, thorough=30000, shards_quick=4, shards_thorough=16),
        Sub("status", run_status, strategy=status_case, quick=1600, thorough=60000, shards_quick=8, shards_thorough=16),
    ]
