"""C03 - Kepler propagation is exact for every two-body orbit and time step; terminates, never NaN."""
import math
import os
import pickle
import select
import signal
import struct

from hypothesis import strategies as st

from ..core import Sub, Violation
from .. import strategies as S

PROPERTY = "C03"
LEVEL = "exploration"
K_TOL = 1024.0
EPS = 2.0 ** -52
KEY_HYP = "C03-hyperbolic-solver"
KEY_512 = "C03-whfast512-large-step"
HYP_C = 0.1          # known-finding region: hyperbolic and |dt|/P_|a| > HYP_C*(e-1)
RULE = ("Two-body states generated from elements: e in [0,1-1e-6] u [1+1e-6,50], a and mu=G*M log-uniform over "
        "12 decades each, phase incl. exact peri/apocentre and (hyperbolic) close to the asymptotes, orientation, "
        "dt/P in +-[1e-8,1e3] log-uniform with extra mass on |dt|>P; entry points reb_whfast_kepler_solver "
        "(ctypes) and one reb_simulation_step of WHFast x4 coordinate systems, SABA1, MERCURIUS, TRACE, WHFast512. "
        "Oracle: mpmath 60-digit propagation through classical/hyperbolic elements and a bracketed Kepler solve. "
        "Tolerance K*(delta_cond + eps*|x|), K=1024, delta_cond = oracle output change under 2eps relative "
        "perturbation of each input.  Every call runs in a forked worker with a CPU-time alarm: no return = "
        "violation.  Non-trivial = |dt|/P>1, or e>0.9 within 0.1 rad of pericentre, or hyperbolic, or dt<0, or "
        "|dt|/P<1e-6; distinct by case hash.")
ASSUMPTIONS = [
    "mpmath arithmetic and elementary functions at 60 digits are correct (oracle self-test: integrals conserved, "
    "round trip, to 1e-55)",
    "the allowed forward error of an exact Kepler step is K=1024 times the oracle's own sensitivity to 2eps input "
    "perturbations plus eps times the size of the input/output vectors (for DKD schemes: summed over the two half "
    "steps, the intermediate state being a rounded double)",
    "non-termination is decided by a CPU-time budget of 5 s per call (normal cost < 1 ms)",
    "MERCURIUS/TRACE/WHFast512/democratic-heliocentric/barycentric are exact two-body only for a massless planet "
    "(star at rest at the origin); Jacobi and WHDS also for a massive one",
]
CLASSES = ["direct/elliptic", "direct/hyperbolic", "direct/dt>P", "direct/dt>100P", "direct/peri_high_e",
           "direct/dt<0", "direct/tiny_dt", "direct/near_parabolic", "direct/known_region",
           "step/whfast:jacobi", "step/whfast:democraticheliocentric", "step/whfast:whds", "step/whfast:barycentric",
           "step/saba", "step/mercurius", "step/trace", "step/massive_planet", "step512/whfast512"]
VARIANTS = ["avx512"]

# ---------------------------------------------------------------------------------------------------------
# generators

ecc_ell = st.one_of(S.floats(0.0, 0.999999),
                    st.sampled_from([0.0, 1e-8, 1e-3, 0.5, 0.9, 0.99, 0.999, 1 - 1e-6]),
                    S.logfloats(1e-6, 1.0).map(lambda x: 1.0 - x))
ecc_hyp = st.one_of(S.logfloats(1e-6, 49.0).map(lambda x: 1.0 + x),
                    st.sampled_from([1 + 1e-6, 1.001, 1.1, 1.5, 2.0, 10.0, 50.0]))
# phase: number u in [-1,1]; elliptic: true anomaly f = pi*u ; hyperbolic: f = u*f_max, f_max = acos(-1/e)
phase = st.one_of(S.floats(-1.0, 1.0), st.sampled_from([0.0, 1.0, -1.0, 0.5]),
                  S.logfloats(1e-6, 0.1).flatmap(lambda x: st.sampled_from([x, -x])),             # near pericentre
                  S.logfloats(1e-6, 0.1).flatmap(lambda x: st.sampled_from([1 - x, x - 1])))      # apocentre / asymptote
dt_over_P = st.tuples(st.sampled_from([1.0, 1.0, -1.0]),
                      st.one_of(S.logfloats(1e-8, 1e3), S.logfloats(1.0, 1e3), S.logfloats(1e-2, 10.0),
                                st.sampled_from([0.5, 1.0, 2.0, 1e-8, 1e3]))).map(lambda t: t[0] * t[1])
orbit = st.fixed_dictionaries({
    "hyp": st.sampled_from([False, False, True]),
    "e_ell": ecc_ell, "e_hyp": ecc_hyp,
    "a": st.one_of(S.logfloats(1e-6, 1e6), st.just(1.0)),
    "mu": st.one_of(S.logfloats(1e-6, 1e6), st.just(1.0)),
    "u": phase,
    "inc": st.one_of(S.floats(0.0, math.pi), st.sampled_from([0.0, 0.0, math.pi / 2])),
    "Om": S.angles, "om": S.angles,
    "dtP": dt_over_P,
})


def realise(c):
    """Elements of the case -> (r0, v0, mu, dt, e, f): doubles handed to the code under test and the oracle."""
    hyp = c["hyp"]
    e = c["e_hyp"] if hyp else c["e_ell"]
    a = -c["a"] if hyp else c["a"]
    mu = c["mu"]
    if hyp:
        fmax = math.acos(-1.0 / e)
        f = c["u"] * fmax
        # stay strictly inside the asymptotes (1 + e cos f > 0 with room for rounding)
        if 1.0 + e * math.cos(f) < 1e-9 * e:
            f = math.copysign(fmax * (1 - 1e-6), f)
            if 1.0 + e * math.cos(f) < 1e-9 * e:
                f = 0.5 * f
    else:
        f = math.pi * c["u"]
    s = S.el2cart(mu, a, e, c["inc"], c["Om"], c["om"], f)
    P = 2 * math.pi * math.sqrt(abs(a) ** 3 / mu)
    dt = c["dtP"] * P
    return s[0:3], s[3:6], mu, dt, e, f


def in_known_region(c):
    return c["hyp"] and abs(c["dtP"]) > HYP_C * (c["e_hyp"] - 1.0)


# ---------------------------------------------------------------------------------------------------------
# forked worker with a CPU-time alarm: a call that does not return becomes a verdict

class Worker:
    def __init__(self, target, cpu_limit=5.0, wall_limit=120.0):
        self.target = target
        self.cpu_limit = cpu_limit
        self.wall_limit = wall_limit
        self.pid = None

    def _start(self):
        p2c_r, p2c_w = os.pipe()
        c2p_r, c2p_w = os.pipe()
        pid = os.fork()
        if pid == 0:
            try:
                os.close(p2c_w)
                os.close(c2p_r)
                signal.signal(signal.SIGVTALRM, signal.SIG_DFL)
                fin = os.fdopen(p2c_r, "rb")
                fout = os.fdopen(c2p_w, "wb")
                while True:
                    try:
                        arg = pickle.load(fin)
                    except EOFError:
                        break
                    try:
                        signal.setitimer(signal.ITIMER_VIRTUAL, self.cpu_limit)
                        res = ("ok", self.target(arg))
                        signal.setitimer(signal.ITIMER_VIRTUAL, 0)
                    except BaseException:
                        signal.setitimer(signal.ITIMER_VIRTUAL, 0)
                        import traceback
                        res = ("exc", traceback.format_exc())
                    pickle.dump(res, fout)
                    fout.flush()
            finally:
                os._exit(0)
        os.close(p2c_r)
        os.close(c2p_w)
        self.pid = pid
        self.fout = os.fdopen(p2c_w, "wb")
        self.fin = os.fdopen(c2p_r, "rb")

    def _reap(self, kill=False):
        if kill:
            try:
                os.kill(self.pid, signal.SIGKILL)
            except OSError:
                pass
        _, st_ = os.waitpid(self.pid, 0)
        for f in (self.fin, self.fout):
            try:
                f.close()
            except Exception:
                pass
        self.pid = None
        return st_

    def call(self, arg):
        """-> ("ok", value) | ("hang", text) | ("died", text)"""
        if self.pid is None:
            self._start()
        try:
            pickle.dump(arg, self.fout)
            self.fout.flush()
        except BrokenPipeError:
            st_ = self._reap()
            return ("died", "worker gone before the call (status %d)" % st_)
        r, _, _ = select.select([self.fin], [], [], self.wall_limit)
        if not r:
            self._reap(kill=True)
            return ("hang", "no return within %g s wall time" % self.wall_limit)
        try:
            res = pickle.load(self.fin)
        except EOFError:
            st_ = self._reap()
            if os.WIFSIGNALED(st_) and os.WTERMSIG(st_) == signal.SIGVTALRM:
                return ("hang", "no return within %g s of CPU time (normal cost < 1 ms)" % self.cpu_limit)
            sig = os.WTERMSIG(st_) if os.WIFSIGNALED(st_) else None
            return ("died", "process died: signal %s status %d" % (sig, st_))
        if res[0] == "exc":
            raise RuntimeError("worker exception:\n" + res[1])
        return res


_workers = {}


def worker(name, target):
    key = (os.getpid(), name)
    if key not in _workers:
        _workers[key] = Worker(target)
    return _workers[key]


# ---------------------------------------------------------------------------------------------------------
# entry point 1: reb_whfast_kepler_solver through ctypes

_direct_state = {}


def _direct_call(arg):
    import ctypes
    import rebound
    from rebound import clibrebound
    if "sim" not in _direct_state:
        _direct_state["sim"] = rebound.Simulation()
        _direct_state["ps"] = (rebound.Particle * 2)()
        clibrebound.reb_whfast_kepler_solver.restype = None
    sim = _direct_state["sim"]
    ps = _direct_state["ps"]
    x, y, z, vx, vy, vz, mu, dt = arg
    p = ps[1]
    p.x, p.y, p.z, p.vx, p.vy, p.vz, p.m = x, y, z, vx, vy, vz, 0.0
    clibrebound.reb_whfast_kepler_solver(ctypes.byref(sim), ps, ctypes.c_double(mu), ctypes.c_uint(1),
                                         ctypes.c_double(dt))
    return (p.x, p.y, p.z, p.vx, p.vy, p.vz)


def classify(c, e, f, ctx, prefix=""):
    dtP = c["dtP"]
    hyp = c["hyp"]
    nt = False
    ctx.cls(prefix + ("hyperbolic" if hyp else "elliptic"))
    if hyp:
        nt = True
    if abs(dtP) > 1:
        ctx.cls(prefix + "dt>P")
        nt = True
    if abs(dtP) > 100:
        ctx.cls(prefix + "dt>100P")
    if e > 0.9 and abs(f) < 0.1:
        ctx.cls(prefix + "peri_high_e")
        nt = True
    if dtP < 0:
        ctx.cls(prefix + "dt<0")
        nt = True
    if abs(dtP) < 1e-6:
        ctx.cls(prefix + "tiny_dt")
        nt = True
    if abs(e - 1) < 1e-3:
        ctx.cls(prefix + "near_parabolic")
    if nt:
        ctx.nontrivial()


def finite6(v):
    return all(math.isfinite(x) for x in v)


def judge(ctx, c, got, refr, refv, dpos, dvel, xs, vs, what, extra=None):
    """Accuracy assertion shared by all entry points.  xs / vs: magnitudes whose rounding is unavoidable."""
    from ..oracles import c03_kepler_mp as KM
    epos = KM.err_norm(refr, got[0:3])
    evel = KM.err_norm(refv, got[3:6])
    tpos = K_TOL * (dpos + EPS * xs)
    tvel = K_TOL * (dvel + EPS * vs)
    rp = epos * K_TOL / tpos
    rv = evel * K_TOL / tvel
    known = in_known_region(c)
    if known and ctx.finding_open(KEY_HYP):
        ctx.excluded(KEY_HYP)
        ctx.cls("known_region")
        ctx.stat_max("known_region_err_over_cond", max(rp, rv))
        return
    ctx.stat_max("err_over_cond_hyp" if c["hyp"] else "err_over_cond_ell", max(rp, rv))
    if epos > tpos or evel > tvel:
        d = dict(err_pos=epos, tol_pos=tpos, err_vel=evel, tol_vel=tvel, ratio_over_cond=max(rp, rv), K=K_TOL,
                 got=list(got), ref=[float(x) for x in refr] + [float(x) for x in refv])
        if extra:
            d.update(extra)
        raise Violation("%s: state after the step differs from the exact Kepler orbit by %.3g x (delta_cond+eps|x|) "
                        "(allowed %g)%s" % (what, max(rp, rv), K_TOL,
                                            " [inside the known hyperbolic region]" if known else ""), **d)


def run_direct(c, ctx):
    from ..oracles import c03_kepler_mp as KM
    r0, v0, mu, dt, e, f = realise(c)
    classify(c, e, f, ctx)
    w = worker("direct", _direct_call)
    status, val = w.call(tuple(r0) + tuple(v0) + (mu, dt))
    if status != "ok":
        raise Violation("reb_whfast_kepler_solver %s: %s%s" % (
            "does not terminate" if status == "hang" else "crashed", val,
            " [inside the known hyperbolic region]" if in_known_region(c) else ""),
            r0=r0, v0=v0, mu=mu, dt=dt, e=e)
    if not finite6(val):
        raise Violation("reb_whfast_kepler_solver returns non-finite coordinates%s" % (
            " [inside the known hyperbolic region]" if in_known_region(c) else ""),
            got=[repr(x) for x in val], r0=r0, v0=v0, mu=mu, dt=dt, e=e)
    refr, refv, dpos, dvel = KM.propagate_cond(r0, v0, mu, dt)
    xs = max(math.sqrt(sum(x * x for x in r0)), KM.norm(refr))
    vs = max(math.sqrt(sum(x * x for x in v0)), KM.norm(refv))
    judge(ctx, c, val, refr, refv, dpos, dvel, xs, vs, "reb_whfast_kepler_solver",
          extra=dict(r0=r0, v0=v0, mu=mu, dt=dt, e=e))


def subs(tier):
    return [
        Sub("direct", run_direct, strategy=orbit, quick=4000, thorough=120000, shards_quick=8, shards_thorough=16),
    ]
