"""C03 - Kepler propagation is exact for every two-body orbit and time step; terminates, never NaN."""
import math
import os
import pickle
import select
import signal
import struct

from hypothesis import strategies as st

from ..core import Sub, Violation
from .. import strategies as S

PROPERTY = "C03"
LEVEL = "exploration"
K_TOL = 1024.0       # |dt| > P   (measured max over 173k thorough cases: 74 elliptic <= 100 P, 332 hyperbolic)
K_SMALL = 128.0      # |dt| <= P  (measured max over 173k thorough cases: 25)
K_BENIGN = 8.0       # nearly circular (e <= 0.3) and |dt| <= 2 P: a backward-stable step is O(1) here (measured max 2.0)


def k_of(c):
    """Slack K of the case (dict with hyp, e_ell, dtP) or of a bare dt/P."""
    if isinstance(c, dict):
        dtP = abs(c["dtP"])
        if c.get("w512"):
            return K_BENIGN       # outside its finding region WHFast512 is converged: measured max 0.13
        if not c["hyp"] and c["e_ell"] <= 0.3 and dtP <= 2.0:
            return K_BENIGN
    else:
        dtP = abs(c)
    return K_SMALL if dtP <= 1.0 else K_TOL


EPS = 2.0 ** -52
KEY_HYP = "C03-hyperbolic-solver"
KEY_HYP_ACC = "C03-hyperbolic-bisection-accuracy"
K_ACC = 2.0 ** 20    # with only KEY_HYP_ACC open the region is asserted with K*K_ACC: order-unity errors still fail
KEY_LONG = "C03-long-step-accuracy"
LONG_DTP = 100.0     # known-finding region: elliptic and |dt| > LONG_DTP * P
KEY_HANG = "C03-hyperbolic-hang"
KEY_512 = "C03-whfast512-large-step"
KEY_512_PAD = "C03-whfast512-padding-scale"
HYP_C = 10.0         # known-finding region: hyperbolic and |dt|/P_|a| > HYP_C*(e-1)
C512 = 0.2           # known-finding region of WHFast512: dt > C512 * min(T_q, 5 P_|a|), T_q = 2pi*sqrt(q^3/mu),
                     # q = pericentre distance, P_|a| = 2pi*sqrt(|a|^3/mu)
RULE = ("Two-body states generated from elements: e in [0,1-1e-6] u [1+1e-6,50], a and mu=G*M log-uniform over "
        "12 decades each, phase incl. exact peri/apocentre and (hyperbolic) close to the asymptotes, orientation, "
        "dt/P in +-[1e-8,1e3] log-uniform with extra mass on |dt|>P; entry points reb_whfast_kepler_solver "
        "(ctypes) and one reb_simulation_step of WHFast x4 coordinate systems, SABA1, MERCURIUS, TRACE (planet "
        "massless, or massive for Jacobi/WHDS/SABA) and WHFast512 (avx512 build, dt>0, planet in any of the 8 "
        "lanes), and 2-3 WHFast-Jacobi steps over safe_mode x keep_unsynchronized x variational particles / MEGNO "
        "with a final synchronize.  Oracle: mpmath 60-digit propagation through classical/hyperbolic elements and a verified "
        "bracketed Kepler solve.  Tolerance K*(delta_cond + eps*|x|), K=128 for |dt|<=P and 1024 for |dt|>P, "
        "delta_cond = oracle output change under 2eps relative perturbation of each input; DKD schemes: the "
        "allowance of the first half step is carried through the second by the oracle.  Every call runs in a "
        "forked worker with a CPU-time alarm: no return = violation.  Non-trivial = asserted in full and "
        "(|dt|/P>1, or e>0.9 within 0.1 rad of pericentre, or hyperbolic, or dt<0, or |dt|/P<1e-6); distinct by "
        "case hash.")
ASSUMPTIONS = [
    "mpmath arithmetic and elementary functions at 60 digits are correct (oracle self-test before every run: "
    "energy, angular momentum, round trip to 1e-50)",
    "allowed forward error of an exact Kepler step: K times (the oracle's own sensitivity to 2eps relative input "
    "perturbations + eps times the larger of input and output vector), K=128 (|dt|<=P) / 1024 (|dt|>P); for DKD "
    "schemes the first half step's allowance propagated through the second half by the oracle",
    "non-termination is decided by a CPU-time budget of 5 s per call (normal cost < 1 ms)",
    "MERCURIUS/TRACE/WHFast512/democratic-heliocentric/barycentric are exact two-body only for a massless planet "
    "(star at rest at the origin); Jacobi, WHDS and SABA also for a massive one",
    "MERCURIUS/TRACE steps in which the integrator itself flags an encounter (with the star) are outside the "
    "domain ('away from encounters')",
    "cases whose allowance exceeds 1e-3 of the state (apocentre -> pericentre of e~1 orbits in one half step) are "
    "checked but not counted as non-trivial",
]
PRELUDE_NAMES = ["whfast:jacobi", "whfast:democraticheliocentric", "whfast:whds", "whfast:barycentric", "saba",
                 "ias15", "leapfrog", "mercurius", "trace"]
CLASSES = ["direct/elliptic", "direct/hyperbolic", "direct/dt>P", "direct/dt>100P", "direct/peri_high_e",
           "direct/dt<0", "direct/tiny_dt", "direct/near_parabolic", "direct/known_region", "direct/known_hang",
           "direct/loose_tolerance", "terminates/in_hyperbolic_region", "terminates/known_hang"] + \
          ["step/%s:asserted" % k for k in ("whfast:jacobi", "whfast:democraticheliocentric", "whfast:whds",
                                            "whfast:barycentric", "saba", "mercurius", "trace")] + \
          ["step/massive_planet", "step/loose_tolerance", "step/prelude"] + ["step/prelude:" + k for k in PRELUDE_NAMES] + \
          [ "step512/whfast512:asserted", "step512/padded",
           "step512/known_region", "step512/known_padding_region"] + ["step512/lane%d" % i for i in range(8)] + \
          ["schedule/" + k for k in ["whfast:jacobi", "whfast:democraticheliocentric", "whfast:whds",
                                     "whfast:barycentric", "mercurius", "trace", "saba", "safe_mode0", "safe_mode1"]] + \
          ["schedule/saba:" + t for t in ["1", "2", "3", "4", "10,4", "8,6,4", "10,6,4", "h8,4,4", "h8,6,4", "h10,6,4"]] + \
          ["schedule/corrector%d:%s" % (o_, c_) for o_ in (3, 5, 7, 11, 17) for c_ in ("jacobi", "barycentric")] + \
          ["schedule/corrector2", "schedule/barycentric+corrector+N_active1"] + \
          ["schedule/steps_then_integrate:frac=%g" % x for x in (0.0, 1e-6, 0.3, 1.0, 1.7, 3.2)] + \
          ["%s/%s" % (a_, b_) for a_ in ("step", "multistep", "schedule")
           for b_ in ("gravity:basic", "gravity:compensated", "testparticle:m0", "testparticle:na1_t0",
                      "testparticle:na1_t1", "compensated+N_active1")] + \
          ["multistep/asserted", "multistep/unsynchronized+variations", "multistep/var:none", "multistep/var:variation",
           "multistep/var:megno", "multistep/safe_mode0", "multistep/safe_mode1", "multistep/keep_unsynchronized1"]
VARIANTS = ["avx512"]

# ---------------------------------------------------------------------------------------------------------
# generators

ecc_ell = st.one_of(S.floats(0.0, 0.999999),
                    st.sampled_from([0.0, 1e-8, 1e-3, 0.1, 0.2, 0.3, 0.5, 0.9, 0.99, 0.999, 1 - 1e-6]),
                    S.logfloats(1e-6, 1.0).map(lambda x: 1.0 - x))
ecc_hyp = st.one_of(S.logfloats(1e-6, 49.0).map(lambda x: 1.0 + x),
                    st.sampled_from([1 + 1e-6, 1.001, 1.1, 1.5, 2.0, 10.0, 50.0]))
# phase: number u in [-1,1]; elliptic: true anomaly f = pi*u ; hyperbolic: f = u*f_max, f_max = acos(-1/e)
phase = st.one_of(S.floats(-1.0, 1.0), st.sampled_from([0.0, 1.0, -1.0, 0.5]),
                  S.logfloats(1e-6, 0.1).flatmap(lambda x: st.sampled_from([x, -x])),             # near pericentre
                  S.logfloats(1e-6, 0.1).flatmap(lambda x: st.sampled_from([1 - x, x - 1])))      # apocentre / asymptote
dt_over_P = st.tuples(st.sampled_from([1.0, 1.0, -1.0]),
                      st.one_of(S.logfloats(1e-8, 1e3), S.logfloats(1.0, 1e3), S.logfloats(1e-2, 10.0),
                                S.logfloats(0.05, 2.0),
                                st.sampled_from([0.5, 1.0, 2.0, 1e-8, 1e3]))).map(lambda t: t[0] * t[1])
orbit = st.fixed_dictionaries({
    "hyp": st.sampled_from([False, False, True]),
    "e_ell": ecc_ell, "e_hyp": ecc_hyp,
    "a": st.one_of(S.logfloats(1e-6, 1e6), st.just(1.0)),
    "mu": st.one_of(S.logfloats(1e-6, 1e6), st.just(1.0)),
    "u": phase,
    "inc": st.one_of(S.floats(0.0, math.pi), st.sampled_from([0.0, 0.0, math.pi / 2])),
    "Om": S.angles, "om": S.angles,
    "dtP": dt_over_P,
})


def realise(c):
    """Elements of the case -> (r0, v0, mu, dt, e, f): doubles handed to the code under test and the oracle."""
    hyp = c["hyp"]
    e = c["e_hyp"] if hyp else c["e_ell"]
    a = -c["a"] if hyp else c["a"]
    mu = c["mu"]
    if hyp:
        fmax = math.acos(-1.0 / e)
        f = c["u"] * fmax
        # stay strictly inside the asymptotes (1 + e cos f > 0 with room for rounding)
        if 1.0 + e * math.cos(f) < 1e-9 * e:
            f = math.copysign(fmax * (1 - 1e-6), f)
            if 1.0 + e * math.cos(f) < 1e-9 * e:
                f = 0.5 * f
    else:
        f = math.pi * c["u"]
    s = S.el2cart(mu, a, e, c["inc"], c["Om"], c["om"], f)
    P = 2 * math.pi * math.sqrt(abs(a) ** 3 / mu)
    dt = c["dtP"] * P
    return s[0:3], s[3:6], mu, dt, e, f


def in_known_region(c):
    if c.get("w512"):
        e = c["e_hyp"] if c["hyp"] else c["e_ell"]
        return abs(c["dtP"]) > C512 * min(abs(1.0 - e) ** 1.5, 5.0)
    return c["hyp"] and abs(c["dtP"]) > HYP_C * (c["e_hyp"] - 1.0)


def region_key(c):
    return KEY_512 if c.get("w512") else KEY_HYP


# ---------------------------------------------------------------------------------------------------------
# forked worker with a CPU-time alarm: a call that does not return becomes a verdict

class Worker:
    def __init__(self, target, cpu_limit=5.0, wall_limit=120.0):
        self.target = target
        self.cpu_limit = cpu_limit
        self.wall_limit = wall_limit
        self.pid = None

    def _start(self):
        p2c_r, p2c_w = os.pipe()
        c2p_r, c2p_w = os.pipe()
        pid = os.fork()
        if pid == 0:
            try:
                os.close(p2c_w)
                os.close(c2p_r)
                signal.signal(signal.SIGVTALRM, signal.SIG_DFL)
                fin = os.fdopen(p2c_r, "rb")
                fout = os.fdopen(c2p_w, "wb")
                while True:
                    try:
                        arg = pickle.load(fin)
                    except EOFError:
                        break
                    try:
                        signal.setitimer(signal.ITIMER_VIRTUAL, self.cpu_limit)
                        res = ("ok", self.target(arg))
                        signal.setitimer(signal.ITIMER_VIRTUAL, 0)
                    except BaseException:
                        signal.setitimer(signal.ITIMER_VIRTUAL, 0)
                        import traceback
                        res = ("exc", traceback.format_exc())
                    pickle.dump(res, fout)
                    fout.flush()
            finally:
                os._exit(0)
        os.close(p2c_r)
        os.close(c2p_w)
        self.pid = pid
        self.fout = os.fdopen(p2c_w, "wb")
        self.fin = os.fdopen(c2p_r, "rb")

    def _reap(self, kill=False):
        if kill:
            try:
                os.kill(self.pid, signal.SIGKILL)
            except OSError:
                pass
        _, st_ = os.waitpid(self.pid, 0)
        for f in (self.fin, self.fout):
            try:
                f.close()
            except Exception:
                pass
        self.pid = None
        return st_

    def call(self, arg):
        """-> ("ok", value) | ("hang", text) | ("died", text)"""
        if self.pid is None:
            self._start()
        try:
            pickle.dump(arg, self.fout)
            self.fout.flush()
        except BrokenPipeError:
            st_ = self._reap()
            return ("died", "worker gone before the call (status %d)" % st_)
        r, _, _ = select.select([self.fin], [], [], self.wall_limit)
        if not r:
            self._reap(kill=True)
            return ("hang", "no return within %g s wall time" % self.wall_limit)
        try:
            res = pickle.load(self.fin)
        except EOFError:
            st_ = self._reap()
            if os.WIFSIGNALED(st_) and os.WTERMSIG(st_) == signal.SIGVTALRM:
                return ("hang", "no return within %g s of CPU time (normal cost < 1 ms)" % self.cpu_limit)
            sig = os.WTERMSIG(st_) if os.WIFSIGNALED(st_) else None
            return ("died", "process died: signal %s status %d" % (sig, st_))
        if res[0] == "exc":
            raise RuntimeError("worker exception:\n" + res[1])
        return res


_workers = {}


def worker(name, target):
    key = (os.getpid(), name)
    if key not in _workers:
        _workers[key] = Worker(target)
    return _workers[key]


# ---------------------------------------------------------------------------------------------------------
# entry point 1: reb_whfast_kepler_solver through ctypes

_direct_state = {}


def _direct_call(arg):
    import ctypes
    import rebound
    from rebound import clibrebound
    if "sim" not in _direct_state:
        _direct_state["sim"] = rebound.Simulation()
        _direct_state["ps"] = (rebound.Particle * 2)()
        clibrebound.reb_whfast_kepler_solver.restype = None
    sim = _direct_state["sim"]
    ps = _direct_state["ps"]
    x, y, z, vx, vy, vz, mu, dt = arg
    p = ps[1]
    p.x, p.y, p.z, p.vx, p.vy, p.vz, p.m = x, y, z, vx, vy, vz, 0.0
    clibrebound.reb_whfast_kepler_solver(ctypes.byref(sim), ps, ctypes.c_double(mu), ctypes.c_uint(1),
                                         ctypes.c_double(dt))
    return (p.x, p.y, p.z, p.vx, p.vy, p.vz)


def classify(c, e, f, ctx):
    """Counts the classes of the case; returns True if the case is non-trivial by RULE."""
    dtP = c["dtP"]
    hyp = c["hyp"]
    nt = False
    ctx.cls("hyperbolic" if hyp else "elliptic")
    if hyp:
        nt = True
    if abs(dtP) > 1:
        ctx.cls("dt>P")
        nt = True
    if abs(dtP) > 100:
        ctx.cls("dt>100P")
    if e > 0.9 and abs(f) < 0.1:
        ctx.cls("peri_high_e")
        nt = True
    if dtP < 0:
        ctx.cls("dt<0")
        nt = True
    if abs(dtP) < 1e-6:
        ctx.cls("tiny_dt")
        nt = True
    if abs(e - 1) < 1e-3:
        ctx.cls("near_parabolic")
    return nt


def finite6(v):
    return all(math.isfinite(x) for x in v)


def judge(ctx, c, bodies, what, extra=None):
    """Accuracy assertion shared by all entry points.  bodies: list of (name, got6, refr, refv, tpos, tvel) with
    tpos/tvel the allowed error norms (already containing K).  Returns "asserted" | "loose" | "excluded"."""
    from ..oracles import c03_kepler_mp as KM
    K_TOL = k_of(c)
    worst = 0.0
    bad = None
    loose = False
    for name, got, refr, refv, tpos, tvel in bodies:
        epos = KM.err_norm(refr, got[0:3])
        evel = KM.err_norm(refv, got[3:6])
        r = max(epos / tpos, evel / tvel) * K_TOL
        if r > worst:
            worst = r
        if name != "star" and (tpos > 1e-3 * KM.norm(refr) or tvel > 1e-3 * KM.norm(refv)):
            loose = True     # the orbit is so ill-conditioned over this step that the allowance is not sharp
        if (epos > tpos or evel > tvel) and bad is None:
            bad = dict(body=name, err_pos=epos, tol_pos=tpos, err_vel=evel, tol_vel=tvel, K=K_TOL, got=list(got),
                       ref=[float(x) for x in refr] + [float(x) for x in refv])
    known = in_known_region(c)
    if known and ctx.finding_open(region_key(c)):
        ctx.excluded(region_key(c))
        ctx.cls("known_region")
        ctx.stat_max("known_region_err_over_unit_tol", worst)
        return "excluded"
    # findings that excuse a moderate loss of accuracy only (order-unity errors still fail):
    soft = None
    if known and not c.get("w512"):
        soft = KEY_HYP_ACC            # hyperbolic region once the overflow defects are repaired: bisection accuracy
    elif not c["hyp"] and abs(c["dtP"]) > LONG_DTP and not c.get("w512"):
        soft = KEY_LONG               # very long elliptic steps: error grows like (dt/P)^2
    if soft is not None and ctx.finding_open(soft):
        if not loose:
            ctx.stat_max("soft_region_err_over_unit_tol:" + soft, worst)
        if worst <= 1024.0 * K_ACC:
            if bad is not None:
                ctx.excluded(soft)
                ctx.cls("known_region")
                return "excluded"
            if loose:
                ctx.cls("loose_tolerance")
                return "loose"
            return "asserted"
    if not loose:
        ctx.stat_max("err_over_unit_tol_%s_%s" % ("hyp" if c["hyp"] else "ell", "dt<=P" if abs(c["dtP"]) <= 1 else "dt>P"),
                     worst)
    if bad is not None:
        bad["ratio"] = worst
        if extra:
            bad.update(extra)
        raise Violation("%s: %s differs from the exact Kepler orbit by %.3g x (delta_cond+eps|x|), allowed K=%g%s"
                        % (what, bad["body"], worst, K_TOL,
                           " [inside the known-finding region]" if known else ""), **bad)
    if loose:
        ctx.cls("loose_tolerance")
        return "loose"
    return "asserted"


def not_returned(ctx, c, status, val, what, **details):
    """A call that hung or died.  Inside the known hyperbolic region a hang is the recorded finding."""
    known = in_known_region(c) and not c.get("w512")
    if status == "hang" and known and ctx.finding_open(KEY_HANG):
        ctx.excluded(KEY_HANG)
        ctx.cls("known_hang")
        return
    raise Violation("%s %s: %s%s" % (what, "does not terminate" if status == "hang" else "crashed", val,
                                     " [inside the known-finding region]" if known else ""), **details)


def run_direct(c, ctx):
    from ..oracles import c03_kepler_mp as KM
    r0, v0, mu, dt, e, f = realise(c)
    nt = classify(c, e, f, ctx)
    w = worker("direct", _direct_call)
    status, val = w.call(tuple(r0) + tuple(v0) + (mu, dt))
    if status != "ok":
        return not_returned(ctx, c, status, val, "reb_whfast_kepler_solver", r0=r0, v0=v0, mu=mu, dt=dt, e=e)
    if not finite6(val):
        raise Violation("reb_whfast_kepler_solver returns non-finite coordinates%s" % (
            " [inside the known-finding region]" if in_known_region(c) else ""),
            got=[repr(x) for x in val], r0=r0, v0=v0, mu=mu, dt=dt, e=e)
    refr, refv, dpos, dvel = KM.propagate_cond(r0, v0, mu, dt)
    xs = max(math.sqrt(sum(x * x for x in r0)), KM.norm(refr))
    vs = max(math.sqrt(sum(x * x for x in v0)), KM.norm(refv))
    K = k_of(c)
    res = judge(ctx, c, [("state", val, refr, refv, K * (dpos + EPS * xs), K * (dvel + EPS * vs))],
                "reb_whfast_kepler_solver", extra=dict(r0=r0, v0=v0, mu=mu, dt=dt, e=e))
    if nt and res == "asserted":
        ctx.nontrivial()


def run_terminates(c, ctx):
    """Termination and finiteness only (no oracle): cheap, so many more cases than `direct`."""
    r0, v0, mu, dt, e, f = realise(c)
    nt = classify(c, e, f, ctx)
    w = worker("direct", _direct_call)
    status, val = w.call(tuple(r0) + tuple(v0) + (mu, dt))
    if status != "ok":
        return not_returned(ctx, c, status, val, "reb_whfast_kepler_solver", r0=r0, v0=v0, mu=mu, dt=dt, e=e)
    if not finite6(val):
        raise Violation("reb_whfast_kepler_solver returns non-finite coordinates%s" % (
            " [inside the known-finding region]" if in_known_region(c) else ""),
            got=[repr(x) for x in val], r0=r0, v0=v0, mu=mu, dt=dt, e=e)
    if in_known_region(c):
        ctx.cls("in_hyperbolic_region")
    if nt:
        ctx.nontrivial()


# ---------------------------------------------------------------------------------------------------------
# entry point 2: one reb_simulation_step of a two-body simulation

# scheme -> (number of equal Kepler sub-steps the documented DKD / KDK structure applies in one step,
#            exact two-body also for a massive planet)
SCHEMES = {
    "whfast:jacobi": (2, True),
    "whfast:democraticheliocentric": (2, False),
    "whfast:whds": (2, True),
    "whfast:barycentric": (2, False),
    "saba": (2, True),
    "mercurius": (1, False),
    "trace": (1, False),
    "whfast512": (2, False),
}
G_CHOICES = [1.0, 4 * math.pi ** 2, 0.9, 6.674e-11, 2.959122082855911e-04]


PRELUDE_SCHEMES = PRELUDE_NAMES
prelude_item = st.tuples(st.sampled_from(PRELUDE_SCHEMES), st.integers(1, 3),
                         st.sampled_from([0.01, 0.02, 0.05, -0.02]), st.sampled_from([1, 0]))
# history of the SAME simulation before the measured step: k steps of other schemes / coordinate systems
prelude = st.one_of(st.just([]), st.lists(prelude_item, min_size=1, max_size=3))


# options of the massless-planet cases: force routine (where the scheme leaves it to the user) and the way the
# test particle is declared
GRAV = st.sampled_from(["basic", "basic", "compensated"])
TP = st.sampled_from(["m0", "m0", "na1_t0", "na1_t1"])


def tp_opts(c, m1, sch, ctx):
    """-> (grav, tp) effective for this case, with class counts."""
    grav = c.get("grav", "basic") if (sch.startswith("whfast:") or sch.startswith("saba")) else "basic"
    tp = c.get("tp", "m0") if m1 == 0 else "m0"
    ctx.cls("gravity:" + grav)
    ctx.cls("testparticle:" + tp)
    if grav == "compensated" and tp != "m0":
        ctx.cls("compensated+N_active1")
    return grav, tp


def step_case(schemes, g_choices, w512=False):
    extra = {}
    if not w512:
        extra["prelude"] = prelude
    if w512:
        # WHFast512: step in units of min(T_q, 5 P_|a|), T_q = 2pi sqrt(q^3/mu) the pericentre time scale (KEY_512);
        # lane: which of the 8 vector lanes carries the planet under test (the others carry massless fillers on
        # circular orbits); npl=1: a single planet, the other lanes are padded by the integrator itself
        extra["dtq"] = st.one_of(S.logfloats(1e-6, C512), S.logfloats(1e-3, C512), S.logfloats(C512, 1e2),
                                 S.logfloats(0.05, C512), S.logfloats(0.05, C512),
                                 st.sampled_from([0.01, 0.1, 0.15, 0.19]))
        extra["lane"] = st.sampled_from(list(range(8)))
        extra["npl"] = st.sampled_from([8, 8, 8, 1])
    return st.fixed_dictionaries({
        "orbit": orbit, **extra,
        "scheme": st.sampled_from(schemes),
        "G": st.sampled_from(g_choices),
        "qm": st.one_of(st.just(0.0), S.logfloats(1e-9, 1.0)),      # planet/star mass ratio where exact
        "safe_mode": st.sampled_from([1, 1, 0]),
        "grav": GRAV, "tp": TP,
    })


def _set_tp(sim, tp):
    """Test-particle representation of the massless planet: m=0 among active bodies, or N_active=1."""
    if tp and tp != "m0":
        sim.N_active = 1
        sim.testparticle_type = 1 if tp.endswith("t1") else 0
        try:
            sim.testparticle_hidewarnings = 1
        except AttributeError:
            pass


def _configure(sim, sch, safe_mode, grav="basic"):
    """What a user switching integrators on a live simulation does: select the integrator and its options,
    re-select the basic gravity routine (WHFast/SABA/MERCURIUS/TRACE leave their own selected; REBOUND warns
    otherwise) and ask for coordinates to be recalculated."""
    if sim.gravity != "basic":
        sim.gravity = "basic"
    if sch.startswith("whfast:"):
        sim.integrator = "whfast"
        sim.ri_whfast.coordinates = sch.split(":")[1]
        sim.ri_whfast.safe_mode = safe_mode
        sim.ri_whfast.recalculate_coordinates_this_timestep = 1
        sim.gravity = grav          # WHFast / SABA (default kernel) leave the force routine to the user
    elif sch == "saba" or sch.startswith("saba:"):
        sim.integrator = "saba"
        sim.ri_saba.type = sch.split(":", 1)[1] if ":" in sch else "1"
        sim.ri_saba.safe_mode = safe_mode
        sim.ri_whfast.coordinates = "jacobi"
        sim.ri_whfast.recalculate_coordinates_this_timestep = 1
        sim.gravity = grav
    elif sch == "mercurius":
        sim.integrator = "mercurius"
        sim.ri_mercurius.safe_mode = safe_mode
        sim.ri_mercurius.recalculate_coordinates_this_timestep = 1
        sim.ri_mercurius.recalculate_r_crit_this_timestep = 1
    elif sch == "trace":
        sim.integrator = "trace"
        sim.ri_trace.S_peri = "none"
    elif sch == "whfast512":
        sim.integrator = "whfast512"
        sim.exact_finish_time = 0
    elif sch in ("ias15", "leapfrog"):
        sim.integrator = sch
    else:
        raise ValueError(sch)


_step_state = {}


def _step_call(a):
    """op "prepare": build the simulation, run the prelude, select the scheme under test, return the state right
    before the measured step; op "step": take the measured step on that simulation.  Default: both."""
    import warnings
    import rebound
    warnings.simplefilter("ignore")
    op = a.get("op", "both")
    sch = a["scheme"]
    if op in ("prepare", "both"):
        sim = rebound.Simulation()
        sim.G = a["G"]
        for p in a["particles"]:
            sim.add(m=p[6], x=p[0], y=p[1], z=p[2], vx=p[3], vy=p[4], vz=p[5])
        _set_tp(sim, a.get("tp"))
        for psch, k, frac, sm in a.get("prelude", []):
            _configure(sim, psch, sm)
            sim.dt = (abs(frac) if psch == "trace" else frac) * a["P"]     # TRACE: forward steps only
            try:
                sim.steps(k)
            except (rebound.Escape, rebound.Encounter, rebound.Collision):
                pass
            sim.synchronize()
        _configure(sim, sch, a["safe_mode"], a.get("grav", "basic"))
        pre = []
        for i in range(sim.N):
            p = sim.particles[i]
            pre.append((p.x, p.y, p.z, p.vx, p.vy, p.vz))
        _step_state["sim"] = sim
        if op == "prepare":
            return pre, sim.t
    sim = _step_state["sim"]
    t0 = sim.t
    sim.dt = a["dt"]
    sim.step()
    enc = 0
    if sch == "mercurius":
        enc = sim.ri_mercurius._encounter_N
    elif sch == "trace":
        enc = sim.ri_trace._encounter_N
    sim.synchronize()
    out = []
    for i in range(sim.N):
        p = sim.particles[i]
        out.append((p.x, p.y, p.z, p.vx, p.vy, p.vz))
    _step_state.pop("sim", None)
    if sch.startswith("whfast:") or sch == "saba":
        if sim.gravity != a.get("grav", "basic"):
            raise RuntimeError("harness: gravity routine %r was replaced by %r" % (a.get("grav"), sim.gravity))
    return out, sim.t, enc, t0


PAD_R3 = 1.0e6       # WHFast512 pads unused lanes with particles at r ~ 100 (length units of the simulation)


def run_step(c, ctx):
    import mpmath
    from mpmath import mpf
    from ..oracles import c03_kepler_mp as KM
    o = c["orbit"]
    sch = c["scheme"]
    nsub, massive_ok = SCHEMES[sch]
    r0, v0, mu, dt, e, f = realise(o)
    G = 1.0 if sch == "whfast512" else c["G"]
    qm = c["qm"] if massive_ok else 0.0
    m0 = mu / G / (1.0 + qm)
    m1 = qm * m0
    if not (1e-300 < m0 < 1e300):
        ctx.skip("mass out of double range")
        return
    if sch == "whfast512":
        # documented: WHFast512 supports dt>0 only; the step is drawn relative to the pericentre time scale
        dtP = min(1e3, max(1e-8, c["dtq"] * min(abs(1.0 - e) ** 1.5, 5.0)))
        P = abs(dt / o["dtP"])
        o = dict(o, dtP=dtP, w512=True)
        dt = dtP * P
    ctx.cls(sch)
    if m1 > 0:
        ctx.cls("massive_planet")
        M = m0 + m1
        star = [-(m1 / M) * x for x in r0] + [-(m1 / M) * x for x in v0] + [m0]
        plan = [(m0 / M) * x for x in r0] + [(m0 / M) * x for x in v0] + [m1]
    else:
        star = [0.0] * 6 + [m0]
        plan = list(r0) + list(v0) + [0.0]
    parts = [star, plan]
    ip = 1
    if sch == "whfast512" and c["npl"] == 8:
        # no padding: fill the other 7 lanes with massless planets on circular orbits outside the pericentre
        # distance of the orbit under test (so they are inside WHFast512's good region whenever it is)
        q = o["a"] * abs(1.0 - e) if e != 1.0 else o["a"]
        q = max(q, 1e-3 * o["a"])
        parts = [star]
        k = 0
        for lane in range(8):
            if lane == c["lane"]:
                parts.append(plan)
                ip = len(parts) - 1
                continue
            R = q * (1.618 + 0.4142 * k)
            th = 0.37 + k
            vc = math.sqrt(mu / R)
            parts.append([R * math.cos(th), R * math.sin(th), 0.123 * R, -vc * math.sin(th), vc * math.cos(th), 0.0, 0.0])
            k += 1
        ctx.cls("lane%d" % c["lane"])
    elif sch == "whfast512":
        ctx.cls("padded")
        if dt > C512 * 2 * math.pi * math.sqrt(PAD_R3 / mu):
            if ctx.finding_open(KEY_512_PAD):
                ctx.excluded(KEY_512_PAD)
                ctx.cls("known_padding_region")
                return
            o = dict(o, pad_region=True)
    arg = {"G": G, "particles": parts, "scheme": sch, "safe_mode": c["safe_mode"], "dt": dt}
    if sch != "whfast512":
        grav, tp = tp_opts(c, m1, sch, ctx)
        arg.update(grav=grav, tp=tp)
    w = worker("step", _step_call)
    pl = c.get("prelude") or []
    if pl and o["hyp"] and o["e_hyp"] - 1.0 < 0.02:
        pl = []          # keep the prelude's own (short) steps far outside the known hyperbolic region
    if o["hyp"] or o["e_ell"] > 0.5:
        # hybrid integrators in the history only on orbits they advance without their adaptive encounter
        # sub-integrators (star encounter criterion 0.4*v*dt < r_peri/1.1 holds for e<=0.5, |dt|<=0.05 P);
        # otherwise they leave arbitrary states and arbitrarily expensive encounter integrations
        pl = [x for x in pl if x[0] not in ("mercurius", "trace")]
    t0 = 0.0
    f_eff = f
    if pl:
        # history on the same simulation: k steps of other schemes, then switch to the scheme under test.
        # The reference is the state read right before the measured step: the prelude's accuracy is irrelevant.
        P0 = abs(dt / o["dtP"])
        arg = dict(arg, prelude=[list(x) for x in pl], P=P0, op="prepare")
        status, val = w.call(arg)
        if status == "hang":
            # the prelude is history, not the step under test; it may contain adaptive sub-integrations (IAS15 / BS
            # inside a MERCURIUS / TRACE encounter, IAS15 itself) that are legitimately expensive: a CPU budget hit
            # here is not a verdict (termination of the Kepler solver is asserted by `terminates`/`direct`)
            ctx.skip("prelude exceeded the CPU budget: inconclusive, not a verdict")
            return
        if status != "ok":
            raise Violation("prelude %r crashed: %s" % (pl, val), arg=arg)
        pre, t0 = val
        if not all(finite6(x) for x in pre):
            ctx.skip("prelude left a non-finite state")
            return
        star = list(pre[0]) + [m0]
        plan = list(pre[ip]) + [m1]
        info = {}
        try:
            KM.propagate([plan[k] - star[k] for k in range(3)], [plan[3 + k] - star[3 + k] for k in range(3)],
                         G * (m0 + m1), 0.0, info)
        except (ValueError, ArithmeticError, ZeroDivisionError):
            ctx.skip("state after the prelude is outside the oracle's domain")
            return
        e_eff, a_eff = info["e"], abs(info["a"])
        P_eff = 2 * math.pi * math.sqrt(a_eff ** 3 / (G * (m0 + m1)))
        dtP_eff = dt / P_eff
        if abs(1.0 - e_eff) < 1e-6 or e_eff > 50.0 or not (1e-8 <= abs(dtP_eff) <= 1e3):
            ctx.skip("orbit after the prelude is outside the property's quantifier")
            return
        hyp_eff = info["kind"] == "hyperbolic"
        o = dict(o, hyp=hyp_eff, e_hyp=e_eff if hyp_eff else o["e_hyp"], e_ell=e_eff if not hyp_eff else o["e_ell"],
                 dtP=dtP_eff)
        e = e_eff
        rr = math.sqrt(sum((plan[k] - star[k]) ** 2 for k in range(3)))
        cf = (a_eff * abs(1 - e_eff * e_eff) / rr - 1.0) / e_eff if e_eff > 0 else 1.0
        f_eff = math.acos(max(-1.0, min(1.0, cf)))
        ctx.cls("prelude")
        for x in pl:
            ctx.cls("prelude:" + x[0])
        arg = dict(arg, op="step")
    nt = classify(o, e, f_eff, ctx)
    status, val = w.call(arg)
    if status == "hang" and sch in ("mercurius", "trace"):
        # these two may hand the step to IAS15 / BS (encounter with the star): cost is then unbounded by design,
        # and such steps are outside the domain anyway ('away from encounters')
        ctx.skip("%s step exceeded the CPU budget (adaptive encounter integration): inconclusive" % sch)
        return
    if status != "ok":
        return not_returned(ctx, o, status, val, "one step of %s" % sch, arg=arg)
    out, t1, enc, t0 = val
    s1, p1 = out[0], out[ip]
    if enc >= 2:
        # MERCURIUS / TRACE decided that the planet has a close encounter (with the star) during this step and
        # integrated it with IAS15 / BS: the property speaks about steps away from encounters
        ctx.skip("%s flagged an encounter: outside the domain" % sch)
        return
    if not all(finite6(x) for x in out):
        if o.get("w512") and in_known_region(o) and ctx.finding_open(KEY_512):
            ctx.excluded(KEY_512)
            ctx.cls("known_region_nonfinite")
            return
        raise Violation("one step of %s yields non-finite coordinates%s%s" % (
            sch, " [inside the known-finding region]" if in_known_region(o) else "",
            " [dt large against the period of the padding particles]" if o.get("pad_region") else ""),
            out=[[repr(x) for x in b] for b in out], arg=arg)
    old = mpmath.mp.dps
    mpmath.mp.dps = KM.DPS
    try:
        mm0, mm1, mG = mpf(m0), mpf(m1), mpf(G)
        mM = mm0 + mm1
        mum = mG * mM
        rel_r = [mpf(plan[k]) - mpf(star[k]) for k in range(3)]
        rel_v = [mpf(plan[3 + k]) - mpf(star[3 + k]) for k in range(3)]
        com_r = [(mm0 * mpf(star[k]) + mm1 * mpf(plan[k])) / mM for k in range(3)]
        com_v = [(mm0 * mpf(star[3 + k]) + mm1 * mpf(plan[3 + k])) / mM for k in range(3)]
        mdt = mpf(dt)
        n3 = lambda v: math.sqrt(sum(float(x) ** 2 for x in v))
        K_TOL = k_of(o)            # the Kepler sub-steps of a DKD scheme are shorter still: same K (not smaller)
        if nsub == 1:
            refr, refv, dpos, dvel = KM.propagate_cond(rel_r, rel_v, mum, mdt)
            xs = max(n3(rel_r), n3(refr))
            vs = max(n3(rel_v), n3(refv))
            tpos, tvel = K_TOL * (dpos + EPS * xs), K_TOL * (dvel + EPS * vs)
        else:
            # DKD: two Kepler half steps.  The first may err by its own allowance E1 = K*(delta_cond1 + eps|x|);
            # the second carries E1 to the end (oracle's own error propagation) and adds its own allowance.
            hdt = mdt / 2
            rm, vm, dp1, dv1 = KM.propagate_cond(rel_r, rel_v, mum, hdt)
            e1p = K_TOL * (dp1 + EPS * max(n3(rel_r), n3(rm)))
            e1v = K_TOL * (dv1 + EPS * max(n3(rel_v), n3(vm)))
            rmf, vmf = [float(x) for x in rm], [float(x) for x in vm]
            _, _, dp2, dv2 = KM.propagate_cond(rmf, vmf, mum, hdt)
            sp, sv = KM.propagate_sens(rmf, vmf, mum, hdt, e1p, e1v)
            refr, refv = KM.propagate(rel_r, rel_v, mum, mdt)
            xs = max(n3(rm), n3(refr))
            vs = max(n3(vm), n3(refv))
            tpos, tvel = K_TOL * (dp2 + EPS * xs) + sp, K_TOL * (dv2 + EPS * vs) + sv
        com1 = [com_r[k] + com_v[k] * mdt for k in range(3)]
        ref_p = [com1[k] + (mm0 / mM) * refr[k] for k in range(3)], [com_v[k] + (mm0 / mM) * refv[k] for k in range(3)]
        ref_s = [com1[k] - (mm1 / mM) * refr[k] for k in range(3)], [com_v[k] - (mm1 / mM) * refv[k] for k in range(3)]
        fp, fs = float(mm0 / mM), float(mm1 / mM)
    finally:
        mpmath.mp.dps = old
    if (rb_dbits(t1) != rb_dbits(dt)) if t0 == 0.0 else (abs(t1 - (t0 + dt)) > 8 * EPS * max(abs(t0), abs(dt), abs(t1))):
        raise Violation("one step of %s from t=%r with dt=%r ends at t=%r" % (sch, t0, dt, t1), arg=arg)
    if m1 > 0 or any(x != 0.0 for x in star[0:6]):
        # inertial frame: conversions to/from Jacobi/heliocentric coordinates and the centre-of-mass drift round
        # at the size of the inertial coordinates
        xi = max(n3(star[0:3]), n3(plan[0:3]), n3(s1[0:3]), n3(p1[0:3])) + max(n3(star[3:6]), n3(plan[3:6])) * abs(dt)
        vi = max(n3(star[3:6]), n3(plan[3:6]), n3(s1[3:6]), n3(p1[3:6]))
        bodies = [("planet", p1, ref_p[0], ref_p[1], fp * tpos + K_TOL * EPS * xi, fp * tvel + K_TOL * EPS * vi),
                  ("star", s1, ref_s[0], ref_s[1], fs * tpos + K_TOL * EPS * xi, fs * tvel + K_TOL * EPS * vi)]
    else:
        if any(x != 0.0 for x in s1):
            raise Violation("one step of %s with a massless planet moved the star, initially at rest at the origin"
                            % sch, star=list(s1), arg=arg)
        bodies = [("planet", p1, ref_p[0], ref_p[1], tpos, tvel)]
    res = judge(ctx, o, bodies, "one step of %s" % sch, extra=dict(arg=arg, nominal_e=e, planet_index=ip))
    if res == "asserted":
        ctx.cls(sch + ":asserted")
        if nt:
            ctx.nontrivial()


# ---------------------------------------------------------------------------------------------------------
# entry point 3: several WHFast steps (Jacobi coordinates, default kernel) with the documented option lattice
# safe_mode x keep_unsynchronized x variational particles / MEGNO, final synchronize

multi_case = st.fixed_dictionaries({
    "orbit": orbit,
    "G": st.sampled_from(G_CHOICES),
    "qm": st.one_of(st.just(0.0), S.logfloats(1e-9, 1.0)),
    "m": st.sampled_from([2, 2, 3]),
    "safe_mode": st.sampled_from([0, 0, 1]),
    "keep": st.sampled_from([1, 1, 0]),           # keep_unsynchronized (only valid with safe_mode=0)
    "var": st.sampled_from(["none", "variation", "variation", "megno"]),
    "grav": GRAV, "tp": TP,
})


def _multi_call(a):
    import warnings
    import rebound
    warnings.simplefilter("ignore")
    sim = rebound.Simulation()
    sim.G = a["G"]
    for p in a["particles"]:
        sim.add(m=p[6], x=p[0], y=p[1], z=p[2], vx=p[3], vy=p[4], vz=p[5])
    _set_tp(sim, a.get("tp"))
    sim.integrator = "whfast"
    sim.gravity = a.get("grav", "basic")
    sim.ri_whfast.coordinates = "jacobi"
    sim.ri_whfast.safe_mode = a["safe_mode"]
    sim.ri_whfast.keep_unsynchronized = a["keep"]
    if a["var"] == "variation":
        v = sim.add_variation()
        v.particles[1].x = 1.0
    elif a["var"] == "megno":
        sim.init_megno(seed=3)
    sim.dt = a["dt"]
    sim.steps(a["m"])
    sim.synchronize()
    out = []
    for i in range(2):
        p = sim.particles[i]
        out.append((p.x, p.y, p.z, p.vx, p.vy, p.vz))
    return out, sim.t


def chain_allowance(KM, rel_r, rel_v, mum, pieces, K):
    """Allowed error after a sequence of Kepler sub-steps, each exact to K*(delta_cond + eps|x|): the allowance
    accumulated so far is carried through the next piece by the oracle's own error propagation."""
    n3 = lambda v: math.sqrt(sum(float(x) ** 2 for x in v))
    r, v = list(rel_r), list(rel_v)
    ep = ev = 0.0
    xs = vs = 0.0
    for j, h in enumerate(pieces):
        rin = r if j == 0 else [float(x) for x in r]
        vin = v if j == 0 else [float(x) for x in v]
        r2, v2, dp, dv = KM.propagate_cond(rin, vin, mum, h)
        sp = sv = 0.0
        if ep > 0.0 or ev > 0.0:
            sp, sv = KM.propagate_sens(rin, vin, mum, h, ep, ev)
        xs, vs = max(n3(rin), n3(r2)), max(n3(vin), n3(v2))
        ep = K * (dp + EPS * xs) + sp
        ev = K * (dv + EPS * vs) + sv
        r, v = r2, v2
    return ep, ev


def run_multi(c, ctx):
    import mpmath
    from mpmath import mpf
    from ..oracles import c03_kepler_mp as KM
    o = c["orbit"]
    r0, v0, mu, dt, e, f = realise(o)
    G = c["G"]
    qm = c["qm"]
    m0 = mu / G / (1.0 + qm)
    m1 = qm * m0
    if not (1e-300 < m0 < 1e300):
        ctx.skip("mass out of double range")
        return
    m = c["m"]
    sm = c["safe_mode"]
    keep = c["keep"] if sm == 0 else 0
    nt = classify(o, e, f, ctx)
    ctx.cls("safe_mode%d" % sm)
    ctx.cls("keep_unsynchronized%d" % keep)
    ctx.cls("var:" + c["var"])
    if sm == 0 and keep == 1 and c["var"] != "none":
        ctx.cls("unsynchronized+variations")
    if m1 > 0:
        M = m0 + m1
        star = [-(m1 / M) * x for x in r0] + [-(m1 / M) * x for x in v0] + [m0]
        plan = [(m0 / M) * x for x in r0] + [(m0 / M) * x for x in v0] + [m1]
    else:
        star = [0.0] * 6 + [m0]
        plan = list(r0) + list(v0) + [0.0]
    arg = {"G": G, "particles": [star, plan], "safe_mode": sm, "keep": keep, "var": c["var"], "dt": dt, "m": m}
    grav, tp = tp_opts(c, m1 if c["var"] == "none" else 1.0, "whfast:jacobi", ctx)   # N_active=1 only without variations
    arg.update(grav=grav, tp=tp)
    w = worker("multi", _multi_call)
    status, val = w.call(arg)
    what = "%d WHFast steps (safe_mode=%d keep_unsynchronized=%d %s)" % (m, sm, keep, c["var"])
    if status != "ok":
        return not_returned(ctx, o, status, val, what, arg=arg)
    out, t1 = val
    s1, p1 = out
    if not (finite6(s1) and finite6(p1)):
        raise Violation("%s yield non-finite coordinates%s" % (
            what, " [inside the known-finding region]" if in_known_region(o) else ""),
            out=[[repr(x) for x in b] for b in out], arg=arg)
    if abs(t1 - m * dt) > 8 * EPS * abs(m * dt):
        raise Violation("%s with dt=%r end at t=%r" % (what, dt, t1), arg=arg)
    old = mpmath.mp.dps
    mpmath.mp.dps = KM.DPS
    try:
        mm0, mm1, mG = mpf(m0), mpf(m1), mpf(G)
        mM = mm0 + mm1
        mum = mG * mM
        rel_r = [mpf(plan[k]) - mpf(star[k]) for k in range(3)]
        rel_v = [mpf(plan[3 + k]) - mpf(star[3 + k]) for k in range(3)]
        com_r = [(mm0 * mpf(star[k]) + mm1 * mpf(plan[k])) / mM for k in range(3)]
        com_v = [(mm0 * mpf(star[3 + k]) + mm1 * mpf(plan[3 + k])) / mM for k in range(3)]
        mdt = mpf(dt)
        # documented structure: safe_mode=1: (D/2 K D/2) per step; safe_mode=0: D/2 K (D K)^(m-1) D/2
        # (with variational particles and keep_unsynchronized=0 WHFast synchronizes after every step even with
        # safe_mode=0; both sequences are legitimate implementations, so safe_mode=0 is allowed the larger allowance)
        K = k_of(o)
        tpos, tvel = chain_allowance(KM, rel_r, rel_v, mum, [mdt / 2, mdt / 2] * m, K)
        if sm == 0:
            tp2, tv2 = chain_allowance(KM, rel_r, rel_v, mum, [mdt / 2] + [mdt] * (m - 1) + [mdt / 2], K)
            tpos, tvel = max(tpos, tp2), max(tvel, tv2)
        refr, refv = KM.propagate(rel_r, rel_v, mum, mdt * m)
        T = mdt * m
        com1 = [com_r[k] + com_v[k] * T for k in range(3)]
        ref_p = [com1[k] + (mm0 / mM) * refr[k] for k in range(3)], [com_v[k] + (mm0 / mM) * refv[k] for k in range(3)]
        ref_s = [com1[k] - (mm1 / mM) * refr[k] for k in range(3)], [com_v[k] - (mm1 / mM) * refv[k] for k in range(3)]
        fp, fs = float(mm0 / mM), float(mm1 / mM)
    finally:
        mpmath.mp.dps = old
    n3 = lambda v: math.sqrt(sum(float(x) ** 2 for x in v))
    if m1 > 0:
        xi = max(n3(star[0:3]), n3(plan[0:3]), n3(s1[0:3]), n3(p1[0:3])) + max(n3(star[3:6]), n3(plan[3:6])) * abs(m * dt)
        vi = max(n3(star[3:6]), n3(plan[3:6]), n3(s1[3:6]), n3(p1[3:6]))
        bodies = [("planet", p1, ref_p[0], ref_p[1], fp * tpos + m * K * EPS * xi, fp * tvel + m * K * EPS * vi),
                  ("star", s1, ref_s[0], ref_s[1], fs * tpos + m * K * EPS * xi, fs * tvel + m * K * EPS * vi)]
    else:
        if any(x != 0.0 for x in s1):
            raise Violation("%s with a massless planet moved the star, initially at rest at the origin" % what,
                            star=list(s1), arg=arg)
        bodies = [("planet", p1, ref_p[0], ref_p[1], tpos, tvel)]
    res = judge(ctx, o, bodies, what, extra=dict(arg=arg, nominal_e=e))
    if res == "asserted":
        ctx.cls("asserted")
        if nt:
            ctx.nontrivial()


# ---------------------------------------------------------------------------------------------------------
# entry point 4: advance schedules (steps / synchronize / integrate with and without exact finish) through every
# Wisdom-Holman-type scheme; the final synchronized state is held to the two-body oracle at sim.t

SABA_PLAIN = ["1", "2", "3", "4", "10,4", "8,6,4", "10,6,4", "h8,4,4", "h8,6,4", "h10,6,4"]
SCHED_SCHEMES = ["whfast:jacobi", "whfast:democraticheliocentric", "whfast:whds", "whfast:barycentric",
                 "mercurius", "trace"] + ["saba:" + t for t in SABA_PLAIN]
K_SCHED = 128.0      # one Kepler piece of a mild orbit errs by at most K_SCHED*eps*(|x|,|v|) (measured on HEAD: < 2e-4 of the allowance)
sched_op = st.one_of(
    st.tuples(st.just("steps"), st.integers(1, 3)),
    st.tuples(st.just("sync")),
    st.tuples(st.just("integrate"), st.sampled_from([0.0, 1e-6, 0.3, 1.0, 1.7, 3.2]), st.sampled_from([1, 1, 0])),
)
sched_case = st.fixed_dictionaries({
    "hyp": st.sampled_from([False, False, True]),
    "e_ell": st.one_of(S.floats(0.0, 0.7), st.sampled_from([0.0, 0.3, 0.7])),
    "e_hyp": S.floats(1.3, 5.0),
    "a": S.logfloats(1e-3, 1e3), "mu": S.logfloats(1e-3, 1e3),
    "u": S.floats(-0.9, 0.9),
    "inc": S.floats(0.0, math.pi), "Om": S.angles, "om": S.angles,
    "dtf": st.sampled_from([0.01, 0.03, 0.1, -0.03, -0.1]),
    "scheme": st.one_of(st.sampled_from(SCHED_SCHEMES[:4]), st.sampled_from(SCHED_SCHEMES[:4]),
                        st.sampled_from(SCHED_SCHEMES[4:6]), st.sampled_from(["saba:" + t for t in SABA_PLAIN]),
                        st.sampled_from(["saba:" + t for t in SABA_PLAIN])),
    # first symplectic correctors (Jacobi and barycentric coordinates) and the second corrector (Jacobi): for a
    # two-body problem every corrector is the identity up to rounding
    "corr": st.sampled_from([0, 0, 3, 5, 7, 11, 17]),
    "corr2": st.sampled_from([0, 0, 1]),
    "safe_mode": st.sampled_from([0, 0, 1]),
    "G": st.sampled_from(G_CHOICES),
    "qm": st.one_of(st.just(0.0), S.logfloats(1e-9, 1.0)),
    "ops": st.lists(sched_op, min_size=1, max_size=5),
    "grav": GRAV, "tp": TP,
})


def _sched_call(a):
    import warnings
    import rebound
    warnings.simplefilter("ignore")
    sim = rebound.Simulation()
    sim.G = a["G"]
    for p in a["particles"]:
        sim.add(m=p[6], x=p[0], y=p[1], z=p[2], vx=p[3], vy=p[4], vz=p[5])
    sch = a["scheme"]
    _set_tp(sim, a.get("tp"))
    _configure(sim, sch, a["safe_mode"], a.get("grav", "basic"))
    if sch.startswith("whfast:"):
        sim.ri_whfast.corrector = a.get("corr", 0)
        sim.ri_whfast.corrector2 = a.get("corr2", 0)
    dt = a["dt"]
    sim.dt = dt
    enc = 0
    log = []
    for op in a["ops"]:
        if op[0] == "steps":
            for _ in range(op[1]):
                sim.step()
                if sch == "mercurius":
                    enc = max(enc, sim.ri_mercurius._encounter_N)
                elif sch == "trace":
                    enc = max(enc, sim.ri_trace._encounter_N)
        elif op[0] == "sync":
            sim.synchronize()
        else:
            sim.integrate(sim.t + op[1] * dt, exact_finish_time=op[2])
        log.append(sim.t)
    sim.synchronize()
    out = []
    for i in range(2):
        p = sim.particles[i]
        out.append((p.x, p.y, p.z, p.vx, p.vy, p.vz))
    return out, sim.t, sim.steps_done, enc, log


def run_sched(c, ctx):
    import mpmath
    from mpmath import mpf
    from ..oracles import c03_kepler_mp as KM
    sch = c["scheme"]
    hyp = c["hyp"]
    dtf = c["dtf"]
    ecc = {"e_ell": c["e_ell"], "e_hyp": c["e_hyp"]}
    if sch in ("mercurius", "trace"):
        # keep these two away from their own (star) encounter criteria: nearly circular, short forward steps
        hyp = False
        ecc["e_ell"] = min(c["e_ell"], 0.3)
        dtf = min(abs(dtf), 0.03)
    corr = c.get("corr", 0) if sch in ("whfast:jacobi", "whfast:barycentric") else 0
    corr2 = c.get("corr2", 0) if sch == "whfast:jacobi" else 0
    if corr or corr2:
        # the correctors' own Kepler pieces are up to 6.7 dt long: keep them inside the |piece| <= 0.2 P premise
        dtf = math.copysign(min(abs(dtf), 0.03), dtf)
    o = dict(c, hyp=hyp, dtP=dtf, **ecc)
    r0, v0, mu, dt, e, f = realise(o)
    massive_ok = sch in ("whfast:jacobi", "whfast:whds") or sch.startswith("saba:")
    G = c["G"]
    qm = c["qm"] if massive_ok else 0.0
    m0 = mu / G / (1.0 + qm)
    m1 = qm * m0
    if m1 > 0:
        M = m0 + m1
        star = [-(m1 / M) * x for x in r0] + [-(m1 / M) * x for x in v0] + [m0]
        plan = [(m0 / M) * x for x in r0] + [(m0 / M) * x for x in v0] + [m1]
    else:
        star = [0.0] * 6 + [m0]
        plan = list(r0) + list(v0) + [0.0]
    ops = [list(x) for x in c["ops"]]
    arg = {"G": G, "particles": [star, plan], "scheme": sch, "safe_mode": c["safe_mode"], "dt": dt, "ops": ops}
    grav, tp = tp_opts(c, m1, sch, ctx)
    arg.update(grav=grav, tp=tp, corr=corr, corr2=corr2)
    if corr:
        ctx.cls("corrector%d:%s" % (corr, sch.split(":")[1]))
        if tp == "na1_t0" and sch == "whfast:barycentric":
            ctx.cls("barycentric+corrector+N_active1")
    if corr2:
        ctx.cls("corrector2")
    what = "schedule %r through %s (safe_mode=%d corrector=%d corrector2=%d %s %s)" % (
        ops, sch, c["safe_mode"], corr, corr2, grav, tp)
    w = worker("sched", _sched_call)
    status, val = w.call(arg)
    if status != "ok":
        raise Violation("%s %s: %s" % (what, "does not terminate" if status == "hang" else "crashed", val), arg=arg)
    out, T, steps_done, enc, log = val
    if enc >= 2:
        ctx.skip("%s flagged an encounter: outside the domain" % sch)
        return
    s1, p1 = out
    if not (finite6(s1) and finite6(p1)):
        raise Violation("%s yields non-finite coordinates" % what, out=[[repr(x) for x in b] for b in out], arg=arg)
    ctx.cls(sch.split(":")[0] if sch.startswith("saba") else sch)
    if sch.startswith("saba"):
        ctx.cls(sch)
    ctx.cls("safe_mode%d" % c["safe_mode"])
    kinds = [x[0] for x in ops]
    for i in range(1, len(ops)):
        if ops[i - 1][0] == "steps" and ops[i][0] == "integrate":
            ctx.cls("steps_then_integrate:frac=%g" % ops[i][1])
    old = mpmath.mp.dps
    mpmath.mp.dps = KM.DPS
    try:
        mm0, mm1, mG = mpf(m0), mpf(m1), mpf(G)
        mM = mm0 + mm1
        mum = mG * mM
        rel_r = [mpf(plan[k]) - mpf(star[k]) for k in range(3)]
        rel_v = [mpf(plan[3 + k]) - mpf(star[3 + k]) for k in range(3)]
        com_r = [(mm0 * mpf(star[k]) + mm1 * mpf(plan[k])) / mM for k in range(3)]
        com_v = [(mm0 * mpf(star[3 + k]) + mm1 * mpf(plan[3 + k])) / mM for k in range(3)]
        mT = mpf(T)
        refr, refv = KM.propagate(rel_r, rel_v, mum, mT)
        n3 = lambda v: math.sqrt(sum(float(x) ** 2 for x in v))
        # allowance: every Kepler piece may err by K_SCHED*eps*(|x|,|v|) wherever along the path it is applied; the
        # oracle carries such an error from 5 points of the path to the end; at most 10 pieces per step / call
        grid = [(rel_r, rel_v, mpf(0))]
        for k in range(1, 5):
            tg = mT * k / 5
            rg, vg = KM.propagate(rel_r, rel_v, mum, tg)
            grid.append((rg, vg, tg))
        xs = max([n3(g[0]) for g in grid] + [n3(refr)])
        vs = max([n3(g[1]) for g in grid] + [n3(refv)])
        spos = EPS * xs
        svel = EPS * vs
        for rg, vg, tg in grid:
            if mT - tg == 0:
                continue
            sp, sv = KM.propagate_sens([float(x) for x in rg], [float(x) for x in vg], mum, mT - tg, EPS * xs, EPS * vs)
            spos, svel = max(spos, sp), max(svel, sv)
        # pieces per step / call: <= 10 for the scheme itself; a first corrector of order o is (o-1) operators Z of
        # 3 Kepler pieces, applied and undone: 6(o-1); the second corrector 2 x 10 pieces, applied and undone: 40
        npieces = (10 + 6 * max(0, corr - 1) + 40 * corr2) * (steps_done + len(ops) + 1)
        tpos = K_SCHED * npieces * spos
        tvel = K_SCHED * npieces * svel
        com1 = [com_r[k] + com_v[k] * mT for k in range(3)]
        ref_p = [com1[k] + (mm0 / mM) * refr[k] for k in range(3)], [com_v[k] + (mm0 / mM) * refv[k] for k in range(3)]
        ref_s = [com1[k] - (mm1 / mM) * refr[k] for k in range(3)], [com_v[k] - (mm1 / mM) * refv[k] for k in range(3)]
    finally:
        mpmath.mp.dps = old
    worst = 0.0
    for name, got, rr, rv in (("planet", p1, ref_p[0], ref_p[1]), ("star", s1, ref_s[0], ref_s[1])):
        ep, ev = KM.err_norm(rr, got[0:3]), KM.err_norm(rv, got[3:6])
        worst = max(worst, ep / tpos, ev / tvel)
        if ep > tpos or ev > tvel:
            raise Violation("%s: %s at t=%r is off the exact Kepler orbit by %.3g x the allowance "
                            "(%d pieces x K=%g x eps x oracle error propagation)"
                            % (what, name, T, max(ep / tpos, ev / tvel), npieces, K_SCHED),
                            err_pos=ep, tol_pos=tpos, err_vel=ev, tol_vel=tvel, got=list(got),
                            ref=[float(x) for x in rr] + [float(x) for x in rv], t_after_each_op=log, arg=arg)
    ctx.stat_max("err_over_allowance", worst)
    if steps_done >= 2 and len(set(kinds)) >= 2:
        ctx.nontrivial()


def rb_dbits(x):
    return struct.unpack("<Q", struct.pack("<d", x))[0]


def prepare(tier):
    from ..oracles import c03_kepler_mp as KM
    w = KM.selftest()
    if not w < 1e-50:
        raise RuntimeError("C03 oracle self-test failed: %g" % w)


def subs(tier):
    return [
        Sub("direct", run_direct, strategy=orbit, quick=3200, thorough=120000, shards_quick=8, shards_thorough=16),
        Sub("terminates", run_terminates, strategy=orbit, quick=8000, thorough=200000, shards_quick=8,
            shards_thorough=16),
        Sub("step", run_step, strategy=step_case([k for k in SCHEMES if k != "whfast512"], G_CHOICES),
            quick=1200, thorough=40000, shards_quick=8, shards_thorough=16),
        Sub("multistep", run_multi, strategy=multi_case, quick=240, thorough=8000, shards_quick=8, shards_thorough=16),
        Sub("schedule", run_sched, strategy=sched_case, quick=640, thorough=12000, shards_quick=8, shards_thorough=16),
        Sub("step512", run_step, strategy=step_case(["whfast512"], [1.0], w512=True), variant="avx512",
            quick=640, thorough=16000, shards_quick=4, shards_thorough=8),
    ]
