"""C19 - concurrent simulations do not interfere; served snapshots are consistent.

Sub-checks
  interleave        K simulations (generated integrator types, each a small program of step / integrate / copy /
                    save+load / pickle / synchronize / churn operations) advanced in ONE thread by a generated
                    schedule of single operations (step granular) vs each program run alone: final states bitwise equal.
  threads           the same programs, one Python thread each (ctypes releases the GIL inside C calls) vs alone.
  threads_stress    2-4 threads running the SAME integrator configuration (those with cached coordinates / per-call
                    scratch first) on different systems with 1000-2000 test particles, a few hundred short
                    integrate() calls each, started together, vs alone: the C calls overlap all the time.
  interleave512 / threads512   the same on the avx512 build with WHFast512 among the integrators.
  server            a simulation integrating with the built-in web server running while a client thread GETs
                    /simulation at generated offsets: every response is a complete snapshot equal to the state
                    at a step boundary recorded by the run's own heartbeat, continues bit-for-bit, and the served
                    run ends in the same state as an unserved twin.
  server_sync       the server oracle on short runs of deferred-synchronisation integrators carrying 1000-3000 test
                    particles, with a client requesting continuously: synchronisation on the exit path of
                    integrate() and serialisation in the server thread are long enough to overlap.
  server_mut        the server oracle on runs whose heartbeat modifies the simulation (mass transfer, momentum
                    conserving kick pair, add+remove) with two writes and a short wait between them; the state of
                    step boundary n is the state at the end of heartbeat n; client requests continuously.
  server_sync_det   deterministic arrival for the same race: deferred-sync configurations whose synchronize() evaluates
                    forces (WHFast with correctors, SABA cm/cl, MERCURIUS, EOS pmlf4/pmlf6/plf7_6_4); a no-op
                    additional_forces callback issues the request from inside the exit-path synchronisation; it must
                    not be answered before the callback returns, and the snapshot must be a recorded boundary.
  server_fd         the server thread must not touch descriptors of other threads: a client (100-300 requests of
                    several kinds) and a watcher thread own descriptors while the simulation integrates; an EBADF
                    on one of them means another thread closed it.

Reference runs "alone" happen in fresh processes (class Pristine), so hidden process-wide state cannot be shared
between the reference and the run under test.
"""
import math
import os
import pickle
import socket
import threading

from hypothesis import strategies as st

from ..core import Sub, Violation
from .. import build
from .. import strategies as S

PROPERTY = "C19"
LEVEL = "exploration"
RULE = ("Cases are K=2-8 simulation programs: a generated planetary system (or a colliding swarm), one configuration of "
        "any integrator (WHFast/SABA/EOS/IAS15/BS/JANUS/MERCURIUS/TRACE/LEAPFROG, WHFast512 on the avx512 build), "
        "optional MEGNO initialisation from the per-simulation random seed, and a list of operations (steps, integrate, "
        "copy-and-continue, save/load, pickle, synchronize, create/free churn).  interleave*: a generated schedule of "
        "single operations of the K programs in one thread; threads*: one thread per program, started together.  "
        "Oracle: the serialised final state (sa_format field map) of each simulation equals the one of the same program "
        "run alone, bit for bit.  server: generated usleep / request offsets / bursts; oracle: each HTTP body parses as a "
        "complete snapshot, equals (all fields except status and dt, which the exit check between two steps may change) "
        "the stream the run's own heartbeat recorded at that (t, steps_done), continues to the bitwise same final "
        "state, and the served run's final state equals an unserved twin's; server_sync: the same on short runs with "
        "1000-2500 test particles and a client requesting continuously; server_fd: EBADF on a descriptor owned by the "
        "client or a watcher thread.  Every program starts with 1-3 steps.  Non-trivial = (interleave) >= 2 switches "
        "between different simulations before the last one finishes and (threads) >= 2 different integrator types (threads_stress: every case); "
        "(server) >= 1 response taken strictly inside the run (0 < steps_done < final); distinct by case hash.")
ASSUMPTIONS = [
    "a program 'run alone' is executed in a fresh process forked from a worker that never ran a simulation (no shared hidden state with the run under test)",
    "the state of a simulation is its sa_format field map (pointers, padding, walltime, never-assigned members of integrator scratch arrays masked)",
    "a schedule of whole step()/operation calls in one thread is a legal schedule of concurrently running simulations",
    "thread interleavings inside a C call are only sampled by the OS scheduler (not controlled, not replayable); the oracle is schedule independent",
    "server: arrival times are wall-clock; a timeout or refused connection is recorded, never a violation",
    "server: between two steps the integration loop's exit check (outside the mutex) may set status / shorten dt / synchronise for an exact finish: "
    "status and dt are not compared, and the synchronised image of the boundary state is accepted when exact_finish_time=1",
]
CLASSES = ["interleave/op:copy", "interleave/op:saveload", "interleave/op:pickle", "interleave/op:churn",
           "threads/op:copy", "threads/op:saveload", "server/inside", "server/before_start", "server/after_end",
           "server/timeout"]
VARIANTS = ["avx512"] if build.has_avx512() else []

FINDING_512 = "C19-whfast512-shared-statics"
F_DT, F_STATUS = 3, 11

# ---------------------------------------------------------------------------------------
# strategies

FAMILIES = ["whfast", "saba", "eos", "ias15", "bs", "janus", "mercurius", "trace", "leapfrog"]


@st.composite
def swarm(draw):
    """a dozen overlapping-on-approach spheres: several collisions per step, resolved in an order drawn from rand_seed"""
    n = draw(st.integers(6, 12))
    parts = []
    for i in range(n):
        x, y, z = draw(S.floats(-1, 1)), draw(S.floats(-1, 1)), draw(S.floats(-0.2, 0.2))
        k = draw(S.floats(0.2, 1.0))
        parts.append({"m": 1e-3, "x": x + 3.0 * (i % 4), "y": y + 3.0 * (i // 4), "z": z,
                      "vx": -k * (x + 3.0 * (i % 4) - 4.5) * 0.3, "vy": -k * (y + 3.0 * (i // 4) - 3.0) * 0.3,
                      "vz": 0.0, "r": 0.8})
    return {"G": 1.0, "particles": parts, "P_min": 20.0, "P_max": 20.0, "swarm": True}


op = st.one_of(
    st.tuples(st.just("steps"), st.integers(1, 5)),
    st.tuples(st.just("steps"), st.integers(1, 5)),
    st.tuples(st.just("integrate"), st.integers(1, 5)),
    st.tuples(st.just("copy")),
    st.tuples(st.just("saveload")),
    st.tuples(st.just("pickle")),
    st.tuples(st.just("sync")),
    st.tuples(st.just("churn")),
    st.tuples(st.just("energy")),
)


LEAPFROG_CFG = {"integrator": "leapfrog", "set": [], "family": "leapfrog", "fixed_step": True}


@st.composite
def treebox(draw, nmin=80, nmax=300):
    """tree-code simulation: leapfrog in a box of 1-2 root cells per axis, fast particles (many change their tree
    cell every step), tree gravity and/or tree collision search.  The particles are drawn inside build_sim from
    the seed, so the case stays small."""
    grav = draw(st.sampled_from(["tree", "tree", "basic"]))
    coll = draw(st.sampled_from(["none", "tree", "linetree"] if grav == "tree" else ["tree", "linetree"]))
    return {"n": draw(st.integers(nmin, nmax)), "seed": draw(st.integers(1, 10 ** 6)),
            "root": [draw(st.integers(1, 2)), draw(st.integers(1, 2)), draw(st.integers(1, 2))],
            "size": 10.0, "gravity": grav, "collision": coll,
            "resolve": draw(st.sampled_from(["hardsphere", "merge"])),
            "boundary": draw(st.sampled_from(["periodic", "periodic", "open"])),
            "vmax": draw(st.sampled_from([8.0, 3.0])), "dt": 0.02}


@st.composite
def tree_program(draw, nmin=80, nmax=300):
    return {"system": {"G": 1.0, "particles": [], "P_min": 1.0, "P_max": 1.0}, "cfg": LEAPFROG_CFG,
            "tree": draw(treebox(nmin, nmax)), "dt_frac": 0.02, "rand_seed": draw(st.integers(1, 2 ** 31 - 1)),
            "megno": False, "ops": [["steps", draw(st.integers(1, 3))]] + draw(st.lists(op, min_size=0, max_size=6))}


@st.composite
def program(draw, with512=False):
    if draw(st.integers(0, 5)) == 0:
        return draw(tree_program())
    fams = FAMILIES + (["whfast512", "whfast512", "whfast512"] if with512 else [])
    fam = draw(st.sampled_from(fams))
    if fam == "whfast512":
        from .c09 import system512, wh512_opts
        sy = draw(system512())
        cfg = draw(wh512_opts)
        if draw(st.booleans()):
            cfg = dict(cfg, set=[list(x) for x in cfg["set"]] + [["ri_whfast512.keep_unsynchronized", 1]])
        megno = False
    else:
        cfg = draw(S.integrator_config([fam]))
        if fam in ("leapfrog", "ias15") and draw(st.integers(0, 2)) == 0:
            sy = draw(swarm())
        else:
            sy = draw(S.hierarchical_system(nmin=2, nmax=4))
        megno = False
        if fam == "ias15" and not sy.get("swarm"):
            megno = draw(st.booleans())
    return {"system": sy, "cfg": cfg, "dt_frac": draw(st.sampled_from([0.05, 0.02, 0.01])),
            "rand_seed": draw(st.integers(1, 2 ** 31 - 1)), "megno": megno,
            # every program starts by stepping: an integrator's coordinate cache that was allocated (by synchronize)
            # but never filled is serialised as uninitialised heap bytes, which are not state
            "ops": [["steps", draw(st.integers(1, 3))]] + draw(st.lists(op, min_size=0, max_size=6))}


STRESS_CFGS = [
    # (config, weight of one call relative to WHFast) - same family in all threads; those with per-call scratch
    # space or cached coordinates first
    ({"integrator": "whfast", "family": "whfast", "set": [["ri_whfast.safe_mode", 0], ["ri_whfast.keep_unsynchronized", 1]]}, 1),
    ({"integrator": "whfast", "family": "whfast", "set": [["ri_whfast.coordinates", "democraticheliocentric"],
                                                          ["ri_whfast.safe_mode", 0], ["ri_whfast.keep_unsynchronized", 1]]}, 1),
    ({"integrator": "whfast", "family": "whfast", "set": [["ri_whfast.corrector", 3], ["ri_whfast.safe_mode", 0],
                                                          ["ri_whfast.keep_unsynchronized", 1]]}, 2),
    ({"integrator": "saba", "family": "saba", "set": [["ri_saba.type", "2"], ["ri_saba.safe_mode", 0],
                                                      ["ri_saba.keep_unsynchronized", 1]]}, 2),
    ({"integrator": "whfast", "family": "whfast", "set": [["ri_whfast.safe_mode", 1]]}, 1),
    ({"integrator": "whfast", "family": "whfast", "set": [["ri_whfast.kernel", "lazy"], ["ri_whfast.safe_mode", 1]]}, 2),
    ({"integrator": "mercurius", "family": "mercurius", "set": [["ri_mercurius.safe_mode", 0]]}, 2),
    ({"integrator": "ias15", "family": "ias15", "set": []}, 8),
    ({"integrator": "trace", "family": "trace", "set": []}, 3),
    ({"integrator": "bs", "family": "bs", "set": [["ri_bs.eps_rel", 1e-8], ["ri_bs.eps_abs", 1e-8]]}, 30),
    ({"integrator": "leapfrog", "family": "leapfrog", "set": []}, 1),
]


@st.composite
def stress_case(draw):
    """K threads running the same integrator configuration on different data, each with 1000-2000 test particles
    and a few hundred short integrate() calls: a C call lasts long enough for the calls of different threads to
    overlap all the time"""
    K = draw(st.integers(2, 4))
    if draw(st.integers(0, 3)) == 0:
        # tree code: the tree is rebuilt / updated every step in every thread
        progs = []
        for k in range(K):
            pr = draw(tree_program(800, 1500))
            pr["ops"] = [["steps", 1], ["burst", draw(st.integers(15, 30))]]
            progs.append(pr)
        return {"programs": progs, "schedule": [], "stress": True}
    cfg, weight = draw(st.sampled_from(STRESS_CFGS[:4] * 2 + STRESS_CFGS[4:]))
    ncalls = max(6, draw(st.integers(150, 300)) // weight)
    progs = []
    for k in range(K):
        sy = draw(S.hierarchical_system(nmin=2, nmax=3))
        progs.append({"system": sy, "cfg": cfg, "dt_frac": draw(st.sampled_from([0.05, 0.02])), "rand_seed": k + 1,
                      "megno": False,
                      "cloud": {"n": draw(st.integers(1000, 2000)) // (4 if weight >= 8 else 1),
                                "da": 0.002, "dph": draw(S.floats(0.05, 0.5))},
                      "ops": [["steps", 1], ["burst", ncalls]]})
    return {"programs": progs, "schedule": [], "stress": True}


def case_strategy(with512):
    return st.fixed_dictionaries({
        "programs": st.lists(program(with512), min_size=2, max_size=8),
        "schedule": st.lists(st.integers(0, 7), min_size=0, max_size=60),
    })


server_case = st.fixed_dictionaries({
    "system": S.hierarchical_system(nmin=2, nmax=4),
    "cfg": S.integrator_config(["whfast", "saba", "ias15", "leapfrog", "janus", "mercurius", "eos", "whfast", "trace"]),
    "dt_frac": st.sampled_from([0.05, 0.02]),
    "rand_seed": st.integers(1, 2 ** 31 - 1),
    "nsteps": st.integers(8, 40),
    "eft": st.sampled_from([0, 0, 1]),
    "usleep": st.sampled_from([300, 1000, 2000]),
    "requests": st.lists(st.tuples(S.floats(0.0, 12.0), st.integers(1, 3)), min_size=1, max_size=6),
})

def _safe(cfg):
    """particles may be modified between steps only in safe mode"""
    fam = cfg["family"]
    if fam not in ("whfast", "saba"):
        return cfg
    sets = [x for x in cfg["set"] if not x[0].endswith("safe_mode") and not x[0].endswith("keep_unsynchronized")]
    return dict(cfg, set=sets + [["ri_%s.safe_mode" % fam, 1]])


# served runs whose heartbeat MODIFIES the simulation with a two-write update and a short wait in between
server_mut_case = st.fixed_dictionaries({
    "system": S.hierarchical_system(nmin=2, nmax=4),
    "cfg": S.integrator_config(["whfast", "saba", "ias15", "leapfrog", "whfast"]).map(_safe),
    "dt_frac": st.sampled_from([0.05, 0.02]),
    "rand_seed": st.integers(1, 2 ** 31 - 1),
    "nsteps": st.integers(6, 16),
    "eft": st.sampled_from([0, 0, 1]),
    "usleep": st.sampled_from([100, 300]),
    "mutate": st.fixed_dictionaries({"kind": st.sampled_from(["mass", "kick", "addremove"]),
                                     "wait_us": st.sampled_from([300, 600, 1000]),
                                     "k": S.floats(1e-9, 1e-6)}),
    "hammer": st.just(1), "requests": st.just([]),
})


def mutate(sim, mut, wait):
    """what a user's heartbeat may do to its simulation between two steps: a two-write update"""
    ps = sim.particles
    if mut["kind"] == "mass":           # mass transfer, total mass conserved
        d = ps[0].m * 2.0 ** -12
        ps[0].m -= d
        wait()
        ps[1].m += d
    elif mut["kind"] == "kick":         # momentum conserving pair of kicks
        ps[0].vx += mut["k"] / ps[0].m
        wait()
        ps[1].vx -= mut["k"] / ps[1].m
    else:                               # a massless tracer is added and taken out again
        sim.add(m=0.0, x=3.0 * ps[sim.N - 1].x + 1.0, y=3.0 * ps[sim.N - 1].y, vx=0.0, vy=0.0)
        wait()
        sim.remove(sim.N - 1)


# ---------------------------------------------------------------------------------------
# building and running one program


def build_tree_sim(prog):
    import random
    import rebound
    t = prog["tree"]
    rng = random.Random(t["seed"])          # deterministic: the seed is part of the case
    sim = rebound.Simulation()
    sim.rand_seed = prog["rand_seed"]
    sim.integrator = "leapfrog"
    sim.G = 1.0
    sim.softening = 0.02
    sim.opening_angle2 = 1.5
    sim.dt = t["dt"]
    rx, ry, rz = t["root"]
    sim.configure_box(t["size"], rx, ry, rz)
    sim.boundary = t["boundary"]
    sim.gravity = t["gravity"]
    if t["collision"] != "none":
        sim.collision = t["collision"]
        sim.collision_resolve = t["resolve"]
    hx, hy, hz = 0.5 * t["size"] * rx, 0.5 * t["size"] * ry, 0.5 * t["size"] * rz
    v = t["vmax"]
    for i in range(t["n"]):
        sim.add(m=1e-4, r=0.05 if t["collision"] != "none" else 0.0,
                x=rng.uniform(-0.99 * hx, 0.99 * hx), y=rng.uniform(-0.99 * hy, 0.99 * hy),
                z=rng.uniform(-0.99 * hz, 0.99 * hz),
                vx=rng.uniform(-v, v), vy=rng.uniform(-v, v), vz=rng.uniform(-v, v), hash=ctypes_u32(i + 1))
    return sim


def ctypes_u32(i):
    import ctypes
    return ctypes.c_uint32(i)


def build_sim(prog):
    from .. import rb
    if prog.get("tree"):
        return build_tree_sim(prog)
    sy, cfg = prog["system"], prog["cfg"]
    spec = {"G": sy["G"], "particles": sy["particles"]}
    sim = rb.new_sim(spec)
    sim.rand_seed = prog["rand_seed"]
    sim.testparticle_hidewarnings = 1
    sim.integrator = cfg["integrator"]
    for path, val in cfg["set"]:
        rb.setpath(sim, path, val)
    if cfg.get("peri_mode") is not None:
        from .c06 import set_peri_mode
        set_peri_mode(sim, cfg["peri_mode"])
    if cfg["integrator"] == "whfast512":
        sim.ri_whfast512.N_systems = sy.get("N_systems", 1)
        sim.exact_finish_time = 0
    if sy.get("swarm"):
        sim.collision = "direct"
        sim.collision_resolve = "hardsphere"
    if prog.get("cloud"):
        # many massless bodies on circular orbits outside the planets (built from three numbers, so the case stays
        # small): they make synchronisation and serialisation take long enough to overlap
        c = prog["cloud"]
        nact = sim.N
        M = sum(p.m for p in sim.particles)
        a0 = 1.5 * max(math.sqrt(p.x ** 2 + p.y ** 2 + p.z ** 2) for p in sim.particles)
        for i in range(c["n"]):
            a = a0 * (1.0 + c["da"] * i)
            v = math.sqrt(sim.G * M / a)
            ph = c["dph"] * i
            sim.add(m=0.0, x=a * math.cos(ph), y=a * math.sin(ph), vx=-v * math.sin(ph), vy=v * math.cos(ph))
        sim.N_active = nact
    sim.dt = prog["dt_frac"] * sy["P_min"]
    if prog.get("megno"):
        sim.init_megno(seed=prog["rand_seed"] % 1000003)
    return sim


def prog_iter(prog, tag, scratch, out):
    """Generator executing one program; yields after every single step / operation (the schedule's atoms).
    Appends (field map, particle state) of the final simulation to out."""
    import rebound
    from .. import rb
    sim = build_sim(prog)
    yield "created"
    nfile = 0
    for o in prog["ops"]:
        kind = o[0]
        try:
            if kind == "steps":
                for _ in range(o[1]):
                    sim.step()
                    yield "step"
                continue
            elif kind == "integrate":
                budget = [0]

                def limiter(simp, sim=sim, budget=budget):
                    # adaptive integrators may collapse their step (not this property's business): bounded work
                    budget[0] += 1
                    if budget[0] > 400:
                        sim.stop()
                sim.heartbeat = limiter
                sim.integrate(sim.t + (o[1] - 0.5) * sim.dt, exact_finish_time=0)
            elif kind == "burst":
                # many short integrate() calls, each ending in a synchronisation (an output): per-call scratch space
                # of the integrator is exercised continuously while the other threads do the same
                for _ in range(o[1]):
                    sim.integrate(sim.t + 1.5 * sim.dt, exact_finish_time=0)
            elif kind == "copy":
                sim = sim.copy()
            elif kind == "saveload":
                p = os.path.join(scratch, "%s-%d.bin" % (tag, nfile))
                nfile += 1
                if os.path.exists(p):
                    os.unlink(p)
                sim.save_to_file(p)
                sim = rebound.Simulation(p)
                os.unlink(p)
            elif kind == "pickle":
                sim = pickle.loads(pickle.dumps(sim))
            elif kind == "sync":
                sim.synchronize()
            elif kind == "churn":
                t = rebound.Simulation()
                t.add(m=1.0)
                t.add(m=1e-3, x=1.0, vy=1.0)
                t.add(m=1e-3, x=2.0, vy=0.7)
                t.integrator = "whfast"
                t.dt = 0.01
                t.steps(2)
                del t
            elif kind == "energy":
                sim.energy()
        except (rebound.Escape, rebound.Encounter, rebound.Collision, rebound.NoParticles) as e:
            pass
        yield kind
    out.append((state_map(sim), rb.pstate(sim), sim.t))


T_VARCONFIG = 86


def state_map(sim):
    """sa_format map; additionally the members index_1st_order_a/b of first-order variational configurations
    (bytes 20..28 of the 40-byte record; order at byte 8) are masked: reb_simulation_add_variation_1st_order never
    assigns them"""
    import struct
    from .. import rb
    m = rb.smap(sim)
    v = m.get(T_VARCONFIG)
    if v and len(v) % 40 == 0:
        b = bytearray(v)
        for base in range(0, len(b), 40):
            if struct.unpack_from("<i", b, base + 8)[0] == 1:
                b[base + 20:base + 28] = b"\0" * 8
        m[T_VARCONFIG] = bytes(b)
    return m


def run_alone(prog, tag, scratch):
    out = []
    for _ in prog_iter(prog, tag, scratch, out):
        pass
    return out[0]


class Pristine:
    """Reference runs "alone" are executed in a fresh process each: a worker forked from the job process before
    it ran any simulation (so none of the library's process-wide state has been touched) forks one grandchild per
    program.  The reference therefore cannot share hidden state with the run under test or with earlier cases."""

    def __init__(self):
        import rebound                      # noqa: F401  (imported before forking: grandchildren need no import)
        from .. import rb                   # noqa: F401
        r1, w1 = os.pipe()
        r2, w2 = os.pipe()
        pid = os.fork()
        if pid == 0:
            try:
                os.close(w1)
                os.close(r2)
                self._serve(r1, w2)
            finally:
                os._exit(0)
        os.close(r1)
        os.close(w2)
        self.w, self.r, self.pid = w1, r2, pid

    @staticmethod
    def _read(fd, n):
        buf = b""
        while len(buf) < n:
            b = os.read(fd, n - len(buf))
            if not b:
                return None
            buf += b
        return buf

    @classmethod
    def _recv(cls, fd):
        h = cls._read(fd, 8)
        if h is None:
            return None
        return pickle.loads(cls._read(fd, int.from_bytes(h, "little")))

    @staticmethod
    def _send(fd, obj):
        b = pickle.dumps(obj, protocol=4)
        b = len(b).to_bytes(8, "little") + b
        while b:
            n = os.write(fd, b)
            b = b[n:]

    def _serve(self, rfd, wfd):
        while True:
            req = self._recv(rfd)
            if req is None:
                return
            pid = os.fork()
            if pid == 0:
                code = 1
                try:
                    import warnings
                    warnings.simplefilter("ignore")
                    prog, tag, scratch, fill = req
                    perturb(fill)
                    self._send(wfd, ("ok", run_alone(prog, tag, scratch)))
                    code = 0
                except BaseException as e:
                    try:
                        self._send(wfd, ("error", repr(e)))
                        code = 0
                    except BaseException:
                        pass
                finally:
                    os._exit(code)
            _, status = os.waitpid(pid, 0)
            if status != 0:
                self._send(wfd, ("crash", status))

    def run(self, prog, tag, scratch, fill=0xA5):
        self._send(self.w, (prog, tag, scratch, fill))
        rep = self._recv(self.r)
        if rep is None:
            raise RuntimeError("pristine worker died")
        return rep


_pristine = [None]


def alone_runs(case, ctx, fill=0xA5):
    if _pristine[0] is None:
        _pristine[0] = Pristine()
    out = []
    for i, p in enumerate(case["programs"]):
        kind, val = _pristine[0].run(p, "a%d" % i, ctx.scratch, fill)
        if kind == "crash":
            raise Violation("program %d (%s) kills the process when run alone (wait status %s)"
                            % (i, p["cfg"]["integrator"], val), sim=i)
        if kind == "error":
            raise RuntimeError("alone run failed: %s" % val)
        out.append(val)
    return out


def consts512(prog):
    """what WHFast512 caches in file-scope statics for this simulation"""
    sy = prog["system"]
    ns = sy.get("N_systems", 1)
    parts = sy["particles"]
    per = len(parts) // ns
    stars = tuple(parts[s * per]["m"] for s in range(ns))
    planets = tuple(p["m"] for i, p in enumerate(parts) if i % per)
    gr = dict((p, v) for p, v in prog["cfg"]["set"]).get("ri_whfast512.gr_potential", 0)
    return ns, stars, planets, gr


def signature_512(programs):
    """two or more whfast512 simulations whose cached constants differ: different N_systems or star masses, or
    different planet masses when one of them uses the GR potential"""
    ks = [consts512(p) for p in programs if p["cfg"]["integrator"] == "whfast512"]
    for i in range(len(ks)):
        for j in range(i + 1, len(ks)):
            a, b = ks[i], ks[j]
            if a[0] != b[0] or a[1] != b[1]:
                return True
            if (a[3] or b[3]) and a[2] != b[2]:
                return True
    return False


_libc = [None]


def perturb(value):
    """glibc M_PERTURB: freshly malloc'ed bytes are filled with ~value, freed bytes with value.  Members of
    integrator scratch arrays and struct padding that REBOUND never assigns are serialised as whatever the heap
    held; with a fixed fill they are the same in every run, and running a program alone under a second fill value
    identifies exactly those bytes (they are not state and are not compared)."""
    import ctypes
    if _libc[0] is None:
        _libc[0] = ctypes.CDLL(None)
    _libc[0].mallopt(-6, value)


def masked_equal(ma, mg, m2):
    """ma == mg on every byte on which the two alone-runs under different heap fills (ma, m2) agree"""
    bad = []
    nmask = 0
    for k in set(ma) | set(mg):
        a, g, c = ma.get(k), mg.get(k), m2.get(k)
        if a == g:
            continue
        if a is None or g is None or c is None or len(a) != len(g) or len(a) != len(c):
            bad.append(k)
            continue
        for x, y, z in zip(a, g, c):
            if x != y:
                if x == z:
                    bad.append(k)
                    break
                nmask += 1
    return bad, nmask


def compare(case, alone, got, ctx, how):
    from .. import rb
    from ..oracles import sa_format
    skip512 = False
    if signature_512(case["programs"]):
        ctx.cls("signature_whfast512_constants")
        if ctx.finding_open(FINDING_512):
            ctx.excluded(FINDING_512)
            skip512 = True
    for i, prog in enumerate(case["programs"]):
        fam = prog["cfg"]["integrator"]
        if skip512 and fam == "whfast512":
            continue
        (ma, pa, ta), (mg, pg, tg) = alone[i], got[i]
        if ma != mg or pa != pg or rb.dbits(ta) != rb.dbits(tg):
            # control: run the program alone under a different heap fill; bytes that change are uninitialised memory
            kind, val = _pristine[0].run(prog, "ctl%d" % i, ctx.scratch, 0x5A)
            if kind != "ok":
                raise RuntimeError("control run failed: %r" % (val,))
            m2, p2, t2 = val
            if p2 != pa or rb.dbits(t2) != rb.dbits(ta):
                ctx.cls("not_reproducible_alone")
                ctx.skip("particles of a program run alone depend on the heap fill value")
                continue
            bad, nmask = masked_equal(ma, mg, m2)
            if not bad and pa == pg and rb.dbits(ta) == rb.dbits(tg):
                ctx.cls("uninitialised_bytes_masked")
                continue
            names = rb.field_names()
            diff = [d for d in sa_format.map_diff(ma, mg, names) if d["field"] in [names.get(k, str(k)) for k in bad]][:8]
            raise Violation("%s: simulation %d (%s) ends in a different state than when run alone (%d simulations); "
                            "fields: %s" % (how, i, fam, len(case["programs"]), [d["field"] for d in diff]),
                            sim=i, integrator=fam, diff=diff, particles_equal=(pa == pg))


def classes(case, ctx):
    fams = set()
    for prog in case["programs"]:
        fams.add(prog["cfg"]["integrator"])
        for o in prog["ops"]:
            ctx.cls("op:" + o[0])
        if prog["system"].get("swarm"):
            ctx.cls("swarm")
        if prog.get("tree"):
            ctx.cls("tree")
            ctx.cls("tree:%s/%s/%s" % (prog["tree"]["gravity"], prog["tree"]["collision"], prog["tree"]["boundary"]))
        if prog.get("megno"):
            ctx.cls("megno")
    for f in fams:
        ctx.cls("family:" + f)
    return fams


def run_interleave(case, ctx):
    import warnings
    warnings.simplefilter("ignore")
    progs = case["programs"]
    K = len(progs)
    alone = alone_runs(case, ctx)
    perturb(0xA5)
    outs = [[] for _ in range(K)]
    its = [prog_iter(p, "i%d" % i, ctx.scratch, outs[i]) for i, p in enumerate(progs)]
    live = [True] * K
    switches = 0
    last = None

    def advance(i):
        nonlocal switches, last
        try:
            next(its[i])
        except StopIteration:
            live[i] = False
            return
        if last is not None and last != i:
            switches += 1
        last = i

    for s in case["schedule"]:
        i = s % K
        if live[i]:
            advance(i)
    while any(live):        # finish round robin
        for i in range(K):
            if live[i]:
                advance(i)
    compare(case, alone, [o[0] for o in outs], ctx, "interleaved in one thread")
    classes(case, ctx)
    ctx.nontrivial(switches >= 2)


def run_threads(case, ctx):
    import warnings
    warnings.simplefilter("ignore")
    progs = case["programs"]
    K = len(progs)
    alone = alone_runs(case, ctx)
    perturb(0xA5)
    outs = [[] for _ in range(K)]
    errs = []
    barrier = threading.Barrier(K)

    def body(i):
        try:
            it = prog_iter(progs[i], "t%d" % i, ctx.scratch, outs[i])
            next(it)                    # create
            barrier.wait(timeout=60)
            for _ in it:
                pass
        except BaseException as e:     # reported as a harness error by the main thread
            errs.append((i, repr(e)))

    ths = [threading.Thread(target=body, args=(i,)) for i in range(K)]
    for t in ths:
        t.start()
    for t in ths:
        t.join()
    if errs:
        raise RuntimeError("thread failed: %r" % errs)
    compare(case, alone, [o[0] for o in outs], ctx, "run concurrently in threads")
    fams = classes(case, ctx)
    ctx.nontrivial(len(fams) >= 2 or bool(case.get("stress")))


# ---------------------------------------------------------------------------------------
# server

_quiet = [False]


def quiet_c_stdout():
    """the server thread printf()s a banner per start; the job's verdict travels through a file, not stdout"""
    if not _quiet[0]:
        import sys
        sys.stdout.flush()
        fd = os.open(os.devnull, os.O_WRONLY)
        os.dup2(fd, 1)
        os.close(fd)
        _quiet[0] = True


def free_port():
    s = socket.socket(socket.AF_INET, socket.SOCK_STREAM)
    s.bind(("127.0.0.1", 0))
    p = s.getsockname()[1]
    s.close()
    return p


class StrayClose(Exception):
    """a descriptor owned by a harness thread was closed by somebody else (EBADF on a socket we did not close)"""


def http_get(port, path, timeout=5.0):
    """returns body bytes or None (timeout / refused / malformed transport: never a verdict).  EBADF on our own
    open socket cannot come from the network: another thread of this process closed our descriptor."""
    import errno
    try:
        s = socket.socket(socket.AF_INET, socket.SOCK_STREAM)
    except OSError:
        return None
    chunks = []
    try:
        s.settimeout(timeout)
        s.connect(("127.0.0.1", port))
        s.sendall(("GET %s HTTP/1.1\r\nHost: localhost\r\n\r\n" % path).encode())
        while True:
            b = s.recv(65536)
            if not b:
                break
            chunks.append(b)
    except OSError as e:
        if e.errno == errno.EBADF:
            s.detach()
            raise StrayClose("socket descriptor of the client closed by another thread during %s" % path)
        chunks = None
    try:
        s.close()
    except OSError as e:
        if e.errno == errno.EBADF:
            raise StrayClose("socket descriptor of the client closed by another thread after %s" % path)
    if chunks is None:
        return None
    data = b"".join(chunks)
    k = data.find(b"\r\n")          # header block of the server ends with its only CRLF
    if not data.startswith(b"HTTP/1.1 200") or k < 0:
        return None
    return data[k + 2:]


def run_server(case, ctx):
    import time
    import warnings
    import rebound
    from .. import rb
    from ..oracles import sa_format
    warnings.simplefilter("ignore")
    quiet_c_stdout()
    perturb(0xA5)
    os.chdir(ctx.scratch)
    if not os.path.exists("rebound.html"):      # otherwise the server thread shells out to curl
        open("rebound.html", "w").write("<html></html>")
    prog = {"system": case["system"], "cfg": case["cfg"], "dt_frac": case["dt_frac"], "rand_seed": case["rand_seed"],
            "cloud": case.get("cloud")}
    eft = case["eft"]

    def tmax_of(sim):
        return sim.t + (case["nsteps"] - 0.5) * sim.dt if eft == 0 else sim.t + (case["nsteps"] - 0.4) * sim.dt

    # unserved twin: no server; its heartbeat only counts steps (work bound for collapsing adaptive steps)
    U = build_sim(prog)
    tmax = tmax_of(U)
    ucount = [0]

    mut = case.get("mutate")
    twin = [U]

    def ulimit(simp):
        ucount[0] += 1
        if ucount[0] > 4 * case["nsteps"] + 50:
            twin[0].stop()
        if mut and twin[0].steps_done > 0:
            mutate(twin[0], mut, lambda: None)
    U.heartbeat = ulimit            # counts steps (and applies the same updates as the served run's heartbeat)
    det = case.get("det")

    def no_force(simp):
        pass
    if det:
        U.additional_forces = no_force      # same code path as the served run, whose callback adds no force either
    U.integrate(tmax, exact_finish_time=eft)
    if ucount[0] > 4 * case["nsteps"] + 50:
        ctx.skip("adaptive step size collapsed in the unserved twin (run does not end in bounded work)")
        return
    U.usleep = case["usleep"]
    mU, pU = rb.smap(U), rb.pstate(U)

    S_ = build_sim(prog)
    S_.usleep = case["usleep"]
    port = None
    for attempt in range(5):
        port = free_port()
        try:
            S_.start_server(port)
        except RuntimeError:
            S_.stop_server()
            port = None
            continue
        if S_._server_data and S_._server_data.contents.ready == 1:
            break
        S_.stop_server()
        port = None
    if port is None:
        ctx.skip("no port could be bound")
        return
    log = {}            # (t bits, steps_done) -> stream recorded inside the step's critical section

    def hb(simp):
        # the heartbeat before the first step runs outside the critical section (also on the unchanged tree):
        # the simulation is only modified by the heartbeats that follow a step
        if mut and S_.steps_done > 0:
            mutate(S_, mut, lambda: time.sleep(mut["wait_us"] * 1e-6))
        # the state of step boundary n is the state at the END of heartbeat n
        log[(rb.dbits(S_.t), S_.steps_done)] = rb.stream(S_)

    S_.heartbeat = hb
    S_.exact_finish_time = eft          # integrate() sets it; a request may arrive before the first step
    m0 = rb.stream(S_)
    log[(rb.dbits(S_.t), S_.steps_done)] = m0
    responses = []
    stray = []
    stop = threading.Event()

    def get():
        try:
            responses.append(http_get(port, "/simulation"))
        except StrayClose as e:
            stray.append(str(e))

    def client():
        t0 = time.monotonic()
        acc = 0.0
        if case.get("hammer"):
            time.sleep(0.0005 * case["hammer"])
            while not stop.is_set() and len(responses) < 150:
                get()
            return
        for off, burst in case["requests"]:
            acc += off
            while (time.monotonic() - t0) * 1000.0 < acc and not stop.is_set():
                time.sleep(0.0002)
            for _ in range(burst):
                get()

    # deterministic arrival: the force callback (invoked by the force evaluations of synchronize()) issues the
    # request from inside the exit-path synchronisation and waits a moment for the answer.  Every force evaluation
    # of integrate() happens inside a critical section (a step, or the exit-path synchronisation), so an answer
    # that arrives before the callback returns was produced while the state was being modified.
    fired = set()
    helpers = []
    early = []

    def force_cb(simp):
        st_ = S_._status
        which = None
        if st_ == -2 and det in ("last_step_sync", "both"):
            which = "last_step_sync"        # REB_STATUS_LAST_STEP is set right before that synchronisation
        elif st_ >= 0 and det in ("final_sync", "both"):
            which = "final_sync"            # the loop has ended: only the final synchronisation evaluates forces
        if which is None or which in fired:
            return
        fired.add(which)
        n0 = len(responses)
        h = threading.Thread(target=get)
        helpers.append(h)
        h.start()
        h.join(0.12)
        if not h.is_alive() and len(responses) > n0 and responses[-1] is not None:
            early.append(which)

    if det:
        S_.additional_forces = force_cb
    th = threading.Thread(target=client)
    th.start()
    try:
        if case.get("hammer"):
            time.sleep(0.004)       # let the first requests arrive before the short run starts
        S_.integrate(tmax, exact_finish_time=eft)
        if case.get("hammer"):
            time.sleep(0.002)
    finally:
        stop.set()
        th.join()
        for h in helpers:
            h.join()
        get()                                               # one more after the end
        S_.stop_server()
    if stray:
        raise Violation("while the server handled requests a file descriptor owned by another thread of the process "
                        "was closed (%s)" % stray[0], n=len(stray))
    for w in fired:
        ctx.cls("fired:" + w)
    if early:
        raise Violation("a request issued from inside the %s of integrate() (force evaluation of synchronize()) was "
                        "answered before that force evaluation returned: the simulation was serialised while it was "
                        "being synchronised" % early[0], which=early)
    final_stream = rb.stream(S_)
    log_final = (rb.dbits(S_.t), S_.steps_done)
    mS, pS = sa_format.stream_map(final_stream), rb.pstate(S_)
    names = rb.field_names()
    if pS != pU or rb.dbits(S_.t) != rb.dbits(U.t):
        raise Violation("serving requests altered the trajectory: final particles of the served run differ from the "
                        "unserved twin (%d responses)" % len([r for r in responses if r]))
    if mS != mU:
        # two different objects: members the library never assigns (e.g. the masses of test particles in the
        # barycentric coordinate cache) hold heap bytes; a second unserved twin under another heap fill finds them
        perturb(0x5A)
        try:
            U2 = build_sim(prog)
            twin[0] = U2
            if det:
                U2.additional_forces = no_force
            U2.heartbeat = ulimit
            U2.integrate(tmax, exact_finish_time=eft)
            U2.usleep = case["usleep"]
            mU2 = rb.smap(U2)
        finally:
            perturb(0xA5)
        bad, nmask = masked_equal(mU, mS, mU2)
        if bad:
            raise Violation("serving requests altered the final state",
                            diff=[d for d in sa_format.map_diff(mU, mS, names) if d["field"] in
                                  [names.get(k, str(k)) for k in bad]][:8])
        ctx.cls("uninitialised_bytes_masked")

    def strip(m):
        m = dict(m)
        m.pop(F_DT, None)
        m.pop(F_STATUS, None)
        return m

    nfinal = S_.steps_done
    inside = 0
    cont_done = False
    seen = set()
    for body in responses:
        if body is None:
            ctx.cls("timeout")
            continue
        if body in seen:            # identical bytes were already checked (requests between the same two steps)
            ctx.cls("duplicate_response")
            continue
        seen.add(body)
        try:
            m = sa_format.stream_map(body)
        except sa_format.FormatError as e:
            raise Violation("server response is not a complete snapshot: %s (%d bytes)" % (e, len(body)))
        try:
            R = rebound.Simulation(body)
        except Exception as e:
            raise Violation("server response cannot be loaded as a simulation: %r" % (e,))
        key = (rb.dbits(R.t), R.steps_done)
        cands = []
        if key in log:
            cands.append(sa_format.stream_map(log[key]))
            if eft == 1:
                # the exit check synchronises before the shortened last step, between two critical sections
                s2 = rebound.Simulation(log[key])
                s2.synchronize()
                cands.append(rb.smap(s2))
        if key == log_final:
            cands.append(mS)
        if not cands:
            raise Violation("server response at t=%r steps_done=%d is not a step boundary of the run (%d boundaries "
                            "logged, final %d)" % (R.t, R.steps_done, len(log), nfinal))
        if not any(strip(m) == strip(c) for c in cands):
            raise Violation("server response at steps_done=%d differs from the state recorded at that step boundary"
                            % R.steps_done, diff=sa_format.map_diff(strip(cands[0]), strip(m), names)[:8])
        if 0 < R.steps_done < nfinal:
            inside += 1
            ctx.cls("inside")
        elif R.steps_done == 0:
            ctx.cls("before_start")
        else:
            ctx.cls("after_end")
        # continue the snapshot to the end (once per case, for a response inside the run)
        if 0 < R.steps_done < nfinal and not cont_done and key in log and not mut:
            cont_done = True
            C = rebound.Simulation(log[key])        # control: the run's own record of that boundary
            C.usleep = 0
            R.usleep = 0
            try:
                C.integrate(tmax, exact_finish_time=eft)
                R.integrate(tmax, exact_finish_time=eft)
            except (rebound.Escape, rebound.Encounter, rebound.Collision):
                continue
            if rb.pstate(C) != pS or rb.dbits(C.t) != rb.dbits(S_.t):
                ctx.cls("restart_not_bitwise:" + case["cfg"]["integrator"])       # C05's domain, not a verdict here
            elif rb.pstate(R) != pS or rb.dbits(R.t) != rb.dbits(S_.t):
                raise Violation("continuing the served snapshot (steps_done=%d) does not reproduce the final state, "
                                "continuing the run's own record of that boundary does" % R.steps_done)
            else:
                ctx.cls("continued_bitwise")
    ctx.cls("family:" + case["cfg"]["integrator"])
    ctx.cls("eft%d" % eft)
    if mut:
        ctx.cls("mutate:" + mut["kind"])
    ctx.nontrivial(bool(fired) if det else inside >= 1)


def _unsafe(cfg):
    """deferred synchronisation: synchronize() on the exit path of integrate() has real work to do"""
    fam = cfg["family"]
    sets = [x for x in cfg["set"] if not x[0].endswith("safe_mode") and not x[0].endswith("keep_unsynchronized")]
    return dict(cfg, set=sets + [["ri_%s.safe_mode" % fam, 0]])


server_sync_case = st.fixed_dictionaries({
    "system": S.hierarchical_system(nmin=2, nmax=4, move_to_com=True),
    "cfg": S.integrator_config(["whfast", "mercurius", "saba", "eos"]).map(_unsafe),
    "dt_frac": st.sampled_from([0.05, 0.02]), "rand_seed": st.just(1),
    "cloud": st.fixed_dictionaries({"n": st.integers(1000, 2500), "da": st.sampled_from([0.002, 0.001]),
                                    "dph": S.floats(0.05, 0.5)}),
    "nsteps": st.integers(2, 5), "eft": st.sampled_from([0, 1]), "usleep": st.sampled_from([0, 100]),
    "hammer": st.integers(0, 4), "requests": st.just([]),
}).map(lambda c: dict(c, hammer=c["hammer"] + 1))


def _det_cfgs():
    """deferred-synchronisation configurations whose synchronize() evaluates forces (and therefore calls the
    additional_forces callback from inside the exit-path synchronisation)"""
    out = []
    for c, k, co, c2 in S.whfast_lattice():
        if co or c2:
            out.append({"integrator": "whfast", "family": "whfast", "fixed_step": True,
                        "set": [["ri_whfast.coordinates", c], ["ri_whfast.kernel", k], ["ri_whfast.corrector", co],
                                ["ri_whfast.corrector2", c2], ["ri_whfast.safe_mode", 0]]})
    wh = list(out)
    sa = [{"integrator": "saba", "family": "saba", "fixed_step": True,
           "set": [["ri_saba.type", t], ["ri_saba.safe_mode", 0]]} for t in S.SABA_TYPES if t[:2] in ("cm", "cl")]
    me = [{"integrator": "mercurius", "family": "mercurius", "fixed_step": True,
           "set": [["ri_mercurius.L", L], ["ri_mercurius.safe_mode", 0]]} for L in S.MERCURIUS_L]
    eo = [{"integrator": "eos", "family": "eos", "fixed_step": True,
           "set": [["ri_eos.phi0", p0], ["ri_eos.phi1", p1], ["ri_eos.n", n], ["ri_eos.safe_mode", 0]]}
          for p0 in ("pmlf4", "pmlf6", "plf7_6_4") for p1 in S.EOS_TYPES for n in (1, 2)]
    return wh, sa, me, eo


server_det_case = st.fixed_dictionaries({
    "system": S.hierarchical_system(nmin=2, nmax=4),
    "cfg": st.one_of(*[st.sampled_from(x) for x in _det_cfgs()]),
    "dt_frac": st.sampled_from([0.05, 0.02]), "rand_seed": st.just(1),
    "nsteps": st.integers(3, 8), "eft": st.sampled_from([0, 1, 1]), "usleep": st.just(0),
    "det": st.sampled_from(["last_step_sync", "final_sync", "both"]), "requests": st.just([]),
})


server_fd_case = st.fixed_dictionaries({
    "system": S.hierarchical_system(nmin=2, nmax=3),
    "cfg": S.integrator_config(["whfast", "leapfrog", "ias15"]),
    "dt_frac": st.just(0.05), "rand_seed": st.just(1),
    "nsteps": st.integers(20, 60), "usleep": st.sampled_from([500, 1000]),
    "paths": st.lists(st.sampled_from(["/simulation", "/", "/favicon.ico", "/nosuchpage", "/keyboard/0"]),
                      min_size=1, max_size=4),
    "nreq": st.integers(100, 300),
})


def run_server_fd(case, ctx):
    """The server thread shares the process's descriptor table with the integration thread (which opens archive
    files) and every other thread.  A client and a watcher thread own descriptors; nobody else may close them."""
    import errno
    import warnings
    warnings.simplefilter("ignore")
    quiet_c_stdout()
    os.chdir(ctx.scratch)
    if not os.path.exists("rebound.html"):
        open("rebound.html", "w").write("<html></html>")
    prog = {"system": case["system"], "cfg": case["cfg"], "dt_frac": case["dt_frac"], "rand_seed": case["rand_seed"]}
    sim = build_sim(prog)
    sim.usleep = case["usleep"]
    port = None
    for attempt in range(5):
        port = free_port()
        try:
            sim.start_server(port)
        except RuntimeError:
            sim.stop_server()
            port = None
            continue
        if sim._server_data and sim._server_data.contents.ready == 1:
            break
        sim.stop_server()
        port = None
    if port is None:
        ctx.skip("no port could be bound")
        return
    stray = []
    done = [0]
    stop = threading.Event()

    def client():
        for i in range(case["nreq"]):
            if stop.is_set():
                break
            try:
                http_get(port, case["paths"][i % len(case["paths"])], timeout=3.0)
                done[0] += 1
            except StrayClose as e:
                stray.append(str(e))

    def watcher():
        while not stop.is_set():
            fd = os.open(os.devnull, os.O_RDONLY)
            try:
                for _ in range(20):
                    os.fstat(fd)
                os.close(fd)
            except OSError as e:
                if e.errno == errno.EBADF:
                    stray.append("descriptor %d held open by a watcher thread was closed by another thread" % fd)
                else:
                    raise

    ths = [threading.Thread(target=client), threading.Thread(target=watcher)]
    for t in ths:
        t.start()
    try:
        sim.integrate(sim.t + (case["nsteps"] - 0.5) * sim.dt, exact_finish_time=0)
        ths[0].join(timeout=30)
    finally:
        stop.set()
        for t in ths:
            t.join()
        sim.stop_server()
    ctx.stat_max("requests_per_case", done[0])
    if stray:
        raise Violation("while the server handled requests a file descriptor owned by another thread of the process "
                        "was closed: %s" % stray[0], n=len(stray), requests=done[0])
    ctx.nontrivial(done[0] >= 20)


# ---------------------------------------------------------------------------------------


def subs(tier):
    out = [
        Sub("interleave", run_interleave, strategy=case_strategy(False), quick=800, thorough=16000, shards_quick=8),
        Sub("threads", run_threads, strategy=case_strategy(False), quick=600, thorough=10000, shards_quick=4,
            shards_thorough=8),
        Sub("threads_stress", run_threads, strategy=stress_case(), quick=32, thorough=240, shards_quick=4,
            shards_thorough=8),
        Sub("server", run_server, strategy=server_case, quick=320, thorough=4000, shards_quick=8),
        Sub("server_mut", run_server, strategy=server_mut_case, quick=64, thorough=1200, shards_quick=8),
        Sub("server_sync_det", run_server, strategy=server_det_case, quick=48, thorough=800, shards_quick=8),
        Sub("server_fd", run_server_fd, strategy=server_fd_case, quick=64, thorough=1200, shards_quick=8),
        Sub("server_sync", run_server, strategy=server_sync_case, quick=40, thorough=600, shards_quick=8),
    ]
    if build.has_avx512():
        out += [
            Sub("interleave512", run_interleave, strategy=case_strategy(True), quick=500, thorough=10000, shards_quick=4,
                variant="avx512"),
            Sub("threads512", run_threads, strategy=case_strategy(True), quick=300, thorough=5000, shards_quick=4,
                shards_thorough=8, variant="avx512"),
        ]
    return out


def extra_evidence(tier):
    if not build.has_avx512():
        return {"variants_skipped": {"whfast512": "no AVX512 on this machine: interleave512/threads512 not run"}}
    return {}
