"""C20 - changes of units and of reference frame are exact symmetries."""
import ctypes
import itertools
import math
from fractions import Fraction as Fr

from hypothesis import strategies as st

from ..core import Sub, Violation
from .. import strategies as S

PROPERTY = "C20"
LEVEL = "exploration"
EPS = 2.0 ** -52
PI = math.pi
K = 64.0

KEY_ANTI = "C20-from-to-antiparallel"        # exactly antiparallel from_to: axis not normalised
KEY_NEWAXES = "C20-to-new-axes"      # to_new_axes: (newx . newz) taken before newz is normalised

RULE = ("units_G (exhaustive): all 7 x 15 x 17 = 1785 (length, time, mass) triples, argument order and letter case "
        "cycling with the index; sim.G and the period of a fixed physical two-body system against an SI table written "
        "independently in the harness; units_names (exhaustive): all 40 unit names, hashes distinct/non-zero/read back. "
        "units_convert: random particle data and unit triples, A->B->A, A->B->C vs A->C, vs the harness table, and "
        "P*T_unit invariance.  rotations: every constructor (quaternion, axis-angle incl. 0/pi/2pi, from_to incl. "
        "parallel/antiparallel/nearly antiparallel/axis-aligned, orbit, to_new_axes incl. non-orthogonal and non-unit "
        "inputs), unit norm, lengths/dot products, exact quaternion algebra (rationals) for product/inverse/rotate, "
        "mpmath matrices for the constructors, rotated particles/simulations (energy, |L|, L as a vector, pair "
        "distances).  frames: random systems with first/second-order (incl. test-particle) variational "
        "configurations and N_active in {-1, 1..N} (massive particles beyond it, both testparticle types): move_to_com "
        "against exact rational second-order Taylor arithmetic over all real particles, move_to_hel, "
        "multiply/*, /, +, - bitwise.  Non-trivial: units - every case; rotations - degenerate or near-degenerate "
        "construction or a composition; frames - variational particles present or an arithmetic operator; distinct by "
        "case hash.")
ASSUMPTIONS = [
    "the harness SI table (vf/oracles/c20_units_si.py): exact IAU/SI definitions for lengths and times; GM of the "
    "bodies to the stated per-body tolerance (1e-9 Sun ... 2e-3 Pluto); Newton's constant to 5e-5 for kg-based units",
    "mpmath (40 digits) and Python rationals are correct",
    "move_to_hel leaves variational particles untouched (documented); move_to_com treats a test-particle variation as "
    "not affecting the centre of mass (documented in the source)",
    "simulation +/- acts on the six Cartesian components (header documentation); masses are not asserted",
    "to_orbital()/orbital() is documented as quadrant-ambiguous and is not asserted",
]
CLASSES = ["units_G/kg_based", "units_G/gm_based", "units_convert/roundtrip", "units_convert/transitive",
           "rotations/from_to_antiparallel", "rotations/from_to_near_antiparallel", "rotations/from_to_parallel",
           "rotations/axis_angle_special", "rotations/to_new_axes_nonorth", "rotations/to_new_axes_default", "rotations/to_new_axes_near_minus_z",
           "rotations/orbit", "rotations/compose", "rotations/sim", "frames/com_var1", "frames/com_var2",
           "frames/com_testparticle", "frames/com_massive_beyond_N_active", "frames/hel", "frames/arith"]


# ---------------------------------------------------------------------------------------------------------
# units

def unit_lists():
    from ..oracles import c20_units_si as U
    return list(U.LENGTH), list(U.TIME), U.MASS_NAMES


def all_triples(tier):
    L, T, M = unit_lists()
    for i, (l, t, m) in enumerate(itertools.product(L, T, M)):
        yield {"l": l, "t": t, "m": m, "i": i}


def decorate(name, i):
    return [name, name.upper(), name.capitalize(), name.swapcase()][i % 4]


def run_units_G(c, ctx):
    import rebound
    from rebound import units as RU
    from ..oracles import c20_units_si as U
    l, t, m, i = c["l"], c["t"], c["m"], c["i"]
    for nm, tab in ((l, RU.lengths_SI), (t, RU.times_SI), (m, RU.masses_SI)):
        if nm not in tab:
            raise Violation("unit %r of the documented list is not supported" % nm)
    if i == 0:
        if set(RU.lengths_SI) != set(U.LENGTH) or set(RU.times_SI) != set(U.TIME) or set(RU.masses_SI) != set(U.MASS_NAMES):
            raise Violation("the set of supported units differs from the harness table (7 x 15 x 17): the enumeration "
                            "is no longer exhaustive", lib=[sorted(RU.lengths_SI), sorted(RU.times_SI), sorted(RU.masses_SI)])
    perm = list(itertools.permutations([decorate(l, i), decorate(t, i // 4), decorate(m, i // 16)]))[i % 6]
    sim = rebound.Simulation()
    if i % 2:
        sim.units = perm
    else:
        sim.units = {"a": perm[0], "b": perm[1], "c": perm[2]}
    G, tol = U.expected_G(l, t, m)
    rel = abs(sim.G - G) / G
    ctx.stat_max("G_err_over_tol", rel / tol)
    ctx.cls("kg_based" if m in U.KG else "gm_based")
    if not rel <= tol:
        raise Violation("units %s: G = %r, SI table gives %r (relative difference %.3e, allowed %.1e)"
                        % ((l, t, m), sim.G, G, rel, tol), units=[l, t, m])
    # documented identities: yr2pi is the time unit in which G = 1 with (au, Msun); massist the mass unit with (au, day)
    if (l in ("au", "aus") and ((t == "yr2pi" and U.GM.get(m, (0,))[0] == U.GM_SUN) or (t in ("day", "days", "d") and m == "massist"))):
        ctx.cls("documented_G_equals_1")
        if abs(sim.G - 1.0) > 16 * EPS:
            raise Violation("units %s are documented to give G = 1, G = %r" % ((l, t, m), sim.G))
    back = sim.units
    if back != {"length": l, "time": t, "mass": m}:
        raise Violation("sim.units reads back %r after setting %r" % (back, perm))
    # a fixed physical system: GM = 1.3e20 m^3/s^2 (a Sun-like star), a = 1.5e11 m  ->  P in seconds
    gm_phys, a_phys = 1.3e20, 1.5e11
    mu, mtol = U.mass_in_unit(gm_phys, m)
    sim.add(m=mu)
    sim.add(a=a_phys / U.LENGTH[l])
    P = sim.particles[1].orbit(primary=sim.particles[0]).P * U.TIME[t]
    Pref = 2 * PI * math.sqrt(a_phys ** 3 / gm_phys)
    relP = abs(P - Pref) / Pref
    if not relP <= tol + mtol:
        raise Violation("units %s: orbital period of the reference system %.12g s, expected %.12g s" % ((l, t, m), P, Pref))
    # units can only be set before particles are added
    try:
        sim.units = perm
        raise Violation("sim.units could be set after particles were added (documented: error)")
    except AttributeError:
        pass
    ctx.nontrivial()


def all_names(tier):
    L, T, M = unit_lists()
    for kind, names in (("length", L), ("time", T), ("mass", M)):
        for n in names:
            yield {"kind": kind, "name": n}


def run_units_names(c, ctx):
    import rebound
    from rebound import units as RU, clibrebound
    L, T, M = unit_lists()
    allnames = L + T + M
    if len(set(allnames)) != len(allnames):
        raise Violation("a unit name is listed for two dimensions")
    clibrebound.reb_hash.restype = ctypes.c_uint32
    hs = {n: clibrebound.reb_hash(ctypes.c_char_p(n.encode("ascii"))) for n in allnames}
    n = c["name"]
    if hs[n] == 0:
        raise Violation("hash of unit %r is 0 (means 'units not set')" % n)
    clash = [o for o in allnames if o != n and hs[o] == hs[n]]
    if clash:
        raise Violation("units %r and %r hash to the same value" % (n, clash[0]))
    if RU.hash_to_unit(hs[n]) != n:
        raise Violation("hash_to_unit(hash(%r)) = %r" % (n, RU.hash_to_unit(hs[n])))
    tabs = {"length": RU.lengths_SI, "time": RU.times_SI, "mass": RU.masses_SI}
    for kind, tab in tabs.items():
        if (n in tab) != (kind == c["kind"]):
            raise Violation("unit %r: membership in the %s table is %r" % (n, kind, n in tab))
    # an unknown unit / a wrong number of units is rejected
    sim = rebound.Simulation()
    for bad in ((n,), (n, n, n), (n, "furlong", "kg")):
        try:
            sim.units = bad
        except Exception:
            continue
        raise Violation("sim.units = %r accepted" % (bad,))
    ctx.nontrivial()


vals = st.one_of(S.floats(-10.0, 10.0), st.sampled_from([0.0, 1.0, -1.0]), S.logfloats(1e-8, 1e8))
particle_s = st.fixed_dictionaries({"m": st.one_of(S.logfloats(1e-6, 1e3), st.just(0.0)), "r": st.one_of(st.just(0.0), S.logfloats(1e-6, 1.0)),
                                    "x": vals, "y": vals, "z": vals, "vx": vals, "vy": vals, "vz": vals,
                                    "ax": vals, "ay": vals, "az": vals})


@st.composite
def convert_case(draw):
    L, T, M = unit_lists()
    tri = lambda: [draw(st.sampled_from(L)), draw(st.sampled_from(T)), draw(st.sampled_from(M))]
    return {"A": tri(), "B": tri(), "C": tri(), "particles": draw(st.lists(particle_s, min_size=1, max_size=4)),
            "orbit": draw(st.fixed_dictionaries({"a": S.logfloats(1e-3, 1e3), "e": S.floats(0.0, 0.9), "inc": S.floats(0.0, 3.0)}))}


def pdata(sim):
    return [[p.m, p.r, p.x, p.y, p.z, p.vx, p.vy, p.vz, p.ax, p.ay, p.az] for p in sim.particles]


def run_units_convert(c, ctx):
    import rebound
    from ..oracles import c20_units_si as U
    from .. import rb
    rb.quiet()

    def build():
        sim = rebound.Simulation()
        sim.units = tuple(c["A"])
        for p in c["particles"]:
            sim.add(**{k_: v for k_, v in p.items() if k_ not in ("ax", "ay", "az")})
            q = sim.particles[sim.N - 1]
            q.ax, q.ay, q.az = p["ax"], p["ay"], p["az"]
        return sim
    A, B, Cc = c["A"], c["B"], c["C"]
    s1 = build()
    d0 = pdata(s1)
    s1.convert_particle_units(*B)
    dB = pdata(s1)
    # against the harness table
    fl = U.LENGTH[A[0]] / U.LENGTH[B[0]]
    ft = U.TIME[A[1]] / U.TIME[B[1]]
    ltol = U.LENGTH_TOL.get(A[0], 0) + U.LENGTH_TOL.get(B[0], 0) + 16 * EPS
    ttol = U.TIME_TOL.get(A[1], 0) + U.TIME_TOL.get(B[1], 0)
    for p0, p1 in zip(d0, dB):
        m_exp = None
        if (A[2] in U.KG) == (B[2] in U.KG):
            if A[2] in U.KG:
                m_exp, mtol = p0[0] * U.KG[A[2]] / U.KG[B[2]], 16 * EPS
            else:
                m_exp, mtol = p0[0] * U.GM[A[2]][0] / U.GM[B[2]][0], U.GM[A[2]][1] + U.GM[B[2]][1] + 16 * EPS
        else:
            gA = U.GM[A[2]][0] / U.G_SI if A[2] in U.GM else U.KG[A[2]]
            gB = U.GM[B[2]][0] / U.G_SI if B[2] in U.GM else U.KG[B[2]]
            m_exp, mtol = p0[0] * gA / gB, U.G_SI_TOL + (U.GM[A[2]][1] if A[2] in U.GM else U.GM[B[2]][1])
        exp = [m_exp, p0[1] * fl] + [q * fl for q in p0[2:5]] + [q * fl / ft for q in p0[5:8]] + [q * fl / ft / ft for q in p0[8:11]]
        tols = [mtol, ltol] + [ltol] * 3 + [ltol + ttol] * 3 + [ltol + 2 * ttol] * 3
        for j, (e_, g_, t_) in enumerate(zip(exp, p1, tols)):
            if abs(g_ - e_) > t_ * abs(e_):
                raise Violation("convert_particle_units %s -> %s: field %d = %r, harness table gives %r" % (A, B, j, g_, e_))
    if s1.units != {"length": B[0], "time": B[1], "mass": B[2]}:
        raise Violation("units after conversion read back %r" % (s1.units,))
    GB, gt = U.expected_G(*B)
    if abs(s1.G - GB) > gt * GB:
        raise Violation("G after conversion to %s is %r, table %r" % (B, s1.G, GB))
    # reversible
    s1.convert_particle_units(*A)
    dA = pdata(s1)
    worst = 0.0
    for p0, p1 in zip(d0, dA):
        for j, (a_, b_) in enumerate(zip(p0, p1)):
            if a_ == b_:
                continue
            rel = abs(a_ - b_) / abs(a_) if a_ != 0 else float("inf")
            worst = max(worst, rel / EPS)
            if rel > 16 * EPS:
                raise Violation("A->B->A changes field %d from %r to %r (%.1f ulp)" % (j, a_, b_, rel / EPS), A=A, B=B)
    ctx.stat_max("roundtrip_ulps", worst)
    ctx.cls("roundtrip")
    # transitive
    s2 = build()
    s2.convert_particle_units(*B)
    s2.convert_particle_units(*Cc)
    s3 = build()
    s3.convert_particle_units(*Cc)
    for p2, p3 in zip(pdata(s2), pdata(s3)):
        for j, (a_, b_) in enumerate(zip(p2, p3)):
            if a_ != b_ and not abs(a_ - b_) <= 16 * EPS * abs(b_):
                raise Violation("A->B->C differs from A->C in field %d: %r vs %r" % (j, a_, b_), A=A, B=B, C=Cc)
    if abs(s2.G - s3.G) > 4 * EPS * s3.G:
        raise Violation("G differs between A->B->C and A->C")
    ctx.cls("transitive")
    # physical predictions do not depend on the unit system: period (in seconds, by the library's own time table) of
    # an orbit set up in A and converted to B
    from rebound import units as RU
    s4 = rebound.Simulation()
    s4.units = tuple(A)
    s4.add(m=1.0)
    s4.add(m=1e-3, **c["orbit"])
    PA = s4.particles[1].orbit(primary=s4.particles[0]).P * RU.times_SI[A[1]]
    s4.convert_particle_units(*B)
    o = s4.particles[1].orbit(primary=s4.particles[0])
    PB = o.P * RU.times_SI[B[1]]
    relP = abs(PA - PB) / PA
    # P = 2pi sqrt(a^3/mu), a = -mu/(v^2 - 2mu/d): conditioning ~ (1+e)/(1-e) on the rounding of d, v, mu
    condP = 8 * (1 + c["orbit"]["e"]) / (1 - c["orbit"]["e"])
    ctx.stat_max("period_err_over_tol", relP / (K * EPS * condP))
    if relP > K * EPS * condP:
        raise Violation("orbital period changes under unit conversion %s -> %s: %r s vs %r s" % (A, B, PA, PB))
    if abs(o.e - c["orbit"]["e"]) > K * EPS * condP:
        raise Violation("e changes under unit conversion", e=o.e, orbit=c["orbit"])
    ctx.nontrivial()


# ---------------------------------------------------------------------------------------------------------
# rotations

vec_generic = st.lists(st.one_of(S.floats(-2.0, 2.0), st.sampled_from([0.0, 1.0, -1.0])), min_size=3, max_size=3).filter(
    lambda v: sum(x * x for x in v) > 1e-6)
vec_axis = st.sampled_from([[1.0, 0, 0], [0, 1.0, 0], [0, 0, 1.0], [-1.0, 0, 0], [0, -1.0, 0], [0, 0, -1.0], [1.0, 1.0, 1.0],
                            [1.0, 1.0, 0.0], [0.0, 2.0, 0.0], [1.0, -1.0, 0.0], [0.0, 0.0, 3.0], [2.0, 3.0, -5.0]])
vec_s = st.one_of(vec_generic, vec_axis, st.tuples(vec_generic, S.logfloats(1e-6, 1e6)).map(lambda t: [x * t[1] for x in t[0]]))
angle_s = st.one_of(S.floats(-2 * PI, 2 * PI), st.sampled_from([0.0, PI, -PI, 2 * PI, PI / 2, 4 * PI, 1e-9, PI - 1e-9]),
                    S.floats(-20.0, 20.0))
small = st.one_of(st.sampled_from([0.0, 1e-16, 1e-12, 1e-8, 1e-4]), S.logfloats(1e-17, 1e-2), S.logfloats(1e-15, 1e-2))


@st.composite
def ctor_s(draw, allow_compose=True):
    kind = draw(st.sampled_from(["axis_angle", "axis_angle", "from_to", "from_to", "from_to_anti", "from_to_anti", "from_to_par", "orbit",
                                 "new_axes", "new_axes_default", "new_axes_nonorth", "new_axes_near_minus_z", "quat"] + (["compose"] * 3 if allow_compose else [])))
    if kind == "axis_angle":
        return {"k": kind, "angle": draw(angle_s), "axis": draw(vec_s)}
    if kind == "from_to":
        return {"k": kind, "from": draw(vec_s), "to": draw(vec_s)}
    if kind == "from_to_anti":
        # to = -scale * from + perturbation orthogonal-ish; perturbation 0 -> exactly antiparallel
        return {"k": kind, "from": draw(vec_s), "scale": draw(st.one_of(st.sampled_from([1.0, 1.0, 2.0, 0.5, 3.0]), S.logfloats(1e-6, 1e6))),
                "pert": draw(small), "pdir": draw(vec_generic)}
    if kind == "from_to_par":
        return {"k": kind, "from": draw(vec_s), "scale": draw(st.one_of(st.sampled_from([1.0, 2.0, 0.5]), S.logfloats(1e-6, 1e6))),
                "pert": draw(small), "pdir": draw(vec_generic)}
    if kind == "new_axes_near_minus_z":
        # newz = -z (or +z) tilted by delta towards a random azimuth, arbitrary length; newx anything not parallel
        return {"k": kind, "delta": draw(small), "az": draw(angle_s), "sign": draw(st.sampled_from([-1.0, -1.0, 1.0])),
                "sz": draw(S.logfloats(1e-3, 1e3)), "newx": draw(vec_generic), "default": draw(st.booleans())}
    if kind == "orbit":
        inc = draw(st.one_of(S.floats(0.0, PI), st.sampled_from([0.0, PI, PI / 2, 1e-9])))
        return {"k": kind, "Omega": draw(angle_s), "inc": inc, "omega": draw(angle_s)}
    if kind == "new_axes":
        # an orthogonal pair made from a random rotation of (z, x), scaled
        return {"k": kind, "angle": draw(angle_s), "axis": draw(vec_s), "sz": draw(st.sampled_from([1.0, 1.0, 2.0, 0.3])),
                "sx": draw(st.sampled_from([1.0, 1.0, 5.0]))}
    if kind == "new_axes_default":
        return {"k": kind, "newz": draw(st.one_of(vec_s, st.sampled_from([[0, 0, 1.0], [0, 0, 2.0], [0, 0, -1.0], [1e-17, 0, 1.0]])))}
    if kind == "new_axes_nonorth":
        nz, nx = draw(vec_s), draw(vec_s)
        cr = [nz[1] * nx[2] - nz[2] * nx[1], nz[2] * nx[0] - nz[0] * nx[2], nz[0] * nx[1] - nz[1] * nx[0]]
        if sum(x * x for x in cr) < 1e-6 * sum(x * x for x in nz) * sum(x * x for x in nx):
            nx = [nx[0] + nz[1] + 0.5 * abs(nz[2]), nx[1] - nz[0], nx[2] + 0.5 * abs(nz[0]) + 0.5 * abs(nz[1])]   # newx must not be parallel to newz
        return {"k": kind, "newz": nz, "newx": nx}
    if kind == "quat":
        q = draw(st.lists(S.floats(-2.0, 2.0), min_size=4, max_size=4).filter(lambda v: sum(x * x for x in v) > 1e-3))
        return {"k": kind, "q": q}
    return {"k": "compose", "parts": draw(st.lists(ctor_s(allow_compose=False), min_size=2, max_size=3))}


rot_case = st.fixed_dictionaries({"ctor": ctor_s(), "v": vec_s, "w": vec_s,
                                  "sys": st.one_of(st.none(), S.hierarchical_system(nmin=2, nmax=4, move_to_com=False))})


def vnorm(v):
    return math.sqrt(sum(float(x) * float(x) for x in v))


def cross(a, b):
    return [a[1] * b[2] - a[2] * b[1], a[2] * b[0] - a[0] * b[2], a[0] * b[1] - a[1] * b[0]]


def dot(a, b):
    return a[0] * b[0] + a[1] * b[1] + a[2] * b[2]


def q_rotate_exact(q, v):
    """Exact rational v + 2 r (u x v) + 2 u x (u x v) for q = (ix, iy, iz, r)."""
    u = [Fr(q[0]), Fr(q[1]), Fr(q[2])]
    r = Fr(q[3])
    v = [Fr(x) for x in v]
    t = [2 * x for x in cross(u, v)]
    c2 = cross(u, t)
    return [v[i] + r * t[i] + c2[i] for i in range(3)]


def q_mul_exact(p, q):
    px, py, pz, pr = [Fr(x) for x in p]
    qx, qy, qz, qr = [Fr(x) for x in q]
    return [pr * qx + px * qr + py * qz - pz * qy,
            pr * qy - px * qz + py * qr + pz * qx,
            pr * qz + px * qy - py * qx + pz * qr,
            pr * qr - px * qx - py * qy - pz * qz]


def qt(q):
    return [q.ix, q.iy, q.iz, q.r]


def mp_axis_angle(angle, axis):
    """Rotation matrix (mp) by Rodrigues' formula."""
    import mpmath as mp
    a = [mp.mpf(x) for x in axis]
    n = mp.sqrt(sum(x * x for x in a))
    k = [x / n for x in a]
    c, s = mp.cos(mp.mpf(angle)), mp.sin(mp.mpf(angle))
    Kx = [[0, -k[2], k[1]], [k[2], 0, -k[0]], [-k[1], k[0], 0]]
    R = [[(1 if i == j else 0) * c + s * Kx[i][j] + (1 - c) * k[i] * k[j] for j in range(3)] for i in range(3)]
    return R


def mat_vec(R, v):
    return [sum(R[i][j] * v[j] for j in range(3)) for i in range(3)]


def mat_mul(A, B):
    return [[sum(A[i][k] * B[k][j] for k in range(3)) for j in range(3)] for i in range(3)]


def build_rotation(ct, ctx, info):
    """Returns (Rotation, reference matrix in mp or None, tolerance factor on K*eps for vector images)."""
    import mpmath as mp
    import rebound
    R = rebound.Rotation
    k = ct["k"]
    if k == "axis_angle":
        if abs(math.remainder(ct["angle"], PI)) < 1e-8:
            ctx.cls("axis_angle_special")
            info["special"] = True
        q = R(angle=ct["angle"], axis=ct["axis"])
        return q, mp_axis_angle(ct["angle"], ct["axis"]), 1.0 + abs(ct["angle"])
    if k == "quat":
        q0 = ct["q"]
        q = R(ix=q0[0], iy=q0[1], iz=q0[2], r=q0[3])
        if qt(q) != [float(x) for x in q0]:
            raise Violation("Rotation(ix,iy,iz,r) does not store its arguments")
        n = R.normalize(q)
        l2 = sum(Fr(x) ** 2 for x in q0)
        for a_, b_ in zip(qt(n), q0):
            if abs(a_ - b_ / math.sqrt(float(l2))) > 4 * EPS:
                raise Violation("normalize(): %r" % (qt(n),), q=q0)
        return n, None, 1.0
    if k in ("from_to", "from_to_anti", "from_to_par"):
        f = ct["from"]
        if k == "from_to":
            t = ct["to"]
        else:
            sgn = -1.0 if k == "from_to_anti" else 1.0
            t = [sgn * ct["scale"] * x + ct["pert"] * ct["scale"] * vnorm(f) * y for x, y in zip(f, ct["pdir"])]
            if vnorm(t) < 1e-3 * ct["scale"] * vnorm(f):
                t = [sgn * ct["scale"] * x for x in f]          # never a (near-)zero vector
        fh = [mp.mpf(x) for x in f]
        th = [mp.mpf(x) for x in t]
        nf, nt = mp.sqrt(dot(fh, fh)), mp.sqrt(dot(th, th))
        fh = [x / nf for x in fh]
        th = [x / nt for x in th]
        half = [a_ + b_ for a_, b_ in zip(fh, th)]
        hl = mp.sqrt(dot(half, half))
        cr = cross(fh, th)
        crl = mp.sqrt(dot(cr, cr))
        info.update(fh=fh, th=th, hl=float(hl), crl=float(crl), f=f, t=t)
        exact_anti = all(-a_ == b_ for a_, b_ in zip(f, t)) or hl < 1e-15      # antiparallel to within rounding
        if hl < 1e-3:
            info["special"] = True
            ctx.cls("from_to_antiparallel" if exact_anti else "from_to_near_antiparallel")
        if crl < 1e-3 and hl > 1:
            info["special"] = True
            ctx.cls("from_to_parallel")
        info["exact_anti"] = bool(exact_anti)
        q = R.from_to(f, t)
        q2 = R(fromv=f, tov=t)
        if qt(q) != qt(q2) and all(math.isfinite(x) for x in qt(q) + qt(q2)):
            raise Violation("Rotation(fromv=, tov=) differs from Rotation.from_to")
        info["from_to"] = True
        return q, None, 1.0
    if k == "orbit":
        ctx.cls("orbit")
        q = R.orbit(Omega=ct["Omega"], inc=ct["inc"], omega=ct["omega"])
        M = mat_mul(mp_axis_angle(ct["Omega"], [0, 0, 1]), mat_mul(mp_axis_angle(ct["inc"], [1, 0, 0]), mp_axis_angle(ct["omega"], [0, 0, 1])))
        if ct["inc"] in (0.0, PI):
            info["special"] = True
        return q, M, 3.0 + abs(ct["Omega"]) + abs(ct["omega"]) + abs(ct["inc"])
    if k in ("new_axes", "new_axes_default", "new_axes_nonorth", "new_axes_near_minus_z"):
        if k == "new_axes_near_minus_z":
            d_ = ct["delta"]
            newz = [ct["sz"] * math.sin(d_) * math.cos(ct["az"]), ct["sz"] * math.sin(d_) * math.sin(ct["az"]),
                    ct["sz"] * ct["sign"] * math.cos(d_)]
            newx = None if ct["default"] else list(ct["newx"])
            if newx is not None and abs(newx[0]) + abs(newx[1]) < 1e-3:
                newx[0] += 1.0                      # newx must not be parallel to newz
            q = R.to_new_axes(newz=newz, newx=newx) if newx is not None else R.to_new_axes(newz=newz)
        elif k == "new_axes":
            M = mp_axis_angle(ct["angle"], ct["axis"])
            newz = [float(x) * ct["sz"] for x in mat_vec(M, [0, 0, 1])]
            newx = [float(x) * ct["sx"] for x in mat_vec(M, [1, 0, 0])]
            q = R.to_new_axes(newz=newz, newx=newx)
        elif k == "new_axes_default":
            ctx.cls("to_new_axes_default")
            newz = [float(x) for x in ct["newz"]]
            newx = None
            q = R.to_new_axes(newz=newz)
        else:
            ctx.cls("to_new_axes_nonorth")
            info["special"] = True
            newz, newx = ct["newz"], ct["newx"]
            q = R.to_new_axes(newz=newz, newx=newx)
        info.update(new_axes=True, newz=newz, newx=newx)
        return q, None, 1.0
    if k == "compose":
        ctx.cls("compose")
        info["special"] = True
        qs = []
        for part in ct["parts"]:
            sub_info = {}
            qp, _, _ = build_rotation(part, ctx, sub_info)
            if sub_info.get("from_to") or sub_info.get("new_axes"):
                if not check_rotation(qp, None, 1.0, sub_info, part, ctx):
                    info["excluded"] = True          # a factor falls under a known finding
                    return qp, None, 1.0
            qs.append(qp)
        q = qs[0]
        for qp in qs[1:]:
            prod = q * qp
            ex = q_mul_exact(qt(q), qt(qp))
            for a_, b_ in zip(qt(prod), ex):
                if abs(Fr(a_) - b_) > 8 * EPS * 2:
                    raise Violation("quaternion product differs from the exact product", p=qt(q), q=qt(qp), got=qt(prod),
                                    exact=[float(x) for x in ex])
            q = prod
        info["parts"] = qs
        return q, None, 1.0
    raise AssertionError(k)


def check_unit(q, what, info, ctx, ct):
    if not all(math.isfinite(x) for x in qt(q)):
        raise Violation("%s gives a non-finite quaternion %r" % (what, qt(q)), ctor=ct)
    l2 = float(sum(Fr(x) ** 2 for x in qt(q)))
    dev = abs(l2 - 1)
    ctx.stat_max("unit_norm_dev_eps", dev / EPS)
    if dev > 16 * EPS:
        raise Violation("%s: |q|^2 = %r, not a rotation" % (what, l2), q=qt(q), ctor=ct)


def check_rotation(q, M, fac, info, ct, ctx):
    import mpmath as mp
    anti_known = info.get("exact_anti") and ctx.finding_open(KEY_ANTI)
    if anti_known:
        ctx.excluded(KEY_ANTI)
        return False
    if info.get("new_axes") and info.get("newx") is not None:
        nz, nx = info["newz"], info["newx"]
        nonunit_nonorth = abs(dot(nz, nz) - 1) > 4 * EPS and abs(dot(nz, nx)) > 1e-12 * vnorm(nz) * vnorm(nx)
        if ctx.finding_open(KEY_NEWAXES):
            # second signature: the x axis, carried along by the minimal rotation newz -> z, ends up within 1e-3 of -x
            zl = vnorm(nz)
            zh_ = [mp.mpf(x) / zl for x in nz]
            x1 = mat_vec(mp_from_to_min(zh_), [mp.mpf(x) for x in nx])
            xl = mp.sqrt(x1[0] ** 2 + x1[1] ** 2)
            near_minus_x = xl > 0 and float(mp.sqrt((x1[0] / xl + 1) ** 2 + (x1[1] / xl) ** 2)) < 1e-3
            if nonunit_nonorth or near_minus_x:
                ctx.excluded(KEY_NEWAXES)
                return False
    check_unit(q, ct["k"], info, ctx, ct)
    if info.get("from_to"):
        fh, th = info["fh"], info["th"]
        img = q_rotate_exact(qt(q), [float(x) for x in fh])
        # nearly antiparallel vectors: the *axis* is underdetermined (to eps/|f+t|), the image of f is not - any rotation
        # taking f^ to t^ will do, and it has to do that to rounding like everywhere else
        tol = K * EPS
        err = float(mp.sqrt(sum((mp.mpf(float(a_)) - b_) ** 2 for a_, b_ in zip(img, th))))
        ctx.stat_max("from_to_err_over_tol", err / tol)
        if err > tol:
            raise Violation("from_to(f, t) * f/|f| differs from t/|t| by %.3e (allowed %.3e)" % (err, tol),
                            f=info["f"], t=info["t"], q=qt(q))
        # documented: rotation about f x t  (well defined when f, t are neither parallel nor antiparallel)
        if info["crl"] > 1e-3 and info["hl"] > 1e-3:
            ax = cross([float(x) for x in fh], [float(x) for x in th])
            img = q_rotate_exact(qt(q), ax)
            if vnorm([float(a_) - b_ for a_, b_ in zip(img, ax)]) > K * EPS:
                raise Violation("from_to(f, t) does not leave the axis f x t fixed", f=info["f"], t=info["t"])
    if info.get("new_axes"):
        nz = [mp.mpf(x) for x in info["newz"]]
        nzl = mp.sqrt(dot(nz, nz))
        zh = [x / nzl for x in nz]
        if info["newx"] is None:
            cx = cross([0, 0, 1], zh)
            cl = mp.sqrt(dot(cx, cx))
            # documented: new x along z cross newz, or the old x axis if they are parallel (library threshold 1e-15)
            if cl * nzl < 1e-15:
                xh = None if cl != 0 else [mp.mpf(1), mp.mpf(0), mp.mpf(0)]
            else:
                xh = [x / cl for x in cx]
            cond = 1.0 / float(cl) if cl > 0 else 1.0
        else:
            nx = [mp.mpf(x) for x in info["newx"]]
            px = [a_ - dot(nx, zh) * b_ for a_, b_ in zip(nx, zh)]
            pl = mp.sqrt(dot(px, px))
            if pl < 1e-6 * mp.sqrt(dot(nx, nx)):
                xh = None                     # newx (anti)parallel to newz: no x direction is defined
            else:
                xh = [x / pl for x in px]
            cond = float(mp.sqrt(dot(nx, nx)) / pl) if pl > 0 else 1.0
        zi = q_rotate_exact(qt(q), [float(x) for x in zh])
        # newz nearly opposite to z: the intermediate rotation is underdetermined about z, but the images of newz and of
        # the perpendicular part of newx are determined and must be accurate to rounding
        d1 = float(mp.sqrt(sum((a_ + b_) ** 2 for a_, b_ in zip(zh, [0, 0, 1]))))
        if d1 < 1e-3:
            ctx.cls("to_new_axes_near_minus_z")
            info["special"] = True
        tol = K * EPS * 4
        err = vnorm([float(zi[0]), float(zi[1]), float(zi[2]) - 1.0])
        if xh is not None:
            # image of xh under the minimal rotation zh -> z decides how close the second from_to is to antiparallel
            xi = q_rotate_exact(qt(q), [float(x) for x in xh])
            errx = vnorm([float(xi[0]) - 1.0, float(xi[1]), float(xi[2])])
        else:
            errx = 0.0
        info["na_err"] = (err, errx, tol, cond)
        ctx.stat_max("new_axes_z_err_over_tol", err / tol)
        if err > tol:
            raise Violation("to_new_axes: newz/|newz| is mapped to %r, not to z (error %.3e, allowed %.3e)"
                            % ([float(x) for x in zi], err, tol), newz=info["newz"], newx=info["newx"], q=qt(q))
        # cond: taking the perpendicular part of newx loses |newx|/|newx_perp|
        if xh is not None:
            tolx = K * EPS * 4 * cond
            ctx.stat_max("new_axes_x_err_over_tol", errx / tolx)
            if errx > tolx:
                raise Violation("to_new_axes: the component of newx perpendicular to newz is mapped to %r, not to x "
                                "(error %.3e, allowed %.3e)" % ([float(x) for x in xi], errx, tolx),
                                newz=info["newz"], newx=info["newx"], q=qt(q))
    return True


def mp_from_to_min(zh):
    """Minimal rotation taking unit vector zh to z (mp matrix)."""
    import mpmath as mp
    ax = cross(zh, [0, 0, 1])
    s = mp.sqrt(dot(ax, ax))
    if s == 0:
        return [[1, 0, 0], [0, 1, 0], [0, 0, 1]]
    ang = mp.atan2(s, zh[2])
    return mp_axis_angle(ang, ax)


def run_rotations(c, ctx):
    import mpmath as mp
    import rebound
    from .. import rb
    rb.quiet()
    mp.mp.dps = 40
    ct = c["ctor"]
    info = {}
    q, M, fac = build_rotation(ct, ctx, info)
    if info.get("excluded") or not check_rotation(q, M, fac, info, ct, ctx):
        return
    v, w = c["v"], c["w"]
    qv = q * v
    qw = q * w
    gv = [qv.x, qv.y, qv.z]
    gw = [qw.x, qw.y, qw.z]
    # the library's rotation of a vector against the exact quaternion sandwich
    ex = q_rotate_exact(qt(q), v)
    err = vnorm([Fr(a_) - b_ for a_, b_ in zip(gv, ex)])
    tolv = 8 * EPS * vnorm(v) * 3
    ctx.stat_max("rotate_err_over_tol", err / tolv)
    if err > tolv:
        raise Violation("q * v differs from the exact rotation of v by q: %.3e (allowed %.3e)" % (err, tolv), q=qt(q), v=v, got=gv)
    # lengths and dot products
    if abs(vnorm(gv) - vnorm(v)) > K * EPS * vnorm(v):
        raise Violation("rotation changes the length of v: %r -> %r" % (vnorm(v), vnorm(gv)), q=qt(q), v=v)
    if abs(dot(gv, gw) - dot(v, w)) > K * EPS * vnorm(v) * vnorm(w):
        raise Violation("rotation changes v.w: %r -> %r" % (dot(v, w), dot(gv, gw)), q=qt(q), v=v, w=w)
    # orientation: (q v) x (q w) = q (v x w)
    cx = cross(v, w)
    qc = q * cx
    cg = cross(gv, gw)
    if vnorm([qc.x - cg[0], qc.y - cg[1], qc.z - cg[2]]) > K * EPS * vnorm(v) * vnorm(w):
        raise Violation("rotation does not preserve orientation (cross products)", q=qt(q), v=v, w=w)
    # against the mp matrix of the constructor
    if M is not None:
        ref = mat_vec(M, [mp.mpf(x) for x in v])
        err = float(mp.sqrt(sum((mp.mpf(a_) - b_) ** 2 for a_, b_ in zip(gv, ref))))
        tolm = K * EPS * fac * vnorm(v)
        ctx.stat_max("ctor_matrix_err_over_tol", err / tolm)
        if err > tolm:
            raise Violation("%s applied to v differs from the reference matrix by %.3e (allowed %.3e)" % (ct["k"], err, tolm),
                            ctor=ct, v=v, got=gv, ref=[float(x) for x in ref])
    # inverse
    qi = q.inverse()
    back = qi * gv
    if vnorm([back.x - v[0], back.y - v[1], back.z - v[2]]) > K * EPS * vnorm(v):
        raise Violation("q^-1 (q v) != v", q=qt(q), v=v, back=[back.x, back.y, back.z])
    ident = q_mul_exact(qt(qi), qt(q))
    if max(abs(float(ident[0])), abs(float(ident[1])), abs(float(ident[2])), abs(float(ident[3]) - 1)) > 16 * EPS:
        raise Violation("q^-1 q is not the identity: %r" % ([float(x) for x in ident],), q=qt(q))
    # composition acts as successive rotation
    if ct["k"] == "compose":
        vv = v
        for qp in reversed(info["parts"]):
            t_ = qp * vv
            vv = [t_.x, t_.y, t_.z]
        if vnorm([a_ - b_ for a_, b_ in zip(vv, gv)]) > K * EPS * vnorm(v) * len(info["parts"]):
            raise Violation("(q1 q2) v != q1 (q2 v)", ctor=ct, v=v)
    # orbit(): same as building the particle from the elements (documented example)
    if ct["k"] == "orbit":
        sim = rebound.Simulation()
        sim.add(m=1.0)
        pin = rebound.Particle(simulation=sim, primary=sim.particles[0], a=1.3, e=0.2, f=0.7)
        pel = rebound.Particle(simulation=sim, primary=sim.particles[0], a=1.3, e=0.2, f=0.7, inc=ct["inc"], Omega=ct["Omega"], omega=ct["omega"])
        pr = q * pin
        d = vnorm([pr.x - pel.x, pr.y - pel.y, pr.z - pel.z]) / 1.6 + vnorm([pr.vx - pel.vx, pr.vy - pel.vy, pr.vz - pel.vz])
        if d > K * EPS * fac * 4:
            raise Violation("Rotation.orbit(Omega, inc, omega) * planar particle differs from the particle built with those "
                            "elements by %.3e" % d, ctor=ct)
    # particles and simulations
    if c["sys"] is not None:
        ctx.cls("sim")
        sysd = c["sys"]
        sim = rb.new_sim({"G": sysd["G"], "particles": sysd["particles"]})
        E0 = sim.energy()
        L0 = sim.angular_momentum()
        L0 = [L0.x, L0.y, L0.z] if hasattr(L0, "x") else list(L0)
        st0 = rb.pfloat(sim)
        s2 = q * sim
        if rb.pstate(sim) != rb.pstate(rb.new_sim({"G": sysd["G"], "particles": sysd["particles"]})):
            raise Violation("Rotation * Simulation modified the original simulation")
        sim.rotate(q)
        if rb.pstate(sim) != rb.pstate(s2):
            raise Violation("sim.rotate(q) and q * sim differ")
        st1 = rb.pfloat(sim)
        for i, (a_, b_) in enumerate(zip(st0, st1)):
            pq = q * a_[0:3]
            vq = q * a_[3:6]
            if [pq.x, pq.y, pq.z, vq.x, vq.y, vq.z] != b_[0:6] or a_[6:] != b_[6:]:
                raise Violation("rotating a simulation is not rotating each position and velocity (particle %d)" % i)
            pp = q * rebound.Particle(m=a_[6], x=a_[0], y=a_[1], z=a_[2], vx=a_[3], vy=a_[4], vz=a_[5])
            if [pp.x, pp.y, pp.z, pp.vx, pp.vy, pp.vz, pp.m] != b_[0:7]:
                raise Violation("Rotation * Particle differs from the rotated simulation's particle %d" % i)
        E1 = sim.energy()
        T = sum(0.5 * p[6] * (p[3] ** 2 + p[4] ** 2 + p[5] ** 2) for p in st0)
        U_ = 0.0
        n = len(st0)
        for i in range(n):
            for j in range(i + 1, n):
                U_ += sysd["G"] * st0[i][6] * st0[j][6] / vnorm([st0[i][k_] - st0[j][k_] for k_ in range(3)])
                d0 = vnorm([st0[i][k_] - st0[j][k_] for k_ in range(3)])
                d1 = vnorm([st1[i][k_] - st1[j][k_] for k_ in range(3)])
                big = max(vnorm(st0[i][:3]), vnorm(st0[j][:3]))
                if abs(d0 - d1) > K * EPS * big:
                    raise Violation("rotation changes the distance between particles %d and %d: %r -> %r" % (i, j, d0, d1))
        if abs(E1 - E0) > K * EPS * (T + U_):
            raise Violation("rotation changes the energy: %r -> %r (kinetic+|potential| %r)" % (E0, E1, T + U_), q=qt(q))
        L1 = sim.angular_momentum()
        L1 = [L1.x, L1.y, L1.z] if hasattr(L1, "x") else list(L1)
        Lmag = sum(p[6] * vnorm(p[:3]) * vnorm(p[3:6]) for p in st0)
        qL = q * L0
        if vnorm([qL.x - L1[0], qL.y - L1[1], qL.z - L1[2]]) > K * EPS * Lmag:
            raise Violation("angular momentum of the rotated simulation is not the rotated angular momentum", L0=L0, L1=L1)
        if abs(vnorm(L0) - vnorm(L1)) > K * EPS * Lmag:
            raise Violation("rotation changes |L|: %r -> %r" % (vnorm(L0), vnorm(L1)))
    ctx.nontrivial(bool(info.get("special")))


# ---------------------------------------------------------------------------------------------------------
# frames and simulation arithmetic

coord = st.one_of(S.floats(-5.0, 5.0), st.sampled_from([0.0, 1.0]))
body = st.fixed_dictionaries({"m": st.one_of(S.logfloats(1e-6, 10.0), st.just(1.0)), "x": coord, "y": coord, "z": coord,
                              "vx": coord, "vy": coord, "vz": coord})
varp = st.fixed_dictionaries({"m": st.one_of(st.just(0.0), S.floats(-1.0, 1.0)), "x": coord, "y": coord, "z": coord,
                              "vx": coord, "vy": coord, "vz": coord})


@st.composite
def frame_case(draw):
    n = draw(st.integers(1, 5))
    bodies = draw(st.lists(body, min_size=n, max_size=n))
    ntest = draw(st.integers(0, 2))
    for _ in range(ntest):
        b = dict(draw(body))
        b["m"] = 0.0
        bodies.append(b)
    N = len(bodies)
    cfgs = []
    nfirst = draw(st.integers(0, 3))
    for _ in range(nfirst):
        cfgs.append({"order": 1, "tp": -1, "data": draw(st.lists(varp, min_size=N, max_size=N))})
    if ntest and draw(st.booleans()):
        cfgs.append({"order": 1, "tp": n + draw(st.integers(0, ntest - 1)), "data": [dict(draw(varp), m=0.0)]})
    if nfirst:
        for _ in range(draw(st.integers(0, 2))):
            cfgs.append({"order": 2, "tp": -1, "a": draw(st.integers(0, nfirst - 1)), "b": draw(st.integers(0, nfirst - 1)),
                         "data": draw(st.lists(varp, min_size=N, max_size=N))})
    # N_active / testparticle_type: the frame operations are documented for *all* particles; particles beyond N_active
    # may carry mass (semi-active bodies, type 1, or massive type-0 test particles)
    nact = draw(st.one_of(st.just(-1), st.just(-1), st.integers(1, N)))
    return {"bodies": bodies, "cfgs": cfgs, "N_active": nact, "tptype": draw(st.sampled_from([0, 1])),
            "op": draw(st.sampled_from(["com", "com", "com", "hel", "arith"])),
            "s1": draw(st.one_of(S.floats(-3.0, 3.0), st.sampled_from([2.0, 0.5, -1.0, 3.0]))),
            "s2": draw(st.one_of(S.floats(-3.0, 3.0), st.sampled_from([2.0, 0.1]))),
            "other": draw(st.lists(body, min_size=N, max_size=N)), "G": draw(st.sampled_from([1.0, 39.47]))}


FLD = ("x", "y", "z", "vx", "vy", "vz")


def build_frame_sim(c, bodies=None):
    import rebound
    sim = rebound.Simulation()
    sim.G = c["G"]
    for b in (bodies or c["bodies"]):
        sim.add(**b)
    if c.get("N_active", -1) != -1:
        sim.N_active = c["N_active"]
        sim.testparticle_type = c.get("tptype", 0)
    idx = []
    vs = []
    for cf in c["cfgs"]:
        if cf["order"] == 1:
            v = sim.add_variation(order=1, testparticle=cf["tp"])
        else:
            v = sim.add_variation(order=2, first_order=vs[cf["a"]], first_order_2=vs[cf["b"]])
        vs.append(v)
        idx.append(v.index)
        for i, d in enumerate(cf["data"]):
            p = sim.particles[v.index + i]
            p.m = d["m"]
            for f in FLD:
                setattr(p, f, d[f])
    return sim, idx


def run_frames(c, ctx):
    import rebound
    from ..oracles import c20_jets as J
    from .. import rb
    rb.quiet()
    sim, idx = build_frame_sim(c)
    N = len(c["bodies"])
    before = rb.pfloat(sim)
    bits0 = rb.pstate(sim)
    op = c["op"]
    hasvar = bool(c["cfgs"])
    if op == "hel":
        ctx.cls("hel")
        sim.move_to_hel()
        after = rb.pfloat(sim)
        if any(after[0][k_] != 0.0 for k_ in range(6)):
            raise Violation("move_to_hel: particle 0 is at %r" % (after[0][:6],))
        for i in range(1, N):
            for k_ in range(6):
                ex = Fr(before[i][k_]) - Fr(before[0][k_])
                if abs(Fr(after[i][k_]) - ex) > EPS * abs(ex):
                    raise Violation("move_to_hel: particle %d coordinate %d = %r, exact difference %r" % (i, k_, after[i][k_], float(ex)))
        if rb.pstate(sim)[N:] != bits0[N:]:
            raise Violation("move_to_hel changed variational particles (documented: not affected)")
        if [a[6:] for a in after] != [b[6:] for b in before]:
            raise Violation("move_to_hel changed masses or radii")
        ctx.nontrivial(hasvar)
        return
    if op == "arith":
        ctx.cls("arith")
        s1, s2 = c["s1"], c["s2"]
        other, _ = build_frame_sim(c, c["other"])
        ob = rb.pfloat(other)
        tot = sim.N

        def expect(fn):
            return [[fn(before[i][k_], ob[i][k_], k_) for k_ in range(6)] for i in range(tot)]

        def same(simx, exp, what):
            got = rb.pfloat(simx)
            for i in range(tot):
                for k_ in range(6):
                    if rb.dbits(got[i][k_]) != rb.dbits(exp[i][k_]) and not (got[i][k_] == exp[i][k_] == 0.0):
                        raise Violation("%s: particle %d coordinate %d = %r, component-wise IEEE result %r"
                                        % (what, i, k_, got[i][k_], exp[i][k_]))
                if got[i][6:] != before[i][6:]:
                    ctx.cls("mass_or_radius_changed")
        r = sim * s1
        same(r, expect(lambda a, b, k_: a * s1), "sim * a")
        same(s1 * sim, expect(lambda a, b, k_: a * s1), "a * sim")
        if rb.pstate(sim) != bits0:
            raise Violation("sim * a modified sim")
        if s1 != 0.0:
            inv = 1.0 / s1
            same(sim / s1, expect(lambda a, b, k_: a * inv), "sim / a")
        else:
            try:
                sim / s1
                raise Violation("sim / 0 did not raise")
            except ZeroDivisionError:
                pass
        same(sim + other, expect(lambda a, b, k_: a + b), "sim1 + sim2")
        same(sim - other, expect(lambda a, b, k_: a - b), "sim1 - sim2")
        if rb.pstate(sim) != bits0:
            raise Violation("sim1 +/- sim2 modified sim1")
        c2 = sim.copy()
        c2.multiply(s1, s2)
        same(c2, expect(lambda a, b, k_: a * (s1 if k_ < 3 else s2)), "multiply(a, b)")
        c3 = sim.copy()
        c3 -= other
        c3 += other
        gb = rb.pfloat(c3)
        for i in range(tot):
            for k_ in range(6):
                if abs(gb[i][k_] - before[i][k_]) > 2 * EPS * (abs(before[i][k_]) + abs(ob[i][k_])):
                    raise Violation("(sim1 - sim2) + sim2 differs from sim1 beyond rounding")
        # different particle numbers: documented failure
        o2 = rebound.Simulation()
        o2.add(m=1.0)
        o2.add(m=1.0, x=1.0)
        o2.add(m=1.0, x=2.0)
        o2.add(m=1.0, x=3.0)
        if o2.N != sim.N:
            try:
                sim + o2
                raise Violation("adding simulations with different particle numbers did not fail")
            except RuntimeError:
                pass
        ctx.nontrivial()
        return
    # ---- move_to_com
    na = c.get("N_active", -1)
    if na != -1 and any(c["bodies"][i]["m"] != 0.0 for i in range(na, N)):
        ctx.cls("com_massive_beyond_N_active")
    sim.move_to_com()
    after = rb.pfloat(sim)
    masses = [before[i][6] for i in range(N)]
    if [a[6:] for a in after] != [b[6:] for b in before]:
        raise Violation("move_to_com changed masses or radii")
    # exact expectations through jets, one evaluation per (second-order configuration | first-order configuration)
    def jets(ma, mb, mab, xa, xb, xab, k_):
        mt = [(masses[i], ma[i], mb[i], mab[i]) for i in range(N)]
        xt = [(before[i][k_], xa[i], xb[i], xab[i]) for i in range(N)]
        ex, _ = J.com_shift(mt, xt)
        mg, _ = J.com_shift(mt, xt, mag=True)
        return ex, mg
    zero = [0.0] * N
    worst = 0.0
    checked_real = False
    plan = []
    for ci, cf in enumerate(c["cfgs"]):
        if cf["tp"] >= 0:
            ctx.cls("com_testparticle")
            # documented: a test-particle variation does not affect the centre of mass -> unchanged
            if rb.pstate(sim)[idx[ci]] != bits0[idx[ci]]:
                raise Violation("move_to_com changed a test-particle variational particle")
            continue
        if cf["order"] == 1:
            ctx.cls("com_var1")
            plan.append((ci, idx[ci], None, None))
        else:
            ctx.cls("com_var2")
            plan.append((ci, idx[cf["a"]], idx[cf["b"]], idx[ci]))     # a, b index the leading first-order configurations
    if not plan:
        plan = [(None, None, None, None)]
    for ci, ia, ib, iab in plan:
        for k_ in range(6):
            if ci is None:
                ex, mg = jets(zero, zero, zero, zero, zero, zero, k_)
            elif iab is None:
                ex, mg = jets([before[ia + i][6] for i in range(N)], zero, zero, [before[ia + i][k_] for i in range(N)], zero, zero, k_)
            else:
                ex, mg = jets([before[ia + i][6] for i in range(N)], [before[ib + i][6] for i in range(N)],
                              [before[iab + i][6] for i in range(N)], [before[ia + i][k_] for i in range(N)],
                              [before[ib + i][k_] for i in range(N)], [before[iab + i][k_] for i in range(N)], k_)
            for i in range(N):
                checks = [("real", i, ex[i].v, mg[i].v)]
                if ci is not None and iab is None:
                    checks.append(("1st-order", ia + i, ex[i].a, mg[i].a))
                if iab is not None:
                    checks.append(("2nd-order", iab + i, ex[i].ab, mg[i].ab))
                for what, pi_, e_, m_ in checks:
                    err = abs(Fr(after[pi_][k_]) - e_)
                    tol = K * EPS * float(m_)
                    if tol > 0:
                        worst = max(worst, float(err) / tol)
                    if err > tol:
                        raise Violation("move_to_com: %s particle (index %d) coordinate %d = %r, exact transformation gives %r "
                                        "(error %.3e, allowed %.3e)" % (what, pi_, k_, after[pi_][k_], float(e_), float(err), tol),
                                        cfg=ci)
    ctx.stat_max("com_err_over_tol", worst)
    # centre of mass at rest at the origin, relative coordinates unchanged
    M = sum(masses)
    for k_ in range(6):
        sc = sum(masses[i] * abs(before[i][k_]) for i in range(N))
        cm = sum(Fr(masses[i]) * Fr(after[i][k_]) for i in range(N))
        if abs(cm) > K * EPS * sc:
            raise Violation("move_to_com: centre of mass coordinate %d is %r afterwards" % (k_, float(cm) / M))
        big = max(abs(before[i][k_]) for i in range(N))
        for i in range(1, N):
            d0 = Fr(before[i][k_]) - Fr(before[0][k_])
            d1 = Fr(after[i][k_]) - Fr(after[0][k_])
            if abs(d1 - d0) > 8 * EPS * big:
                raise Violation("move_to_com changes the relative coordinate %d of particles 0 and %d" % (k_, i))
    ctx.nontrivial(hasvar)


# ---------------------------------------------------------------------------------------
# Operands survive the operation: rotating / scaling / copying a Vec3d, Particle or Simulation returns a new
# object and leaves the operand bitwise unchanged, so that the same operand can be reused in a composition.

operand_case = st.fixed_dictionaries({
    "q1": st.tuples(S.floats(-1, 1), S.floats(-1, 1), S.floats(-1, 1), S.floats(0.1, 1)),
    "q2": st.tuples(S.floats(-1, 1), S.floats(-1, 1), S.floats(0.1, 1), S.floats(-1, 1)),
    "v": st.tuples(S.floats(-10, 10), S.floats(-10, 10), S.floats(0.5, 10)),
    "kind": st.sampled_from(["Vec3d", "Vec3d_from_sim", "list", "tuple", "Vec3d_copy"]),
})


def _unit(q):
    import math
    n = math.sqrt(sum(x * x for x in q))
    return [x / n for x in q]


def run_operands(case, ctx):
    import math
    import rebound
    from .. import rb
    q1 = _unit(case["q1"])
    q2 = _unit(case["q2"])
    R1 = rebound.Rotation(ix=q1[0], iy=q1[1], iz=q1[2], r=q1[3])
    R2 = rebound.Rotation(ix=q2[0], iy=q2[1], iz=q2[2], r=q2[3])
    kind = case["kind"]
    vals = list(case["v"])
    if kind == "Vec3d":
        v = rebound.Vec3d(vals)
    elif kind == "Vec3d_copy":
        v0 = rebound.Vec3d(vals)
        v = rebound.Vec3d(v0)
        v0_bits = [rb.dbits(c) for c in (v0.x, v0.y, v0.z)]
    elif kind == "Vec3d_from_sim":
        sim = rebound.Simulation()
        sim.add(m=1.0)
        sim.add(m=1e-3, x=vals[0], y=vals[1], z=vals[2], vx=0.1, vy=0.7, vz=-0.2)
        v = sim.angular_momentum()
        if not isinstance(v, rebound.Vec3d):
            v = rebound.Vec3d(v)
        vals = [v.x, v.y, v.z]
    elif kind == "list":
        v = list(vals)
    else:
        v = tuple(vals)

    def bits(o):
        return [rb.dbits(float(o[i])) for i in range(3)]
    before = bits(v)
    w = R1 * v
    if bits(v) != before:
        raise Violation("rotating a %s changed the operand itself: %r -> %r" % (kind, vals, [float(v[i]) for i in range(3)]), kind=kind)
    # the result is a new object: editing it must not reach the operand
    if hasattr(w, "x") and hasattr(v, "x"):
        w2 = R1 * v
        w2.x = 12345.0
        if bits(v) != before:
            raise Violation("the result of rotation * %s aliases its operand" % kind, kind=kind)
    # composition with the SAME operand reused
    a = R2 * (R1 * v)
    b = (R2 * R1) * v
    tol = 64 * 2.2e-16 * math.sqrt(sum(x * x for x in vals))
    for i in range(3):
        if not abs(float(a[i]) - float(b[i])) <= tol:
            raise Violation("p*(q*v) != (p*q)*v when the same %s is reused: %r vs %r" % (kind, [float(a[i]) for i in range(3)], [float(b[i]) for i in range(3)]), kind=kind)
    # inverse returns the (unchanged) operand
    back = R1.inverse() * (R1 * v)
    for i in range(3):
        if not abs(float(back[i]) - vals[i]) <= tol:
            raise Violation("q^-1*(q*v) != v for a reused %s: %r vs %r" % (kind, [float(back[i]) for i in range(3)], vals), kind=kind)
    # angle between v and q*v equals the rotation angle's effect: |q*v - v| must match the independent formula
    qv = R1 * v
    ix, iy, iz, r = q1
    # rotate with the quaternion formula v' = v + 2r(u x v) + 2 u x (u x v)
    ux = (iy * vals[2] - iz * vals[1], iz * vals[0] - ix * vals[2], ix * vals[1] - iy * vals[0])
    uux = (iy * ux[2] - iz * ux[1], iz * ux[0] - ix * ux[2], ix * ux[1] - iy * ux[0])
    exp = [vals[i] + 2 * r * ux[i] + 2 * uux[i] for i in range(3)]
    for i in range(3):
        if not abs(float(qv[i]) - exp[i]) <= tol:
            raise Violation("q*v differs from the quaternion rotation formula on the second use of the same %s" % kind, kind=kind)
    if kind == "Vec3d_copy":
        v.x = -777.0
        if [rb.dbits(c) for c in (v0.x, v0.y, v0.z)] != v0_bits:
            raise Violation("Vec3d(Vec3d) is not a copy: editing the copy changed the original")
    # scalar operations leave the operand alone too
    if hasattr(v, "x") and kind != "Vec3d_copy":
        _ = v * 2.0
        _ = v / 2.0
        if bits(v) != before:
            raise Violation("scalar multiplication/division changed its Vec3d operand")
    ctx.cls(kind)
    if kind.startswith("Vec3d"):
        ctx.nontrivial()


def subs(tier):
    return [
        Sub("operands", run_operands, strategy=operand_case, quick=1500, thorough=30000, shards_quick=2, shards_thorough=8, journal=False),
        Sub("units_G", run_units_G, cases=all_triples, exhaustive=True, quick=1785, thorough=1785, shards_quick=4, shards_thorough=4),
        Sub("units_names", run_units_names, cases=all_names, exhaustive=True, quick=40, thorough=40, shards_quick=1, shards_thorough=1),
        Sub("units_convert", run_units_convert, strategy=convert_case(), quick=1500, thorough=40000, shards_quick=4, shards_thorough=16),
        Sub("rotations", run_rotations, strategy=rot_case, quick=6000, thorough=200000, shards_quick=8, shards_thorough=16),
        Sub("frames", run_frames, strategy=frame_case(), quick=3000, thorough=80000, shards_quick=4, shards_thorough=16),
    ]
