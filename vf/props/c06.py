"""C06 - every archive snapshot equals the live state when taken, under any history."""
import math
import os
import struct

from hypothesis import strategies as st

from ..core import Sub, Violation
from .. import strategies as S

PROPERTY = "C06"
LEVEL = "exploration"
RULE = ("Generated operation histories (integrate/steps/add/remove/remove_all/switch or reset integrator/"
        "change setting/add variation/megno) interleaved with manual snapshots, plus automatic interval/step "
        "cadence runs observed through a heartbeat.  Oracle: the field map of the live simulation recorded when "
        "each snapshot was written must equal the field map of snapshot k loaded from the archive; count and "
        "times must match; cadence must follow the documented rule.  Non-trivial = at least two snapshots with "
        "a structural change (a persisted array appearing, vanishing, growing or shrinking, or an integrator "
        "switch) between them, or a cadence run with >= 3 automatic snapshots; distinct by case hash.")
ASSUMPTIONS = [
    "the live state 'when taken' is observed as the field map of reb_simulation_save_to_stream at that moment",
    "pointer-valued members, struct padding and walltime fields are not state",
    "automatic cadence: rule 'before each step and once after the last one: if next <= t then next += interval, snapshot'",
]
CLASSES = ["history/lrescale", "history/t_equals_first", "history/vanish", "history/appear", "history/shrink", "history/grow", "history/N0",
           "history/switch", "history/variation", "history/reset", "history/poke_only"]

SETTINGS = [("G", [1.0, 0.5, 39.47]), ("softening", [0.0, 1e-3]), ("ri_whfast.safe_mode", [0, 1]),
            ("ri_whfast.corrector", [0, 3, 11]), ("ri_ias15.epsilon", [1e-9, 1e-6]),
            ("gravity", ["basic", "compensated", "none"]), ("testparticle_type", [0, 1]),
            ("ri_mercurius.r_crit_hill", [3.0, 4.0]), ("ri_saba.safe_mode", [0, 1]),
            ("ri_eos.n", [2, 4]), ("exit_max_distance", [0.0, 1e6]), ("dt_frac", [0.5, 2.0])]

particle_far = st.fixed_dictionaries({
    "m": st.sampled_from([0.0, 1e-6, 1e-4]), "a": S.floats(3.0, 30.0), "ph": S.floats(0, 6.28), "z": S.floats(-0.1, 0.1)})

op = st.one_of(
    st.tuples(st.just("steps"), st.integers(1, 4)),
    st.tuples(st.just("integrate"), S.floats(0.3, 6.0)),
    st.tuples(st.just("add"), particle_far),
    st.tuples(st.just("remove"), st.integers(0, 20)),
    st.tuples(st.just("remove_all")),
    st.tuples(st.just("integrator"), S.integrator_config()),
    st.tuples(st.just("reset")),
    st.tuples(st.just("set"), st.integers(0, len(SETTINGS) - 1), st.integers(0, 2)),
    st.tuples(st.just("variation")),
    st.tuples(st.just("megno")),
    st.tuples(st.just("lrescale"), st.sampled_from([-1.0, 3.5, 0.0])),
    st.tuples(st.just("rewind")),
    st.tuples(st.just("integrate_back")),
    # edit one member of one particle in place (name it, change its mass or size, ...); poking the same member of
    # the same particle again restores the original value
    st.tuples(st.just("poke"), st.sampled_from(["hash", "hash", "m", "r", "x", "vz", "last_collision"]), st.integers(0, 3)),
    st.tuples(st.just("snap")),
    st.tuples(st.just("snap")),
    st.tuples(st.just("snap")),
)

# Shapes that matter most (a persisted array shrinks / grows / vanishes / reappears between snapshots while the
# integrator keeps running) are also generated as fixed skeletons followed by a random tail, so that they occur in
# every run and not only by luck.
_far = {"m": 1e-6, "a": 7.0, "ph": 1.0, "z": 0.01}
SKELETONS = [
    [("steps", 2), ("snap",), ("remove", 1), ("steps", 2), ("snap",), ("steps", 1), ("snap",)],
    [("steps", 2), ("snap",), ("add", _far), ("steps", 2), ("snap",), ("remove", 0), ("steps", 1), ("snap",)],
    [("steps", 1), ("snap",), ("remove_all",), ("snap",), ("add", _far), ("add", _far), ("steps", 2), ("snap",)],
    [("snap",), ("steps", 3), ("reset",), ("snap",), ("steps", 2), ("snap",)],
    [("steps", 2), ("snap",), ("rewind",), ("snap",), ("steps", 1), ("snap",)],
    # a snapshot that differs from the first one in a single member of a single particle, and one that is equal to it again
    [("snap",), ("poke", "hash", 1), ("snap",), ("poke", "hash", 1), ("snap",), ("steps", 1), ("snap",)],
    [("snap",), ("poke", "r", 0), ("snap",), ("poke", "last_collision", 1), ("snap",), ("poke", "m", 1), ("snap",)],
    [("steps", 2), ("snap",), ("poke", "hash", 0), ("poke", "hash", 2), ("snap",), ("steps", 1), ("snap",)],
    # there and back: a state numerically (almost) equal to the first snapshot's (the sign of a zero may differ)
    [("snap",), ("steps", 1), ("integrate_back",), ("snap",), ("steps", 2), ("integrate_back",), ("snap",)],
]

history_case = st.fixed_dictionaries({
    "system": S.hierarchical_system(nmin=1, nmax=4),
    "cfg": S.integrator_config(),
    "dt_frac": st.sampled_from([0.01, 0.03, 0.05]),
    "ops": st.one_of(
        st.lists(op, min_size=3, max_size=16),
        st.lists(op, min_size=3, max_size=16),
        st.tuples(st.sampled_from(SKELETONS), st.lists(op, min_size=0, max_size=6)).map(lambda t: [list(x) for x in t[0]] + list(t[1])),
    ),
})


def settle(sim):
    """What a careful user does before editing particles/settings between steps: leave the
    keep-unsynchronised mode and synchronise (docs: with safe_mode=0 particles must not be
    modified while the simulation is unsynchronised)."""
    sim.ri_whfast.keep_unsynchronized = 0
    sim.ri_saba.keep_unsynchronized = 0
    sim.synchronize()


def apply_cfg(sim, cfg):
    from .. import rb
    settle(sim)
    sim.integrator = cfg["integrator"]
    if cfg["integrator"] == "saba":
        # SABA shares WHFast's internal state and is documented to require Jacobi coordinates (with another
        # setting it reports an error but still runs part 2 on stale arrays)
        sim.ri_whfast.coordinates = "jacobi"
    # WHFast/SABA/MERCURIUS/TRACE select their own gravity routine and leave it selected; the library warns
    # ("probably not correct") when another integrator then runs with it, so a user switching integrators
    # re-selects the gravity routine.
    if sim.gravity in ("jacobi", "mercurius", "trace"):
        sim.gravity = "basic"
    for path, val in cfg.get("set", []):
        rb.setpath(sim, path, val)
    if "peri_mode" in cfg:
        set_peri_mode(sim, cfg["peri_mode"])


def set_peri_mode(sim, name):
    m = {"PARTIAL_BS": 0, "FULL_BS": 1, "FULL_IAS15": 2}
    try:
        sim.ri_trace.peri_mode = name
    except TypeError:
        sim.ri_trace.peri_mode = m[name]


def structural(m0, m1):
    """Classes of structural change between two field maps."""
    out = set()
    for k in set(m0) | set(m1):
        if k in m0 and k not in m1:
            out.add("vanish")
        elif k not in m0 and k in m1:
            out.add("appear")
        elif len(m0[k]) > len(m1[k]):
            out.add("shrink")
        elif len(m0[k]) < len(m1[k]):
            out.add("grow")
    return out


def check_archive(path, model, ctx, where):
    import rebound
    from .. import rb
    from ..oracles import sa_format
    names = rb.field_names()
    try:
        sa = rebound.Simulationarchive(path)
    except Exception as e:
        raise Violation("archive with %d snapshots cannot be opened %s: %r" % (len(model), where, e))
    if sa.nblobs != len(model):
        raise Violation("archive reports %d snapshots, %d were written (%s)" % (sa.nblobs, len(model), where),
                        nblobs=sa.nblobs, written=len(model))
    for k, (t, m) in enumerate(model):
        if rb.dbits(sa.t[k]) != rb.dbits(t):
            raise Violation("snapshot %d: archive time %r != time when written %r" % (k, sa.t[k], t))
        try:
            s = sa[k]
        except Exception as e:
            raise Violation("snapshot %d cannot be loaded: %r" % (k, e))
        mk = rb.smap(s)
        if mk != m:
            raise Violation("snapshot %d of %d differs from the live state when it was written" % (k, len(model)),
                            diff=sa_format.map_diff(m, mk, names)[:8])
        del s
    # the other documented ways of loading snapshot k: Simulation(file, k), Simulation(file, snapshot=k), negative
    # indices (Simulation(archive_object, ...) is an internal path: it needs an archive opened with
    # process_warnings=False and is not documented)
    n = len(model)
    for k in sorted({0, n - 1, (n - 1) // 2}):
        forms = [("Simulation(file, %d)" % k, lambda: rebound.Simulation(path, k)),
                 ("Simulation(file, snapshot=%d)" % k, lambda: rebound.Simulation(path, snapshot=k)),
                 ("archive[%d]" % (k - n), lambda: sa[k - n])]
        for what, load in forms:
            try:
                s = load()
            except Exception as e:
                raise Violation("%s of an archive with %d snapshots cannot be loaded: %r" % (what, n, e))
            if rb.smap(s) != model[k][1]:
                raise Violation("%s of an archive with %d snapshots does not return the state written as snapshot %d "
                                "(loaded t=%r, written at t=%r)" % (what, n, k, s.t, model[k][0]))
            del s
    del sa


def run_history(case, ctx):
    import warnings
    import rebound
    from .. import rb
    warnings.simplefilter("ignore")
    sysd = case["system"]
    sim = rb.new_sim({"G": sysd["G"], "particles": sysd["particles"]})
    apply_cfg(sim, case["cfg"])
    pmin = sysd["P_min"] or 1.0
    sim.dt = case["dt_frac"] * pmin
    path = os.path.join(ctx.scratch, "a.bin")
    if os.path.exists(path):
        os.unlink(path)
    model = []
    has_var = False
    classes = set()
    nadded = 0
    budget = [0]

    def limiter(simp):
        # histories are about persistence, not dynamics: cap runaway adaptive-step collapses
        budget[0] += 1
        if budget[0] > 3000:
            sim.stop()
    sim.heartbeat = limiter
    poked = {}
    since_snap = []
    for o in case["ops"]:
        kind = o[0]
        if kind not in ("snap", "poke"):
            since_snap.append(kind)
            if kind in ("add", "remove", "remove_all"):
                poked.clear()
        try:
            if kind == "steps":
                if sim.N > 0:   # stepping an empty simulation directly is not a documented use (WHFast dereferences particle 0)
                    sim.steps(o[1])
            elif kind == "integrate":
                n = min(o[1], 40)
                budget[0] = 0
                sim.integrate(sim.t + n * abs(sim.dt))
            elif kind == "add" and not has_var:
                settle(sim)
                p = o[1]
                nadded += 1
                a = p["a"] * (1 + sim.N) + 50.0 * nadded    # never on top of an existing particle
                M = sum(q.m for q in sim.particles) or 1.0
                v = math.sqrt(sim.G * M / a)
                mass = p["m"] if sim.N > 0 else 1.0      # the first body is the central one: never massless
                sim.add(m=mass, x=a * math.cos(p["ph"]), y=a * math.sin(p["ph"]), z=p["z"],
                        vx=-v * math.sin(p["ph"]), vy=v * math.cos(p["ph"]))
            elif kind == "remove" and not has_var:
                if sim.N > 0:
                    settle(sim)
                    # the first body is the central one of the Wisdom-Holman / hybrid schemes: it is only removed
                    # as the last particle (a massless body left in slot 0 is not a valid state for them: TRACE
                    # then spends unbounded time in its encounter integrator)
                    sim.remove(0 if sim.N == 1 else 1 + o[1] % (sim.N - 1))
            elif kind == "remove_all" and not has_var:
                settle(sim)
                del sim.particles
                ctx.cls("N0")
            elif kind == "integrator":
                if has_var and o[1]["integrator"] not in ("ias15", "bs"):
                    continue   # variational equations: library exits for integrators/gravity routines without them
                apply_cfg(sim, o[1])
                classes.add("switch")
            elif kind == "reset":
                settle(sim)
                sim.reset_integrator()
                classes.add("reset")
            elif kind == "set":
                settle(sim)
                name, vals = SETTINGS[o[1]]
                val = vals[o[2] % len(vals)]
                if name == "dt_frac":
                    sim.dt = sim.dt * val
                elif name == "gravity" and has_var and val != "basic":
                    pass    # variational equations exist only for basic gravity (library exits otherwise)
                else:
                    rb.setpath(sim, name, val)
            elif kind == "variation" and sim.N > 0 and not has_var:
                if sim.integrator in ("ias15", "bs") and sim.gravity == "basic":
                    settle(sim)
                    sim.add_variation()
                    has_var = True
                    classes.add("variation")
            elif kind == "megno" and sim.N > 0 and not has_var:
                if sim.integrator in ("ias15", "bs") and sim.gravity == "basic":
                    settle(sim)
                    sim.init_megno(seed=3)
                    has_var = True
                    classes.add("variation")
            elif kind == "lrescale" and has_var and sim.N_var_config > 0:
                # documented knob of a variational configuration (-1 switches automatic rescaling off)
                sim.var_config[0].lrescale = o[1]
                classes.add("lrescale")
            elif kind == "rewind" and model:
                settle(sim)
                sim.t = model[0][0]          # e.g. reset the clock after a burn-in: same time as the first snapshot
                classes.add("t_equals_first")
            elif kind == "integrate_back" and model and sim.N > 0:
                budget[0] = 0
                sim.integrate(model[0][0])   # there and back: exactly the time of the first snapshot
                classes.add("t_equals_first")
            elif kind == "poke" and sim.N > 0 and not has_var:
                settle(sim)
                i = o[2] % sim.N
                key = (o[1], i, sim.N)
                pt = sim.particles[i]
                if key in poked:
                    val = poked.pop(key)
                elif o[1] == "hash":
                    poked[key] = pt.hash.value
                    val = 1000 + 7 * len(model) + i
                else:
                    cur = getattr(pt, o[1])
                    poked[key] = cur
                    val = {"m": cur * 2 + 1e-9, "r": cur + 0.01 * (i + 1), "x": cur + 1e-3, "vz": cur + 1e-4,
                           "last_collision": cur + 1.5}[o[1]]
                if o[1] == "hash":
                    import ctypes
                    pt.hash = ctypes.c_uint32(val)
                else:
                    setattr(pt, o[1], val)
                since_snap.append("poke")
                continue
            elif kind == "snap":
                if model and since_snap and set(since_snap) == {"poke"}:
                    classes.add("poke_only")
                since_snap = []
                m = rb.smap(sim)
                t = sim.t
                sim.save_to_file(path)
                if model:
                    classes |= structural(model[-1][1], m)
                    classes |= structural(model[0][1], m)
                model.append((t, m))
                check_archive(path, model, ctx, "after snapshot %d" % (len(model) - 1))
        except Violation:
            raise
        except (RuntimeError, ValueError, AttributeError, rebound.Escape, rebound.Encounter,
                rebound.NoParticles, rebound.Collision) as e:
            ctx.cls("op_error:" + kind)
    for c in classes:
        ctx.cls(c)
    if len(model) >= 2 and classes & {"vanish", "appear", "shrink", "grow", "switch", "poke_only"}:
        ctx.nontrivial()
    if os.path.exists(path):
        os.unlink(path)


# ---------------------------------------------------------------------------------------
# automatic cadence

cadence_case = st.fixed_dictionaries({
    "system": S.hierarchical_system(nmin=2, nmax=3),
    "cfg": S.integrator_config(["whfast", "saba", "leapfrog", "ias15", "mercurius", "janus", "eos"]),
    "dt_frac": st.sampled_from([0.02, 0.05]),
    "mode": st.sampled_from(["interval", "step"]),
    "interval_steps": st.one_of(S.floats(1.0, 7.0), st.sampled_from([1.0, 2.0, 3.5])),
    "step": st.integers(1, 7),
    "eft": st.sampled_from([0, 1]),
    "calls": st.lists(S.floats(2.0, 25.0), min_size=1, max_size=4),
    "manual_between": st.booleans(),
    "backward": st.booleans(),
})

F_DT, F_STATUS, F_NEXT, F_NEXT_STEP, F_DTLAST = 3, 11, 48, 136, 145


def run_cadence(case, ctx):
    import warnings
    import rebound
    from .. import rb
    from ..oracles import sa_format
    warnings.simplefilter("ignore")
    sysd = case["system"]
    sim = rb.new_sim({"G": sysd["G"], "particles": sysd["particles"]})
    apply_cfg(sim, case["cfg"])
    sgn = -1.0 if case["backward"] else 1.0
    sim.dt = sgn * case["dt_frac"] * sysd["P_min"]
    path = os.path.join(ctx.scratch, "c.bin")
    if os.path.exists(path):
        os.unlink(path)
    mode = case["mode"]
    if mode == "interval":
        interval = case["interval_steps"] * abs(sim.dt)
        sim.save_to_file(path, interval=interval)
        nxt = sim.t
    else:
        stepI = case["step"]
        sim.save_to_file(path, step=stepI)
        nxt = sim.steps_done
    model = []          # (t, map) expected snapshots
    log = []            # heartbeat records of the current integrate call

    def fire(t, steps_done):
        nonlocal nxt
        if mode == "interval":
            if sgn * nxt <= sgn * t:
                nxt = nxt + sgn * interval
                return True
        else:
            if nxt <= steps_done:
                nxt = nxt + stepI
                return True
        return False

    def patch(m, nx=None):
        m = dict(m)
        nx = nxt if nx is None else nx
        if mode == "interval":
            m[F_NEXT] = struct.pack("<d", nx)
        else:
            m[F_NEXT_STEP] = struct.pack("<Q", nx)
        return m

    def process(rec):
        if fire(rec["t"], rec["steps"]):
            model.append((rec["t"], patch(rec["map"]), rec["inloop"], rec.get("raw"), nxt))

    def hb(simp):
        if log:
            process(log[-1])
        raw = rb.stream(sim)
        log.append({"t": sim.t, "steps": sim.steps_done, "map": sa_format.stream_map(raw), "raw": raw, "inloop": True})

    sim.heartbeat = hb
    for d in case["calls"]:
        log.clear()
        tmax = sim.t + sgn * d * abs(sim.dt)
        try:
            sim.integrate(tmax, exact_finish_time=case["eft"])
        except (rebound.Escape, rebound.Encounter) as e:
            pass
        # the last boundary is evaluated after the loop, on the synchronized state
        rec = {"t": sim.t, "steps": sim.steps_done, "map": rb.smap(sim), "inloop": False}
        if log:
            log.pop()
        process(rec)
        if case["manual_between"]:
            m = rb.smap(sim)
            sim.save_to_file(path)
            model.append((sim.t, m, False, None, nxt))
    # compare
    names = rb.field_names()
    try:
        sa = rebound.Simulationarchive(path)
    except Exception as e:
        if not model:
            return
        raise Violation("archive with %d expected snapshots cannot be opened: %r" % (len(model), e))
    if sa.nblobs != len(model):
        raise Violation("cadence: archive has %d snapshots, documented rule gives %d" % (sa.nblobs, len(model)),
                        archive_t=[sa.t[i] for i in range(sa.nblobs)], model_t=[mm[0] for mm in model])
    for k, (t, m, inloop, raw, nx) in enumerate(model):
        if rb.dbits(sa.t[k]) != rb.dbits(t):
            raise Violation("cadence: snapshot %d at t=%r, rule gives t=%r" % (k, sa.t[k], t),
                            archive_t=[sa.t[i] for i in range(sa.nblobs)], model_t=[mm[0] for mm in model])
        mk = rb.smap(sa[k])
        a, b = dict(m), dict(mk)
        if inloop:
            # between the heartbeat and the snapshot the exit check may set status / shorten dt (exact finish)
            for f in (F_STATUS, F_DT):
                a.pop(f, None)
                b.pop(f, None)
        if a != b and inloop and case["eft"] == 1 and raw is not None:
            # exact finishing synchronises before the shortened last step, i.e. between the heartbeat
            # and the snapshot: the expected state is the synchronised image of the recorded one
            s2 = rebound.Simulation(raw)
            s2.synchronize()
            a = patch(rb.smap(s2), nx)
            for f in (F_STATUS, F_DT):
                a.pop(f, None)
            ctx.cls("eft1_presync")
        if a != b:
            raise Violation("cadence: snapshot %d differs from live state at that step boundary" % k,
                            diff=sa_format.map_diff(a, b, names)[:8])
    ctx.cls(mode)
    ctx.cls("eft%d" % case["eft"])
    if case["backward"]:
        ctx.cls("backward")
    if len(model) >= 3:
        ctx.nontrivial()
    del sa
    if os.path.exists(path):
        os.unlink(path)


long_case = st.fixed_dictionaries({
    "system": S.hierarchical_system(nmin=2, nmax=2),
    "cfg": S.integrator_config(["whfast", "leapfrog", "saba"]),
    "nsnap": st.sampled_from([1030, 1100, 2060]),     # the index grows in blocks of 1024 entries
    "manual_extra": st.integers(0, 3),
})


def run_long(case, ctx):
    """Archives with more snapshots than one index block (1024): count, every time, sampled contents."""
    import warnings
    import rebound
    from .. import rb
    from ..oracles import sa_format
    warnings.simplefilter("ignore")
    sysd = case["system"]
    sim = rb.new_sim({"G": sysd["G"], "particles": sysd["particles"]})
    apply_cfg(sim, case["cfg"])
    for fam in ("ri_whfast", "ri_saba"):
        getattr(sim, fam).safe_mode = 1
        getattr(sim, fam).keep_unsynchronized = 0
    sim.dt = 0.05 * sysd["P_min"]
    path = os.path.join(ctx.scratch, "long.bin")
    if os.path.exists(path):
        os.unlink(path)
    n = case["nsnap"]
    keep = {0, 1, 1022, 1023, 1024, 1025, 2047, 2048, 2049, n - 2, n - 1}
    times = []
    maps = {}
    for k in range(n):
        if k in keep:
            maps[k] = rb.smap(sim)
        times.append(sim.t)
        sim.save_to_file(path)
        sim.steps(1)
    for j in range(case["manual_extra"]):
        k = n + j
        maps[k] = rb.smap(sim)
        times.append(sim.t)
        sim.save_to_file(path)
        sim.steps(2)
    sa = rebound.Simulationarchive(path)
    if sa.nblobs != len(times):
        raise Violation("archive reports %d snapshots, %d were written" % (sa.nblobs, len(times)),
                        nblobs=sa.nblobs, written=len(times))
    for k, t in enumerate(times):
        if rb.dbits(sa.t[k]) != rb.dbits(t):
            raise Violation("snapshot %d: archive time %r != time when written %r" % (k, sa.t[k], t))
    names = rb.field_names()
    for k, m in sorted(maps.items()):
        mk = rb.smap(sa[k])
        if mk != m:
            raise Violation("snapshot %d of %d differs from the live state when it was written" % (k, len(times)),
                            diff=sa_format.map_diff(m, mk, names)[:6])
    last = rebound.Simulation(path)
    if rb.dbits(last.t) != rb.dbits(times[-1]):
        raise Violation("Simulation(filename) returns t=%r, the last snapshot was written at t=%r" % (last.t, times[-1]))
    ctx.cls("nsnap>1024")
    if n > 2048:
        ctx.cls("nsnap>2048")
    ctx.nontrivial()
    del sa
    os.unlink(path)


def subs(tier):
    return [
        Sub("history", run_history, strategy=history_case, quick=3200, thorough=300000, shards_quick=8, shards_thorough=16),
        Sub("long_archive", run_long, strategy=long_case, quick=4, thorough=48, shards_quick=4, shards_thorough=16),
        Sub("cadence", run_cadence, strategy=cadence_case, quick=1200, thorough=120000, shards_quick=8, shards_thorough=16),
    ]
