"""C11 - orbital elements <-> Cartesian coordinates, both directions, both front ends."""
import ctypes
import os
import math

from hypothesis import strategies as st

from ..core import Sub, Violation
from .. import strategies as S

PROPERTY = "C11"
LEVEL = "exploration"
EPS = 2.0 ** -52
SQ = math.sqrt(EPS)
K = 64.0                      # slack on eps*cond everywhere in this module
PI = math.pi

KEY_M0 = "C11-hyperbolic-M0-nan"            # reb_M_to_E(e>1, M=0) = 0/0
KEY_HYPM = "C11-hyperbolic-M-wrapped"       # hyperbolic o.M / o.l (and Orbit.E) wrapped mod 2pi
KEY_PRIMPAL = "C11-c-primary-pal"           # C front end rejects primary + Pal elements
KEY_PALNEWTON = "C11-pal-kepler-newton"      # reb_tools_solve_kepler_pal, 0.1<=e<0.3: transposed Jacobian (see C16-pal-kepler-newton.patch)
KEY_PARAB = "C11-near-parabolic-cancellation"   # |1-e|<~1e-8 far from pericentre: 1+e cos f cancels, inf/NaN or O(1) wrong particle
KEY_ACOSH = "C11-hyperbolic-pericentre-nan"   # orbit() of a hyperbolic orbit at pericentre: acosh(1-ulp) = NaN -> M, l, T NaN
KEY_NONFINITE = "C11-nonfinite-accepted"    # Pal elements with h^2+k^2>=1 or a<=0, classical a==0: accepted, NaN/inf particle

RULE = ("Five sub-checks. pal_kepler: reb_tools_solve_kepler_pal(h,k,lambda) over e uniform in [0,0.99] (stratum "
        "[0.25,0.99]), pomega uniform, lambda-pomega uniform or within 1e-12..1 of 0, 2pi, pi, vs the mpmath solution "
        "(p,q)=(e sin E, e cos E) of Kepler's equation; the same polar stratum feeds the Pal cases of forward, and "
        "readback round-trips through Pal elements.  kepler: (e, M|E) over e in [0,1) u (1,1e3] with mass on 1-+1e-12..1e-1 and M,E at 0, "
        "+-tiny, multiples of pi/2pi, up to 1e6: reb_M_to_E/E_to_f/M_to_f vs a bracketed 40-digit solve of Kepler's "
        "equation.  forward: a particle built by rebound.Particle(simulation, primary, ...) and by the variadic C "
        "reb_simulation_add_fmt from the same keyword set (a|P, e, inc, Omega, omega|pomega, one of "
        "f/M/E/l/theta/T, or Pal h,k,ix,iy,l) vs the textbook perifocal+rotation-matrix map in mpmath; inputs the "
        "documentation declares invalid must raise in both, accepted finite inputs must give finite particles.  "
        "readback: orbit() of a Cartesian state vs the vector definitions (atan2) of every reported element in "
        "mpmath, ranges, and the round trip state -> Orbit -> Particle through nine parameterisations compared in "
        "Cartesian space.  grammar: random keyword subsets, accept/reject model from the documented rules, Python "
        "vs C verdicts and bits.  Tolerances are K*eps*cond (K=64), cond = change of the oracle output under 2eps "
        "relative perturbations of every input; angles obtained through acos are additionally allowed "
        "delta/max(|sin|, sqrt(delta)).  Non-trivial = case in at least one special regime (near-planar, "
        "near-circular, retrograde, hyperbolic, near-parabolic, an angle at a multiple of pi/2, M=0, pericentre) "
        "or a rejected/ambiguous argument set; distinct by case hash.")
ASSUMPTIONS = [
    "mpmath arithmetic and elementary functions at 40 digits are correct",
    "conventions taken from the documentation and code comments: retrograde (cos inc <= 0) pomega=Omega-omega, "
    "theta=Omega-omega-f, l=Omega-omega-M; P,n<0 for hyperbolic orbits; M=n(t-T); Pal variables as in Pal (2009)",
    "documented ranges are those in the source comments: f,M,l,theta,omega in [0,2pi) (M and l only for bound "
    "orbits, where they are angles), inc in [0,pi], e>=0, reb_M_to_E in [0,2pi) for e<1",
    "an algorithm that derives an angle from its cosine is allowed the error delta/max(|sin|,sqrt(delta)) for a "
    "cosine known to delta=K*eps*cond (the documentation does not promise better than acos accuracy)",
    "finite inputs only (NaN means 'not given' in the C front end), G>0, masses>=0",
    "the variadic C entry point is driven through ctypes (doubles, uint32, by-value reb_particle; SysV x86-64 ABI)",
]
CLASSES = ["pal_kepler/pal_e<0.3", "pal_kepler/pal_0.3<=e<0.8", "pal_kepler/pal_e>=0.8", "pal_kepler/pal_near_pericentre",
           "forward/pal_polar", "kepler/elliptic", "kepler/hyperbolic", "kepler/near_parabolic", "kepler/M0", "kepler/big",
           "forward/hyperbolic", "forward/retrograde", "forward/near_planar", "forward/near_circular",
           "forward/pal", "forward/P", "forward/pomega", "forward/parabolic_cancellation", "forward/reject", "forward/anom:f",
           "forward/anom:M", "forward/anom:E", "forward/anom:l", "forward/anom:theta", "forward/anom:T",
           "readback/hyperbolic", "readback/retrograde", "readback/planar_branch", "readback/min_ecc_branch",
           "readback/near_parabolic", "readback/pericentre", "readback/pal_roundtrip", "grammar/accept", "grammar/reject",
           "grammar/primary_pal", "grammar/pal_without_orbit"]

# ---------------------------------------------------------------------------------------------------------
# generators


def pm(s):
    return st.tuples(s, st.sampled_from([1.0, -1.0])).map(lambda t: t[0] * t[1])


ecc_ell = st.one_of(S.floats(0.0, 0.99),
                    st.sampled_from([0.0, 0.0, 1e-12, 1e-9, 0.9e-8, 1.1e-8, 1e-6, 1e-3, 0.5, 0.8, 0.9]),
                    S.logfloats(1e-12, 1e-1).map(lambda x: 1.0 - x),
                    S.logfloats(1e-12, 1e-1))
ecc_hyp = st.one_of(S.logfloats(1e-12, 1e-1).map(lambda x: 1.0 + x), S.floats(1.01, 5.0),
                    S.logfloats(1.001, 1e3), st.sampled_from([1.5, 2.0, 10.0]))
inc_s = st.one_of(S.floats(0.0, PI),
                  st.sampled_from([0.0, 0.0, PI, PI / 2, 0.9e-8, 1.1e-8, PI - 0.9e-8, PI - 1.1e-8, 1e-12, 1e-3, 3.0]),
                  S.logfloats(1e-10, 1e-1), S.logfloats(1e-10, 1e-1).map(lambda x: PI - x),
                  S.logfloats(1e-9, 1e-1).flatmap(lambda x: st.sampled_from([PI / 2 + x, PI / 2 - x])))
angle = st.one_of(S.floats(0.0, 2 * PI), st.sampled_from([0.0, PI / 2, PI, 3 * PI / 2, 2 * PI, 4 * PI, -PI / 2, -2 * PI]),
                  S.floats(-20.0, 20.0), pm(S.logfloats(1e-12, 1e-2)),
                  pm(S.logfloats(1e-12, 1e-2)).map(lambda x: PI + x))
mean_anom = st.one_of(angle, st.sampled_from([0.0, 0.0, 1e-300, -1e-300, 1e-17, -1e-17, 1e6, -1e6, 15.85, -0.75]),
                      pm(S.logfloats(1e-9, 1e6)))
# phase within the allowed range: u in (-1,1) -> f = u*pi (elliptic) or u*f_max (hyperbolic)
phase = st.one_of(S.floats(-0.999, 0.999), st.sampled_from([0.0, 0.0, 0.5, -0.5]),
                  pm(S.logfloats(1e-10, 0.1)), pm(S.logfloats(1e-6, 0.1).map(lambda x: 1 - x)))
G_s = st.sampled_from([1.0, 1.0, 4 * PI ** 2, 6.674e-11, 2.959122082855911e-04, 0.9])
sma = st.one_of(S.logfloats(1e-5, 1e5), st.just(1.0))
prim_s = st.fixed_dictionaries({
    "m": st.one_of(S.logfloats(1e-3, 1e3), st.just(1.0)),
    "pos": st.one_of(st.just([0.0, 0.0, 0.0]), st.lists(S.floats(-3.0, 3.0), min_size=3, max_size=3)),
    "vel": st.one_of(st.just([0.0, 0.0, 0.0]), st.lists(S.floats(-3.0, 3.0), min_size=3, max_size=3)),
})
mass_ratio = st.one_of(st.just(0.0), S.logfloats(1e-10, 1.0))
time_s = st.one_of(st.just(0.0), S.floats(-100.0, 100.0))


def fmax_of(e):
    return math.acos(-1.0 / e)


@st.composite
def classical_case(draw, readback=False):
    """Common description of an orbit around a primary; the keyword set is derived in fn."""
    hyp = draw(st.sampled_from([False, False, True]))
    e = draw(ecc_hyp if hyp else ecc_ell)
    a = draw(sma)
    c = {"G": draw(G_s), "t": draw(time_s), "prim": draw(prim_s), "mr": draw(mass_ratio),
         "a": -a if hyp else a, "e": e, "inc": draw(inc_s), "Omega": draw(angle), "omega": draw(angle),
         "u": draw(phase)}
    if not readback:
        c["peri"] = draw(st.sampled_from(["omega", "omega", "pomega", "none"]))
        c["anom"] = draw(st.sampled_from(["f", "M", "E", "l", "theta", "T", "none", "M", "l"]))
        c["size"] = draw(st.sampled_from(["a", "a", "P"]))
        c["val"] = draw(mean_anom)            # value used for M / E / l / theta (T: scaled by the period)
        c["defaults"] = draw(st.booleans())   # leave out elements that are zero (exercise the defaults)
        c["bad"] = draw(st.sampled_from([None] * 8 + ["e<0", "e=1", "a_sign", "f_asymptote", "prim_m0", "a=0"]))
    return c


@st.composite
def pal_case(draw):
    hk = draw(st.one_of(st.tuples(S.floats(-0.7, 0.7), S.floats(-0.7, 0.7)),
                        st.tuples(pm(S.logfloats(1e-12, 0.5)), st.sampled_from([0.0, 1e-9, 0.29, 0.31])),
                        st.sampled_from([(0.0, 0.0), (0.3, 0.0), (0.0, 0.3), (0.2, 0.2236), (0.6, 0.7), (0.7, 0.7),
                                         (1.0, 0.0), (0.8, 0.8)])))
    ixy = draw(st.one_of(st.tuples(S.floats(-1.4, 1.4), S.floats(-1.4, 1.4)),
                         st.tuples(pm(S.logfloats(1e-12, 1.0)), st.sampled_from([0.0, 1e-9, 1.0])),
                         st.sampled_from([(0.0, 0.0), (2.0, 0.0), (0.0, -2.0), (1.5, 1.5), (1.9999, 0.0)])))
    return {"G": draw(G_s), "t": draw(time_s), "prim": draw(prim_s), "mr": draw(mass_ratio),
            "a": draw(st.one_of(sma, st.sampled_from([1.0, 1.0, -1.0, 0.0]))), "h": hk[0], "k": hk[1], "ix": ixy[0], "iy": ixy[1],
            "l": draw(mean_anom), "size": draw(st.sampled_from(["a", "a", "P"])), "defaults": draw(st.booleans()),
            "pal": True}


# Pal elements dense in eccentricity and in phase relative to pericentre: e uniform, pomega uniform,
# l - pomega uniform or within 10^-u of 0 / 2 pi / pi (both sides)
pal_phase = st.one_of(S.floats(0.0, 2 * PI), S.floats(0.0, 2 * PI), pm(S.logfloats(1e-12, 1.0)),
                      pm(S.logfloats(1e-12, 1.0)).map(lambda x: 2 * PI + x), pm(S.logfloats(1e-9, 1.0)).map(lambda x: PI + x),
                      st.sampled_from([0.0, 2 * PI, PI]))
pal_ecc = st.one_of(S.floats(0.25, 0.99), S.floats(0.25, 0.99), S.floats(0.0, 0.99), S.floats(0.8, 0.99),
                    st.sampled_from([0.29, 0.3, 0.31, 0.5, 0.84, 0.9, 0.95]))


@st.composite
def pal_polar_case(draw):
    c = draw(pal_case())
    e, pom, dl = draw(pal_ecc), draw(S.floats(0.0, 2 * PI)), draw(pal_phase)
    c.update(h=e * math.sin(pom), k=e * math.cos(pom), l=pom + dl, polar=[e, pom, dl])
    if c["a"] <= 0:
        c["a"] = 1.0
    return c


forward_case = st.one_of(classical_case(), classical_case(), pal_case(), pal_polar_case())

pal_kepler_case = st.fixed_dictionaries({"e": pal_ecc, "pomega": st.one_of(S.floats(0.0, 2 * PI), st.sampled_from([0.0, PI / 2, PI])),
                                         "dl": pal_phase})

kepler_case = st.fixed_dictionaries({
    "fn": st.sampled_from(["M_to_E", "E_to_f", "M_to_f"]),
    "hyp": st.sampled_from([False, True]),
    "e_ell": ecc_ell, "e_hyp": ecc_hyp,
    "x": mean_anom,
})

# ---------------------------------------------------------------------------------------------------------
# helpers around the library


def lib():
    import rebound
    from rebound import clibrebound
    clibrebound.reb_M_to_E.restype = ctypes.c_double
    clibrebound.reb_E_to_f.restype = ctypes.c_double
    clibrebound.reb_M_to_f.restype = ctypes.c_double
    return rebound, clibrebound


def make_sim(c):
    import rebound
    sim = rebound.Simulation()
    sim.G = c["G"]
    sim.t = c["t"]
    pr = c["prim"]
    sim.add(m=pr["m"], x=pr["pos"][0], y=pr["pos"][1], z=pr["pos"][2], vx=pr["vel"][0], vy=pr["vel"][1], vz=pr["vel"][2])
    return sim


def finite_particle(p):
    return all(math.isfinite(v) for v in (p.x, p.y, p.z, p.vx, p.vy, p.vz, p.m))


def py_build(sim, kw, primary=True):
    """('ok', particle) | ('reject', message)"""
    import rebound
    args = dict(kw)
    if primary:
        args["primary"] = sim.particles[0]
    try:
        p = rebound.Particle(simulation=sim, **args)
    except ValueError as e:
        return "reject", str(e)
    except ZeroDivisionError as e:
        if kw.get("a", 1.0) == 0.0 or kw.get("P", 1.0) == 0.0:
            return "reject", "ZeroDivisionError: " + str(e)      # an error, if not a helpful one
        raise Violation("Particle(...) raises ZeroDivisionError", kw={k: v for k, v in kw.items()})
    return "ok", p


C_ORDER = ["m", "r", "hash", "x", "y", "z", "vx", "vy", "vz", "primary", "a", "P", "e", "inc", "Omega", "omega",
           "pomega", "f", "M", "E", "l", "theta", "T", "h", "k", "ix", "iy"]


def c_build(sim, kw, primary=True, order=None):
    """Adds through reb_simulation_add_fmt to *sim*.  ('ok', particle copy) | ('reject', message)"""
    from rebound import clibrebound
    fn = clibrebound.reb_simulation_add_fmt
    fn.restype = None
    fn.argtypes = None
    names = [k for k in (order or C_ORDER) if k in kw or (k == "primary" and primary)]
    vals = []
    for k in names:
        if k == "primary":
            vals.append(sim.particles[0].copy())
        elif k == "hash":
            vals.append(ctypes.c_uint32(kw[k]))
        else:
            vals.append(ctypes.c_double(kw[k]))
    n0 = sim.N
    fn(ctypes.byref(sim), " ".join(names).encode("ascii"), *vals)
    msg = None
    try:
        sim.process_messages()
    except RuntimeError as e:
        msg = str(e)
    if sim.N == n0:
        return "reject", msg or "(no message)"
    if sim.N != n0 + 1:
        raise Violation("reb_simulation_add_fmt changed N from %d to %d" % (n0, sim.N))
    p = sim.particles[n0].copy()
    if msg is not None:
        raise Violation("reb_simulation_add_fmt reported an error and still added a particle: %s" % msg, kw=kw)
    return "ok", p


def bits(p):
    from .. import rb
    return tuple(rb.dbits(getattr(p, f)) for f in ("x", "y", "z", "vx", "vy", "vz", "m", "r")) + (p.hash.value,)


def pvec(p):
    return [p.x, p.y, p.z, p.vx, p.vy, p.vz]


def norm(v):
    return math.sqrt(sum(x * x for x in v))


# ---------------------------------------------------------------------------------------------------------
# sub-check: Kepler's equation and the anomaly conversions

def run_kepler(c, ctx):
    import mpmath as mp
    from ..oracles import c11_elements_mp as O
    rebound, cl = lib()
    e = c["e_hyp"] if c["hyp"] else c["e_ell"]
    x = c["x"]
    fn = c["fn"]
    if c["hyp"] and fn == "E_to_f":
        x = max(-30.0, min(30.0, x))         # hyperbolic anomaly: |H| <= 30 (sinh H ~ 5e12)
    if c["hyp"] and abs(x) > 1e6 * e and fn != "E_to_f":
        x = math.copysign(1e6 * e, x)
    ctx.cls("hyperbolic" if c["hyp"] else "elliptic")
    if abs(e - 1) < 1e-3:
        ctx.cls("near_parabolic")
        ctx.nontrivial()
    if x == 0.0:
        ctx.cls("M0")
        ctx.nontrivial()
    if abs(x) > 100:
        ctx.cls("big")
        ctx.nontrivial()
    if c["hyp"]:
        ctx.nontrivial()
    known_m0 = c["hyp"] and x == 0.0 and fn in ("M_to_E", "M_to_f")
    if known_m0 and ctx.finding_open(KEY_M0):
        ctx.excluded(KEY_M0)
        return
    h = 2 * EPS
    if fn == "M_to_E":
        got = cl.reb_M_to_E(ctypes.c_double(e), ctypes.c_double(x))
        if not math.isfinite(got):
            raise Violation("reb_M_to_E(e=%r, M=%r) = %r" % (e, x, got), e=e, M=x)
        E = O.F(got)
        # residual of the defining equation at the returned value; allowed: a change of E by K eps |E| (its own
        # representation), of M by K eps |M| (the argument), of e by K eps e.
        if e < 1:
            if not (0.0 <= got < 2 * PI):
                raise Violation("reb_M_to_E(e=%r, M=%r) = %r outside [0, 2pi)" % (e, x, got))
            res = O.wrap_pm(E - O.F(e) * mp.sin(E) - O.F(x))
            # M is an angle: it is reduced modulo 2pi in double, i.e. known to eps*2pi absolutely
            allow = (abs(1 - e * math.cos(got)) * (abs(got) + 2 * PI) + abs(x) + 2 * PI + e * abs(math.sin(got)))
        else:
            res = O.F(e) * mp.sinh(E) - E - O.F(x)
            allow = (abs(e * math.cosh(got) - 1) * abs(got) + abs(x) + e * abs(math.sinh(got)))
        tol = K * EPS * allow + 1e-16
        ratio = float(abs(res)) / tol
        ctx.stat_max("kepler_residual_over_tol", ratio)
        if ratio > 1:
            raise Violation("reb_M_to_E(e=%r, M=%r) = %r does not satisfy Kepler's equation: residual %.3e, allowed %.3e"
                            % (e, x, got, float(res), tol), e=e, M=x, E=got)
        return
    if fn == "E_to_f":
        got = cl.reb_E_to_f(ctypes.c_double(e), ctypes.c_double(x))
        ref = O.E_to_f(e, x)
        c1 = abs(O.wrap_pm(O.E_to_f(e * (1 + h), x) - ref)) / h if e * (1 + h) != 1 else mp.inf
        c2 = abs(O.wrap_pm(O.E_to_f(e, x * (1 + h)) - ref)) / h
    else:
        got = cl.reb_M_to_f(ctypes.c_double(e), ctypes.c_double(x))
        ref = O.M_to_f(e, x)
        c1 = abs(O.wrap_pm(O.M_to_f(e * (1 + h), x) - ref)) / h if (e * (1 + h) < 1) == (e < 1) else mp.inf
        c2 = abs(O.wrap_pm(O.M_to_f(e, x * (1 + h)) - ref)) / h
    if not math.isfinite(got):
        raise Violation("reb_%s(e=%r, %r) = %r" % (fn, e, x, got), e=e, x=x)
    if not (0.0 <= got < 2 * PI):
        raise Violation("reb_%s(e=%r, %r) = %r outside [0, 2pi)" % (fn, e, x, got))
    cond = c1 + c2 + 2 * PI
    cabs = 0
    if fn == "M_to_f":
        # the mean anomaly is an O(1) angle: an absolute error of eps/2 in it (the solver's stopping residual 1e-16)
        # is rounding error; it matters only where df/dM is huge (near-parabolic orbits at pericentre)
        d_ = O.F(1e-16) if e > 1 else O.F(2 * PI * EPS)      # elliptic: M is reduced modulo 2pi in double
        cabs = max(abs(O.wrap_pm(O.M_to_f(e, O.F(x) + d_) - ref)), abs(O.wrap_pm(O.M_to_f(e, O.F(x) - d_) - ref)))
    if not mp.isfinite(cond):
        ctx.skip("cond_inf")
        return
    tol = K * EPS * float(cond) + 4 * float(cabs)
    err = float(abs(O.wrap_pm(O.F(got) - ref)))
    ctx.stat_max(fn + "_err_over_tol", err / tol)
    if err > tol:
        raise Violation("reb_%s(e=%r, %r) = %r, reference %s: error %.3e, allowed %.3e"
                        % (fn, e, x, got, mp.nstr(O.wrap_0(ref), 20), err, tol), e=e, x=x)


def run_pal_kepler(c, ctx):
    """reb_tools_solve_kepler_pal(h, k, lambda) -> (p, q) = (e sin E, e cos E), E - e sin E = lambda - pomega."""
    import mpmath as mp
    from ..oracles import c11_elements_mp as O
    rebound, cl = lib()
    e, pom, dl = c["e"], c["pomega"], c["dl"]
    h, k, lam = e * math.sin(pom), e * math.cos(pom), pom + dl
    pp, qq = ctypes.c_double(), ctypes.c_double()
    fn = cl.reb_tools_solve_kepler_pal
    fn.restype = None
    fn(ctypes.c_double(h), ctypes.c_double(k), ctypes.c_double(lam), ctypes.byref(pp), ctypes.byref(qq))
    got = (pp.value, qq.value)

    def ref(h_, k_, l_):
        h_, k_, l_ = O.F(h_), O.F(k_), O.F(l_)
        e_ = mp.sqrt(h_ * h_ + k_ * k_)
        if e_ == 0:
            return (O.F(0), O.F(0))
        E = O.kepler_E(e_, l_ - mp.atan2(h_, k_))
        return (e_ * mp.sin(E), e_ * mp.cos(E))
    r0 = ref(h, k, lam)
    er = float(mp.sqrt(O.F(h) ** 2 + O.F(k) ** 2))
    ctx.cls("pal_e<0.3" if er < 0.3 else ("pal_e>=0.8" if er >= 0.8 else "pal_0.3<=e<0.8"))
    near = abs(math.remainder(dl, 2 * PI)) < 0.7
    if near:
        ctx.cls("pal_near_pericentre")
    if not all(math.isfinite(x) for x in got):
        raise Violation("reb_tools_solve_kepler_pal(h=%r, k=%r, lambda=%r) = %r" % (h, k, lam, got))
    hh = 2 * EPS
    cond = 0.0
    for i_, v in enumerate((h, k, lam)):
        if v == 0:
            continue
        a_ = [h, k, lam]
        a_[i_] = O.F(v) * (1 + hh)
        r1 = ref(*a_)
        cond += float(mp.sqrt((r1[0] - r0[0]) ** 2 + (r1[1] - r0[1]) ** 2)) / hh
    # lambda is an angle: known to eps 2pi absolutely; the solver's stopping residual is 1e-15 absolutely
    cabs = 0.0
    for sg in (1, -1):
        r1 = ref(h, k, O.F(lam) + sg * O.F(2e-15))
        cabs = max(cabs, float(mp.sqrt((r1[0] - r0[0]) ** 2 + (r1[1] - r0[1]) ** 2)))
    tol = K * EPS * (cond + 1.0) + 4 * cabs
    err = float(mp.sqrt((O.F(got[0]) - r0[0]) ** 2 + (O.F(got[1]) - r0[1]) ** 2))
    ctx.stat_max("pal_kepler_err_over_tol", err / tol)
    if err > tol:
        raise Violation("reb_tools_solve_kepler_pal(h=%r, k=%r, lambda=%r) = (p=%r, q=%r), Kepler's equation gives (%s, %s): "
                        "error %.3e, allowed %.3e (e=%.4f, lambda-pomega=%.4g)"
                        % (h, k, lam, got[0], got[1], mp.nstr(r0[0], 17), mp.nstr(r0[1], 17), err, tol, er, dl), e=er, dl=dl)
    ctx.nontrivial(near or er >= 0.3)


# ---------------------------------------------------------------------------------------------------------
# sub-check: elements -> Cartesian through both front ends

def classical_kw(c):
    """Keyword set of a classical case and the documented verdict: returns (kw, reject_reason|None, tags)."""
    e, a, inc, Om, om = c["e"], c["a"], c["inc"], c["Omega"], c["omega"]
    hyp = e > 1
    tags = set()
    bad = c.get("bad")
    if bad == "e<0":
        e = -abs(e) if e != 0 else -0.1
        a = abs(a)
    elif bad == "e=1":
        e = 1.0
    elif bad == "a_sign":
        a = -a
    elif bad == "a=0":
        a = 0.0
    pro = math.cos(inc) > 0
    # pomega / longitudes only away from the prograde/retrograde switch (cos(inc) = 0), where the convention flips
    near_switch = abs(math.cos(inc)) < 1e-6
    kw = {}
    P_ok = (not hyp) and bad not in ("a_sign", "a=0", "e<0", "e=1")
    size = c["size"] if P_ok else "a"
    mu = c["G"] * c["prim"]["m"] * (1 + c["mr"])
    if size == "P":
        kw["P"] = 2 * PI * math.sqrt(abs(a) ** 3 / mu)
        tags.add("P")
    else:
        kw["a"] = a
    dflt = c["defaults"]
    if not (dflt and e == 0):
        kw["e"] = e
    if not (dflt and inc == 0):
        kw["inc"] = inc
    if not (dflt and Om == 0):
        kw["Omega"] = Om
    peri = c["peri"]
    if peri == "pomega" and not near_switch:
        kw["pomega"] = (Om + om) if pro else (Om - om)
        tags.add("pomega")
    elif peri != "none":
        kw["omega"] = om
    if "omega" not in kw and "pomega" not in kw:
        om = 0.0
    anom = c["anom"]
    if anom in ("l", "theta") and near_switch:
        anom = "M" if anom == "l" else "f"
    u = c["u"]
    if anom == "f":
        if bad == "f_asymptote" and e > 1.001:
            kw["f"] = PI - (PI - fmax_of(e)) * abs(u) * 0.9       # inside the forbidden zone [f_max, 2pi - f_max]
        else:
            kw["f"] = u * (fmax_of(e) if e > 1 else PI)
    elif anom == "theta":
        f_ = u * (fmax_of(e) if e > 1 else PI)
        kw["theta"] = (Om + om + f_) if pro else (Om - om - f_)
    elif anom == "T":
        n = math.sqrt(mu / abs(a) ** 3) if a != 0 else 1.0
        val = c["val"]
        if abs(val) > 50:
            val = math.copysign(50.0, val)
        kw["T"] = c["t"] - val / n
    elif anom in ("M", "E", "l"):
        val = c["val"]
        if e > 1 and anom == "E":
            val = max(-25.0, min(25.0, val))
        if e > 1 and abs(val) > 1e6 * e:
            val = math.copysign(1e6 * e, val)
        if anom == "l":
            val = (Om + om + val) if pro else (Om - om - val)
        kw[anom] = val
    tags.add("anom:" + anom)
    if "f" not in kw and bad == "f_asymptote":
        bad = None
    if bad == "f_asymptote" and e <= 1.001:
        bad = None
    reason = None
    if bad == "prim_m0":
        reason = "primary has no mass"
    elif bad in ("e<0", "e=1"):
        reason = bad
    elif bad == "a_sign":
        reason = "sign of a inconsistent with e"
    elif bad == "f_asymptote":
        reason = "f beyond the asymptote"
    elif bad == "a=0":
        reason = "a=0"
    return kw, reason, tags


def pal_kw(c):
    kw = {}
    mu = c["G"] * c["prim"]["m"] * (1 + c["mr"])
    a = c["a"]
    if c["size"] == "P" and a > 0:
        kw["P"] = 2 * PI * math.sqrt(a ** 3 / mu)
    else:
        kw["a"] = a
    for k in ("h", "k", "ix", "iy", "l"):
        if not (c["defaults"] and c[k] == 0):
            kw[k] = c[k]
    if not any(k in kw for k in ("h", "k", "ix", "iy")):
        kw["h"] = c["h"]
    reason = None
    nonfinite = False
    if c["ix"] ** 2 + c["iy"] ** 2 > 4.0:
        reason = "ix^2+iy^2>4"
    elif c["h"] ** 2 + c["k"] ** 2 >= 1.0 or a <= 0:
        reason = "Pal elements describe no bound orbit (h^2+k^2>=1 or a<=0)"
        nonfinite = True
    return kw, reason, nonfinite


def run_forward(c, ctx):
    import mpmath as mp
    from ..oracles import c11_elements_mp as O
    from .. import rb
    rb.quiet()
    rebound, cl = lib()
    pal = bool(c.get("pal"))
    known_nonfinite = False
    if pal:
        kw, reason, known_nonfinite = pal_kw(c)
        tags = {"pal", "pal_polar"} if c.get("polar") else {"pal"}
    else:
        kw, reason, tags = classical_kw(c)
        known_nonfinite = reason == "a=0"
    m = c["mr"] * c["prim"]["m"]
    kw["m"] = m
    cc = dict(c)
    if c.get("bad") == "prim_m0" and not pal:
        cc["prim"] = dict(c["prim"], m=0.0)
        if m == 0.0:
            kw["m"] = m = 1e-3
    simp, simc = make_sim(cc), make_sim(cc)
    for t in tags:
        ctx.cls(t)
    e = c.get("e", 0.0)
    special = False
    if not pal:
        if e > 1:
            ctx.cls("hyperbolic"); special = True
        if math.cos(c["inc"]) <= 0:
            ctx.cls("retrograde"); special = True
        if abs(math.sin(c["inc"])) < 1e-6:
            ctx.cls("near_planar"); special = True
        if e < 1e-6:
            ctx.cls("near_circular"); special = True
        if abs(e - 1) < 1e-3:
            special = True
        for k in ("Omega", "omega", "pomega", "f", "M", "E", "l", "theta"):
            if k in kw and abs(math.remainder(kw[k], PI / 2)) < 1e-12:
                special = True
    else:
        special = True
    # the known 0/0: a hyperbolic orbit exactly at pericentre given through M, l or T
    hyp_m0 = False
    if not pal and reason is None and e > 1:
        if kw.get("M") == 0.0:
            hyp_m0 = True
        elif "T" in kw and kw["T"] == c["t"]:
            hyp_m0 = True
        elif "l" in kw:
            Om_, om_ = kw.get("Omega", 0.0), kw.get("omega", 0.0)
            if "pomega" in kw:
                om_ = (kw["pomega"] - Om_) if math.cos(c["inc"]) > 0 else (Om_ - kw["pomega"])
            Mv = (kw["l"] - Om_ - om_) if math.cos(c["inc"]) > 0 else (Om_ - om_ - kw["l"])
            hyp_m0 = Mv == 0.0
    skip_accept_checks = False
    if hyp_m0 and ctx.finding_open(KEY_M0):
        ctx.excluded(KEY_M0)
        skip_accept_checks = True
    if known_nonfinite and ctx.finding_open(KEY_NONFINITE):
        ctx.excluded(KEY_NONFINITE)
        skip_accept_checks = True
    if pal and 0.01 <= c["h"] ** 2 + c["k"] ** 2 < 0.09 and ctx.finding_open(KEY_PALNEWTON):
        ctx.excluded(KEY_PALNEWTON)
        skip_accept_checks = True
    mkw = dict(kw)
    mkw.pop("m")
    # Pal elements: default primary (the centre of mass, i.e. the only particle up to the rounding of (x m)/m, which is
    # read back from the library); the combination primary + Pal elements is the business of the grammar sub-check
    sp, rp = py_build(simp, kw, primary=not pal)
    sc, rc = c_build(simc, kw, primary=not pal)
    if pal:
        from rebound import Particle
        cl.reb_simulation_com.restype = Particle
        com = cl.reb_simulation_com(ctypes.byref(simp))
        cc["prim"] = {"m": com.m, "pos": [com.x, com.y, com.z], "vel": [com.vx, com.vy, com.vz]}
    if skip_accept_checks:
        return
    if reason is not None:
        ctx.cls("reject")
        ctx.nontrivial()
        for name, s, r_ in (("Python", sp, rp), ("C", sc, rc)):
            if s != "reject":
                raise Violation("%s front end accepts invalid input (%s) and returns %s" % (name, reason, pvec(r_)),
                                kw=kw, reason=reason, finite=finite_particle(r_))
        if simc.N != 1:
            raise Violation("rejected reb_simulation_add_fmt changed N", kw=kw)
        return
    for name, s, r_ in (("Python", sp, rp), ("C", sc, rc)):
        if s != "ok":
            raise Violation("%s front end rejects a valid argument set: %s" % (name, r_), kw=kw)
    # reference
    ref, el, cpos, cvel, apos, avel = O.forward_with_cond(c["G"], m, cc["prim"]["m"], c["t"], mkw, pal)
    if not pal:
        e_el, f_el = float(el[1]), float(el[5])
        den = abs(1 + e_el * math.cos(f_el))
        canc = ((1 + e_el) / den if den > 0 else float("inf")) + (1 + e_el * e_el) / abs(1 - e_el * e_el)
        if K * EPS * canc > 1e-3:
            # near-parabolic orbit far from pericentre: 1 + e cos f (and 1 - e e) cancel to < 16 bits in the documented
            # double formulas; the result can be inf/NaN although the orbit is regular
            ctx.cls("parabolic_cancellation")
            if ctx.finding_open(KEY_PARAB):
                ctx.excluded(KEY_PARAB)
                return
    for name, s, r_ in (("Python", sp, rp), ("C", sc, rc)):
        if not finite_particle(r_):
            raise Violation("%s front end accepts the input and returns a non-finite particle %s" % (name, pvec(r_)), kw=kw)
    if not (mp.isfinite(cpos) and mp.isfinite(cvel)):
        ctx.skip("cond_inf")
        return
    pr = cc["prim"]
    rpos = float(mp.sqrt(sum(x * x for x in ref[:3])))
    rvel = float(mp.sqrt(sum(x * x for x in ref[3:])))
    # the documented formulas r = a(1-e^2)/(1+e cos f), v0 = sqrt(mu/(a(1-e^2))) evaluated in double: 1-e*e carries
    # the relative error eps(1+e^2)/|1-e^2| (matters only for near-parabolic orbits)
    e_el = float(el[1])
    par = (1 + e_el * e_el) / abs(1 - e_el * e_el) if not pal else 1.0
    # ... and 1 + e cos f (cos f rounded to eps absolutely), e + cos f in the velocity
    f_el = float(el[5])
    par2 = (1 + e_el) / max(abs(1 + e_el * math.cos(f_el)), 1e-300) if not pal else 1.0
    v0 = math.sqrt(float(c["G"]) * (m + cc["prim"]["m"]) / abs(float(el[0]) * (1 - e_el * e_el))) if not pal else 0.0
    tol_pos = K * EPS * (float(cpos) + rpos * (1 + par + par2) + norm(pr["pos"])) + 4 * float(apos)
    tol_vel = K * EPS * (float(cvel) + rvel * (1 + par) + v0 * (1 + e_el) + norm(pr["vel"])) + 4 * float(avel)
    for name, p in (("Python", rp), ("C", rc)):
        dpos = float(mp.sqrt(sum((O.F(getattr(p, q)) - O.F(pr["pos"][i]) - ref[i]) ** 2 for i, q in enumerate("xyz"))))
        dvel = float(mp.sqrt(sum((O.F(getattr(p, q)) - O.F(pr["vel"][i]) - ref[3 + i]) ** 2
                                 for i, q in enumerate(("vx", "vy", "vz")))))
        ctx.stat_max("forward_pos_err_over_tol", dpos / tol_pos)
        ctx.stat_max("forward_vel_err_over_tol", dvel / tol_vel)
        if dpos > tol_pos or dvel > tol_vel:
            raise Violation("%s front end: particle from elements differs from the reference map: |dr|=%.3e (allowed "
                            "%.3e) |dv|=%.3e (allowed %.3e)" % (name, dpos, tol_pos, dvel, tol_vel), kw=kw,
                            got=pvec(p), ref=[float(x) for x in ref], elements=[float(x) for x in el])
        if p.m != m:
            raise Violation("%s front end: mass %r != %r" % (name, p.m, m))
    # front ends agree bit for bit unless a period or pericentre time had to be converted
    if "P" in kw or "T" in kw:
        d = norm([a_ - b_ for a_, b_ in zip(pvec(rp)[:3], pvec(rc)[:3])])
        dv = norm([a_ - b_ for a_, b_ in zip(pvec(rp)[3:], pvec(rc)[3:])])
        if d > 2 * tol_pos or dv > 2 * tol_vel:       # each front end is within the tolerance of the reference
            raise Violation("front ends differ beyond rounding for P/T input: |dr|=%.3e |dv|=%.3e" % (d, dv), kw=kw)
    elif bits(rp) != bits(rc):
        raise Violation("Python and C front ends build different particles from the same arguments",
                        kw=kw, python=pvec(rp), c=pvec(rc))
    ctx.nontrivial(special)


# ---------------------------------------------------------------------------------------------------------
# sub-check: Cartesian -> elements, ranges, and the round trip through every parameterisation

def amp(theta, delta):
    """Allowed error of an angle obtained from its cosine when the cosine is known to +-delta."""
    return delta / max(abs(math.sin(theta)), math.sqrt(delta))


def r0_d(ref):
    return float(ref["d"] / ref["a"])


def run_readback(c, ctx):
    import mpmath as mp
    from ..oracles import c11_elements_mp as O
    from .. import rb
    rb.quiet()
    rebound, cl = lib()
    e, a, inc = c["e"], c["a"], c["inc"]
    m = c["mr"] * c["prim"]["m"]
    mu = c["G"] * (c["prim"]["m"] + m)
    f = c["u"] * (fmax_of(e) if e > 1 else PI)
    rel = S.el2cart(mu, a, e, inc, c["Omega"], c["omega"], f)
    pr = c["prim"]
    sim = make_sim(c)
    sim.add(m=m, x=pr["pos"][0] + rel[0], y=pr["pos"][1] + rel[1], z=pr["pos"][2] + rel[2],
            vx=pr["vel"][0] + rel[3], vy=pr["vel"][1] + rel[4], vz=pr["vel"][2] + rel[5])
    p = sim.particles[1]
    prim = sim.particles[0]
    if (p.x, p.y, p.z) == (prim.x, prim.y, prim.z):
        ctx.skip("separation_absorbed")      # |r| below the spacing of doubles at the primary's position
        return
    try:
        o = p.orbit(primary=prim)
    except ValueError as ex:
        raise Violation("orbit() raised for a regular two-body state: %s" % ex)
    # exact relative state of the doubles that are in the simulation
    s = [O.F(p.x) - O.F(prim.x), O.F(p.y) - O.F(prim.y), O.F(p.z) - O.F(prim.z),
         O.F(p.vx) - O.F(prim.vx), O.F(p.vy) - O.F(prim.vy), O.F(p.vz) - O.F(prim.vz)]
    # the subtraction p - primary is done in double by the library: include its rounding as an input perturbation
    ref, aux, cond = O.cart2el_with_cond(c["G"], m, pr["m"], c["t"], s)
    er = float(ref["e"])
    hyp = er > 1
    if abs(er - 1) < 1e-10:
        ctx.skip("parabolic_to_rounding")
        return
    special = False
    if hyp:
        ctx.cls("hyperbolic"); special = True
    if float(ref["inc"]) > PI / 2:
        ctx.cls("retrograde"); special = True
    planar = o.inc < 1e-8 or o.inc > PI - 1e-8
    if planar:
        ctx.cls("planar_branch"); special = True
    if o.e <= 1e-8:
        ctx.cls("min_ecc_branch"); special = True
    if abs(er - 1) < 1e-3:
        ctx.cls("near_parabolic"); special = True
    if abs(c["u"]) < 1e-3:
        ctx.cls("pericentre"); special = True
    if abs(math.sin(inc)) < 1e-3 or er < 1e-3:
        special = True
    got = {k: getattr(o, k) for k in ("d", "v", "h", "P", "n", "a", "e", "inc", "Omega", "omega", "pomega", "f", "M",
                                      "l", "theta", "T", "rhill", "pal_h", "pal_k", "pal_ix", "pal_iy")}
    got.update(hx=o.hvec.x, hy=o.hvec.y, hz=o.hvec.z, ex=o.evec.x, ey=o.evec.y, ez=o.evec.z)
    known_hyp = hyp and ctx.finding_open(KEY_HYPM)
    if known_hyp:
        ctx.excluded(KEY_HYPM)
    else:
        got["E"] = o.E
    if hyp and any(math.isnan(got[k_]) for k_ in ("M", "l", "T")) and (1 - r0_d(ref)) / er < 1 + 1e-12 \
            and ctx.finding_open(KEY_ACOSH):
        ctx.excluded(KEY_ACOSH)
        return
    for k_, v in got.items():
        if not math.isfinite(v):
            if k_ in ("pal_h", "pal_k", "pal_ix", "pal_iy") and (not mp.isfinite(ref[k_]) or 1 + ref["hz"] / ref["h"] < 1e-12):
                continue            # Pal's variables do not exist at inc = pi
            raise Violation("orbit().%s = %r for a regular state" % (k_, v), state=[float(x) for x in s])
    # ---- ranges
    rng = [("f", 0, 2 * PI), ("theta", 0, 2 * PI), ("omega", 0, 2 * PI)]
    if not hyp:
        rng += [("M", 0, 2 * PI), ("l", 0, 2 * PI)]
    for k_, lo, hi in rng:
        if not (lo <= got[k_] < hi):
            raise Violation("orbit().%s = %r outside [0, 2pi)" % (k_, got[k_]))
    if not (0 <= got["inc"] <= PI) or got["e"] < 0 or got["d"] < 0 or got["v"] < 0 or got["h"] < 0:
        raise Violation("orbit(): inc/e/d/v/h outside their ranges", inc=got["inc"], e=got["e"])
    if (got["a"] < 0) != hyp or (got["P"] < 0) != hyp or (got["n"] < 0) != hyp:
        raise Violation("orbit(): signs of a/P/n inconsistent with e=%r" % got["e"], a=got["a"], P=got["P"], n=got["n"])
    # ---- tolerances
    fl = lambda x: float(x) if mp.isfinite(x) else float("inf")
    cd = {k_: fl(v) for k_, v in cond.items()}
    r = {k_: fl(v) for k_, v in ref.items()}
    ax = {k_: fl(v) for k_, v in aux.items()}
    d_, v_ = r["d"], r["v"]
    tol = {}
    for k_ in ("d", "v", "a", "n", "P", "rhill"):
        tol[k_] = K * EPS * (cd[k_] + abs(r[k_]))
    for k_ in ("h", "hx", "hy", "hz"):
        tol[k_] = K * EPS * (cd[k_] + d_ * v_)
    se = (v_ * v_ * d_ + d_ * v_ * v_) / ax["mu"] + 1.0
    for k_ in ("e", "ex", "ey", "ez"):
        tol[k_] = K * EPS * (cd[k_] + se)
    hx_ = d_ * v_ / r["h"] if r["h"] > 0 else float("inf")      # >= 1; cancellation factor of r x v
    # angles from cosines
    def dl(k_):
        # the eccentricity vector ((v^2 - mu/d) r - (r.v) v)/mu carries the rounding of its two terms: K eps se; its
        # direction (omega, pomega) that divided by e
        extra = se / max(er, 1e-300) if k_ in ("omega", "pomega_planar") else 0.0
        # the angular momentum r x v: each component is a difference of two products of size <= d v, i.e. known to
        # eps d v absolutely, while |h| can be much smaller (near-radial motion: e -> 1 away from pericentre).  The
        # direction of h (inc) is therefore known to eps d v/h, the node direction (Omega, and omega, u measured from
        # it) to eps d v/(h sin inc).  Single-input perturbations do not always expose this (they can move h along a
        # direction that leaves inc unchanged), so it is added explicitly.
        if k_ == "inc":
            extra += hx_
        elif k_ in ("Omega", "omega", "u"):
            extra += hx_ / max(abs(math.sin(r["inc"])), 1e-300)
        return K * EPS * (cd[k_] + 1.0 + extra)
    t_inc = amp(r["inc"], dl("inc"))
    t_Om = amp(r["Omega"], dl("Omega"))
    t_om = amp(r["omega"], dl("omega"))
    t_u = amp(ax["u"], dl("u"))
    t_thp = amp(ax["theta_planar"], dl("theta_planar")) + min(math.sin(r["inc"]) ** 2, 1e-15)
    t_pop = amp(ax["pomega_planar"], dl("pomega_planar")) + min(math.sin(r["inc"]) ** 2, 1e-15)
    amb_planar = 0.5e-8 < min(r["inc"], PI - r["inc"]) < 2e-8
    base = K * EPS * 2 * PI
    if planar and not amb_planar:
        t = {"Omega": t_Om, "theta": t_thp, "pomega": t_pop, "omega": t_pop + t_Om, "f": t_thp + t_pop}
    elif not planar and not amb_planar:
        t = {"Omega": t_Om, "omega": t_om, "pomega": t_Om + t_om, "f": t_u + t_om, "theta": t_Om + t_u}
    else:
        t = {"Omega": t_Om, "theta": t_thp + t_Om + t_u, "pomega": t_pop + t_Om + t_om, "omega": t_pop + t_Om + t_om,
             "f": t_thp + t_pop + t_u + t_om}
    tol["inc"] = t_inc + base
    for k_ in t:
        tol[k_] = t[k_] + K * EPS * cd[k_] + base
    # eccentric anomaly from its (hyperbolic) cosine, mean anomaly from it
    Ea = r["E"]
    dac = K * EPS * (cd["cosE"] + abs(ax["cosE"]) + (1 + d_ / abs(r["a"])) / max(er, 1e-300))
    if not hyp:
        t_E = dac / max(abs(math.sin(Ea)), math.sqrt(dac)) if dac < 1 else 2 * PI
        dMdE = abs(1 - er * math.cos(Ea))
        t_M = dMdE * t_E + er * (abs(math.sin(Ea)) + t_E) * t_E ** 2 + K * EPS * (cd["M"] + 2 * PI)
    else:
        t_E = dac / max(abs(math.sinh(Ea)), math.sqrt(dac))
        dMdE = abs(er * math.cosh(Ea) - 1)
        t_M = dMdE * t_E + er * (abs(math.sinh(Ea)) + t_E) * math.cosh(min(t_E, 5.0)) * t_E ** 2 + K * EPS * (cd["M"] + abs(r["M"]))
    tol["M"] = t_M
    # Orbit.E is M_to_E(o.e, o.M): the reported M and e (each within its tolerance) pushed through the exact inverse
    dM_ = t_M + 4e-16 + (K * EPS * 2 * PI if not hyp else 0.0)
    eF, MF = ref["e"], ref["M"]
    tE = 0.0
    if math.isfinite(dM_) and math.isfinite(tol["e"]):
        for de_, dm_ in ((0, dM_), (0, -dM_), (tol["e"], 0), (-tol["e"], 0)):
            e2 = eF + de_
            if (e2 < 1) != (eF < 1) or e2 < 0:
                tE = float("inf")
                break
            dE_ = O.kepler_E(e2, MF + dm_) - ref["E"]
            tE = max(tE, abs(float(dE_ if hyp else O.wrap_pm(dE_))))
        tol["E"] = 2 * tE + K * EPS * (cd["E"] + 2 * PI + abs(Ea))
    else:
        tol["E"] = float("inf")
    if o.e > 2e-8:
        tol["l"] = tol["pomega"] + t_M
    elif o.e < 0.5e-8:
        tol["l"] = tol["theta"] + K * EPS * 4 + 4 * er * er
    else:
        tol["l"] = tol["pomega"] + t_M + tol["theta"]
    tol["l"] += K * EPS * cd["l"]
    nabs = abs(r["n"])
    tol["T"] = t_M / nabs + K * EPS * (cd["T"] + abs(c["t"]) + abs(r["T"]))
    # Pal's variables are singular at inc = pi: 1/(h + hz) in their definition cancels like 1/(1 + cos inc)
    opc = 1.0 + r["hz"] / r["h"]
    for k_ in ("pal_h", "pal_k", "pal_ix", "pal_iy"):
        tol[k_] = K * EPS * (cd[k_] + (2.0 + se + hx_) * (1 + 1 / opc)) if (math.isfinite(r[k_]) and opc > 1e-12) else float("inf")
    # ---- element by element
    switch = abs(r["inc"] - PI / 2) < 1e-12
    for k_ in got:
        if k_ in ("M", "l") and known_hyp:
            continue
        if switch and k_ in ("pomega", "l", "theta"):
            continue        # at inc = pi/2 (to rounding) the prograde/retrograde convention of these is not determined
        tl = tol[k_]
        if not math.isfinite(tl):
            continue
        if k_ in O.ANGLES and not (hyp and k_ in ("M", "l", "E")):
            err = abs(float(O.wrap_pm(O.F(got[k_]) - ref[k_])))
        elif hyp and k_ == "l":
            # for an unbound orbit M is not an angle: the documented relation l = Omega +- (omega + M) has to hold
            # between the reported numbers (that is what the constructor inverts)
            sg = 1.0 if got["inc"] < PI / 2 else -1.0
            err = abs(got["l"] - (got["Omega"] + sg * (got["omega"] + got["M"])))
            tl = K * EPS * (abs(got["Omega"]) + abs(got["omega"]) + abs(got["M"]) + abs(got["l"]))
        elif k_ == "T" and not hyp:
            Pr = abs(r["P"])            # any pericentre passage is a time of pericentre passage
            err = abs(math.remainder(float(O.F(got[k_]) - ref[k_]), Pr))
        else:
            err = abs(float(O.F(got[k_]) - ref[k_]))
        ctx.stat_max("readback_err_over_tol", err / tl if tl > 0 else (0.0 if err == 0 else float("inf")))
        if err > tl:
            raise Violation("orbit().%s = %r, definition gives %s: error %.3e, allowed %.3e (e=%.3g inc=%.3g)"
                            % (k_, got[k_], mp.nstr(ref[k_], 20), err, tl, er, r["inc"]),
                            element=k_, state=[float(x) for x in s], G=c["G"], m=m, M=pr["m"])
    # ---- round trip: rebuild the particle from the reported elements through each parameterisation
    pro = got["inc"] < PI / 2
    near_switch = abs(math.cos(got["inc"])) < 1e-6 or switch
    common = {"m": m, "a": got["a"], "e": got["e"], "inc": got["inc"], "Omega": got["Omega"]}
    sets = [("omega,f", dict(common, omega=got["omega"], f=got["f"]), ("omega", "f"))]
    if not known_hyp:
        sets.append(("omega,M", dict(common, omega=got["omega"], M=got["M"]), ("omega", "M")))
        if "E" in got:
            sets.append(("omega,E", dict(common, omega=got["omega"], E=got["E"]), ("omega", "E")))
        sets.append(("omega,T", dict(common, omega=got["omega"], T=got["T"]), ("omega", "T")))
    if not near_switch:
        sets.append(("pomega,f", dict(common, pomega=got["pomega"], f=got["f"]), ("pomega", "Omega", "f")))
        sets.append(("omega,theta", dict(common, omega=got["omega"], theta=got["theta"]), ("theta", "omega", "Omega")))
        if not known_hyp:
            sets.append(("omega,l", dict(common, omega=got["omega"], l=got["l"]), ("l", "omega", "Omega")))
    if not hyp:
        c2 = dict(common)
        c2.pop("a")
        sets.append(("P,omega,f", dict(c2, P=got["P"], omega=got["omega"], f=got["f"]), ("omega", "f")))
    # Pal elements (bound prograde orbits away from the coordinate singularity at inc = pi; lambda = Omega + omega + M = o.l)
    pal_ok = (not hyp) and pro and not near_switch and er < 0.999 and all(math.isfinite(tol[k_]) for k_ in ("pal_h", "pal_k", "pal_ix", "pal_iy"))
    if pal_ok:
        ctx.cls("pal_roundtrip")
        sets.append(("pal", {"m": m, "a": got["a"], "h": got["pal_h"], "k": got["pal_k"], "ix": got["pal_ix"],
                             "iy": got["pal_iy"], "l": got["l"]}, ("pal",)))
    # Allowed deviation: the reference elements moved by the tolerance of each reported element that the
    # parameterisation uses (one at a time, both signs, exact map in mpmath), plus the allowances of the forward map.
    mu_ = ax["mu"]
    elr = [ref["a"], ref["e"], ref["inc"], ref["Omega"], ref["omega"], ref["f"]]
    s0 = O.el2cart(mu_, *elr)

    memo = {}

    def delta(amount, **co):
        """(dpos, dvel) when the elements move by +-amount times the coefficients co (keys a,e,inc,Omega,omega,f and
        M / E: through the exact anomaly conversion)"""
        key = (amount, tuple(sorted(co.items())))
        if key in memo:
            return memo[key]
        if not math.isfinite(amount):
            return float("inf"), float("inf")
        if amount == 0:
            return 0.0, 0.0
        bp = bv = 0.0
        for sg in (1, -1):
            el2 = list(elr)
            for i_, nm in enumerate(("a", "e", "inc", "Omega", "omega", "f")):
                if nm in co:
                    el2[i_] = el2[i_] + sg * co[nm] * amount
            if (el2[1] < 1) != (elr[1] < 1) or el2[1] < 0:
                return float("inf"), float("inf")
            if "M" in co:
                el2[5] = O.M_to_f(el2[1], ref["M"] + sg * co["M"] * amount)
            elif "E" in co:
                el2[5] = O.E_to_f(el2[1], ref["E"] + sg * co["E"] * amount)
            try:
                s2 = O.el2cart(mu_, *el2)
            except ZeroDivisionError:
                return float("inf"), float("inf")
            bp = max(bp, float(mp.sqrt(sum((s2[i] - s0[i]) ** 2 for i in range(3)))))
            bv = max(bv, float(mp.sqrt(sum((s2[i] - s0[i]) ** 2 for i in range(3, 6)))))
        memo[key] = (bp, bv)
        return bp, bv
    sgn = 1.0 if pro else -1.0        # prograde: pomega = Omega + omega, theta = pomega + f, l = pomega + M
    absM = 4e-16

    def budget(name, kw):
        """Perturbations implied by the tolerance of every reported element the parameterisation reads, expressed in
        the constructor's own variables (a, e, inc, Omega, omega, and f or M or E)."""
        if name == "pal":
            # (h, k) -> e and pomega (lambda fixed: omega += d, M -= d); (ix, iy) -> inc and Omega (pomega fixed:
            # Omega += d, omega -= d); lambda -> M
            thk = tol["pal_h"] + tol["pal_k"]
            tixy = tol["pal_ix"] + tol["pal_iy"]
            ch, sh = math.cos(r["inc"] / 2), math.sin(r["inc"] / 2)
            out = [delta(tol["a"], a=1.0), delta(thk, e=1.0),
                   delta(thk / er if er > 0 else float("inf"), omega=1.0, M=-1.0) if er > thk else (float("inf"), float("inf")),
                   delta(tixy / ch, inc=1.0),
                   (delta(tixy / (2 * sh), Omega=1.0, omega=-1.0) if 2 * sh > tixy else delta(2 * PI, Omega=1.0, omega=-1.0)),
                   delta(tol["l"] + absM, M=1.0)]
            return sum(x[0] for x in out), sum(x[1] for x in out)
        anom = [k_ for k_ in ("f", "M", "E", "T", "theta", "l") if k_ in kw][0]
        var = {"f": "f", "theta": "f", "M": "M", "T": "M", "l": "M", "E": "E"}[anom]
        out = [delta(tol["e"], e=1.0), delta(tol["inc"], inc=1.0)]
        out.append(delta(tol["P"] / abs(r["P"]) * abs(r["a"]) * 2 / 3, a=1.0) if "P" in kw else delta(tol["a"], a=1.0))
        # Omega: moves the node; omega / f / M follow where they are derived from a longitude
        co = {"Omega": 1.0}
        if "pomega" in kw:
            co["omega"] = -1.0 if pro else 1.0      # omega = pomega - Omega (prograde), Omega - pomega (retrograde)
        if anom in ("theta", "l"):
            # f (or M) = sgn (long - Omega) - omega
            co[var] = (-1.0 if pro else 1.0) - (co.get("omega", 0.0))
        out.append(delta(tol["Omega"], **co))
        # pericentre
        if "pomega" in kw:
            co = {"omega": sgn}
            if anom in ("theta", "l"):
                co[var] = -sgn
            out.append(delta(tol["pomega"], **co))
        else:
            co = {"omega": 1.0}
            if anom in ("theta", "l"):
                co[var] = -1.0
            out.append(delta(tol["omega"], **co))
        # anomaly / longitude itself
        if anom == "f":
            out.append(delta(tol["f"], f=1.0))
        elif anom == "theta":
            out.append(delta(tol["theta"], f=1.0))
        elif anom == "M":
            out.append(delta(tol["M"] + absM, M=1.0))
        elif anom == "l":
            out.append(delta(tol["l"] + absM, M=1.0))
        elif anom == "T":
            out.append(delta(tol["T"] * nabs + absM, M=1.0))
        elif anom == "E":
            out.append(delta(tol["E"], E=1.0))
        return sum(x[0] for x in out), sum(x[1] for x in out)
    par = (1 + er * er) / abs(1 - er * er)
    par2 = (1 + er) / max(abs(1 + er * math.cos(r["f"])), 1e-300)
    v0 = math.sqrt(mu_ / abs(r["a"] * (1 - er * er)))
    cart = pvec(p)
    fwd_p = K * EPS * (d_ * (1 + par + par2) + norm(cart[:3]) + norm(pr["pos"]))
    fwd_v = K * EPS * (v_ * (1 + par) + v0 * (1 + er) + norm(cart[3:]) + norm(pr["vel"]))
    for name, kw, used in sets:
        s_, q = py_build(sim, kw)
        if s_ != "ok":
            raise Violation("round trip %s: constructor rejects the elements reported by orbit(): %s" % (name, q), kw=kw)
        bp_, bv_ = budget(name, kw)
        tp = fwd_p + 2 * bp_          # factor 2: one-at-a-time perturbations are not a bound for joint ones
        tv = fwd_v + 2 * bv_
        if tp > 1e-3 * d_ or tv > 1e-3 * v_:
            # the elements are so ill-conditioned here that the linearised budget says nothing
            ctx.skip("roundtrip_ill_conditioned")
            continue
        if not (math.isfinite(tp) and math.isfinite(tv)):
            ctx.skip("roundtrip_tol_inf")
            continue
        dpos = norm([getattr(q, k_) - getattr(p, k_) for k_ in ("x", "y", "z")])
        dvel = norm([getattr(q, k_) - getattr(p, k_) for k_ in ("vx", "vy", "vz")])
        if not (math.isfinite(dpos) and math.isfinite(dvel)):
            if K * EPS * (par + par2) > 1e-3:
                ctx.cls("parabolic_cancellation")
                if ctx.finding_open(KEY_PARAB):
                    ctx.excluded(KEY_PARAB)
                    continue
            raise Violation("round trip state -> orbit() -> Particle(%s) gives a non-finite particle" % name, kw=kw, state=cart)
        ctx.stat_max("roundtrip_err_over_tol", max(dpos / tp, dvel / tv))
        if dpos > tp or dvel > tv:
            raise Violation("round trip state -> orbit() -> Particle(%s) does not return the state: |dr|=%.3e "
                            "(allowed %.3e) |dv|=%.3e (allowed %.3e); e=%.3g inc=%.3g" % (name, dpos, tp, dvel, tv, er, r["inc"]),
                            kw=kw, state=cart, rebuilt=pvec(q))
    ctx.nontrivial(special)


# ---------------------------------------------------------------------------------------------------------
# sub-check: argument grammar, Python vs C

ORB_NONPAL = ["e", "inc", "Omega", "omega", "pomega", "f", "M", "E", "theta", "T"]
LONG = ["f", "M", "E", "l", "theta", "T"]
CART = ["x", "y", "z", "vx", "vy", "vz"]
PAL = ["h", "k", "ix", "iy"]
GVALUES = {"m": 1e-3, "r": 0.01, "x": 1.0, "y": 0.5, "z": -0.25, "vx": 0.1, "vy": 0.9, "vz": 0.05, "a": 1.3, "P": 7.0,
           "e": 0.2, "inc": 0.3, "Omega": 0.4, "omega": 0.5, "pomega": 0.6, "f": 0.7, "M": 0.8, "E": 0.9, "l": 1.0,
           "theta": 1.1, "T": 0.25, "h": 0.1, "k": 0.15, "ix": 0.2, "iy": 0.25}

grammar_case = st.fixed_dictionaries({
    "names": st.one_of(
        st.lists(st.sampled_from(list(GVALUES)), min_size=0, max_size=6, unique=True),
        st.tuples(st.sampled_from(["a", "P"]),
                  st.lists(st.sampled_from(["m", "e", "inc", "Omega", "omega", "pomega", "l"] + LONG + PAL),
                           min_size=0, max_size=5, unique=True)).map(lambda t: [t[0]] + [x for x in t[1]]),
        st.tuples(st.sampled_from(["a", "P"]), st.lists(st.sampled_from(PAL + ["l", "m", "r"]), min_size=1, max_size=5,
                                                        unique=True)).map(lambda t: [t[0]] + t[1])),
    "primary": st.sampled_from([False, False, True]),
    "hash": st.one_of(st.none(), st.integers(0, 2 ** 32 - 1)),
    "scale": st.sampled_from([1.0, 1.0, 1.0, 10.0]),      # 10: ix,iy beyond 2, e>1 with a>0 ...
    "shuffle": st.randoms(use_true_random=False).map(lambda r: r.random()),
    "G": G_s, "t": time_s, "prim": prim_s,
})


def grammar_model(names, primary, kw):
    """Documented verdict: 'accept' | 'reject' | None (documentation silent: only agreement is required)."""
    s = set(names)
    orb_np = s & set(ORB_NONPAL)
    pal = s & set(PAL)
    cart = s & set(CART)
    orbi = (s & set(["a", "P", "l"] + ORB_NONPAL)) | ({"primary"} if primary else set())
    if orb_np and pal:
        return "reject", "Pal elements mixed with classical elements"
    if cart and orbi:
        return "reject", "Cartesian coordinates mixed with orbital elements / primary"
    if not orbi:
        if pal:
            return None, "Pal elements without a/P: silently ignored by both front ends"
        return "accept", "Cartesian"
    if ("a" in s) == ("P" in s):
        return "reject", "need exactly one of a, P"
    if pal:
        if kw.get("ix", 0.0) ** 2 + kw.get("iy", 0.0) ** 2 > 4.0:
            return "reject", "ix^2+iy^2>4"
        if kw.get("h", 0.0) ** 2 + kw.get("k", 0.0) ** 2 >= 1.0:
            return "reject", "nonfinite:Pal e>=1"
        return "accept", "Pal"
    if "omega" in s and "pomega" in s:
        return "reject", "omega and pomega"
    if len(s & set(LONG)) > 1:
        return "reject", "more than one of f, M, E, l, theta, T"
    e = kw.get("e", 0.0)
    if e == 1.0 or e < 0 or e > 1:          # a>0 in this generator
        return "reject", "e incompatible with a>0"
    return "accept", "classical"


def run_grammar(c, ctx):
    import random
    from .. import rb
    rb.quiet()
    rebound, cl = lib()
    names = list(c["names"])
    kw = {}
    for k_ in names:
        v = GVALUES[k_]
        if k_ in ("ix", "iy", "e", "h", "k"):
            v = v * c["scale"]
        kw[k_] = v
    if c["hash"] is not None:
        kw["hash"] = c["hash"]
    primary = c["primary"]
    verdict, why = grammar_model(names, primary, kw)
    simp, simc = make_sim(c), make_sim(c)
    order = list(C_ORDER)
    random.Random(c["shuffle"]).shuffle(order)
    pkw = dict(kw)
    if "hash" in pkw:
        pkw["hash"] = ctypes.c_uint32(pkw["hash"])
    sp, rp = py_build(simp, pkw, primary=primary)
    sc, rc = c_build(simc, kw, primary=primary, order=order)
    if sp == "ok":
        simp.add(rp)
    pal = bool(set(names) & set(PAL))
    if primary and pal and not (set(names) & set(ORB_NONPAL)) and not (set(names) & set(CART)):
        ctx.cls("primary_pal")
        if ctx.finding_open(KEY_PRIMPAL):
            ctx.excluded(KEY_PRIMPAL)
            return
    if why.startswith("nonfinite") and ctx.finding_open(KEY_NONFINITE):
        ctx.excluded(KEY_NONFINITE)
        return
    if verdict is None:
        ctx.cls("pal_without_orbit")
    for name, s_, r_ in (("Python", sp, rp), ("C", sc, rc)):
        if verdict == "reject" and s_ != "reject":
            raise Violation("%s front end accepts an argument set the documentation declares invalid (%s)" % (name, why),
                            names=names, primary=primary, kw=kw, particle=pvec(r_))
        if verdict == "accept" and s_ != "ok":
            raise Violation("%s front end rejects a valid argument set (%s): %s" % (name, why, r_),
                            names=names, primary=primary, kw=kw)
        if s_ == "ok" and not finite_particle(r_):
            raise Violation("%s front end accepted the arguments and returned a non-finite particle" % name,
                            names=names, primary=primary, kw=kw, particle=pvec(r_))
    if sp != sc:
        raise Violation("front ends disagree: Python %s, C %s (%s)" % (sp, sc, rp if sp == "reject" else rc),
                        names=names, primary=primary, kw=kw)
    if sp == "reject":
        ctx.cls("reject")
        if simc.N != 1 or simp.N != 1:
            raise Violation("a rejected add changed N", names=names)
        ctx.nontrivial()
        return
    ctx.cls("accept")
    if "P" in kw or "T" in kw:
        # each front end forms a (from P) or M = n (t - T) in its own order of operations: each may be off by the
        # forward map's conditioning (which carries eps |M| for the unreduced mean anomaly, eps |t|, eps |T| ...), so
        # the two may differ by twice the tolerance of the forward sub-check
        import mpmath as mp
        from ..oracles import c11_elements_mp as O
        mkw = {k_: v for k_, v in kw.items() if k_ not in ("m", "r", "hash")}
        m_ = kw.get("m", 0.0)
        ref, el, cpos, cvel, apos, avel = O.forward_with_cond(c["G"], m_, c["prim"]["m"], c["t"], mkw, pal)
        rpos = float(mp.sqrt(sum(x * x for x in ref[:3])))
        rvel = float(mp.sqrt(sum(x * x for x in ref[3:])))
        e_el, f_el = float(el[1]), float(el[5])
        par = (1 + e_el * e_el) / abs(1 - e_el * e_el) + (1 + e_el) / max(abs(1 + e_el * math.cos(f_el)), 1e-300)
        tol_p = 2 * (K * EPS * (float(cpos) + rpos * (1 + par) + norm(c["prim"]["pos"])) + 4 * float(apos))
        tol_v = 2 * (K * EPS * (float(cvel) + rvel * (1 + par) * (1 + e_el) + norm(c["prim"]["vel"])) + 4 * float(avel))
        d = norm([a_ - b_ for a_, b_ in zip(pvec(rp)[:3], pvec(rc)[:3])])
        dv = norm([a_ - b_ for a_, b_ in zip(pvec(rp)[3:], pvec(rc)[3:])])
        ctx.stat_max("PT_frontend_diff_over_tol", max(d / tol_p, dv / tol_v))
        if d > tol_p or dv > tol_v:
            raise Violation("front ends differ beyond rounding for P/T input: |dr|=%.3e (allowed %.3e) |dv|=%.3e (allowed %.3e)"
                            % (d, tol_p, dv, tol_v), kw=kw)
        if (rp.m, rp.r, rp.hash.value) != (rc.m, rc.r, rc.hash.value):
            raise Violation("front ends differ in m/r/hash", kw=kw)
    elif bits(rp) != bits(rc):
        raise Violation("Python and C front ends build different particles from the same arguments",
                        names=names, primary=primary, kw=kw, python=pvec(rp) + [rp.m, rp.r, rp.hash.value],
                        c=pvec(rc) + [rc.m, rc.r, rc.hash.value])
    ctx.nontrivial(len(names) >= 2)


def subs(tier):
    return [
        Sub("kepler", run_kepler, strategy=kepler_case, quick=12000, thorough=400000, shards_quick=4, shards_thorough=16),
        Sub("pal_kepler", run_pal_kepler, strategy=pal_kepler_case, quick=3000, thorough=100000, shards_quick=4, shards_thorough=16),
        Sub("forward", run_forward, strategy=forward_case, quick=6000, thorough=200000, shards_quick=8, shards_thorough=16),
        Sub("readback", run_readback, strategy=classical_case(readback=True), quick=4000, thorough=100000,
            shards_quick=8, shards_thorough=16),
        Sub("grammar", run_grammar, strategy=grammar_case, quick=6000, thorough=200000, shards_quick=4, shards_thorough=16),
    ]
