"""C13 - collisions are detected completely and resolved conservatively."""
import math

from hypothesis import strategies as st

from ..core import Sub, Violation
from .. import strategies as S

PROPERTY = "C13"
LEVEL = "exploration"
RULE = ("Generated clusters and chains of overlapping/near-touching particles (radii log-uniform over 4 decades "
        "including 0, approaching and receding, placed across box edges for periodic/shear boundaries, plus 0-300 "
        "zero-radius dust particles that deepen the tree), integrator NONE so that one step runs exactly one collision "
        "search on a known state.  Oracles: brute-force longdouble evaluation of the documented predicate over all "
        "ghost images (detect); a removing Python resolver whose every invocation must name a still-existing colliding "
        "pair (remove_fixup); per-call and per-step conservation/merge-formula/no-unresolved-pair checks for the built-in "
        "merge resolver over multi-step histories (merge_hist) and the hard-sphere resolver (bounce).  Non-trivial = at "
        "least one particle is in >= 2 clearly colliding pairs in one step, or a clearly colliding pair with radius ratio "
        "> 10 under a tree search, or a pair colliding only through a periodic/shear image; distinct by case hash.")
ASSUMPTIONS = [
    "collision predicate as documented: overlap (|d| <= r1+r2) and approaching (d.dv <= 0); line methods: minimum distance "
    "of the straight relative path over dt_last_done <= r1+r2; only the innermost ring of ghost images is searched",
    "pairs within 32*eps*scale of a predicate boundary are not asserted on either way",
    "two zero-radius particles never collide (their centres/paths would have to coincide exactly)",
    "in tree modes a removed particle is flagged (y = NaN) and leaves the array at the next tree update",
    "radii are set when a particle is added and changed only by the built-in merge resolver",
    "masses are > 0 for the built-in resolvers (two massless bodies make the documented formulas 0/0)",
    "centre of mass / momentum are the plain sums over in-box coordinates (what the statement says; a merger across "
    "a periodic boundary conserves that sum although the merged body appears in the middle of the box)",
]
CLASSES = ["detect_moving/pending_removal", "detect_moving/moving", "detect_moving/mode/tree", "detect_moving/mode/linetree", "detect/mode/direct", "detect/mode/tree", "detect/mode/line", "detect/mode/linetree",
           "detect/boundary/none", "detect/boundary/open", "detect/boundary/periodic", "detect/boundary/shear",
           "detect/nt/multi", "detect/nt/ratio10_tree", "detect/nt/image",
           "remove_fixup/keep_sorted=0", "remove_fixup/keep_sorted=1", "remove_fixup/removed>=2",
           "remove_fixup/mode/tree", "remove_fixup/mode/direct",
           "merge_hist/merged_pair_collides_again", "merge_hist/mergers>=2_in_step", "merge_hist/mode/tree",
           "merge_hist/mode/linetree", "merge_hist/nt/image", "bounce/isolated_pair", "bounce/nt/image",
           "bounce/restitution=0.5"]

MODES = ["direct", "tree", "line", "linetree"]
KEY_LINETREE = "linetree-pruning"       # linetree search prunes without the partner's radius and with signed dt
KEY_MERGED = "tree-merged-radii"        # max_radius0/1 not updated when a merger grows a radius


def linetree_open(ctx, cfg):
    """Known finding: completeness of the linetree search is not asserted while it is open."""
    if cfg["mode"] == "linetree" and ctx.finding_open(KEY_LINETREE):
        ctx.excluded(KEY_LINETREE)
        return True
    return False

LAYOUTS = [(1, 1, 1), (1, 1, 1), (2, 1, 1), (1, 2, 1), (2, 2, 1), (2, 2, 2), (3, 1, 2), (1, 3, 1)]


# ---------------------------------------------------------------------------------------
# generator

def _unit(a, b, c):
    n = math.sqrt(a * a + b * b + c * c)
    if n < 1e-3:
        return (1.0, 0.0, 0.0)
    return (a / n, b / n, c / n)


def place(x, v, cfg, t):
    """Map an unwrapped position/velocity to its image inside the box (harness-side, from the documented image
    rule); returns None if the particle cannot be placed (non-periodic and outside)."""
    L = cfg["L"]
    x = list(x)
    v = list(v)
    if cfg["boundary"] in ("periodic", "shear"):
        n = [int(round(x[k] / L[k])) for k in range(3)]
        x[0] -= n[0] * L[0]
        if cfg["boundary"] == "shear" and n[0] != 0:
            sh = 1.5 * n[0] * cfg["omega"] * L[0]
            v[1] += sh
            x[1] += math.fmod(sh * t, L[1])
            n[1] = int(round(x[1] / L[1]))
        x[1] -= n[1] * L[1]
        x[2] -= n[2] * L[2]
        for k in range(3):
            if abs(x[k]) > 0.5 * L[k]:
                return None
    else:
        for k in range(3):
            if abs(x[k]) > 0.499 * L[k]:
                return None
    return x, v


@st.composite
def cluster(draw, cfg, rmax, dtabs, t, periodic, hash0, mass_lo=1e-6, rmin_dec=4.0):
    L = cfg["L"]
    centre = []
    for ax in range(3):
        kind = draw(st.sampled_from(["in", "edge+", "edge-"] if periodic else ["in"]))
        # (small fixed offsets keep the simple values Hypothesis prefers - 0, +-L/2 - off the root-box faces)
        if kind == "in":
            centre.append(draw(S.floats(-0.4, 0.4)) * L[ax] + 1.2345e-3 * (ax + 1) * cfg["L0"])
        else:
            centre.append((0.5 if kind == "edge+" else -0.5) * L[ax] + (draw(S.floats(-1.0, 1.0)) + 0.0137 * (ax + 1)) * rmax)
    k = draw(st.integers(2, 5))
    chain = draw(st.booleans())
    vscale = draw(S.logfloats(1e-3, 30.0))
    mem = []
    for j in range(k):
        if draw(st.integers(0, 7)) == 0:
            r = 0.0
        else:
            r = rmax * 10.0 ** (-draw(st.one_of(S.floats(0.0, 0.5), S.floats(0.0, rmin_dec))))
        m = draw(S.logfloats(mass_lo, 1.0))
        if j == 0:
            x = centre
            u = vscale * rmax / dtabs
            v = [u * 0.3 * draw(S.floats(-1.0, 1.0)) for _ in range(3)]
        else:
            a = mem[-1] if chain else mem[0]
            sr = a["r"] + r
            base = sr if sr > 0 else 0.1 * rmax
            f = draw(st.one_of(S.floats(0.05, 0.9), S.floats(0.05, 0.9), S.floats(1.1, 2.5)))
            d = _unit(draw(S.floats(-1, 1)), draw(S.floats(-1, 1)), draw(S.floats(-1, 1)))
            x = [a["ux"][i] + f * base * d[i] for i in range(3)]
            u = vscale * base / dtabs
            sign = draw(st.sampled_from([1.0, 1.0, 1.0, -1.0]))
            v = [a["uv"][i] - sign * u * d[i] + 0.5 * u * draw(S.floats(-1.0, 1.0)) for i in range(3)]
        mem.append({"ux": x, "uv": v, "r": r, "m": m})
    out = []
    for j, p in enumerate(mem):
        pl = place(p["ux"], p["uv"], cfg, t)
        if pl is None:
            continue
        x, v = pl
        out.append({"x": x[0], "y": x[1], "z": x[2], "vx": v[0], "vy": v[1], "vz": v[2], "m": p["m"], "r": p["r"],
                    "hash": hash0 + j})
    return out


@st.composite
def twins(draw, cfg, rmax, dtabs, t, periodic, hash0):
    """Two tight groups of 2-4 large particles of similar radius (one heavy, the others light, so that the merged
    body hardly moves) that merge within their group first; the merged bodies (radii grown beyond anything that was
    ever added) then overlap while approaching each other."""
    L = cfg["L"]
    centre = [draw(S.floats(-0.35, 0.35)) * L[ax] + 1.2345e-3 * (ax + 1) * cfg["L0"] for ax in range(3)]
    if periodic and draw(st.booleans()):
        ax = draw(st.integers(0, 2))
        centre[ax] = draw(st.sampled_from([0.5, -0.5])) * L[ax] + (draw(S.floats(-1.0, 1.0)) + 0.0137) * rmax
    d = _unit(draw(S.floats(-1, 1)), draw(S.floats(-1, 1)), draw(S.floats(-1, 1)))
    if draw(st.integers(0, 2)) == 0:
        # "overtake": one largest body next to a group of somewhat smaller ones whose merger outgrows it (the survivor
        # becomes the new largest body while the former largest is still there)
        ks = [1, draw(st.sampled_from([2, 2, 3]))]
        rad = [[rmax], [rmax * draw(S.floats(0.8, 0.93)) for _ in range(ks[1])]]
    else:
        ks = [draw(st.sampled_from([2, 3, 4, 4])), draw(st.sampled_from([2, 3, 4, 4]))]
        rad = [[rmax * draw(S.floats(0.85, 1.0)) for _ in range(k)] for k in ks]
    rg = [sum(r ** 3 for r in rr) ** (1.0 / 3.0) for rr in rad]
    D = draw(st.one_of(S.floats(0.55, 0.98), S.floats(0.85, 0.98), S.floats(0.85, 0.98))) * (rg[0] + rg[1])
    u = draw(S.logfloats(1e-2, 3.0)) * rmax / dtabs
    out = []
    for g in (0, 1):
        sgn = -1.0 if g == 0 else 1.0
        cg = [centre[i] + sgn * 0.5 * D * d[i] for i in range(3)]
        vg = [-sgn * u * d[i] for i in range(3)]
        for j, r in enumerate(rad[g]):
            e = _unit(draw(S.floats(-1, 1)), draw(S.floats(-1, 1)), draw(S.floats(-1, 1)))
            off = draw(S.floats(0.02, 0.2)) * rmax
            x = [cg[i] + off * e[i] for i in range(3)]
            v = [vg[i] - 0.3 * u * e[i] for i in range(3)]
            pl = place(x, v, cfg, t)
            if pl is None:
                continue
            x, v = pl
            out.append({"x": x[0], "y": x[1], "z": x[2], "vx": v[0], "vy": v[1], "vz": v[2],
                        "m": draw(S.floats(0.5, 1.0)) if j == 0 else draw(S.logfloats(1e-9, 1e-3)), "r": r,
                        "hash": hash0 + 4 * g + j})
    return out


@st.composite
def system(draw, modes=MODES, nclusters=(1, 3), rmax_choices=(0.01, 0.04, 0.1, 0.2), extra=0, dust_max=300, p_twins=0):
    mode = draw(st.sampled_from(modes))
    tree = mode in ("tree", "linetree")
    boundary = draw(st.sampled_from(["none", "open", "periodic", "periodic", "shear"]))
    periodic = boundary in ("periodic", "shear")
    L0 = draw(st.sampled_from([1.0, 10.0, 3.7, 128.0]))
    lay = draw(st.sampled_from(LAYOUTS))
    nghost = [draw(st.sampled_from([0, 1, 1, 2])) for _ in range(3)] if periodic else [0, 0, 0]
    omega = draw(st.sampled_from([1.0, 0.37, 2.5]))
    dt = draw(st.sampled_from([1e-3, 0.05, 1.0])) * draw(st.sampled_from([1.0, 1.0, 1.0, -1.0]))
    t0 = draw(S.floats(0.0, 40.0)) if boundary == "shear" else draw(st.sampled_from([0.0, 3.25]))
    rmax = L0 * draw(st.sampled_from(list(rmax_choices)))
    cfg = {"mode": mode, "boundary": boundary, "L0": L0, "layout": list(lay),
           "L": [L0 * lay[0], L0 * lay[1], L0 * lay[2]], "nghost": nghost, "omega": omega, "dt": dt, "t0": t0,
           "rmax": rmax}
    parts = []
    ncl = draw(st.integers(*nclusters))
    has_twins = False

    def fresh(new):
        have = {(q["x"], q["y"], q["z"]) for q in parts}
        return [q for q in new if (q["x"], q["y"], q["z"]) not in have]
    for c in range(ncl):
        if p_twins and draw(st.integers(1, p_twins)) == 1:
            has_twins = True
            parts += fresh(draw(twins(cfg, rmax, abs(dt), t0 + dt, periodic, 1 + 16 * c)))
        else:
            parts += fresh(draw(cluster(cfg, rmax, abs(dt), t0 + dt, periodic, 1 + 16 * c)))
    extras = []
    for e in range(extra):
        ex = draw(cluster(cfg, rmax, abs(dt), t0 + dt, periodic, 1 + 16 * (ncl + e)))
        have = {(q["x"], q["y"], q["z"]) for q in parts} | {(q["x"], q["y"], q["z"]) for g in extras for q in g}
        extras.append([q for q in ex if (q["x"], q["y"], q["z"]) not in have])
    if tree:
        ndust = draw(st.sampled_from([0, 60, 150, dust_max]))
    else:
        ndust = draw(st.sampled_from([0, 0, 10, 40]))
    if has_twins and tree:
        # merged bodies must meet deep inside a finely divided tree: dense dust right next to them, moving away
        dust = {"n": draw(st.sampled_from([60, 150, dust_max, dust_max])), "seed": draw(st.integers(0, 2 ** 31 - 1)),
                "spread": draw(st.sampled_from([0.2, 0.3, 0.3, 0.5, 1.5])), "clear": 0.0,
                "recede": draw(st.sampled_from([True, True, False])),
                "vfac": draw(st.sampled_from([1e-3, 0.05, 0.3, 1.0]))}
    else:
        dust = {"n": ndust, "seed": draw(st.integers(0, 2 ** 31 - 1)),
                "spread": draw(st.sampled_from([0.3, 0.7, 1.5, 3.0, 6.0])),
                "clear": draw(st.sampled_from([0.0, 1.7])), "recede": draw(st.booleans()),
                "vfac": draw(st.sampled_from([1e-3, 0.05, 0.3, 1.0]))}
    return {"cfg": cfg, "particles": parts, "extras": extras, "dust": dust,
            "keep_sorted": 0 if tree else draw(st.sampled_from([0, 1])),
            "rand_seed": draw(st.integers(0, 2 ** 31 - 1))}


def make_dust(case):
    """Deterministic dust from the case's seed: zero radius, tiny distinct masses, around the colliders."""
    import numpy as np
    d = case["dust"]
    cfg = case["cfg"]
    parts = case["particles"]
    if d["n"] == 0 or not parts:
        return []
    rs = np.random.RandomState(d["seed"])
    out = []
    t = cfg["t0"] + cfg["dt"]
    vref = d.get("vfac", 1.0) * cfg["rmax"] / abs(cfg["dt"])
    for k in range(d["n"]):
        c = parts[rs.randint(len(parts))]
        off = rs.normal(size=3) * d["spread"] * cfg["rmax"]
        v = rs.normal(size=3) * 0.3 * vref
        if d.get("recede"):
            # moving away from its collider: deepens the tree next to it without being swallowed by it
            v = v + off / (np.sqrt((off * off).sum()) + 1e-300) * vref * (0.5 + 1.5 * rs.uniform())
        pl = place([c["x"] + off[0], c["y"] + off[1], c["z"] + off[2]], [c["vx"] + v[0], c["vy"] + v[1], c["vz"] + v[2]],
                   cfg, t)
        if pl is None:
            continue
        x, v = pl
        if d.get("clear"):
            # keep the dust out of the colliders (otherwise they are busy swallowing dust every step)
            if any((x[0] - q["x"]) ** 2 + (x[1] - q["y"]) ** 2 + (x[2] - q["z"]) ** 2 < (d["clear"] * q["r"]) ** 2
                   for q in parts):
                continue
        out.append({"x": float(x[0]), "y": float(x[1]), "z": float(x[2]), "vx": float(v[0]), "vy": float(v[1]),
                    "vz": float(v[2]), "m": 1e-9 * (1.0 + 1e-3 * k), "r": 0.0, "hash": 100000 + k})
    return out


def valid_points(plist, cfg, existing=()):
    """Inputs this module does not generate: two particles at (or within 1e-10 root boxes of) the same point (exact
    coincidence is rejected by the tree with a documented error and is a tie of the overlap predicate otherwise;
    pairs a few ulps apart cannot be separated by the tree's rounded cells), and particles within rounding of a
    root-box face (C15 deals with those: the tree can assign them to a cell whose rounded extent does not contain them)."""
    pts = [tuple(e) for e in existing] + [(q["x"], q["y"], q["z"]) for q in plist]
    pts.sort()
    tol = 1e-10 * cfg["L0"]
    for i in range(len(pts)):
        for j in range(i + 1, len(pts)):
            if pts[j][0] - pts[i][0] >= tol:
                break
            if max(abs(a - b) for a, b in zip(pts[i], pts[j])) < tol:
                return False
    for q in plist:
        for i, ax in enumerate("xyz"):
            u = (q[ax] + 0.5 * cfg["L"][i]) / cfg["L0"]
            if abs(u - round(u)) < 1e-9:
                return False
    return True


def fast_add(sim, plist):
    import ctypes
    import rebound
    from rebound import clibrebound
    p = rebound.Particle(m=1.0, x=0.0)
    for q in plist:
        p.x = q["x"]; p.y = q["y"]; p.z = q["z"]; p.vx = q["vx"]; p.vy = q["vy"]; p.vz = q["vz"]
        p.m = q["m"]; p.r = q["r"]; p._hash = q["hash"]; p.last_collision = 0.0
        p.ax = 0.0; p.ay = 0.0; p.az = 0.0
        clibrebound.reb_simulation_add(ctypes.byref(sim), p)
    sim.process_messages()


def build_sim(case, integrator="none"):
    import warnings
    import rebound
    warnings.simplefilter("ignore")
    cfg = case["cfg"]
    sim = rebound.Simulation()
    sim.configure_box(cfg["L0"], *cfg["layout"])
    sim.boundary = cfg["boundary"]
    sim.N_ghost_x, sim.N_ghost_y, sim.N_ghost_z = cfg["nghost"]
    sim.ri_sei.OMEGA = cfg["omega"]
    sim.integrator = integrator
    sim.gravity = "none"
    sim.collision = cfg["mode"]
    sim.dt = cfg["dt"]
    sim.t = cfg["t0"]
    sim.rand_seed = case["rand_seed"]
    sim.collision_resolve_keep_sorted = case["keep_sorted"]
    allp = case["particles"] + make_dust(case)
    if not valid_points(allp, cfg):
        return None
    if integrator != "none":
        # the generated configuration is the END of the step: start every particle one step earlier on its straight path
        start = []
        for q in allp:
            pl = place([q["x"] - cfg["dt"] * q["vx"], q["y"] - cfg["dt"] * q["vy"], q["z"] - cfg["dt"] * q["vz"]],
                       [q["vx"], q["vy"], q["vz"]], cfg, cfg["t0"])
            if pl is None:
                continue
            x, v = pl
            start.append(dict(q, x=float(x[0]), y=float(x[1]), z=float(x[2]), vy=float(v[1])))
        allp = start
        if len(allp) < 2 or not valid_points(allp, cfg):
            return None
    fast_add(sim, allp)
    return sim


class SkipCase(Exception):
    pass


def step(sim):
    """One step; a library error message on a valid configuration is a finding, not a harness error."""
    try:
        sim.step()
    except RuntimeError as e:
        if "same coordinates" in str(e):
            # two particles ended up at exactly the same point (e.g. two identical clusters merged identically):
            # the tree documents that it cannot hold them; not an input this property speaks about
            raise SkipCase("two particles at exactly the same point")
        raise Violation("library reported an error during a step on a valid configuration: %s" % e)


def skipping(fn):
    def run(case, ctx):
        try:
            return fn(case, ctx)
        except SkipCase as e:
            ctx.skip(str(e))
    run.__name__ = fn.__name__
    return run


def nontrivial(ctx, case, s, must, R, t, dtl):
    """Counts the classes of the RULE on the pre-step state."""
    cfg = case["cfg"]
    cnt = {}
    for i, j in must:
        cnt[i] = cnt.get(i, 0) + 1
        cnt[j] = cnt.get(j, 0) + 1
    nt = False
    if any(v >= 2 for v in cnt.values()):
        ctx.cls("nt/multi")
        nt = True
    if cfg["mode"] in ("tree", "linetree"):
        for i, j in must:
            a, b = s["r"][i], s["r"][j]
            if min(a, b) > 0 and max(a, b) / min(a, b) > 10 or (min(a, b) == 0 and max(a, b) > 0):
                ctx.cls("nt/ratio10_tree")
                nt = True
                break
    if cfg["boundary"] in ("periodic", "shear") and max(cfg["nghost"]) > 0 and must:
        must0, _ = R.classify_pairs(s, {"boundary": "none"}, t, cfg["mode"], dtl)
        if must - must0:
            ctx.cls("nt/image")
            nt = True
    if nt:
        ctx.nontrivial()
    ctx.cls("mode/" + cfg["mode"])
    ctx.cls("boundary/" + cfg["boundary"])


def maxrad(sim):
    try:
        return [float(x) for x in sim.max_radius]
    except AttributeError:
        return None


def coll_idx(s):
    """Particles evaluated as first member of a pair by the reference: everything except zero-radius dust."""
    import numpy as np
    return np.nonzero((s["r"] > 0) | (s["hash"] < 100000))[0]


SFIELDS = ("x", "y", "z", "vx", "vy", "vz", "m", "r", "last_collision", "hash")


def others_same(b, a, p1, p2):
    """All rows except p1, p2 bit-identical in every member (also accelerations, cell pointer, hash).
    (Field by field: the copies made by snapshot() do not carry the struct's padding bytes.)"""
    import numpy as np
    if len(a) != len(b):
        return False
    mask = np.ones(len(b), dtype=bool)
    mask[[p1, p2]] = False
    for f in b.dtype.names:
        x, y = b[f][mask], a[f][mask]
        if x.dtype.kind == "f":
            x, y = x.view(np.uint64), y.view(np.uint64)
        if not np.array_equal(x, y):
            return False
    return True


def same_row(a, b, fields=SFIELDS):
    for f in fields:
        x, y = a[f], b[f]
        if not (x == y or (x != x and y != y)):
            return False
    return True


# ---------------------------------------------------------------------------------------
# 1. detection

def run_detect(case, ctx):
    from ..oracles import c13_collref as R
    cfg = case["cfg"]
    if len(case["particles"]) < 2:
        ctx.skip("fewer than 2 colliders placed")
        return
    moving = bool(case.get("moving"))
    sim = build_sim(case, "leapfrog" if moving else "none")
    if sim is None:
        ctx.skip("coincident particles or particle on a root-box face")
        return
    s0 = R.snapshot(sim)
    got = []

    ps = sim.particles
    orig = {int(h): i for i, h in enumerate(s0["hash"])}

    def cb(sp, c):
        N = sim.N
        if not (0 <= c.p1 < N and 0 <= c.p2 < N) or c.p1 == c.p2:
            got.append((None, c.p1, c.p2, N))
            return 0
        got.append((ps[c.p1].hash.value, ps[c.p2].hash.value, (c.gb.x, c.gb.y, c.gb.z, c.gb.vx, c.gb.vy, c.gb.vz)))
        return 0
    sim.collision_resolve = cb
    removed_cb = set()
    pend = case.get("pending_remove")
    if moving and pend is not None and cfg["mode"] in ("tree", "linetree") and len(s0) >= 3:
        # an unsorted removal issued from the post_timestep_modifications callback: with a tree the particle is only
        # flagged and is still pending when the collision search runs
        import ctypes
        from rebound import clibrebound
        hsel = int(s0["hash"][pend % len(s0)])

        def post(sp):
            for i in range(sim.N):
                if ps[i].hash.value == hsel and hsel not in removed_cb:
                    clibrebound.reb_simulation_remove_particle(ctypes.byref(sim), ctypes.c_int(i), ctypes.c_int(0))
                    removed_cb.add(hsel)
                    break
        sim.post_timestep_modifications = post
    step(sim)
    t = sim.t
    dtl = sim.dt_last_done
    if R.has_tie(cfg, t):
        ctx.skip("shear image offset on its normalisation branch point")
        return
    s1 = R.snapshot(sim)
    if removed_cb:
        if (s1["y"] != s1["y"]).any() or hsel in set(int(h) for h in s1["hash"]):
            raise Violation("particle removed from a callback is still in the array after the tree collision search")
        for g in got:
            if g[0] is not None and hsel in (g[0], g[1]):
                raise Violation("collision handed to the resolver for a particle that had been removed (hash %d)" % hsel)
        orig = {h: i for h, i in orig.items() if h != hsel}
        ctx.cls("pending_removal")
    # (a tree update may legitimately reorder the array: compare by hash)
    o1 = {int(h): i for i, h in enumerate(s1["hash"])}
    if moving:
        # leapfrog without forces moved everything; the resolver returned 0, so the array after the step is exactly the
        # state the search looked at (end of step, after the boundary check): evaluate the predicate there
        if len(o1) != len(s1) or not set(o1) <= set(orig):
            raise Violation("particles duplicated or appeared during a step", N0=len(s0), N1=len(s1))
        if cfg["boundary"] != "open" and set(o1) != set(orig):
            raise Violation("particles lost during a step without removals", N0=len(s0), N1=len(s1))
        s0 = s1
        orig = o1
        ctx.cls("moving")
    else:
        if len(s1) != len(s0) or set(o1) != set(orig) or any(not same_row(s0[orig[h]], s1[o1[h]]) for h in orig):
            raise Violation("a step with a resolver that returns 0 changed the particles", N0=len(s0), N1=len(s1))
        if cfg["mode"] in ("direct", "line") and any(s0["hash"][i] != s1["hash"][i] for i in range(len(s0))):
            raise Violation("a step without a tree and without removals reordered the particles")
    must, maybe = R.classify_pairs(s0, cfg, t, cfg["mode"], dtl, colliders=coll_idx(s0))
    G = set()
    n = len(s0)
    rep = []
    for g in got:
        if g[0] is None:
            raise Violation("resolver called with invalid indices p1=%d p2=%d (N=%d)" % g[1:])
        if g[0] not in orig or g[1] not in orig:
            raise Violation("resolver called with indices of unknown particles")
        p1, p2 = orig[g[0]], orig[g[1]]
        rep.append((p1, p2, g[2]))
        G.add((min(p1, p2), max(p1, p2)))
    got = rep
    missing = sorted(must - G)
    if missing and linetree_open(ctx, cfg):
        missing = []
    if missing:
        i, j = missing[0]
        raise Violation("%s search did not hand over %d clearly colliding pair(s), e.g. hashes (%d,%d) radii (%g,%g)"
                        % (cfg["mode"], len(missing), s0["hash"][i], s0["hash"][j], s0["r"][i], s0["r"][j]),
                        missing=[[int(s0["hash"][a]), int(s0["hash"][b])] for a, b in missing[:10]],
                        max_radius=maxrad(sim))
    for p1, p2, gb in got:
        if not R.gb_is_image(gb, cfg, t):
            raise Violation("collision reported with a ghost-box shift that is not an image of the box", gb=list(gb))
        if R.pair_status(s0, p1, p2, gb, cfg["mode"], dtl) == R.NOT:
            raise Violation("%s search handed over a pair that clearly does not collide: hashes (%d,%d)"
                            % (cfg["mode"], s0["hash"][p1], s0["hash"][p2]), gb=list(gb))
    ctx.stat_max("pairs_per_step", len(must))
    nontrivial(ctx, case, s0, must, R, t, dtl)


# ---------------------------------------------------------------------------------------
# 2. index fix-ups under a removing resolver

def run_remove_fixup(case, ctx):
    from ..oracles import c13_collref as R
    cfg = case["cfg"]
    tree = cfg["mode"] in ("tree", "linetree")
    if len(case["particles"]) < 2:
        ctx.skip("fewer than 2 colliders placed")
        return
    sim = build_sim(case)
    if sim is None:
        ctx.skip("coincident particles or particle on a root-box face")
        return
    s0 = R.snapshot(sim)
    n0 = len(s0)
    orig = {int(h): i for i, h in enumerate(s0["hash"])}
    dtl = cfg["dt"]
    t = None
    # time of the search with integrator NONE: t0 + dt (read back after the step; the reference needs it only for shear)
    t_pred = cfg["t0"] + cfg["dt"]
    if R.has_tie(cfg, t_pred):
        ctx.skip("shear image offset on its normalisation branch point")
        return
    must, maybe = R.classify_pairs(s0, cfg, t_pred, cfg["mode"], dtl, colliders=coll_idx(s0))
    decide = case["decide"]
    removed = set()
    handed = set()
    problems = []
    ps = sim.particles

    def cb(sp, c):
        try:
            N = sim.N
            if not (0 <= c.p1 < N and 0 <= c.p2 < N) or c.p1 == c.p2:
                problems.append("resolver called with invalid indices p1=%d p2=%d (N=%d)" % (c.p1, c.p2, N))
                return 0
            h1 = ps[c.p1].hash.value
            h2 = ps[c.p2].hash.value
            if h1 in removed or h2 in removed:
                problems.append("resolver called for a particle that was already removed in this step: hashes (%d,%d)" % (h1, h2))
                return 0
            if h1 not in orig or h2 not in orig:
                problems.append("resolver called with unknown particle hashes (%d,%d)" % (h1, h2))
                return 0
            pr = (min(orig[h1], orig[h2]), max(orig[h1], orig[h2]))
            if pr not in maybe:
                problems.append("resolver called for hashes (%d,%d), which are not a colliding pair (stale index after a removal)" % (h1, h2))
                return 0
            handed.add(pr)
            d = decide[(min(h1, h2) * 7 + max(h1, h2) * 13) % len(decide)]
            ret = 0
            if d & 1:
                ret |= 1 if h1 < h2 else 2
                removed.add(min(h1, h2))
            if d & 2:
                ret |= 2 if h1 < h2 else 1
                removed.add(max(h1, h2))
            return ret
        except Exception as e:      # exceptions cannot cross the C frame
            problems.append("HARNESS:" + repr(e))
            return 0
    sim.collision_resolve = cb
    step(sim)
    for p in problems:
        if p.startswith("HARNESS:"):
            raise RuntimeError(p)
    if problems:
        raise Violation(problems[0], all=problems[:5], keep_sorted=case["keep_sorted"], mode=cfg["mode"])
    if abs(sim.t - t_pred) > 1e-12 * (abs(t_pred) + abs(cfg["dt"])):
        raise RuntimeError("search time %r differs from prediction %r" % (sim.t, t_pred))
    s1 = R.snapshot(sim)
    expect = [int(h) for h in s0["hash"] if int(h) not in removed]
    if tree:
        if len(s1) != n0:
            raise Violation("tree mode: N changed from %d to %d during the step (removal is deferred)" % (n0, len(s1)))
        for i in range(len(s1)):
            h = int(s1["hash"][i])
            flagged = s1["y"][i] != s1["y"][i]
            if flagged != (h in removed):
                raise Violation("tree mode: particle hash %d %s" % (h, "flagged although the resolver kept it" if flagged
                                                                       else "not flagged although the resolver removed it"))
            if not flagged and not same_row(s0[orig[h]], s1[i]):
                raise Violation("a particle the resolver did not touch changed (hash %d)" % h)
        try:
            sim.update_tree()
            sim.process_messages()
        except RuntimeError as e:
            if "same coordinates" in str(e):
                raise SkipCase("two particles at exactly the same point")
            raise Violation("tree update after removals reported an error: %s" % e)
        s1 = R.snapshot(sim)
    got = [int(h) for h in s1["hash"]]
    if sorted(got) != sorted(expect):
        raise Violation("survivors differ from (original minus removed): lost %s, unexpected %s"
                        % (sorted(set(expect) - set(got))[:5], sorted(set(got) - set(expect))[:5]),
                        N=len(got), expected_N=len(expect), keep_sorted=case["keep_sorted"])
    if case["keep_sorted"] and not tree and got != expect:
        raise Violation("keep_sorted=1 but the order of the survivors changed")
    for i, h in enumerate(got):
        if not same_row(s0[orig[h]], s1[i]):
            raise Violation("a surviving particle changed although the resolver did not modify it (hash %d)" % h)
    for pr in must:
        hi, hj = int(s0["hash"][pr[0]]), int(s0["hash"][pr[1]])
        if hi not in removed and hj not in removed and pr not in handed:
            if linetree_open(ctx, cfg):
                break
            raise Violation("clearly colliding pair (%d,%d) was never handed to the resolver although both survive"
                            % (hi, hj), keep_sorted=case["keep_sorted"], mode=cfg["mode"])
    if removed:
        ctx.cls("removed")
    if len(removed) >= 2:
        ctx.cls("removed>=2")
    ctx.cls("keep_sorted=%d" % case["keep_sorted"])
    nontrivial(ctx, case, s0, must, R, t_pred, dtl)


fixup_case = system(modes=["direct", "direct", "line", "tree", "linetree"], dust_max=150).flatmap(
    lambda c: st.fixed_dictionaries({"decide": st.lists(st.sampled_from([0, 1, 2, 3, 1, 2]), min_size=16, max_size=16)})
    .map(lambda d: dict(c, **d)))


# ---------------------------------------------------------------------------------------
# 3./4. built-in resolvers over histories

def harness_drift(sim, R, cfg, frac):
    """User-level edit between steps: move every particle along its velocity and re-place it inside the box."""
    s = R.snapshot(sim)
    ps = sim.particles
    tau = frac * abs(cfg["dt"])
    t = sim.t
    for i in range(len(s)):
        if s["y"][i] != s["y"][i]:
            continue
        pl = place([s["x"][i] + tau * s["vx"][i], s["y"][i] + tau * s["vy"][i], s["z"][i] + tau * s["vz"][i]],
                   [s["vx"][i], s["vy"][i], s["vz"][i]], cfg, t)
        if pl is None:
            continue
        x, v = pl
        p = ps[i]
        p.x, p.y, p.z = float(x[0]), float(x[1]), float(x[2])
        p.vy = float(v[1])


def alive_rows(s):
    import numpy as np
    return s[~np.isnan(s["y"])]


def merged_matches(a, b, out, R):
    """Does `out` equal the documented merger of rows a and b (mass, momentum, centre of mass, volume) to rounding?"""
    LD = R.LD
    ma, mb = LD(a["m"]), LD(b["m"])
    M = ma + mb
    if abs(LD(out["m"]) - M) > 8 * R.EPS * M:
        return False
    for f in ("x", "y", "z", "vx", "vy", "vz"):
        ref = (LD(a[f]) * ma + LD(b[f]) * mb) / M
        cond = (abs(LD(a[f])) * ma + abs(LD(b[f])) * mb) / M
        if abs(LD(out[f]) - ref) > 16 * R.EPS * cond + 1e-300:
            return False
    rr = (LD(a["r"]) ** 3 + LD(b["r"]) ** 3) ** (LD(1) / 3)
    if abs(LD(out["r"]) - rr) > 16 * R.EPS * rr:
        return False
    return True


def check_conservation(s0, s1, R, nmerge, what, ctx, positions=True):
    """Totals before/after; tolerance 16*(2+n)*eps*(sum of |terms| over all axes, before and after): the resolvers
    rotate vectors, so a rounding error of one component can appear in another."""
    (M0, P0, Q0), (aM, aP, aQ) = R.sums(s0)
    (M1, P1, Q1), (bM, bP, bQ) = R.sums(s1)
    k = 16.0 * (2 + nmerge)
    items = [("mass", M0, M1, aM + bM)]
    for i, ax in enumerate("xyz"):
        items.append(("momentum " + ax, P0[i], P1[i], aP.sum() + bP.sum()))
        if positions:
            items.append(("centre of mass " + ax, Q0[i], Q1[i], aQ.sum() + bQ.sum()))
    for name, a, b, cond in items:
        tol = k * R.EPS * cond
        err = abs(a - b)
        if tol > 0:
            ctx.stat_max("conservation_err/tol", float(err / tol))
        if err > tol:
            raise Violation("%s: total %s changed by %.3e (tolerance %.3e = %g*eps*sum|terms|)"
                            % (what, name, float(err), float(tol), k), before=float(a), after=float(b))


def run_merge_hist(case, ctx):
    import ctypes
    import numpy as np
    import rebound
    from rebound import clibrebound
    from ..oracles import c13_collref as R
    cfg = case["cfg"]
    mode = cfg["mode"]
    tree = mode in ("tree", "linetree")
    if len(case["particles"]) < 2:
        ctx.skip("fewer than 2 colliders placed")
        return
    sim = build_sim(case)
    if sim is None:
        ctx.skip("coincident particles or particle on a root-box face")
        return
    calls = []
    problems = []
    if case["wrap"]:
        fn = clibrebound.reb_collision_resolve_merge
        fn.restype = ctypes.c_int
        fn.argtypes = [ctypes.POINTER(rebound.Simulation), rebound.simulation.CollisionS]

        def cb(sp, c):
            try:
                N = sim.N
                if not (0 <= c.p1 < N and 0 <= c.p2 < N) or c.p1 == c.p2:
                    problems.append("resolver called with invalid indices p1=%d p2=%d (N=%d)" % (c.p1, c.p2, N))
                    return 0
                before = R.snapshot(sim)
                ret = fn(sp, c)
                after = R.snapshot(sim)
                calls.append((c.p1, c.p2, ret, before, after))
                return ret
            except Exception as e:
                problems.append("HARNESS:" + repr(e))
                return 0
        sim.collision_resolve = cb
    else:
        sim.collision_resolve = "merge"
    extras = list(case["extras"])
    nsteps = 0
    prev_merged = set()     # hashes of survivors of mergers in earlier steps
    for op in case["ops"]:
        if op[0] == "drift":
            harness_drift(sim, R, cfg, op[1])
            continue
        if op[0] == "add":
            if extras:
                cur = R.snapshot(sim)
                ex = extras.pop(0)
                if not valid_points(ex, cfg, existing=[(float(cur["x"][i]), float(cur["y"][i]), float(cur["z"][i]))
                                                       for i in range(len(cur))]):
                    ctx.skip("coincident particles or particle on a root-box face")
                    return
                try:
                    fast_add(sim, ex)
                except RuntimeError as e:
                    raise Violation("adding particles inside the box failed: %s" % e)
            continue
        # ---- one step
        s0 = alive_rows(R.snapshot(sim))
        if len(s0) < 2:
            break
        t_pred = sim.t + sim.dt
        if R.has_tie(cfg, t_pred):
            ctx.skip("shear image offset on its normalisation branch point")
            return
        if t_pred == 0.0:
            ctx.skip("search at t == 0 (the initial value of last_collision)")
            return
        dtl = sim.dt
        must, maybe = R.classify_pairs(s0, cfg, t_pred, mode, dtl, colliders=coll_idx(s0))
        del calls[:]
        step(sim)
        nsteps += 1
        for p in problems:
            if p.startswith("HARNESS:"):
                raise RuntimeError(p)
        if problems:
            raise Violation(problems[0])
        t = sim.t
        if t != t_pred:
            raise RuntimeError("search time %r differs from prediction %r" % (t, t_pred))
        s1 = alive_rows(R.snapshot(sim))
        o0 = {int(h): i for i, h in enumerate(s0["hash"])}
        o1 = {int(h): i for i, h in enumerate(s1["hash"])}
        if len(o1) != len(s1):
            raise Violation("duplicate particle after a step with mergers", hashes=[int(h) for h in s1["hash"]][:20])
        new = set(o1) - set(o0)
        if new:
            raise Violation("a particle appeared during a step: hashes %s" % sorted(new)[:5])
        gone = sorted(set(o0) - set(o1))
        stamped = [h for h in o1 if s1["last_collision"][o1[h]] == t]
        # per-call checks (wrapped resolver)
        for p1, p2, ret, b, a in calls:
            if ret not in (0, 1, 2):
                raise Violation("merge resolver returned %d" % ret)
            was = b["last_collision"][p1] == t or b["last_collision"][p2] == t
            if not others_same(b, a, p1, p2):
                raise Violation("merge resolver changed a particle that is not part of the collision")
            if was:
                if ret != 0 or not same_row(b[p1], a[p1]) or not same_row(b[p2], a[p2]):
                    raise Violation("a particle that already merged in this step was merged again",
                                    hashes=[int(b["hash"][p1]), int(b["hash"][p2])])
                continue
            if ret == 0:
                raise Violation("merge resolver declined a pair of particles that had not merged in this step",
                                hashes=[int(b["hash"][p1]), int(b["hash"][p2])])
            keep, drop = (p2, p1) if ret == 1 else (p1, p2)
            if not same_row(b[drop], a[drop]):
                raise Violation("merge resolver modified the particle it asks to remove")
            if not merged_matches(b[keep], b[drop], a[keep], R) or a["last_collision"][keep] != t \
                    or a["hash"][keep] != b["hash"][keep]:
                raise Violation("merged particle does not conserve mass/momentum/centre of mass/volume of the pair",
                                before=[[float(b[f][q]) for f in SFIELDS[:8]] for q in (keep, drop)],
                                after=[float(a[f][keep]) for f in SFIELDS[:8]])
        # per-step checks
        if len(gone) != len(stamped):
            raise Violation("%d particle(s) disappeared but %d merger survivor(s) are stamped with this step's time"
                            % (len(gone), len(stamped)), gone=gone[:10], stamped=sorted(stamped)[:10],
                            N_before=len(s0), N_after=len(s1))
        for h in o1:
            if h in stamped:
                continue
            if not same_row(s0[o0[h]], s1[o1[h]]):
                raise Violation("a particle that took no part in a merger changed during the step (hash %d)" % h)
        if case["keep_sorted"] and not tree:
            order0 = [int(h) for h in s0["hash"] if int(h) in o1]
            if order0 != [int(h) for h in s1["hash"]]:
                raise Violation("keep_sorted=1 but the order of the survivors changed")
        # each stamped survivor = documented merger of itself with exactly one vanished particle that it collided with
        left = set(gone)
        for h in stamped:
            i = o0[h]
            cand = [g for g in left if (min(i, o0[g]), max(i, o0[g])) in maybe
                    and merged_matches(s0[i], s0[o0[g]], s1[o1[h]], R)]
            if not cand:
                anyform = [g for g in left if merged_matches(s0[i], s0[o0[g]], s1[o1[h]], R)]
                raise Violation("merger survivor hash %d is not the documented merger of itself with one vanished "
                                "particle it collided with%s" % (h, " (it matches a particle it did not collide with)" if anyform else ""),
                                gone=gone[:10])
            left.discard(cand[0])
        if left:
            raise Violation("particles vanished without being merged into a survivor: hashes %s" % sorted(left)[:5])
        check_conservation(s0, s1, R, len(gone), "merge (%s, step %d)" % (mode, nsteps), ctx)
        # completeness: no clearly colliding pair may be left with both members untouched
        for pr in sorted(must):
            hi, hj = int(s0["hash"][pr[0]]), int(s0["hash"][pr[1]])
            if hi in o1 and hj in o1 and hi not in stamped and hj not in stamped:
                both = hi in prev_merged and hj in prev_merged
                if linetree_open(ctx, cfg):
                    break
                if tree and (hi in prev_merged or hj in prev_merged) and ctx.finding_open(KEY_MERGED):
                    ctx.excluded(KEY_MERGED)
                    continue
                raise Violation("%s search left a clearly colliding pair unresolved: hashes (%d,%d) radii (%g,%g)%s"
                                % (mode, hi, hj, s0["r"][pr[0]], s0["r"][pr[1]],
                                   " - both radii grew in earlier mergers" if both else ""),
                                max_radius=maxrad(sim), step=nsteps)
        if tree:
            # the tree searches prune cells with the two largest radii: after every step the recorded maxima must
            # bound the two largest radii present, or a pair of the two largest bodies can be skipped
            mr = maxrad(sim)
            rr = np.sort(s1["r"])[::-1]
            if mr is not None and len(rr) >= 2 and (mr[0] < rr[0] or mr[1] < rr[1]):
                raise Violation("%s search: recorded largest radii (%r, %r) are smaller than the two largest radii "
                                "present (%r, %r) after a step with mergers: the pruning bound is too small for that pair"
                                % (mode, mr[0], mr[1], float(rr[0]), float(rr[1])), step=nsteps)
        for pr in must:
            hi, hj = int(s0["hash"][pr[0]]), int(s0["hash"][pr[1]])
            if hi in prev_merged and hj in prev_merged:
                ctx.cls("merged_pair_collides_again")
        cnt = {}
        for g in gone:
            pass
        prev_merged |= set(stamped)
        if len(gone) >= 2:
            ctx.cls("mergers>=2_in_step")
        if nsteps == 1:
            nontrivial(ctx, case, s0, must, R, t, dtl)
    if tree and sim.N > 0:
        n_alive = len(alive_rows(R.snapshot(sim)))
        if n_alive > 0:
            sim.update_tree()
            if sim.N != n_alive:
                raise Violation("after a tree update N=%d but %d particles are not flagged as removed" % (sim.N, n_alive))
    ctx.cls("wrap=%d" % case["wrap"])


hist_ops = st.lists(st.one_of(st.just(("step",)), st.just(("step",)), st.just(("step",)),
                              st.tuples(st.just("drift"), st.sampled_from([0.3, 1.0, 3.0])),
                              st.just(("add",))), min_size=1, max_size=8).map(lambda l: [("step",)] + l + [("step",)])

merge_case = system(modes=["direct", "tree", "tree", "tree", "line", "linetree"], rmax_choices=(0.01, 0.04, 0.1), extra=2,
                    nclusters=(1, 3), p_twins=2).flatmap(
    lambda c: st.fixed_dictionaries({"ops": hist_ops, "wrap": st.booleans()}).map(lambda d: dict(c, **d)))


def run_bounce(case, ctx):
    import ctypes
    import numpy as np
    import rebound
    from rebound import clibrebound
    from ..oracles import c13_collref as R
    LD = R.LD
    cfg = case["cfg"]
    mode = cfg["mode"]
    if len(case["particles"]) < 2:
        ctx.skip("fewer than 2 colliders placed")
        return
    sim = build_sim(case)
    if sim is None:
        ctx.skip("coincident particles or particle on a root-box face")
        return
    eps_r = case["restitution"]
    if eps_r is not None:
        sim.coefficient_of_restitution = lambda sp, v: eps_r
    e = 1.0 if eps_r is None else eps_r
    calls = []
    problems = []
    if case["wrap"]:
        fn = clibrebound.reb_collision_resolve_hardsphere
        fn.restype = ctypes.c_int
        fn.argtypes = [ctypes.POINTER(rebound.Simulation), rebound.simulation.CollisionS]

        def cb(sp, c):
            try:
                N = sim.N
                if not (0 <= c.p1 < N and 0 <= c.p2 < N) or c.p1 == c.p2:
                    problems.append("resolver called with invalid indices p1=%d p2=%d (N=%d)" % (c.p1, c.p2, N))
                    return 0
                before = R.snapshot(sim)
                ret = fn(sp, c)
                after = R.snapshot(sim)
                calls.append((c.p1, c.p2, (c.gb.x, c.gb.y, c.gb.z, c.gb.vx, c.gb.vy, c.gb.vz), ret, before, after))
                return ret
            except Exception as ex:
                problems.append("HARNESS:" + repr(ex))
                return 0
        sim.collision_resolve = cb
    else:
        sim.collision_resolve = "hardsphere"
    nsteps = 0
    for op in case["ops"]:
        if op[0] == "drift":
            harness_drift(sim, R, cfg, op[1])
            continue
        if op[0] != "step":
            continue
        s0 = R.snapshot(sim)
        t_pred = sim.t + sim.dt
        if R.has_tie(cfg, t_pred):
            ctx.skip("shear image offset on its normalisation branch point")
            return
        dtl = sim.dt
        must, maybe = R.classify_pairs(s0, cfg, t_pred, mode, dtl, colliders=coll_idx(s0))
        del calls[:]
        step(sim)
        nsteps += 1
        for p in problems:
            if p.startswith("HARNESS:"):
                raise RuntimeError(p)
        if problems:
            raise Violation(problems[0])
        t = sim.t
        s1 = R.snapshot(sim)
        if len(s1) != len(s0) or sorted(s0["hash"]) != sorted(s1["hash"]):
            raise Violation("hard-sphere step changed the set of particles", N0=len(s0), N1=len(s1))
        if mode in ("direct", "line") and any(s0["hash"][i] != s1["hash"][i] for i in range(len(s0))):
            raise Violation("hard-sphere step without a tree reordered the particles")
        # (a tree update may legitimately reorder the array: bring s1 into the order of s0)
        pos1 = {int(h): i for i, h in enumerate(s1["hash"])}
        s1 = s1[[pos1[int(h)] for h in s0["hash"]]]
        for f in ("x", "y", "z", "m", "r"):
            if not np.array_equal(s0[f], s1[f]):
                raise Violation("hard-sphere step changed particle %s" % f)
        # per-call
        for p1, p2, gb, ret, b, a in calls:
            if ret != 0:
                raise Violation("hard-sphere resolver asks to remove a particle (returned %d)" % ret)
            if not others_same(b, a, p1, p2):
                raise Violation("hard-sphere resolver changed a particle that is not part of the collision")
            m1, m2 = LD(b["m"][p1]), LD(b["m"][p2])
            d = np.array([LD(b[f][p1]) + LD(g) - LD(b[f][p2]) for f, g in zip("xyz", gb[:3])])
            vb = np.array([LD(b[f][p1]) + LD(g) - LD(b[f][p2]) for f, g in zip(("vx", "vy", "vz"), gb[3:])])
            va = np.array([LD(a[f][p1]) + LD(g) - LD(a[f][p2]) for f, g in zip(("vx", "vy", "vz"), gb[3:])])
            st_b = R.pair_status(b, p1, p2, gb, "direct", 0.0)
            changed = not (same_row(b[p1], a[p1]) and same_row(b[p2], a[p2]))
            if st_b == R.NOT:
                if changed:
                    raise Violation("hard-sphere resolver changed a pair that does not overlap while approaching",
                                    hashes=[int(b["hash"][p1]), int(b["hash"][p2])])
                continue
            if st_b == R.AMBIG:
                continue
            if not changed:
                raise Violation("hard-sphere resolver left a clearly colliding pair untouched",
                                hashes=[int(b["hash"][p1]), int(b["hash"][p2])])
            # momentum of the pair
            for k, f in enumerate(("vx", "vy", "vz")):
                pb = m1 * LD(b[f][p1]) + m2 * LD(b[f][p2])
                pa = m1 * LD(a[f][p1]) + m2 * LD(a[f][p2])
                cond = sum(m1 * (abs(LD(b[g][p1])) + abs(LD(a[g][p1]))) + m2 * (abs(LD(b[g][p2])) + abs(LD(a[g][p2])))
                           for g in ("vx", "vy", "vz"))
                tol = 32 * R.EPS * cond
                if tol > 0:
                    ctx.stat_max("bounce_momentum_err/tol", float(abs(pa - pb) / tol))
                if abs(pa - pb) > tol:
                    raise Violation("hard-sphere bounce changed the momentum of the pair (%s): %.3e > %.3e"
                                    % (f, float(abs(pa - pb)), float(tol)))
            # normal relative velocity: v_n' = -e v_n ; tangential part unchanged  (=> kinetic energy at e=1)
            nd = np.sqrt((d * d).sum())
            if nd > 0:
                nrm = d / nd
                vnb = (vb * nrm).sum()
                vna = (va * nrm).sum()
                scale = np.sqrt((vb * vb).sum()) + np.sqrt((va * va).sum())
                velmag = sum(abs(LD(b[f][q])) for f in ("vx", "vy", "vz") for q in (p1, p2)) + abs(LD(gb[4]))
                tol = 256 * R.EPS * (scale + velmag)
                if vna < -tol:
                    raise Violation("pair is still approaching right after its hard-sphere bounce",
                                    vn_before=float(vnb), vn_after=float(vna))
                if abs(vna + e * vnb) > tol:
                    raise Violation("normal relative velocity after the bounce is not -restitution * before",
                                    vn_before=float(vnb), vn_after=float(vna), restitution=e)
                tb = vb - vnb * nrm
                ta = va - vna * nrm
                if np.abs(ta - tb).max() > tol:
                    raise Violation("hard-sphere bounce changed the tangential relative velocity")
                ctx.stat_max("bounce_vn_err/tol", float(abs(vna + e * vnb) / tol) if tol > 0 else 0.0)
            # kinetic energy in the frame of the image (restitution 1)
            if e == 1.0:
                def ke(s):
                    v1 = np.array([LD(s[f][p1]) + LD(g) for f, g in zip(("vx", "vy", "vz"), gb[3:])])
                    v2 = np.array([LD(s[f][p2]) for f in ("vx", "vy", "vz")])
                    return (m1 * (v1 * v1).sum() + m2 * (v2 * v2).sum()) / 2
                kb, ka = ke(b), ke(a)
                # condition: the impulse is accurate to a few eps of the speeds involved, whichever particle carries
                # the kinetic energy: (m1+m2) * (sum of all speeds)^2
                # (raw speeds and the image's velocity offset separately: their sum is what gets rounded)
                spd = sum(np.sqrt(sum(LD(s_[f][q]) ** 2 for f in ("vx", "vy", "vz"))) for s_ in (b, a) for q in (p1, p2)) \
                    + 2 * np.sqrt(sum(LD(g) ** 2 for g in gb[3:]))
                tol = 64 * R.EPS * ((m1 + m2) * spd * spd + kb + ka)
                if tol > 0:
                    ctx.stat_max("bounce_ke_err/tol", float(abs(ka - kb) / tol))
                if abs(ka - kb) > tol:
                    raise Violation("hard-sphere bounce with restitution 1 changed the kinetic energy of the pair: "
                                    "%.17g -> %.17g" % (float(kb), float(ka)))
            if a["last_collision"][p1] != t or a["last_collision"][p2] != t:
                raise Violation("bounced particles are not stamped with the collision time")
        # per-step
        check_conservation(s0, s1, R, len(must) + 1, "hardsphere (%s, step %d)" % (mode, nsteps), ctx, positions=False)
        if e == 1.0 and (cfg["boundary"] != "shear" or cfg["nghost"][0] == 0):
            k0 = (s0["m"].astype(LD) * (R.vel(s0).astype(LD) ** 2).sum(axis=1)).sum() / 2
            k1 = (s1["m"].astype(LD) * (R.vel(s1).astype(LD) ** 2).sum(axis=1)).sum() / 2
            vmax = max(float(np.sqrt((R.vel(s0).astype(LD) ** 2).sum(axis=1)).max()),
                       float(np.sqrt((R.vel(s1).astype(LD) ** 2).sum(axis=1)).max()))
            tol = 64 * R.EPS * ((k0 + k1) * (2 + len(maybe))
                                + sum(float(s0["m"][i] + s0["m"][j]) * (2 * vmax) ** 2 for i, j in maybe))
            if tol > 0:
                ctx.stat_max("step_ke_err/tol", float(abs(k1 - k0) / tol))
            if abs(k1 - k0) > tol:
                raise Violation("hard-sphere step with restitution 1 changed the total kinetic energy: %.17g -> %.17g"
                                % (float(k0), float(k1)), collisions=len(must))
        # isolated clearly colliding pairs (instantaneous searches): bounced, and separating afterwards
        if mode in ("direct", "tree"):
            deg = {}
            for i, j in maybe:
                deg[i] = deg.get(i, 0) + 1
                deg[j] = deg.get(j, 0) + 1
            iso = [pr for pr in must if deg[pr[0]] == 1 and deg[pr[1]] == 1]
            if iso:
                must1, _ = R.classify_pairs(s1, cfg, t, mode, dtl, colliders=sorted({i for pr in iso for i in pr}))
                for pr in iso:
                    if s1["last_collision"][pr[0]] != t or s1["last_collision"][pr[1]] != t:
                        raise Violation("%s search: isolated clearly colliding pair was not bounced: hashes (%d,%d)"
                                        % (mode, s0["hash"][pr[0]], s0["hash"][pr[1]]))
                    if pr in must1:
                        raise Violation("isolated pair still overlaps while approaching after its hard-sphere bounce: "
                                        "hashes (%d,%d)" % (s0["hash"][pr[0]], s0["hash"][pr[1]]))
                ctx.cls("isolated_pair")
        if nsteps == 1:
            nontrivial(ctx, case, s0, must, R, t, dtl)
    ctx.cls("wrap=%d" % case["wrap"])
    ctx.cls("restitution=%s" % eps_r)


bounce_ops = st.lists(st.one_of(st.just(("step",)), st.tuples(st.just("drift"), st.sampled_from([0.3, 1.0]))),
                      min_size=0, max_size=3).map(lambda l: [("step",)] + l)

bounce_case = system(dust_max=150).flatmap(
    lambda c: st.fixed_dictionaries({"ops": bounce_ops, "wrap": st.booleans(),
                                     "restitution": st.sampled_from([None, None, 0.5])}).map(lambda d: dict(c, **d)))


def subs(tier):
    return [
        Sub("detect_moving", skipping(run_detect),
            strategy=system(modes=["tree", "tree", "linetree", "direct", "line"]).flatmap(
                lambda c: st.one_of(st.none(), st.integers(0, 400)).map(lambda k: dict(c, moving=True, pending_remove=k))),
            quick=1000, thorough=24000, shards_quick=8, shards_thorough=16, timeout_quick=1500),
        Sub("detect", skipping(run_detect), strategy=system(), quick=1600, thorough=48000, shards_quick=8, shards_thorough=16, timeout_quick=1500),
        Sub("remove_fixup", skipping(run_remove_fixup), strategy=fixup_case, quick=2000, thorough=40000, shards_quick=8,
            shards_thorough=16, timeout_quick=1500),
        Sub("merge_hist", skipping(run_merge_hist), strategy=merge_case, quick=1400, thorough=32000, shards_quick=8,
            shards_thorough=16, timeout_quick=1500),
        Sub("bounce", skipping(run_bounce), strategy=bounce_case, quick=1200, thorough=24000, shards_quick=8, shards_thorough=16, timeout_quick=1500),
    ]
