"""C01 - every integrator converges to the true N-body solution at its advertised order.

Oracle: vf/chelpers/c01_refnbody.c (quad precision Gragg-Bulirsch-Stoer, harness-owned, no REBOUND code, validated
against closed forms in prepare()).  For a generated (system, integrator configuration, direction of time) the
REBOUND state after n_k = n0*2^k steps of dt_k = dt0/2^k (k=0..3; same physical time T = n0*dt0, exact in double)
is compared with the reference state at T:  E_k = max_i max(|dr_i|/L, |dv_i|/V), L, V = largest barycentric
distance / speed in the reference.

Assertions (p = asserted order, see ORDER TABLE):
  rate      the median of the three adjacent observed orders log2(E_k/E_k+1) (maximum if only two are measurable:
            both levels in [4*floor_k, 1e-2]) is >= p-0.8; and E_k <= floor_k + 64*E_j*2^-(p*(k-j)) for all j<k with
            E_j in the window (see check_rate for why single pairs are not asserted).  floor_k = max(4e-12,
            64*eps*H*sqrt(work*n_k)) is the rounding floor: H = size of the system / smallest separation, work =
            elementary stages per step; E_k is the maximum over three epochs T/3, 2T/3, T.
  converge  E_3 <= 1e-2 and E_3 <= E_0 + floor  (a scheme converging to a wrong trajectory fails 'rate').
  adaptive  IAS15 / BS: error within the advertised accuracy class, tightening the tolerance does not make it worse.
  time      sim.t after the run equals the requested time (to accumulated rounding of t += dt).
Regimes: R1 = planet/star mass ratio 1e-8..1e-7 (eps^2 terms below the floor) exposes the first exponent of a
generalized order (eps dt^p1); R2 = mass ratio 3e-4..1e-3 exposes min_k p_k; FB = comparable masses (0.01..0.1)
for the non-perturbative schemes.  All rate assertions are made at dt <= P_min/16.
"""
import math
import os
import random

from hypothesis import strategies as st

from ..core import Sub, Violation
from .. import strategies as S

PROPERTY = "C01"
LEVEL = "exploration"
RULE = ("A case is (system, integrator configuration, regime, direction of time, test-particle partition). "
        "Fixed-step schemes: the error against the quad-precision reference is measured at dt0*2^-k, k=0..3; the "
        "case is non-trivial iff the reference end state differs from the initial state by > 1e-3 (scaled) and at "
        "least two adjacent observed orders were measurable (both errors inside [4 x rounding floor, 1e-2]; floor >= 4e-12), so "
        "that the robust-slope assertion was evaluated on measured numbers (largest deficit is in stats).  "
        "Adaptive schemes / user ODEs: non-trivial iff the system moved and the error was compared with the class "
        "bound for two tolerances.  Distinct by case hash.")
ASSUMPTIONS = [
    "the quad-precision reference integrator c01_refnbody.c (GBS, local tolerance 1e-26) is correct; it is validated "
    "against two-body Kepler (both directions), the Lagrange triangle, Hill epicycles, a forced oscillator, the "
    "test-particle partition and an mpmath Kepler propagation to 1e-22 before every run",
    "advertised orders are those of the ORDER TABLE in vf/props/c01.py written from docs/integrators.md: first "
    "correctors asserted at the documented order p (p+1 is observed); kernels+correctors as (p,4); second corrector "
    "only as not lowering the order; orders above 6 asserted as >= 6 (IAS15 fixed step >= 10) because double "
    "precision cannot exhibit them for dt <= P/16",
    "order is certified only inside the window [4 x rounding floor (>= 1.6e-11), 1e-2] of scaled error, for dt <= P_min/16, "
    "horizon 2-4 inner periods, e <= 0.3, separations >= 8 mutual Hill radii (R1/R2)",
    "type-0 test particles are massless, type-1 test particles keep their mass (docs/simulationvariables.md)",
]
VARIANTS = ["avx512"]

FLOOR = 4e-12
CEIL = 1e-2
SLACK = 0.8
A_DIP = float(os.environ.get("VERIF_C01_A", "64.0"))      # the env override exists only to calibrate the margin
KR = 64.0
EPS = 2.220446049250313e-16
LEVELS = 4

CLASSES = ["order/family:whfast", "order/family:saba", "order/family:eos", "order/family:leapfrog",
           "order/family:janus", "order/family:mercurius", "order/family:trace", "order/family:ias15fixed",
           "order/coord:jacobi", "order/coord:democraticheliocentric", "order/coord:whds", "order/coord:barycentric",
           "order/corrector:on", "order/corrector2:on", "order/kernel:modifiedkick", "order/kernel:composition",
           "order/kernel:lazy", "order/tp:t0", "order/tp:t1", "order/backward", "order/regime:R1", "order/regime:R2",
           "order/regime:FB", "adaptive/family:ias15", "adaptive/family:bs", "adaptive/backward", "ode/coupled_bs",
           "ode/decoupled", "sei/selfgravity", "sei/free", "whfast512/N_systems:1", "whfast512/N_systems:2",
           "whfast512/N_systems:4"]

# ---------------------------------------------------------------------------------------------------------------
# ORDER TABLE.  advertised(cfg) -> (p1, pmin): p1 = exponent of the term linear in the mass ratio, pmin = smallest
# exponent of the generalized order (what remains at mass ratio 1e-3 and for comparable masses).

SABA_ORDERS = {  # Laskar & Robutel 2001; Blanes et al. 2013; Rein, Tamayo & Brown 2019; docs/integrators.md
    "1": (2, 2), "2": (4, 2), "3": (6, 2), "4": (8, 2),
    "cm1": (2, 2), "cm2": (4, 4), "cm3": (6, 4), "cm4": (8, 4),       # corrector removes eps^2 dt^2 -> (2n, 4)
    "cl1": (2, 2), "cl2": (4, 4), "cl3": (6, 4), "cl4": (8, 4),
    "10,4": (10, 4), "8,6,4": (8, 4), "10,6,4": (10, 4), "h8,4,4": (8, 4), "h8,6,4": (8, 4), "h10,6,4": (10, 4),
}
SABA_STAGES = {"1": 1, "2": 2, "3": 3, "4": 4, "cm1": 2, "cm2": 3, "cm3": 4, "cm4": 5, "cl1": 2, "cl2": 3, "cl3": 4,
               "cl4": 5, "10,4": 7, "8,6,4": 7, "10,6,4": 8, "h8,4,4": 6, "h8,6,4": 8, "h10,6,4": 9}
EOS_ORDERS = {   # docs/integrators.md table (Rein 2019)
    "lf": (2, 2), "lf4": (4, 4), "lf6": (6, 6), "lf8": (8, 8), "lf4_2": (4, 2), "lf8_6_4": (8, 4),
    "plf7_6_4": (7, 4), "pmlf4": (4, 4), "pmlf6": (6, 6),
}
EOS_STAGES = {"lf": 1, "lf4": 3, "lf6": 9, "lf8": 17, "lf4_2": 2, "lf8_6_4": 7, "plf7_6_4": 3, "pmlf4": 1, "pmlf6": 3}
JANUS_STAGES = {2: 1, 4: 5, 6: 9, 8: 15, 10: 33}
PCAP = {"default": 6, "ias15fixed": 10}
KJ = 4.0     # JANUS: truncation to the integer grid is biased -> the grid error grows linearly with stages*steps
             # (measured 0.23 * (scale_pos/L + scale_vel/V) per stage and step with equal scales).  With independent
             # scales each drift truncates positions to the scale_pos grid and each kick velocities to the scale_vel
             # grid, so the two relative contributions add separately: the same two-term model is kept (the velocity
             # term also feeds the positions, which the measured coefficient already contains; KJ leaves a factor
             # >= 8 for the case that one term alone carries it).


def cfg_get(cfg, path, default=None):
    for p, v in cfg.get("set", []):
        if p == path:
            return v
    return default


def advertised(cfg):
    fam = cfg["family"]
    if fam == "whfast":
        c = cfg_get(cfg, "ri_whfast.corrector", 0)
        k = cfg_get(cfg, "ri_whfast.kernel", "default")
        if c == 0:
            return (2, 2)           # Wisdom-Holman: eps dt^2 (kernels without correctors gain nothing)
        # first corrector of order c removes eps dt^q terms for q < c (docs: "up to O(eps dt^p)"); observed c+1.
        # the eps^2 dt^2 term remains unless a higher order kernel is used (then eps^2 dt^4).
        return (c, 4 if k != "default" else 2)
    if fam == "saba":
        return SABA_ORDERS[cfg_get(cfg, "ri_saba.type")]
    if fam == "eos":
        a = EOS_ORDERS[cfg_get(cfg, "ri_eos.phi0")]
        b = EOS_ORDERS[cfg_get(cfg, "ri_eos.phi1")]
        # phi1 splits kinetic energy against the star's potential: not a perturbative splitting -> its minimum
        return (min(a[0], b[1]), min(a[1], b[1]))
    if fam in ("leapfrog", "mercurius", "trace", "sei", "whfast512"):
        return (2, 2)
    if fam == "janus":
        o = cfg_get(cfg, "ri_janus.order")
        return (o, o)
    if fam == "ias15fixed":
        return (15, 15)
    raise KeyError(fam)


def asserted_order(cfg, regime):
    """Order asserted for this configuration in this regime: the advertised exponent, capped where double precision
    cannot exhibit it in the asymptotic regime (cap 6: 8th/10th order schemes show local slopes 7.0..9.8 for
    dt <= P/16 before reaching the rounding floor; IAS15 fixed step: 10, as in DESIGN)."""
    p1, pmin = advertised(cfg)
    p = p1 if regime == "R1" else pmin
    return min(p, PCAP.get(cfg["family"], PCAP["default"]))


def work(cfg):
    """elementary drift/kick stages per step (for the rounding floor)."""
    fam = cfg["family"]
    if fam == "saba":
        return SABA_STAGES[cfg_get(cfg, "ri_saba.type")]
    if fam == "eos":
        return EOS_STAGES[cfg_get(cfg, "ri_eos.phi0")] * EOS_STAGES[cfg_get(cfg, "ri_eos.phi1")] * \
            cfg_get(cfg, "ri_eos.n", 2) * 4
    if fam == "janus":
        return JANUS_STAGES[cfg_get(cfg, "ri_janus.order")]
    if fam == "ias15fixed":
        return 8 * 4
    if fam == "whfast":
        w = 2 + (4 if cfg_get(cfg, "ri_whfast.kernel", "default") == "composition" else 0)
        if cfg_get(cfg, "ri_whfast.safe_mode", 1):
            # correctors and their inverses are applied around every step: 3 Kepler/kick stages per corrector stage
            w += 2 * (3 * {0: 0, 3: 2, 5: 4, 7: 6, 11: 10, 17: 16}[cfg_get(cfg, "ri_whfast.corrector", 0)]
                      + (12 if cfg_get(cfg, "ri_whfast.corrector2", 0) else 0))
        return w
    return 2


def dt0_div(cfg, regime):
    """dt0 = P_min / dt0_div.  All rate assertions are made at dt <= P_min/16 (measured: slopes of every family
    have settled there to within a factor 2 in the error; coarser steps show pre-asymptotic dips), finer where a
    low order scheme needs it to get below 1e-3 at the finest level, twice finer for comparable masses."""
    fam = cfg["family"]
    p1, pmin = advertised(cfg)
    f = 2 if regime == "FB" else 1
    if fam == "leapfrog":
        return 256 * f
    if fam == "janus":
        return {2: 256, 4: 32}.get(pmin, 16) * f
    if fam == "ias15fixed":
        return 6        # coarser steps are not in the asymptotic regime (predictor-corrector not converged)
    if fam == "eos":
        o1 = EOS_ORDERS[cfg_get(cfg, "ri_eos.phi1")][1]
        # processed outer schemes: the leading error coefficient of PMLF4 changes sign close to dt = P/16
        # (measured: E(P/16) a factor 10 below the asymptotic line), so they start one level finer
        g = 2 if cfg_get(cfg, "ri_eos.phi0") in ("pmlf4", "pmlf6", "plf7_6_4") else 1
        return max({2: 256, 4: 32}.get(o1, 16), 16 * g) * f
    if fam == "whfast" and cfg_get(cfg, "ri_whfast.coordinates") == "barycentric" and regime == "R2":
        # Kepler orbits about the barycentre with the total mass: the error constant grows with the offset of the
        # barycentre from the star (sum m_i a_i / M) relative to the innermost orbit; 0.5 at P/16 for 5 planets
        return 64
    return 16 * f


def snap(x, bits=30):
    """Round to `bits` significant bits so that n*dt is exact in double for n < 2^22."""
    m, e = math.frexp(x)
    return math.ldexp(round(m * 2 ** bits) / 2 ** bits, e)


# ---------------------------------------------------------------------------------------------------------------
# running REBOUND

def ref_spec(sysd, extra=None):
    d = {"G": sysd["G"], "particles": sysd["particles"], "N_active": sysd.get("N_active"),
         "testparticle_type": sysd.get("testparticle_type", 0) or 0, "softening": sysd.get("softening", 0.0) or 0.0}
    if extra:
        d.update(extra)
    return d


def set_peri_mode(sim, name):
    try:
        sim.ri_trace.peri_mode = name
    except TypeError:       # field/property clash in integrators/trace.py (C18 finding): fall back to the enum value
        sim.ri_trace.peri_mode = {"PARTIAL_BS": 0, "FULL_BS": 1, "FULL_IAS15": 2}[name]


def setup(sysd, cfg):
    from .. import rb
    sim = rb.new_sim({"G": sysd["G"], "particles": sysd["particles"], "N_active": sysd.get("N_active"),
                      "testparticle_type": sysd.get("testparticle_type"), "softening": sysd.get("softening")})
    sim.integrator = cfg["integrator"]
    for path, val in cfg.get("set", []):
        rb.setpath(sim, path, val)
    if "peri_mode" in cfg:
        set_peri_mode(sim, cfg["peri_mode"])
    return sim


def scales(ref):
    P = ref["p"]
    n = len(P)
    L = max(math.sqrt(sum(P[i][c][0] ** 2 for c in range(3))) for i in range(n))
    V = max(math.sqrt(sum(P[i][c][0] ** 2 for c in range(3, 6))) for i in range(n))
    return (L or 1.0), (V or 1.0)


def hierarchy(sysd):
    """H = size of the system / smallest separation (>= 1): how much larger coordinates are than the smallest orbit."""
    ps = sysd["particles"]
    M = sum(p["m"] for p in ps) or 1.0
    com = [sum(p["m"] * p.get(k, 0.0) for p in ps) / M for k in ("x", "y", "z")]
    size = max(math.sqrt(sum((p.get(k, 0.0) - c) ** 2 for k, c in zip(("x", "y", "z"), com))) for p in ps)
    dmin = min(math.sqrt(sum((p.get(k, 0.0) - q.get(k, 0.0)) ** 2 for k in ("x", "y", "z")))
               for i, p in enumerate(ps) for q in ps[:i])
    return max(1.0, size / dmin) if dmin > 0 else 1e30


def min_separation(sysd):
    ps = sysd["particles"]
    return min(math.sqrt(sum((p.get(k, 0.0) - q.get(k, 0.0)) ** 2 for k in ("x", "y", "z")))
               for i, p in enumerate(ps) for q in ps[:i])


def outside_regime(sysd, ref, ctx):
    """Domain guard (not a verdict): the property is about collision-free, well-separated systems.  Generated
    comparable-mass systems are occasionally unstable (seen: backward in time two bodies of 0.1 and 0.05 stellar
    masses approach to 0.15 of an initial separation of 1.5 and every integrator loses all accuracy).  The reference
    trajectory reports the smallest pair distance it saw; cases that come closer than a quarter of the smallest
    initial separation are counted and skipped."""
    d = ref.get("dmin", -1.0)
    if d >= 0.0 and d < 0.25 * min_separation(sysd):
        ctx.skip("close approach in the reference trajectory (< 0.25 of the smallest initial separation): outside the regime")
        return True
    return False


def size_speed(sysd):
    ps = sysd["particles"]
    L = max(math.sqrt(p.get("x", 0.0) ** 2 + p.get("y", 0.0) ** 2 + p.get("z", 0.0) ** 2) for p in ps)
    V = max(math.sqrt(p.get("vx", 0.0) ** 2 + p.get("vy", 0.0) ** 2 + p.get("vz", 0.0) ** 2) for p in ps)
    return L, V


def floor_for(sysd, cfg, nsteps):
    f = max(FLOOR, KR * EPS * hierarchy(sysd) * math.sqrt(work(cfg) * nsteps))
    if cfg["family"] == "janus":
        L, V = size_speed(sysd)
        # a position grid error matters relative to the smallest orbit (L/H), a velocity grid error relative to the
        # largest speed (measured with scale_pos=1e-14, scale_vel=1e-16: up to 0.27 * scale_pos*H/L per stage and step)
        f += KJ * (cfg_get(cfg, "ri_janus.scale_pos") * hierarchy(sysd) / L + cfg_get(cfg, "ri_janus.scale_vel") / V) \
            * work(cfg) * nsteps
    return f


def state_error(sim, ref, n=None, LV=None):
    from ..oracles import c01_ref
    L, V = LV(ref) if LV else scales(ref)
    E = 0.0
    ps = sim.particles
    worst = None
    for i, rp in enumerate(ref["p"][:n]):
        p = ps[i]
        s = (p.x, p.y, p.z, p.vx, p.vy, p.vz)
        for c in range(6):
            if not math.isfinite(s[c]):
                return float("inf"), (i, c)
            d = abs(c01_ref.diff(s[c], rp[c])) / (L if c < 3 else V)
            if d > E:
                E, worst = d, (i, c)
    return E, worst


def moved(sysd, ref):
    """scaled distance between the initial state and the reference end state (non-triviality of the horizon)."""
    L, V = scales(ref)
    m = 0.0
    for p, rp in zip(sysd["particles"], ref["p"]):
        for c, k in enumerate(("x", "y", "z", "vx", "vy", "vz")):
            m = max(m, abs(p.get(k, 0.0) - rp[c][0]) / (L if c < 3 else V))
    return m


NSEG = 3     # checkpoints per run: E_k is the maximum over the states at T/3, 2T/3 and T


def fixed_levels(sysd, cfg, dt0, n0, backward, levels=LEVELS, cache=False, ref=None, mk=None, rspec=None, LV=None,
                 t_offset=0.0):
    """n0 must be a multiple of NSEG.  Returns (Es, refs, tdev): Es[k] = max over the NSEG checkpoints of the scaled
    error at level k (the simulation is synchronized at each checkpoint and continued: taking the maximum over
    three epochs fills the dips that a sign change of the leading error term produces at a single epoch);
    tdev = max |sim.t - T| / (|T| * n_k * eps)."""
    from ..oracles import c01_ref
    sgn = -1.0 if backward else 1.0
    seg = n0 // NSEG
    times = [sgn * dt0 * seg * (s + 1) for s in range(NSEG)]
    if ref is None:
        ref = c01_ref.reference(rspec or ref_spec(sysd), times, cache=cache)
    Es = []
    tdev = 0.0
    for k in range(levels):
        sim = (mk or setup)(sysd, cfg)
        sim.dt = sgn * dt0 / 2 ** k
        E = 0.0
        for s in range(NSEG):
            try:
                sim.steps(seg * 2 ** k)
                sim.synchronize()
            except RuntimeError as ex:      # library error message on a documented configuration and a regular system
                raise Violation("%s %s: the integrator reports an error on valid input: %s"
                                % (cfg.get("integrator", cfg.get("family")), short(cfg), ex), dt=sim.dt)
            e, _ = state_error(sim, ref[s], LV=LV)
            E = max(E, e)
            nk = seg * (s + 1) * 2 ** k
            tdev = max(tdev, abs((sim.t - t_offset) - times[s]) / ((abs(times[s]) + abs(t_offset)) * nk * EPS))
        Es.append(E)
        del sim
    return Es, ref, tdev


def n0_for(norb, P, dt0):
    return NSEG * max(1, int(round(norb * P / dt0 / NSEG)))


def check_rate(Es, floors, p, ctx, what, details):
    """rate + convergence assertions on errors at halved steps.  Returns the number of measured slopes used.

    R-a  robust slope: adjacent slopes log2(E_k/E_k+1) between levels that are both measurable
         (4*floor_k <= E_k <= 1e-2).  With three slopes their median, with two their maximum, must be >= p-SLACK.
         (The error of a scheme whose leading terms have opposite signs passes through a zero as a function of dt:
         one level can be anomalously accurate - observed up to a factor 15 on the unchanged tree - which lowers
         the slope after it and raises the slope before it; the median of three / maximum of two adjacent slopes
         is insensitive to one such level, while a scheme of lower order has all its slopes low.)
    R-b  safety net for schemes that leave the window after one level: for every level j in the window and every
         finer level k:  E_k <= floor_k + A * E_j * 2^-(p*(k-j)),  A = 64 (4x the deepest dip observed).
    R-c  convergence to the right answer: E_last <= 1e-2 (inside or below the window, where R-a sees a constant
         error as slope 0) or, above the window, E_last <= E_first*2^-(3(p-1)); and E_last <= E_first + floor."""
    n = len(Es)
    usable = [k for k in range(n) if 4.0 * floors[k] <= Es[k] <= CEIL]
    slopes = [math.log2(Es[k] / Es[k + 1]) for k in usable if (k + 1) in usable]
    robust = None
    if len(slopes) >= 3:
        ss = sorted(slopes)
        robust = ss[(len(ss) - 1) // 2]
    elif len(slopes) == 2:
        robust = max(slopes)
    if robust is not None:
        ctx.stat_max("order_deficit_max(p - robust slope)", p - robust)
        ctx.stat_max("certified_order_max", robust)
        if not robust >= p - SLACK:
            raise Violation("%s: error does not shrink at the advertised order %g: errors at dt0/2^k = [%s], slopes [%s], "
                            "robust slope %.2f < %g-%.1f" % (what, p, ", ".join("%.3e" % e for e in Es),
                                                               ", ".join("%.2f" % x for x in slopes), robust, p, SLACK),
                            errors=Es, floors=floors, order=p, **details)
    for j in range(n - 1):
        a = Es[j]
        if not (floors[j] <= a <= CEIL):
            continue
        for k in range(j + 1, n):
            b = Es[k]
            bound = floors[k] + A_DIP * a * 2.0 ** (-p * (k - j))
            if b > 2 * floors[k]:
                ctx.stat_max("A_needed_max", (b - floors[k]) / (a * 2.0 ** (-p * (k - j))))
            if not b <= bound:
                raise Violation("%s: error does not shrink at the advertised order %g: E(dt0/%d)=%.3e -> "
                                "E(dt0/%d)=%.3e, observed order %.2f per halving (bound %.3e = floor + %g*E*2^-%g)"
                                % (what, p, 2 ** j, a, 2 ** k, b, math.log2(a / b) / (k - j) if b > 0 else 99.0,
                                   bound, A_DIP, p * (k - j)), errors=Es, floors=floors, order=p, **details)
    last, first = Es[-1], Es[0]
    # a system that amplifies errors strongly (comparable masses, 4 periods) can leave a low order scheme above the
    # window at the finest level; it must then at least have shrunk at order p-1 on average from the coarsest level
    # (a scheme stuck at a wrong trajectory has E_last = E_first)
    if not last <= max(CEIL, first * 2.0 ** (-(n - 1) * (p - 1.0))):
        raise Violation("%s: does not converge to the true solution: error %.3e at the finest step" % (what, last),
                        errors=Es, order=p, **details)
    if not last <= first + floors[-1]:
        raise Violation("%s: error at the finest step (%.3e) exceeds the error at the coarsest (%.3e)" % (what, last, first),
                        errors=Es, order=p, **details)
    return len(slopes) if robust is not None else 0


# ---------------------------------------------------------------------------------------------------------------
# case generation

def regime_system(regime, nmax, G=None):
    if regime == "R1":
        return S.hierarchical_system(nmin=3, nmax=nmax, mass_lo=1e-8, mass_hi=1e-7, emax=0.3, G=G)
    if regime == "R2":
        return S.hierarchical_system(nmin=3, nmax=nmax, mass_lo=3e-4, mass_hi=1e-3, emax=0.3, G=G)
    # comparable masses; separations >= ~3.5 in semi-major axis (collision-free over a few inner periods)
    return S.hierarchical_system(nmin=3, nmax=min(nmax, 4), mass_lo=0.01, mass_hi=0.1, emax=0.2, incmax=0.3,
                                 min_sep_hill=2.0, G=G)


def apply_tp(sysd, tp):
    """Turn the last particle into a test particle.  t0: massless, feels the active ones; t1: keeps its (small)
    mass and acts on the active ones ('MERCURY small particles')."""
    if tp == "none":
        return sysd
    d = dict(sysd)
    ps = [dict(p) for p in sysd["particles"]]
    d["N_active"] = len(ps) - 1
    if tp == "t0":
        ps[-1]["m"] = 0.0
        d["testparticle_type"] = 0
    else:
        d["testparticle_type"] = 1
    d["particles"] = ps
    return d


def saba_cfg(t, sm):
    return {"integrator": "saba", "set": [["ri_saba.type", t], ["ri_saba.safe_mode", sm]], "family": "saba"}


def eos_cfg(a, b, n, sm):
    return {"integrator": "eos", "family": "eos",
            "set": [["ri_eos.phi0", a], ["ri_eos.phi1", b], ["ri_eos.n", n], ["ri_eos.safe_mode", sm]]}


def whfast_cfg(c, k, co, c2, sm):
    return {"integrator": "whfast", "family": "whfast",
            "set": [["ri_whfast.coordinates", c], ["ri_whfast.kernel", k], ["ri_whfast.corrector", co],
                    ["ri_whfast.corrector2", c2], ["ri_whfast.safe_mode", sm]]}


def ias15fixed_cfg(m):
    return {"integrator": "ias15", "family": "ias15fixed",
            "set": [["ri_ias15.epsilon", 0.0], ["ri_ias15.adaptive_mode", m]]}


JANUS_SCALES = [1e-16, 1e-15, 1e-14]     # generated systems have |x| < 50, |v| < 20: |x|/scale, |v|/scale < 5e17 < 2^62


def janus_cfg(o, sp=1e-16, sv=1e-16):
    return {"integrator": "janus", "family": "janus",
            "set": [["ri_janus.order", o], ["ri_janus.scale_pos", sp], ["ri_janus.scale_vel", sv]]}


def mercurius_cfg(L, sm, rc):
    return {"integrator": "mercurius", "family": "mercurius",
            "set": [["ri_mercurius.L", L], ["ri_mercurius.safe_mode", sm], ["ri_mercurius.r_crit_hill", rc]]}


def trace_cfg(pm, sp):
    return {"integrator": "trace", "family": "trace", "set": [["ri_trace.S_peri", sp]], "peri_mode": pm}


EOS_N = [2, 3, 8]       # docs: with safe_mode=1 n must be > 1; n=1 is exercised with safe_mode=0 only


def full_lattice():
    """The documented option lattice of the fixed-step families, enumerated."""
    out = []
    for (c, k, co, c2) in S.whfast_lattice():
        for sm in (0, 1):
            out.append(whfast_cfg(c, k, co, c2, sm))
    for t in S.SABA_TYPES:
        for sm in (0, 1):
            out.append(saba_cfg(t, sm))
    for a in S.EOS_TYPES:
        for b in S.EOS_TYPES:
            for n, sm in ((1, 0), (2, 0), (2, 1), (3, 1), (8, 0)):
                out.append(eos_cfg(a, b, n, sm))
    out.append({"integrator": "leapfrog", "set": [], "family": "leapfrog"})
    for o in S.JANUS_ORDERS:
        for sp, sv in ((1e-16, 1e-16), (1e-16, 1e-14), (1e-14, 1e-16), (1e-15, 1e-14)):
            out.append(janus_cfg(o, sp, sv))
    for L in S.MERCURIUS_L:
        for sm in (0, 1):
            out.append(mercurius_cfg(L, sm, 3.0))
    for pm in S.TRACE_PERI:
        for sp in ("default", "none"):
            out.append(trace_cfg(pm, sp))
    for m in (0, 1, 2, 3):
        out.append(ias15fixed_cfg(m))
    return out


def fam_cfg(fam):
    """Strategy for one configuration of a fixed-step family (sampled from the documented lattice)."""
    if fam == "whfast":
        # coordinate system first (democratic heliocentric and WHDS have a single valid option combination each)
        lat = S.whfast_lattice()
        return st.sampled_from(["jacobi", "jacobi", "jacobi", "barycentric", "democraticheliocentric", "whds"]).flatmap(
            lambda c: st.builds(lambda t, sm: whfast_cfg(t[0], t[1], t[2], t[3], sm),
                                st.sampled_from([t for t in lat if t[0] == c]), st.sampled_from([0, 1])))
    if fam == "saba":
        return st.builds(saba_cfg, st.sampled_from(S.SABA_TYPES), st.sampled_from([0, 1]))
    if fam == "eos":
        return st.builds(lambda a, b, nsm: eos_cfg(a, b, nsm[0], nsm[1]), st.sampled_from(S.EOS_TYPES),
                         st.sampled_from(S.EOS_TYPES), st.sampled_from([(1, 0), (2, 0), (2, 1), (3, 1), (3, 0), (8, 0), (8, 1)]))
    if fam == "leapfrog":
        return st.just({"integrator": "leapfrog", "set": [], "family": "leapfrog"})
    if fam == "janus":
        return st.builds(janus_cfg, st.sampled_from(S.JANUS_ORDERS), st.sampled_from(JANUS_SCALES),
                         st.sampled_from(JANUS_SCALES))
    if fam == "mercurius":
        return st.builds(mercurius_cfg, st.sampled_from(S.MERCURIUS_L), st.sampled_from([0, 1]), st.sampled_from([3.0, 2.0, 4.0]))
    if fam == "trace":
        return st.builds(trace_cfg, st.sampled_from(S.TRACE_PERI), st.sampled_from(["default", "none"]))
    if fam == "ias15fixed":
        return st.builds(ias15fixed_cfg, st.sampled_from([0, 1, 2, 3]))
    raise KeyError(fam)


FAM_REGIMES = {"whfast": ["R1", "R2"], "saba": ["R1", "R2"], "eos": ["R2", "FB", "R1"], "leapfrog": ["R2", "FB"],
               "janus": ["R2", "FB"], "mercurius": ["R1", "R2"], "trace": ["R1", "R2"], "ias15fixed": ["R2", "FB"]}
FAM_WEIGHT = ["whfast"] * 6 + ["saba"] * 4 + ["eos"] * 4 + ["leapfrog", "janus", "janus", "mercurius", "mercurius",
                                                             "trace", "trace", "ias15fixed"]
TP_CHOICES = ["none", "none", "none", "t0", "t1"]


@st.composite
def order_case(draw, tier="quick"):
    fam = draw(st.sampled_from(FAM_WEIGHT))
    regime = draw(st.sampled_from(FAM_REGIMES[fam]))
    cfg = draw(fam_cfg(fam))
    nmax = 4 if tier == "quick" else draw(st.sampled_from([4, 4, 5, 6, 9]))
    if fam == "janus":
        nmax = 4            # default scale_pos=1e-16 holds |x| < 922 in int64
    if fam == "whfast" and cfg_get(cfg, "ri_whfast.coordinates") == "barycentric":
        # the Kepler step orbits the barycentre with the total mass: the perturbation is the offset of the barycentre
        # from the star, sum m_i a_i / M, in units of the innermost orbit.  With 5-6 planets of 1e-3 out to a=850 the
        # offset is ~1 and the scheme is nowhere near its asymptotic regime even at P/512 (measured errors O(10)..
        # O(100) of the system size, still decreasing): outside "perturbations to the Keplerian orbits are small".
        nmax = 4            # offset <= 0.03
    tp = draw(st.sampled_from(TP_CHOICES))
    sysd = draw(regime_system(regime, nmax))
    backward = draw(st.sampled_from([False, False, True]))
    norb = draw(st.sampled_from([2, 3, 4]))
    return {"regime": regime, "cfg": cfg, "system": sysd, "tp": tp, "backward": backward, "norb": norb}


# known finding: TRACE with dt<0 (DESIGN table row 12)
TRACE_BACKWARD = "C01-trace-backward"


def short(cfg):
    return ",".join("%s=%s" % (p.split(".")[-1], v) for p, v in cfg.get("set", [])) + \
        ((",peri_mode=" + cfg["peri_mode"]) if "peri_mode" in cfg else "")


def run_order(case, ctx):
    import warnings
    warnings.simplefilter("ignore")
    cfg = case["cfg"]
    fam = cfg["family"]
    regime = case["regime"]
    sysd = apply_tp(case["system"], case["tp"])
    backward = case["backward"]
    p = asserted_order(cfg, regime)
    dt0 = snap(sysd["P_min"] / dt0_div(cfg, regime))
    n0 = n0_for(case["norb"], sysd["P_min"], dt0)
    Es, refs, tdev = fixed_levels(sysd, cfg, dt0, n0, backward, cache=case.get("cache", False))
    ref = refs[-1]
    if outside_regime(sysd, ref, ctx):
        return
    floors = [floor_for(sysd, cfg, n0 * 2 ** k) for k in range(len(Es))]
    details = {"dt0": dt0, "n0": n0, "regime": regime}
    what = "%s %s %s%s%s" % (fam, short(cfg), regime, " backward" if backward else "",
                             (" tp=" + case["tp"]) if case["tp"] != "none" else "")
    anchors = check_rate(Es, floors, p, ctx, what, details)
    ctx.stat_max("t_deviation_in_units_of_n*eps*T", tdev)
    if tdev > 4.0:
        raise Violation("%s: sim.t deviates from n*dt by %.1f x n*eps*|T|" % (what, tdev), **details)
    ctx.cls("family:" + fam)
    ctx.cls("regime:" + regime)
    if fam == "whfast":
        ctx.cls("coord:" + cfg_get(cfg, "ri_whfast.coordinates"))
        if cfg_get(cfg, "ri_whfast.corrector"):
            ctx.cls("corrector:on")
        if cfg_get(cfg, "ri_whfast.corrector2"):
            ctx.cls("corrector2:on")
        if cfg_get(cfg, "ri_whfast.kernel") != "default":
            ctx.cls("kernel:" + cfg_get(cfg, "ri_whfast.kernel"))
    if case["tp"] != "none":
        ctx.cls("tp:" + case["tp"])
    if backward:
        ctx.cls("backward")
    if anchors and moved(sysd, ref) > 1e-3:
        ctx.nontrivial()
    elif max(Es) < floors[0]:
        ctx.cls("below_floor(all levels agree with the reference to the rounding floor)")
    else:
        ctx.cls("unmeasurable")


# ---------------------------------------------------------------------------------------------------------------
# enumerated lattice on a deterministic pool of systems

def pool_system(regime, idx):
    """Deterministic system number idx of a regime (own construction; N=3 or 4, G=1)."""
    rnd = random.Random(7919 * idx + {"R1": 1, "R2": 2, "FB": 3}[regime])
    n = 3 + (idx % 2)
    lo, hi = {"R1": (1e-8, 1e-7), "R2": (3e-4, 1e-3), "FB": (0.01, 0.1)}[regime]
    G, m0 = 1.0, 1.0
    parts = [{"m": m0, "x": 0.0, "y": 0.0, "z": 0.0, "vx": 0.0, "vy": 0.0, "vz": 0.0}]
    a = 1.0 + 0.3 * rnd.random()
    msum = m0
    pmin = pmax = None
    for i in range(1, n):
        m = math.exp(rnd.uniform(math.log(lo), math.log(hi)))
        e = rnd.uniform(0.0, 0.25 if regime != "FB" else 0.15)
        inc = rnd.uniform(0.0, 0.3)
        Om, om, f = (rnd.uniform(0, 2 * math.pi) for _ in range(3))
        mu = G * (msum + m)
        s = S.el2cart(mu, a, e, inc, Om, om, f)
        parts.append({"m": m, "x": s[0], "y": s[1], "z": s[2], "vx": s[3], "vy": s[4], "vz": s[5]})
        P = 2 * math.pi * math.sqrt(a ** 3 / mu)
        pmin = P if pmin is None else min(pmin, P)
        pmax = P if pmax is None else max(pmax, P)
        msum += m
        a *= rnd.uniform(1.7, 2.1) if regime != "FB" else rnd.uniform(3.5, 4.0)
    M = sum(p["m"] for p in parts)
    for k in ("x", "y", "z", "vx", "vy", "vz"):
        c = sum(p["m"] * p[k] for p in parts) / M
        for p in parts:
            p[k] -= c
    return {"G": G, "particles": parts, "P_min": pmin, "P_max": pmax}


def lattice_cases(tier):
    seed = int(os.environ.get("VERIF_SEED", "1") or 1)
    cfgs = full_lattice()
    out = []
    i = 0
    j = 0
    for cfg in cfgs:
        for regime in FAM_REGIMES[cfg["family"]]:
            for backward in (False, True):
                j += 1
                for tp in ("none", "t0", "t1"):
                    i += 1
                    if tier == "quick":
                        # seed-dependent 1/11 slice of the full product (11 is coprime to the 6 direction x test-particle
                        # combinations, so a slice mixes them); every configuration is visited by some seed
                        if (i + seed) % 11 != 0:
                            continue
                    elif tp != "none" and (j + seed) % 3 != {"t0": 0, "t1": 1}[tp]:
                        continue        # thorough: every combination without test particles, a third with each type
                    sysd = pool_system(regime, (j + seed) % 6 if tier != "quick" else (i // 11 + seed) % 6)
                    out.append({"regime": regime, "cfg": cfg, "system": sysd, "tp": tp, "backward": backward,
                                "norb": 3, "cache": True})
    return out


# ---------------------------------------------------------------------------------------------------------------
# adaptive schemes: IAS15 (adaptive modes) and BS (tolerances)

IAS15_CLASS = 1e-12      # "accurate down to machine precision": scaled error after <= 6 inner periods (x H x sqrt(periods)); measured <= 6e-15
BS_K = 1e3               # error <= BS_K * eps_rel * inner periods (+ floor), DESIGN
STEP_CAP = 200000        # an adaptive run of <= 6 inner periods needs 1e2..1e4 steps


@st.composite
def adaptive_case(draw, tier="quick"):
    fam = draw(st.sampled_from(["ias15", "ias15", "bs"]))
    regime = draw(st.sampled_from(["R2", "FB"]))
    nmax = 4 if tier == "quick" else draw(st.sampled_from([4, 5, 6]))
    sysd = draw(regime_system(regime, nmax))
    d = {"family": fam, "regime": regime, "system": sysd, "tp": draw(st.sampled_from(TP_CHOICES)),
         "backward": draw(st.sampled_from([False, False, True])), "norb": draw(st.sampled_from([2, 4, 6])),
         "dt_frac": draw(st.sampled_from([0.001, 0.01, 0.05]))}
    if fam == "ias15":
        d["mode"] = draw(st.sampled_from([0, 1, 2, 3]))
    else:
        d["eps"] = draw(st.sampled_from([1e-8, 1e-10]))
    return d


def run_adaptive(case, ctx):
    import warnings
    from ..oracles import c01_ref
    warnings.simplefilter("ignore")
    fam = case["family"]
    sysd = apply_tp(case["system"], case["tp"])
    sgn = -1.0 if case["backward"] else 1.0
    T = sgn * snap(case["norb"] * sysd["P_min"])
    ref = c01_ref.reference(ref_spec(sysd), [T])[0]
    H = hierarchy(sysd)
    if outside_regime(sysd, ref, ctx):
        return

    class Collapse(Exception):
        pass

    def run(eps):
        if fam == "ias15":
            cfg = {"integrator": "ias15", "set": [["ri_ias15.epsilon", eps], ["ri_ias15.adaptive_mode", case["mode"]]]}
        else:
            cfg = {"integrator": "bs", "set": [["ri_bs.eps_rel", eps], ["ri_bs.eps_abs", eps]]}
        sim = setup(sysd, cfg)
        sim.dt = sgn * case["dt_frac"] * sysd["P_min"]
        count = [0]

        def hb(_):
            count[0] += 1
            if count[0] > STEP_CAP:
                sim.stop()
        sim.heartbeat = hb
        try:
            sim.integrate(T)
        except RuntimeError as ex:
            raise Violation("%s eps=%g: the integrator reports an error on valid input: %s" % (fam, eps, ex))
        if count[0] > STEP_CAP:
            raise Collapse()
        if sim.t != T:
            raise Violation("%s: integrate(%r) returned at t=%r" % (fam, T, sim.t))
        E, _ = state_error(sim, ref)
        n = sim.steps_done
        return E, n

    # IAS15: the default epsilon=1e-9 is the advertised setting ("machine precision"); it is compared with the
    # looser 1e-8.  BS: eps and eps/100.
    loose, tight = (1e-8, 1e-9) if fam == "ias15" else (case["eps"], case["eps"] / 100.0)
    what = "%s %s%s%s" % (fam, ("mode=%d " % case["mode"]) if fam == "ias15" else "", case["regime"],
                          " backward" if case["backward"] else "")
    try:
        El, nl = run(loose)
        Et, nt = run(tight)
    except Collapse:
        # the step size collapsed (> STEP_CAP steps for a few orbits): no state at T to compare; not an accuracy
        # statement (observed for adaptive_mode=0 when an acceleration component passes through zero)
        ctx.cls("step_collapse:%s" % (("ias15 mode %d" % case["mode"]) if fam == "ias15" else "bs"))
        return
    if fam == "ias15":
        bound = IAS15_CLASS * H * math.sqrt(case["norb"])
        ctx.stat_max("ias15_error/class_bound", Et / bound)
        if not Et <= bound:
            raise Violation("%s: error %.3e with the default epsilon exceeds the advertised accuracy class %.3e"
                            % (what, Et, bound), steps=nt, H=H)
    else:
        for e_, E_, n_ in ((loose, El, nl), (tight, Et, nt)):
            bound = FLOOR * H + BS_K * e_ * case["norb"]
            ctx.stat_max("bs_error/class_bound", E_ / bound)
            if not E_ <= bound:
                raise Violation("%s: error %.3e with eps=%g exceeds the advertised accuracy class %.3e"
                                % (what, E_, e_, bound), steps=n_, H=H)
    fl = max(FLOOR, KR * EPS * H * math.sqrt(8.0 * max(nl, nt)))
    ctx.stat_max("%s_tightened/(2*loose+floor)" % fam, Et / (2 * El + fl))
    if tight < 1e-10:
        pass        # BS at eps=1e-12 is limited by rounding, not by the tolerance: only the class bound is asserted
    elif not Et <= 2 * El + fl:
        raise Violation("%s: tightening the tolerance from %g to %g increases the error from %.3e to %.3e"
                        % (what, loose, tight, El, Et), H=H)
    ctx.cls("family:" + fam)
    if case["backward"]:
        ctx.cls("backward")
    if case["tp"] != "none":
        ctx.cls("tp:" + case["tp"])
    if moved(sysd, ref) > 1e-3:
        ctx.nontrivial()


# ---------------------------------------------------------------------------------------------------------------
# user-defined ODEs advanced together with the N-body system

@st.composite
def ode_case(draw, tier="quick"):
    nb = draw(st.sampled_from(["bs", "bs", "ias15", "whfast"]))
    sysd = draw(regime_system("R2", 3))
    forced = nb == "bs" and draw(st.booleans())
    return {"nbody": nb, "system": sysd, "w_frac": draw(S.floats(0.3, 3.0)), "c": draw(S.floats(0.1, 2.0)) if forced else 0.0,
            "k": draw(st.integers(0, 2)), "u0": draw(S.floats(-1.0, 1.0)), "ud0": draw(S.floats(-1.0, 1.0)),
            "eps": draw(st.sampled_from([1e-8, 1e-10])), "norb": draw(st.sampled_from([2, 3])),
            "backward": draw(st.sampled_from([False, False, True]))}


def run_ode(case, ctx):
    import warnings
    from ..oracles import c01_ref
    warnings.simplefilter("ignore")
    sysd = case["system"]
    nb = case["nbody"]
    n_orb = 2 * math.pi / sysd["P_min"]
    w = case["w_frac"] * n_orb
    c = case["c"] * w * w       # forcing comparable to the restoring term at |x| ~ |u|
    k = case["k"] % len(sysd["particles"])
    u0, ud0 = case["u0"], case["ud0"] * w
    if abs(u0) + abs(case["ud0"]) < 0.05:
        u0 = 0.5
    sgn = -1.0 if case["backward"] else 1.0
    T = sgn * snap(case["norb"] * sysd["P_min"])
    ref = c01_ref.reference(ref_spec(sysd, {"ode": {"w": w, "c": c, "k": k, "u0": u0, "ud0": ud0}}), [T])[0]
    eps = case["eps"]

    def run(eps):
        if nb == "bs":
            cfg = {"integrator": "bs", "set": []}
        elif nb == "ias15":
            cfg = {"integrator": "ias15", "set": []}
        else:
            cfg = {"integrator": "whfast", "set": []}
        sim = setup(sysd, cfg)
        sim.ri_bs.eps_rel = eps
        sim.ri_bs.eps_abs = eps
        ode = sim.create_ode(length=2, needs_nbody=(c != 0.0))

        def deriv(o, yDot, y, t):
            yDot[0] = y[1]
            f = -w * w * y[0]
            if c != 0.0:
                f += c * o.contents.r.contents.particles[k].x
            yDot[1] = f
        ode.derivatives = deriv
        ode.y[0] = u0
        ode.y[1] = ud0
        sim.dt = sgn * (sysd["P_min"] / 64.0 if nb == "whfast" else 0.01 * sysd["P_min"])
        count = [0]

        def hb(_):
            count[0] += 1
            if count[0] > STEP_CAP:
                sim.stop()
        sim.heartbeat = hb
        try:
            sim.integrate(T)
        except RuntimeError as ex:
            raise Violation("ode/%s eps=%g: the integrator reports an error on valid input: %s" % (nb, eps, ex))
        if count[0] > STEP_CAP:
            raise Violation("ode/%s eps=%g: more than %d steps for %d inner periods (step size collapsed to %r)"
                            % (nb, eps, STEP_CAP, case["norb"], sim.dt))
        if sim.t != T:
            raise Violation("ode/%s: integrate(%r) returned at t=%r" % (nb, T, sim.t))
        U = max(abs(ref["u"][0][0]), abs(ref["u"][1][0]) / w, abs(u0), abs(ud0) / w)
        eu = max(abs(c01_ref.diff(ode.y[0], ref["u"][0])), abs(c01_ref.diff(ode.y[1], ref["u"][1])) / w) / U
        en, _ = state_error(sim, ref)
        return eu, en, sim.steps_done

    eu, en, n1 = run(eps)
    what = "ode with %s N-body, eps=%g%s%s" % (nb, eps, " forced" if c else "", " backward" if case["backward"] else "")
    osc = case["norb"] * max(1.0, case["w_frac"])        # oscillation / orbit count
    bound = FLOOR + BS_K * eps * osc
    ctx.stat_max("ode_error/class_bound", eu / bound)
    if not eu <= bound:
        raise Violation("%s: oscillator error %.3e exceeds %.3e" % (what, eu, bound), nbody_error=en)
    if eps >= 1e-8:      # BS at eps=1e-12 is limited by rounding, not by the tolerance: only 1e-8 -> 1e-10 is compared
        eu2, en2, n2 = run(eps / 100.0)
        fl = max(FLOOR, KR * EPS * math.sqrt(8.0 * max(n1, n2)) * 10)
        ctx.stat_max("ode_tightened/(2*loose+floor)", eu2 / (2 * eu + fl))
        if not eu2 <= 2 * eu + fl:
            raise Violation("%s: tightening the tolerance 100x increases the oscillator error from %.3e to %.3e" % (what, eu, eu2))
    if nb == "bs":
        nb_bound = FLOOR * hierarchy(sysd) + BS_K * eps * case["norb"]
        if not en <= nb_bound:
            raise Violation("%s: N-body error %.3e exceeds %.3e when advanced together with the ODE" % (what, en, nb_bound))
        ctx.cls("coupled_bs")
    else:
        ctx.cls("decoupled")
        # the N-body part must be what it is without the ODE (second order WH at P/64: <= 1e-3; IAS15: class)
        if nb == "ias15" and not en <= IAS15_CLASS * hierarchy(sysd) * math.sqrt(case["norb"]):
            raise Violation("%s: IAS15 N-body error %.3e with a user ODE attached" % (what, en))
        if nb == "whfast" and not en <= 1e-3:
            raise Violation("%s: WHFast N-body error %.3e with a user ODE attached" % (what, en))
    if c:
        ctx.cls("forced")
    ctx.nontrivial()


# ---------------------------------------------------------------------------------------------------------------
# SEI in the shearing sheet (Hill's equations)

@st.composite
def sei_case(draw, tier="quick"):
    n = draw(st.integers(1, 3))
    OM = draw(st.sampled_from([1.0, 1.0, 0.7, 2.0]))
    OMZ = draw(st.sampled_from([None, None, 1.3]))
    free = draw(st.sampled_from([False, False, True]))
    parts = []
    for i in range(n):
        x = draw(S.floats(-1.0, 1.0)) + 3.0 * i        # separated in x by >= 1
        parts.append({"m": 0.0 if free else draw(S.logfloats(1e-6, 1e-4)), "x": x, "y": draw(S.floats(-1.0, 1.0)),
                      "z": draw(S.floats(-0.2, 0.2)), "vx": draw(S.floats(-0.1, 0.1)),
                      "vy": -1.5 * OM * x + draw(S.floats(-0.1, 0.1)), "vz": draw(S.floats(-0.1, 0.1))})
    return {"OMEGA": OM, "OMEGAZ": OMZ, "particles": parts, "G": draw(st.sampled_from([1.0, 0.5])),
            "softening": draw(st.sampled_from([0.0, 0.0, 0.05])), "norb": draw(st.sampled_from([1, 2])),
            "backward": draw(st.sampled_from([False, False, True])), "free": free}


def run_sei(case, ctx):
    import warnings
    from .. import rb
    from ..oracles import c01_ref
    warnings.simplefilter("ignore")
    OM = case["OMEGA"]
    OMZ = case["OMEGAZ"] if case["OMEGAZ"] is not None else OM
    sysd = {"G": case["G"], "particles": case["particles"], "softening": case["softening"]}
    P = 2 * math.pi / OM
    dt0 = snap(P / 32.0)
    n0 = n0_for(case["norb"], P, dt0)

    def mk(sysd_, cfg_):
        sim = rb.new_sim({"G": sysd["G"], "particles": sysd["particles"], "softening": sysd["softening"]})
        sim.integrator = "sei"
        sim.ri_sei.OMEGA = OM
        if case["OMEGAZ"] is not None:
            sim.ri_sei.OMEGAZ = OMZ
        if case["free"]:
            sim.gravity = "none"
        return sim
    cfg = {"family": "sei", "set": []}
    def LV(ref):
        # in the rotating frame a particle can be (nearly) at rest: velocities are scaled by at least OMEGA*L
        L, V = scales(ref)
        L = max(L, 1.0)
        return L, max(V, OM * L)
    Es, refs, tdev = fixed_levels(sysd, cfg, dt0, n0, case["backward"], mk=mk, LV=LV,
                                  rspec=ref_spec(sysd, {"mode": "hill", "OMEGA": OM, "OMEGAZ": OMZ}))
    H = hierarchy(sysd) if len(sysd["particles"]) > 1 else 1.0
    floors = [max(FLOOR, KR * EPS * 10 * H * math.sqrt(2.0 * n0 * 2 ** k)) for k in range(len(Es))]
    what = "sei OMEGA=%g%s%s" % (OM, " free" if case["free"] else "", " backward" if case["backward"] else "")
    if case["free"]:
        # without interactions SEI solves Hill's equations exactly: rounding only
        ctx.stat_max("sei_free_error/floor", max(e / f for e, f in zip(Es, floors)))
        for e, f in zip(Es, floors):
            if not e <= f:
                raise Violation("%s: non-interacting particles are not on the exact epicycle: error %.3e" % (what, e), errors=Es)
        ctx.cls("free")
        ctx.nontrivial()
        return
    anchors = check_rate(Es, floors, 2, ctx, what, {"dt0": dt0, "n0": n0})
    ctx.cls("selfgravity")
    if anchors:
        ctx.nontrivial()
    else:
        ctx.cls("below_floor")


# ---------------------------------------------------------------------------------------------------------------
# WHFast512 (AVX512 build)

@st.composite
def whfast512_case(draw, tier="quick"):
    ns = draw(st.sampled_from([1, 1, 2, 4]))
    regime = draw(st.sampled_from(["R1", "R2"]))
    npl = draw(st.integers(2, {1: 8, 2: 4, 4: 2}[ns]))
    # the systems integrated in parallel are independent: equal or different central masses
    stars = [draw(st.sampled_from([1.0, 0.5, 2.0, 1.3]))] * ns
    if ns > 1 and draw(st.booleans()):
        stars = [draw(st.sampled_from([1.0, 0.5, 2.0, 1.3])) for _ in range(ns)]
    systems = [draw(S.hierarchical_system(nmin=npl + 1, nmax=npl + 1, G=1.0, star_mass=stars[i],
                                          mass_lo=1e-8 if regime == "R1" else 3e-4,
                                          mass_hi=1e-7 if regime == "R1" else 1e-3)) for i in range(ns)]
    return {"N_systems": ns, "regime": regime, "systems": systems, "norb": draw(st.sampled_from([2, 3])),
            "gr": 0}


# finding: the jump step of WHFast512 uses the mass of star 0 for all systems integrated in parallel
WHFAST512_STARMASS = "C01-whfast512-jump-star-mass"


def run_whfast512(case, ctx):
    import warnings
    from .. import build, rb
    from ..oracles import c01_ref
    warnings.simplefilter("ignore")
    if not build.has_avx512():
        ctx.skip("no AVX512 on this machine")
        return
    ns = case["N_systems"]
    systems = case["systems"]
    if ns > 1 and len({s["particles"][0]["m"] for s in systems}) > 1 and ctx.finding_open(WHFAST512_STARMASS):
        ctx.excluded(WHFAST512_STARMASS)
        return
    Pmin = min(s["P_min"] for s in systems)
    dt0 = snap(Pmin / 16.0)
    n0 = max(2, int(round(case["norb"] * Pmin / dt0)))
    T = dt0 * n0
    refs = [c01_ref.reference(ref_spec(s), [T])[0] for s in systems]
    allp = [p for s in systems for p in s["particles"]]
    cfg = {"family": "whfast512", "set": []}
    Es = []
    for k in range(LEVELS):
        sim = rb.new_sim({"G": 1.0, "particles": allp, "exact_finish_time": 0})      # documented requirement
        sim.integrator = "whfast512"
        sim.ri_whfast512.N_systems = ns
        sim.dt = dt0 / 2 ** k
        sim.steps(n0 * 2 ** k)
        sim.synchronize()
        E = 0.0
        off = 0
        for s, ref in zip(systems, refs):
            n = len(s["particles"])
            L, V = scales(ref)
            for i in range(n):
                p = sim.particles[off + i]
                st_ = (p.x, p.y, p.z, p.vx, p.vy, p.vz)
                for c in range(6):
                    if not math.isfinite(st_[c]):
                        E = float("inf")
                    else:
                        E = max(E, abs(c01_ref.diff(st_[c], ref["p"][i][c])) / (L if c < 3 else V))
            off += n
        Es.append(E)
        del sim
    H = max(hierarchy(s) for s in systems)
    floors = [max(FLOOR, KR * EPS * H * math.sqrt(2.0 * n0 * 2 ** k)) for k in range(LEVELS)]
    what = "whfast512 N_systems=%d %s" % (ns, case["regime"])
    anchors = check_rate(Es, floors, 2, ctx, what, {"dt0": dt0, "n0": n0})
    ctx.cls("N_systems:%d" % ns)
    if anchors:
        ctx.nontrivial()


# ---------------------------------------------------------------------------------------------------------------
# TRACE through pericentre switches (eccentric inner planet, steps coarse enough that S_peri fires)

TRACE_FULLBS = "C01-trace-fullbs-overshoot"
TRACE_K = 10.0
TRACE_K_PARTIAL = 100.0


@st.composite
def trace_peri_case(draw, tier="quick"):
    e = draw(S.floats(0.5, 0.9))
    m1 = draw(S.logfloats(1e-6, 1e-3))
    m2 = draw(S.logfloats(1e-6, 1e-3))
    G = draw(st.sampled_from([1.0, 4 * math.pi ** 2]))
    a2 = draw(S.floats(4.0, 6.0))
    ang = [draw(S.angles) for _ in range(6)]
    inc = draw(S.floats(0.0, 0.3))
    parts = [{"m": 1.0, "x": 0.0, "y": 0.0, "z": 0.0, "vx": 0.0, "vy": 0.0, "vz": 0.0}]
    s = S.el2cart(G * (1.0 + m1), 1.0, e, inc, ang[0], ang[1], ang[2])
    parts.append({"m": m1, "x": s[0], "y": s[1], "z": s[2], "vx": s[3], "vy": s[4], "vz": s[5]})
    s = S.el2cart(G * (1.0 + m1 + m2), a2, 0.05, 0.05, ang[3], ang[4], ang[5])
    parts.append({"m": m2, "x": s[0], "y": s[1], "z": s[2], "vx": s[3], "vy": s[4], "vz": s[5]})
    M = sum(p["m"] for p in parts)
    for k in ("x", "y", "z", "vx", "vy", "vz"):
        c = sum(p["m"] * p[k] for p in parts) / M
        for p in parts:
            p[k] -= c
    P = 2 * math.pi / math.sqrt(G * (1.0 + m1))
    return {"system": {"G": G, "particles": parts, "P_min": P, "P_max": P * a2 ** 1.5},
            "peri_mode": draw(st.sampled_from(S.TRACE_PERI)), "div": draw(st.sampled_from([16, 24, 32, 48])),
            "norb": draw(st.sampled_from([2, 3])), "backward": draw(st.sampled_from([False, False, True])), "e": e}


def run_trace_peri(case, ctx):
    """TRACE integrates the steps flagged by the pericentre criterion with BS (whole system or Kepler part) or IAS15
    instead of Wisdom-Holman.  Switching itself costs accuracy (measured on the repaired tree: 1e-3 against 2e-5
    without switching at e=0.6, dt=P/32, identical for the three modes), so no bound relative to plain WH is
    asserted.  Asserted, with every error measured against the reference:
      modes      FULL_BS and FULL_IAS15 flag the same steps and integrate them to tolerance: their errors are within
                 a factor TRACE_K of each other (PARTIAL_BS: within TRACE_K_PARTIAL of the FULL modes);
      direction  a run with dt<0 from z has the same error as the run with dt>0 from the velocity-reversed state
                 (the equations are even in the velocities; reference by symmetry) within a factor TRACE_K;
      time       the run ends at n*dt with finite coordinates."""
    import warnings
    from ..oracles import c01_ref
    warnings.simplefilter("ignore")
    sysd = case["system"]
    backward = case["backward"]
    if backward and ctx.finding_open(TRACE_BACKWARD):
        ctx.excluded(TRACE_BACKWARD)
        return
    sgn = -1.0 if backward else 1.0
    dt = snap(sysd["P_min"] / case["div"])
    n = NSEG * max(1, int(round(case["norb"] * case["div"] / NSEG)))
    times = [sgn * dt * (n // NSEG) * (s + 1) for s in range(NSEG)]
    refs = c01_ref.reference(ref_spec(sysd), times)

    def flip(sd):
        d = dict(sd)
        d["particles"] = [dict(p, vx=-p["vx"], vy=-p["vy"], vz=-p["vz"]) for p in sd["particles"]]
        return d

    def flipref(r):
        return {"p": [[c if i < 3 else [-c[0], -c[1]] for i, c in enumerate(pp)] for pp in r["p"]]}

    def run(pm, sd, sg, rf):
        sim = setup(sd, trace_cfg(pm, "default"))
        sim.dt = sg * dt
        E = 0.0
        switched = 0
        for s in range(NSEG):
            for _ in range(n // NSEG):
                sim.steps(1)
                switched += 1 if sim.ri_trace._current_C else 0
            sim.synchronize()
            e, _ = state_error(sim, rf[s])
            E = max(E, e)
        tend = sg * dt * n
        if abs(sim.t - tend) > 4 * n * EPS * abs(tend):
            raise Violation("trace %s: %d steps of %r ended at t=%r" % (pm, n, sg * dt, sim.t))
        return E, switched

    mode = case["peri_mode"]
    skip_fullbs = ctx.finding_open(TRACE_FULLBS)
    if mode == "FULL_BS" and skip_fullbs:
        ctx.excluded(TRACE_FULLBS)
        return
    E, nsw = run(mode, sysd, sgn, refs)
    if nsw == 0:
        ctx.cls("no_switch")
        return
    what = "trace peri_mode=%s e=%.2f dt=P/%d%s" % (mode, case["e"], case["div"], " backward" if backward else "")
    fl = max(FLOOR, KR * EPS * hierarchy(sysd) * math.sqrt(2.0 * n)) * 100
    others = {}
    for pm in ("FULL_BS", "FULL_IAS15"):
        if pm != mode and not (pm == "FULL_BS" and skip_fullbs):
            others[pm], _ = run(pm, sysd, sgn, refs)
    # FULL_BS and FULL_IAS15 differ only in the integrator used for the flagged steps (both to tolerance): factor
    # TRACE_K.  PARTIAL_BS keeps the Wisdom-Holman interaction kick in flagged steps: a different scheme whose error
    # was measured between 1/14 and 3 times the FULL error; it is only required to stay within TRACE_K_PARTIAL.
    K = TRACE_K if mode != "PARTIAL_BS" else TRACE_K_PARTIAL
    best = min(others.values()) if others else E
    ctx.stat_max("E_%s/(K*E_full+floor)" % ("full" if mode != "PARTIAL_BS" else "partial"), E / (K * best + fl))
    if mode == "PARTIAL_BS":
        ctx.stat_max("E_partial/E_full", E / max(best, fl))
        ctx.stat_max("E_full/E_partial", best / max(E, fl))
    if not E <= K * best + fl:
        raise Violation("%s: error against the true solution %.3e (pericentre switching in %d of %d steps); the FULL "
                        "modes integrate the same steps with errors %s" % (what, E, nsw, n,
                        ", ".join("%s %.3e" % kv for kv in sorted(others.items()))), E=E, others=others)
    if backward:
        Ef, _ = run(mode, flip(sysd), 1.0, [flipref(r) for r in refs])
        ctx.stat_max("E_backward/(K*E_forward_of_reversed+floor)", E / (TRACE_K * Ef + fl))
        if not E <= TRACE_K * Ef + fl:
            raise Violation("%s: error %.3e with dt<0, but %.3e for the same trajectory run with dt>0 from the "
                            "velocity-reversed state" % (what, E, Ef), E_backward=E, E_forward_reversed=Ef)
        ctx.cls("backward")
    ctx.cls("peri_mode:" + mode)
    ctx.nontrivial()


# ---------------------------------------------------------------------------------------------------------------
# two legs on one simulation: a few steps with configuration A, then the user switches to configuration B

TWO_LEG_B = ["whfast"] * 8 + ["saba", "saba", "eos", "eos", "leapfrog", "janus", "mercurius", "trace", "ias15fixed"]


def whfast_cfg_uniform_coords():
    lat = S.whfast_lattice()
    return st.sampled_from(S.WH_COORDS).flatmap(
        lambda c: st.builds(lambda t, sm: whfast_cfg(t[0], t[1], t[2], t[3], sm),
                            st.sampled_from([t for t in lat if t[0] == c]), st.sampled_from([0, 1])))


@st.composite
def two_leg_case(draw, tier="quick"):
    famB = draw(st.sampled_from(TWO_LEG_B))
    famA = draw(st.sampled_from(FAM_WEIGHT))
    cfgB = draw(whfast_cfg_uniform_coords() if famB == "whfast" else fam_cfg(famB))
    cfgA = draw(whfast_cfg_uniform_coords() if famA == "whfast" else fam_cfg(famA))
    regime = draw(st.sampled_from([r for r in FAM_REGIMES[famB] if r in FAM_REGIMES[famA]] or FAM_REGIMES[famB]))
    sysd = draw(regime_system(regime, 4))
    return {"regime": regime, "cfgA": cfgA, "cfgB": cfgB, "system": sysd, "n1": draw(st.integers(1, 6)),
            "backward": draw(st.sampled_from([False, False, True])), "norb": draw(st.sampled_from([2, 3]))}


def switch_to(sim, cfg):
    """What a user does to continue a synchronized simulation with another integrator configuration: select the
    integrator and its options, re-select the basic gravity routine (WHFast kernels / SABA correctors / MERCURIUS /
    TRACE / EOS leave their own routine selected and the library warns about it), and ask integrators that cache
    coordinates to recompute them (documented flags for safe_mode=0)."""
    from .. import rb
    sim.integrator = cfg["integrator"]
    sim.gravity = "basic"
    if cfg["family"] == "saba":
        # SABA uses WHFast's machinery and requires its default options (Jacobi coordinates)
        sim.ri_whfast.coordinates = "jacobi"
        sim.ri_whfast.kernel = "default"
        sim.ri_whfast.corrector = 0
        sim.ri_whfast.corrector2 = 0
    for path, val in cfg.get("set", []):
        rb.setpath(sim, path, val)
    if "peri_mode" in cfg:
        set_peri_mode(sim, cfg["peri_mode"])
    sim.ri_whfast.recalculate_coordinates_this_timestep = 1
    sim.ri_mercurius.recalculate_coordinates_this_timestep = 1
    sim.ri_mercurius.recalculate_r_crit_this_timestep = 1
    sim.ri_janus.recalculate_integer_coordinates_this_timestep = 1


def run_two_leg(case, ctx):
    """Leg 1: n1 steps of P/32 with configuration A, synchronize.  The synchronized state is the initial condition of
    the reference, so the error of leg 1 does not enter.  Leg 2: switch to configuration B and measure its
    convergence exactly as in 'order'."""
    import warnings
    warnings.simplefilter("ignore")
    cfgA, cfgB = case["cfgA"], case["cfgB"]
    regime = case["regime"]
    sysd = case["system"]
    backward = case["backward"]
    sgn = -1.0 if backward else 1.0
    dtA = snap(sysd["P_min"] / 32.0)
    what = "%s %s after %d steps of %s %s, %s%s" % (cfgB["family"], short(cfgB), case["n1"], cfgA["family"], short(cfgA),
                                                    regime, " backward" if backward else "")

    def mk(_sysd, _cfg):
        sim = setup(sysd, cfgA)
        sim.dt = sgn * dtA
        try:
            sim.steps(case["n1"])
            sim.synchronize()
            switch_to(sim, cfgB)
        except RuntimeError as ex:
            raise Violation("%s: the library reports an error on valid input: %s" % (what, ex))
        return sim

    sim = mk(None, None)
    t1 = sim.t
    mid = {"G": sysd["G"], "P_min": sysd["P_min"], "P_max": sysd["P_max"],
           "particles": [{"m": p.m, "x": p.x, "y": p.y, "z": p.z, "vx": p.vx, "vy": p.vy, "vz": p.vz}
                         for p in [sim.particles[i] for i in range(sim.N)]]}
    del sim
    for q, q0 in zip(mid["particles"], sysd["particles"]):
        # (barycentric WHFast recomputes the stellar mass as total minus planets: 1 ulp; the reference uses the
        # masses as read back)
        if abs(q["m"] - q0["m"]) > 1e-14 * abs(q0["m"]) or not all(math.isfinite(q[k]) for k in ("x", "y", "z", "vx", "vy", "vz")):
            raise Violation("%s: leg 1 changed a mass or produced a non-finite coordinate" % what)
    p = asserted_order(cfgB, regime)
    dt0 = snap(sysd["P_min"] / dt0_div(cfgB, regime))
    n0 = n0_for(case["norb"], sysd["P_min"], dt0)
    Es, refs, tdev = fixed_levels(mid, cfgB, dt0, n0, backward, mk=mk, rspec=ref_spec(mid), t_offset=t1)
    if outside_regime(mid, refs[-1], ctx):
        return
    floors = [floor_for(mid, cfgB, n0 * 2 ** k) for k in range(len(Es))]
    anchors = check_rate(Es, floors, p, ctx, what, {"dt0": dt0, "n0": n0, "regime": regime, "t1": t1})
    if tdev > 4.0:
        raise Violation("%s: sim.t deviates from t1 + n*dt by %.1f x n*eps*|t|" % (what, tdev))
    ctx.cls("B:" + cfgB["family"])
    ctx.cls("A:" + cfgA["family"])
    if cfgB["family"] == "whfast":
        ctx.cls("B:coord:" + cfg_get(cfgB, "ri_whfast.coordinates"))
    if cfgA["family"] == "whfast":
        ctx.cls("A:coord:" + cfg_get(cfgA, "ri_whfast.coordinates"))
    if backward:
        ctx.cls("backward")
    if anchors and moved(mid, refs[-1]) > 1e-3:
        ctx.nontrivial()
    elif max(Es) < floors[0]:
        ctx.cls("below_floor")
    else:
        ctx.cls("unmeasurable")


# ---------------------------------------------------------------------------------------------------------------
# life cycle of user ODEs coupled to particle data (BS advances N-body and user ODEs together)

K_ODE = 30.0     # oscillator error <= K_ODE * eps * oscillations (measured <= 0.3 * eps * oscillations)


@st.composite
def ode_life_case(draw, tier="quick"):
    sysd = draw(regime_system("R2", 3))
    n = draw(st.integers(1, 2 if tier == "quick" else 3))
    odes = []
    for _ in range(n):
        odes.append({"w_frac": draw(S.floats(0.3, 3.0)), "c": draw(S.floats(0.2, 2.0)), "k": draw(st.integers(0, 2)),
                     "u0": draw(S.floats(-1.0, 1.0)), "ud0": draw(S.floats(-1.0, 1.0)),
                     # start: coupled (needs_nbody=True, forced RHS) from its creation before the first step
                     # flip : created before the first step uncoupled (needs_nbody=False, free RHS); after leg 1 the
                     #        RHS is switched to the forced one and needs_nbody set to True
                     # late : created after leg 1, coupled
                     "life": draw(st.sampled_from(["start", "flip", "flip", "late"]))})
    return {"system": sysd, "odes": odes, "leg1": draw(S.floats(0.2, 1.5)), "norb": draw(st.sampled_from([2, 3])),
            "backward": draw(st.sampled_from([False, False, True])), "dt_frac": draw(st.sampled_from([0.01, 0.05]))}


def run_ode_life(case, ctx):
    """Leg 1 (always eps=1e-10) up to T1 with the generated life cycle, then every ODE is a forced oscillator
    u'' = -w^2 u + c x_k(t) with needs_nbody=True.  The state read back at T1 (particles and every ODE's y) is the
    initial condition of the reference (one reference run per ODE), so only leg 2 is measured: its error must be in
    the tolerance class for eps=1e-8 and 1e-10 and must not grow when eps is tightened."""
    import warnings
    from ..oracles import c01_ref
    warnings.simplefilter("ignore")
    sysd = case["system"]
    n_orb = 2 * math.pi / sysd["P_min"]
    sgn = -1.0 if case["backward"] else 1.0
    T1 = sgn * snap(case["leg1"] * sysd["P_min"])
    T2 = T1 + sgn * snap(case["norb"] * sysd["P_min"])
    specs = []
    for o in case["odes"]:
        w = o["w_frac"] * n_orb
        u0, ud0 = o["u0"], o["ud0"] * w
        if abs(o["u0"]) + abs(o["ud0"]) < 0.05:
            u0 = 0.5
        specs.append({"w": w, "c": o["c"] * w * w, "k": o["k"] % len(sysd["particles"]), "u0": u0, "ud0": ud0,
                      "life": o["life"]})
    lives = "+".join(sp["life"] for sp in specs)

    def rhs(sp, forced):
        w, c, k = sp["w"], sp["c"], sp["k"]

        def deriv(o, yDot, y, t):
            yDot[0] = y[1]
            f = -w * w * y[0]
            if forced:
                f += c * o.contents.r.contents.particles[k].x
            yDot[1] = f
        return deriv

    def run(eps, want_mid=False):
        sim = setup(sysd, {"integrator": "bs", "set": []})
        sim.ri_bs.eps_rel = 1e-10
        sim.ri_bs.eps_abs = 1e-10
        sim.dt = sgn * case["dt_frac"] * sysd["P_min"]
        count = [0]

        def hb(_):
            count[0] += 1
            if count[0] > STEP_CAP:
                sim.stop()
        sim.heartbeat = hb
        handles = [None] * len(specs)
        for i, sp in enumerate(specs):
            if sp["life"] == "late":
                continue
            coupled = sp["life"] == "start"
            ode = sim.create_ode(length=2, needs_nbody=coupled)
            ode.derivatives = rhs(sp, coupled)
            ode.y[0], ode.y[1] = sp["u0"], sp["ud0"]
            handles[i] = ode
        try:
            sim.integrate(T1)
            for i, sp in enumerate(specs):
                if sp["life"] == "late":
                    ode = sim.create_ode(length=2, needs_nbody=True)
                    ode.derivatives = rhs(sp, True)
                    ode.y[0], ode.y[1] = sp["u0"], sp["ud0"]
                    handles[i] = ode
                elif sp["life"] == "flip":
                    handles[i].derivatives = rhs(sp, True)
                    handles[i].needs_nbody = 1
            mid = None
            if want_mid:
                mid = ({"G": sysd["G"], "particles": [{"m": q.m, "x": q.x, "y": q.y, "z": q.z, "vx": q.vx, "vy": q.vy,
                                                       "vz": q.vz} for q in [sim.particles[j] for j in range(sim.N)]]},
                       [(h.y[0], h.y[1]) for h in handles])
            sim.ri_bs.eps_rel = eps
            sim.ri_bs.eps_abs = eps
            sim.integrate(T2)
        except RuntimeError as ex:
            raise Violation("ode life cycle %s eps=%g: the integrator reports an error on valid input: %s" % (lives, eps, ex))
        if count[0] > STEP_CAP:
            raise Violation("ode life cycle %s eps=%g: more than %d steps (step size collapsed to %r)" % (lives, eps, STEP_CAP, sim.dt))
        if sim.t != T2:
            raise Violation("ode life cycle %s: integrate(%r) returned at t=%r" % (lives, T2, sim.t))
        return sim, handles, mid

    sim_l, h_l, mid = run(1e-8, want_mid=True)
    sim_t, h_t, _ = run(1e-10)
    parts, ys = mid
    osc_n = abs(T2 - T1) / sysd["P_min"]
    for i, sp in enumerate(specs):
        ref = c01_ref.reference(ref_spec(parts, {"ode": {"w": sp["w"], "c": sp["c"], "k": sp["k"], "u0": ys[i][0],
                                                         "ud0": ys[i][1]}, "t0": T1}), [T2])[0]
        w = sp["w"]
        U = max(abs(ref["u"][0][0]), abs(ref["u"][1][0]) / w, abs(ys[i][0]), abs(ys[i][1]) / w)
        errs = []
        for h in (h_l, h_t):
            errs.append(max(abs(c01_ref.diff(h[i].y[0], ref["u"][0])), abs(c01_ref.diff(h[i].y[1], ref["u"][1])) / w) / U)
        osc = osc_n * max(1.0, sp["w"] / n_orb)
        what = "user ODE %d of %d (life cycles %s, this one '%s')%s" % (i + 1, len(specs), lives, sp["life"],
                                                                       " backward" if case["backward"] else "")
        for eps, e in zip((1e-8, 1e-10), errs):
            bound = FLOOR + K_ODE * eps * osc
            ctx.stat_max("ode_error/class_bound", e / bound)
            if not e <= bound:
                raise Violation("%s: oscillator forced by particle %d: error %.3e with eps=%g exceeds the tolerance "
                                "class %.3e (errors at eps=1e-8, 1e-10: %.3e, %.3e)" % (what, sp["k"], e, eps, bound,
                                                                                        errs[0], errs[1]))
        fl = FLOOR * 10
        if not errs[1] <= 2 * errs[0] + fl:
            raise Violation("%s: tightening eps 1e-8 -> 1e-10 increases the error from %.3e to %.3e" % (what, errs[0], errs[1]))
        ctx.cls("life:" + sp["life"])
    # the N-body part advanced together with the ODEs
    refn = c01_ref.reference(ref_spec(parts, {"t0": T1}), [T2])[0]
    for eps, sm in ((1e-8, sim_l), (1e-10, sim_t)):
        en, _ = state_error(sm, refn)
        nb_bound = FLOOR * hierarchy(sysd) + BS_K * eps * case["norb"]
        if not en <= nb_bound:
            raise Violation("ode life cycle %s: N-body error %.3e with eps=%g exceeds %.3e" % (lives, en, eps, nb_bound))
    ctx.cls("cycle:" + lives)
    if case["backward"]:
        ctx.cls("backward")
    ctx.nontrivial()


# ---------------------------------------------------------------------------------------------------------------
# two legs with an adaptive leg B: configuration A for a few steps, then the user switches to BS or adaptive IAS15

@st.composite
def two_leg_adaptive_case(draw, tier="quick"):
    famA = draw(st.sampled_from(FAM_WEIGHT))
    cfgA = draw(whfast_cfg_uniform_coords() if famA == "whfast" else fam_cfg(famA))
    regime = draw(st.sampled_from([r for r in FAM_REGIMES[famA] if r in ("R2", "FB")] or ["R2"]))
    famB = draw(st.sampled_from(["bs", "bs", "ias15"]))
    d = {"regime": regime, "cfgA": cfgA, "familyB": famB, "system": draw(regime_system(regime, 4)),
         "n1": draw(st.integers(1, 6)), "backward": draw(st.sampled_from([False, False, True])),
         "norb": draw(st.sampled_from([2, 4])), "dt_frac": draw(st.sampled_from([0.001, 0.01, 0.05]))}
    if famB == "ias15":
        d["mode"] = draw(st.sampled_from([0, 1, 2, 3]))
    else:
        d["eps"] = draw(st.sampled_from([1e-8, 1e-10]))
    return d


def run_two_leg_adaptive(case, ctx):
    """Leg 1: n1 steps of P/32 with configuration A, synchronize, documented switch (switch_to) to BS / adaptive
    IAS15.  The synchronized state is the initial condition of the reference; leg 2 is held to the accuracy class of
    the 'adaptive' sub (IAS15 default epsilon: 1e-12*H*sqrt(periods); BS: 1e3*eps*periods) and must not get worse
    when the tolerance is tightened."""
    import warnings
    from ..oracles import c01_ref
    warnings.simplefilter("ignore")
    cfgA = case["cfgA"]
    fam = case["familyB"]
    sysd = case["system"]
    sgn = -1.0 if case["backward"] else 1.0
    dtA = snap(sysd["P_min"] / 32.0)
    H = hierarchy(sysd)
    what = "%s%s after %d steps of %s %s, %s%s" % (fam, (" mode=%d" % case["mode"]) if fam == "ias15" else "", case["n1"],
                                                  cfgA["family"], short(cfgA), case["regime"],
                                                  " backward" if case["backward"] else "")

    class Collapse(Exception):
        pass

    def run(eps, ref=None):
        if fam == "ias15":
            cfgB = {"integrator": "ias15", "family": "ias15", "set": [["ri_ias15.epsilon", eps], ["ri_ias15.adaptive_mode", case["mode"]]]}
        else:
            cfgB = {"integrator": "bs", "family": "bs", "set": [["ri_bs.eps_rel", eps], ["ri_bs.eps_abs", eps]]}
        sim = setup(sysd, cfgA)
        sim.dt = sgn * dtA
        try:
            sim.steps(case["n1"])
            sim.synchronize()
            switch_to(sim, cfgB)
        except RuntimeError as ex:
            raise Violation("%s: the library reports an error on valid input: %s" % (what, ex))
        t1 = sim.t
        T = t1 + sgn * snap(case["norb"] * sysd["P_min"])
        if ref is None:
            mid = {"G": sysd["G"], "particles": [{"m": q.m, "x": q.x, "y": q.y, "z": q.z, "vx": q.vx, "vy": q.vy, "vz": q.vz}
                                                 for q in [sim.particles[j] for j in range(sim.N)]]}
            ref = c01_ref.reference(ref_spec(mid, {"t0": t1}), [T])[0]
        sim.dt = sgn * case["dt_frac"] * sysd["P_min"]
        count = [0]

        def hb(_):
            count[0] += 1
            if count[0] > STEP_CAP:
                sim.stop()
        sim.heartbeat = hb
        try:
            sim.integrate(T)
        except RuntimeError as ex:
            raise Violation("%s eps=%g: the integrator reports an error on valid input: %s" % (what, eps, ex))
        if count[0] > STEP_CAP:
            raise Collapse()
        if sim.t != T:
            raise Violation("%s: integrate(%r) returned at t=%r" % (what, T, sim.t))
        E, _ = state_error(sim, ref)
        return E, sim.steps_done, ref

    loose, tight = (1e-8, 1e-9) if fam == "ias15" else (case["eps"], case["eps"] / 100.0)
    try:
        El, nl, ref = run(loose)
        if outside_regime(sysd, ref, ctx):
            return
        Et, nt, _ = run(tight, ref)       # leg 1 does not depend on the tolerance of leg 2: same synchronized state
    except Collapse:
        ctx.cls("step_collapse:%s" % fam)
        return
    if fam == "ias15":
        bound = IAS15_CLASS * H * math.sqrt(case["norb"])
        ctx.stat_max("ias15_error/class_bound", Et / bound)
        if not Et <= bound:
            raise Violation("%s: error %.3e with the default epsilon exceeds the advertised accuracy class %.3e"
                            % (what, Et, bound), steps=nt, H=H)
    else:
        for e_, E_, n_ in ((loose, El, nl), (tight, Et, nt)):
            bound = FLOOR * H + BS_K * e_ * case["norb"]
            ctx.stat_max("bs_error/class_bound", E_ / bound)
            if not E_ <= bound:
                raise Violation("%s: error %.3e with eps=%g exceeds the advertised accuracy class %.3e"
                                % (what, E_, e_, bound), steps=n_, H=H)
    fl = max(FLOOR, KR * EPS * H * math.sqrt(8.0 * max(nl, nt)))
    if tight >= 1e-10 and not Et <= 2 * El + fl:
        raise Violation("%s: tightening the tolerance from %g to %g increases the error from %.3e to %.3e"
                        % (what, loose, tight, El, Et), H=H)
    ctx.cls("B:" + fam)
    ctx.cls("A:" + cfgA["family"])
    if cfgA["family"] == "whfast":
        ctx.cls("A:coord:" + cfg_get(cfgA, "ri_whfast.coordinates"))
    if case["backward"]:
        ctx.cls("backward")
    if moved(sysd, ref) > 1e-3:
        ctx.nontrivial()


# ---------------------------------------------------------------------------------------------------------------

def subs(tier):
    return [
        Sub("order", run_order, strategy=order_case(tier), quick=720, thorough=24000, shards_quick=16, shards_thorough=16),
        Sub("lattice", run_order, cases=lattice_cases, quick=0, thorough=0, shards_quick=16, shards_thorough=16),
        Sub("two_leg", run_two_leg, strategy=two_leg_case(tier), quick=144, thorough=6400, shards_quick=8,
            shards_thorough=16),
        Sub("two_leg_adaptive", run_two_leg_adaptive, strategy=two_leg_adaptive_case(tier), quick=96, thorough=4800,
            shards_quick=8, shards_thorough=16),
        Sub("adaptive", run_adaptive, strategy=adaptive_case(tier), quick=192, thorough=6400, shards_quick=8, shards_thorough=16),
        Sub("ode", run_ode, strategy=ode_case(tier), quick=48, thorough=1600, shards_quick=8, shards_thorough=16),
        Sub("ode_life", run_ode_life, strategy=ode_life_case(tier), quick=64, thorough=2400, shards_quick=8,
            shards_thorough=16),
        Sub("sei", run_sei, strategy=sei_case(tier), quick=160, thorough=3200, shards_quick=4, shards_thorough=8),
        Sub("trace_peri", run_trace_peri, strategy=trace_peri_case(tier), quick=120, thorough=4800, shards_quick=4,
            shards_thorough=8),
        Sub("whfast512", run_whfast512, strategy=whfast512_case(tier), quick=96, thorough=3200, shards_quick=4,
            shards_thorough=8, variant="avx512"),
    ]


def prepare(tier):
    from ..oracles import c01_ref
    c01_ref.selftest()
