"""C04 - isolated systems conserve momentum, angular momentum and (as advertised) energy; diagnostics are exact."""
import itertools
import math

from hypothesis import strategies as st

from ..core import Sub, Violation
from .. import strategies as S

PROPERTY = "C04"
LEVEL = "exploration"
RULE = ("Generated all-active bounded systems (star+planets >= 8 Hill radii apart with e<=0.3, and Jacobi-built "
        "hierarchical comparable-mass systems for the non-Wisdom-Holman schemes), optional uniform boost, integrator "
        "configuration from the documented lattice (WHFast coordinate systems equally weighted), either time direction, "
        "and a generated interleaving of steps()/integrate()/synchronize() calls; after every call the state is "
        "synchronised and P=sum m v, sum m x - P0 t, L=sum m x x v, E and sum m are formed from the raw particle array "
        "in numpy longdouble and compared with their initial values; tolerances are K*eps*steps*ops_per_step*sum|terms| "
        "for the rounding-level statements and stated accuracy classes elsewhere (the symplectic energy bound does not "
        "grow with the number of steps: the thorough tier applies it after up to 1.8e4 steps, which is the "
        "'non-drifting' statement).  Merging collisions: wide systems with radii placed from a pilot run, and close "
        "pairs 1-3.5 mutual Hill radii apart with physical radii (real encounters for the hybrid schemes), 0-3 mergers; "
        "masses must be sums over a partition of the initial masses at every change of N, momentum and centre-of-mass "
        "line at the end.  Diagnostics: energy/angular_momentum/com of random particle sets (zero masses included) "
        "against the longdouble formulas.  Non-trivial = >= 3 bodies, >= 100 steps, >= 3 checkpoints and deferred "
        "synchronisation with an intermediate synchronize (conserve); >= 4 bodies of 1e-5..1e-3 stellar masses, >= 2 "
        "steps and >= 2 checkpoints (conserve_short: many short histories for coverage of the option lattice); a merger happened in a run of >= 100 steps with "
        ">= 3 bodies (merge); N >= 2 with total mass > 0 (diagnostics); distinct by case hash.")
ASSUMPTIONS = [
    "numpy longdouble is the x87 80-bit format (eps 2^-63, checked in prepare): the oracle's own rounding is negligible against double rounding",
    "rounding-level tolerances grow linearly with steps*elementary operations per step (worst case); measured errors grow like the square root",
    "angular momentum is asserted to rounding (K_L=256) for whfast (Jacobi, democratic heliocentric, WHDS)/saba/eos/leapfrog/janus; "
    "WHFast in barycentric coordinates does not conserve L exactly by construction (the star's m0 r0 x v0 is implied, its "
    "cross terms are not carried by the Kepler drift; measured |dL| ~ 3 eps_mass (dt/P)^2): asserted to 500 eps_mass (dt/P)^2; "
    "IAS15 1e-12*sqrt(steps), BS 30*eps_rel*steps, MERCURIUS and TRACE 1e-9 (relative to sum m|x||v|)",
    "energy accuracy classes are a-priori generous bounds, not sharp: IAS15 1e-12*sqrt(steps) of sum|terms| (epsilon=0 only with dt <= 0.02 P_min), "
    "BS 30*eps_rel*steps, Wisdom-Holman family 100*(planet/star mass)*(dt/P_min)^2 (2000* for WHFast barycentric coordinates) "
    "relative to the binding-energy scale, T+V splittings (leapfrog, EOS, JANUS) 20*(2 pi dt/P_min)^2",
    "reb_simulation_energy is compared without softening (it does not include it) and with all particles active",
    "JANUS conserves on its integer grid: tolerances get an additive term steps*stages*sum|m|*scale",
    "exact_finish_time=1 is not combined with keep_unsynchronized=1 (dt must not change while unsynchronised); IAS15 "
    "adaptive_mode=0 runs without boost and a collapsed adaptive step is skipped and counted (documented limitation of that mode)",
]
CLASSES = ["conserve/whfast", "conserve/saba", "conserve/eos", "conserve/leapfrog", "conserve/janus", "conserve/ias15",
           "conserve/bs", "conserve/mercurius", "conserve/trace", "conserve/deferred_sync", "conserve/boost",
           "conserve/backward", "conserve/janus_unequal_scales", "conserve/gravity=compensated", "merge/mergers=0", "merge/mergers=1", "merge/mergers=2", "merge/mergers>=3",
           "diagnostics/zero_mass", "diagnostics/all_massless", "mirror/ias15", "mirror/bs", "mirror/bitwise_mirror"]

EPS = 2.0 ** -52


def prepare(tier):
    import numpy as np
    if not np.finfo(np.longdouble).eps < 1.2e-19:
        raise RuntimeError("numpy longdouble is not the 80-bit extended format on this machine: the C04 oracle needs it")


L_ROUNDING = ("whfast", "saba", "eos", "leapfrog", "janus")
WH_FAMILY = ("whfast", "saba", "mercurius", "trace")
# rounding-level constants (see report: measured maxima over seeds 1..8 are in evidence stats "*_over_tol")
K_P = 64.0
K_X = 64.0
K_L = 256.0


# ---------------------------------------------------------------------------------------------

def set_peri_mode(sim, name):
    m = {"PARTIAL_BS": 0, "FULL_BS": 1, "FULL_IAS15": 2}
    try:
        sim.ri_trace.peri_mode = name
    except TypeError:
        sim.ri_trace.peri_mode = m[name]


def apply_cfg(sim, cfg):
    from .. import rb
    sim.integrator = cfg["integrator"]
    for path, val in cfg.get("set", []):
        rb.setpath(sim, path, val)
    if "peri_mode" in cfg:
        set_peri_mode(sim, cfg["peri_mode"])


def keeps_unsynchronized(cfg):
    return any(p.endswith("keep_unsynchronized") and v == 1 for p, v in cfg["set"])


def deferred(cfg):
    return any(p.endswith("safe_mode") and v == 0 for p, v in cfg["set"])


def boosted(particles, boost, P_min):
    """Uniform boost: offset in length units, velocity in units of 2 pi / P_min (the orbital speed at a ~ 1)."""
    if not boost:
        return particles
    vs = 2 * math.pi / P_min
    out = []
    for p in particles:
        q = dict(p)
        for k, b in zip(("x", "y", "z"), boost["x"]):
            q[k] = q[k] + b
        for k, b in zip(("vx", "vy", "vz"), boost["v"]):
            q[k] = q[k] + b * vs
        out.append(q)
    return out


def usable_boost(case, ctx):
    cfg = case["cfg"]
    bst = case["boost"]
    if bst and cfg["family"] == "janus" and ctx.tier == "thorough":
        return None     # JANUS positions live on an int64 grid of 1e-16: |x| < 922; long boosted runs would leave it
    if bst and cfg["family"] == "trace" and any(bst["v"]) and ctx.finding_open("C04-trace-reject-com"):
        ctx.excluded("C04-trace-reject-com")
        return dict(bst, v=[0.0, 0.0, 0.0])
    if bst and cfg["family"] == "ias15" and ["ri_ias15.adaptive_mode", 0] in cfg["set"]:
        # adaptive_mode=0 divides by every acceleration component; integrator_ias15.c documents that it "might fail
        # in cases where a particle does not experience any (physical) acceleration besides roundoff errors", which
        # is what a translated planar system gives in z (step collapses to 1e-23): not a conservation matter
        return None
    return bst


def vmax(v):
    return max(abs(float(c)) for c in v)


class Tracker:
    """Initial invariants + per-checkpoint comparison."""

    def __init__(self, sim, case, ctx, P_min, eps_mass):
        from ..oracles import c04_invariants as inv
        self.inv = inv
        self.sim = sim
        self.ctx = ctx
        self.cfg = case["cfg"]
        self.fam = self.cfg["family"]
        self.G = sim.G
        self.t0 = sim.t
        self.s0 = sim.steps_done
        self.i0 = inv.invariants(inv.parr(sim), self.G)
        self.P_min = P_min
        self.eps_mass = eps_mass
        self.dt = abs(sim.dt)
        sets = dict((a, b) for a, b in self.cfg["set"])
        self.grid_x = sets.get("ri_janus.scale_pos", 0.0) if self.fam == "janus" else 0.0
        self.grid_v = sets.get("ri_janus.scale_vel", 0.0) if self.fam == "janus" else 0.0
        self.order = sets.get("ri_janus.order", 2)
        # WHFast in barycentric coordinates: the Kepler drift about the barycentre moves every planet separately while
        # the star's position/velocity are implied by the others, so the star's own m0 r0 x v0 (cross terms
        # m_i m_j r_i x v_j / m0) is not carried by the drift: L is only conserved to the truncation error
        # (measured ~ 3 eps_mass (dt/P)^2, second order like the energy error), not to rounding.
        self.barycentric = sets.get("ri_whfast.coordinates") == "barycentric"
        self.label = self.fam if self.fam != "whfast" else "whfast/" + sets.get("ri_whfast.coordinates", "jacobi")
        self.maxE = 0.0
        # elementary drift/kick operations per step: rounding-level tolerances are linear in steps*ops
        eos = {"lf": 1, "lf4": 3, "lf6": 9, "lf8": 17, "lf4_2": 5, "lf8_6_4": 9, "plf7_6_4": 9, "pmlf4": 4, "pmlf6": 6}
        if self.fam == "eos":
            self.ops = sets.get("ri_eos.n", 2) * eos.get(sets.get("ri_eos.phi0", "lf"), 9) * eos.get(sets.get("ri_eos.phi1", "lf"), 9)
        elif self.fam == "janus":
            self.ops = 4 * self.order + 4
        elif self.fam == "bs":
            self.ops = 30       # modified-midpoint sub-steps of the extrapolation columns
        else:
            self.ops = 1

    def check(self, where, momentum_only=False):
        inv, sim, ctx, i0 = self.inv, self.sim, self.ctx, self.i0
        a = inv.parr(sim)
        i1 = inv.invariants(a, self.G)
        n = max(1, sim.steps_done - self.s0)
        el = inv.LD(sim.t) - inv.LD(self.t0)
        fam = self.fam
        stages = self.ops
        # rounding of many sub-steps accumulates like a random walk; linear growth is kept up to 48 operations per
        # step and square-root growth beyond (EOS with n=8 and 17x17 stages has 2312 kicks per step: a linear allowance
        # would hide a real momentum leak of 1e-12 per step)
        n_ops = n * (stages if stages <= 48 else 48.0 * math.sqrt(stages / 48.0))
        if fam == "eos":
            # EOS: up to 2312 kicks per step; their rounding adds like a random walk and is small (measured: with
            # max(1, sqrt(kicks)/4) the largest ratio stays near 0.1); a linear allowance would hide a momentum
            # leak of 1e-12 per step
            n_ops = n * max(1.0, math.sqrt(stages) / 4.0)
        msum = float(abs(a[:, inv.M]).sum())
        # --- linear momentum
        Psc = max(float(i0["Psc"]), float(i1["Psc"]), getattr(self, "Psc_path", 0.0))
        tolP = K_P * EPS * n_ops * Psc + n * stages * msum * self.grid_v
        errP = vmax(i1["P"] - i0["P"])
        ctx.stat_max("P_over_tol[%s]" % fam, errP / tolP if tolP > 0 else 0.0)
        if errP > tolP:
            raise Violation("linear momentum not conserved (%s): |dP| = %.3e > %.3e = K_P eps n sum|mv| (n=%d) %s"
                            % (fam, errP, tolP, n, where), P0=[float(c) for c in i0["P"]], P1=[float(c) for c in i1["P"]])
        # --- uniform motion of the centre of mass:  sum m x (t) = sum m x (0) + P0 (t - t0)
        # (P0 t is exact only up to the rounding of the initial velocities: K eps |t| sum|mv| covers it)
        scX = float(max(i0["MXsc"], i1["MXsc"])) + abs(float(el)) * Psc
        tolX = K_X * EPS * n_ops * scX + n * stages * msum * (self.grid_x + abs(float(el)) * self.grid_v)
        errX = vmax(i1["MX"] - (i0["MX"] + i0["P"] * el))
        ctx.stat_max("X_over_tol[%s]" % fam, errX / tolX if tolX > 0 else 0.0)
        if errX > tolX:
            raise Violation("centre of mass left its straight line (%s): |d(sum m x)| = %.3e > %.3e (n=%d, elapsed %.4g) %s"
                            % (fam, errX, tolX, n, float(el), where))
        if abs(float(i1["mass"] - i0["mass"])) > 4 * EPS * float(i0["mass"]) * max(1, getattr(self, "mergers", 0)):
            raise Violation("total mass changed from %r to %r %s" % (float(i0["mass"]), float(i1["mass"]), where))
        if momentum_only:
            return i1
        # --- angular momentum
        Lsc = float(max(i0["Lsc"], i1["Lsc"]))
        errL = vmax(i1["L"] - i0["L"])
        if fam in L_ROUNDING and not self.barycentric:
            tolL = K_L * EPS * n_ops * Lsc + n * stages * msum * (self.grid_x + self.grid_v) * \
                float(max(abs(a[:, 0:6]).max(), 1.0))
            cls = "rounding"
        else:
            tolL = self.L_class(n) * Lsc
            cls = "accuracy class"
        ctx.stat_max("L_over_tol[%s]" % self.label, errL / tolL if tolL > 0 else 0.0)
        if errL > tolL:
            raise Violation("angular momentum not conserved to %s (%s): |dL| = %.3e > %.3e (n=%d) %s"
                            % (cls, fam, errL, tolL, n, where), L0=[float(c) for c in i0["L"]], L1=[float(c) for c in i1["L"]])
        # --- energy
        errE = abs(float(i1["E"] - i0["E"]))
        tolE = self.E_class(n, i0)
        self.maxE = max(self.maxE, errE)
        ctx.stat_max("E_over_tol[%s]" % self.label, errE / tolE if tolE > 0 else 0.0)
        if errE > tolE:
            raise Violation("energy error outside the accuracy class of %s: |dE| = %.3e > %.3e (n=%d, dt/P_min=%.3g, "
                            "planet/star mass %.3g) %s" % (fam, errE, tolE, n, self.dt / self.P_min, self.eps_mass, where),
                            E0=float(i0["E"]), E1=float(i1["E"]))
        return i1

    def L_class(self, n):
        fam = self.fam
        sets = dict((a, b) for a, b in self.cfg["set"])
        if fam == "ias15":
            return 1e-12 * math.sqrt(n)
        if fam == "bs":
            return 30.0 * sets.get("ri_bs.eps_rel", 1e-8) * n
        if self.barycentric:
            x = self.dt / self.P_min
            return 500.0 * self.eps_mass * x * x + K_L * EPS * n
        return 1e-9           # hybrids

    def E_class(self, n, i0):
        fam = self.fam
        sets = dict((a, b) for a, b in self.cfg["set"])
        Esc = float(i0["Esc"])
        x = self.dt / self.P_min
        # binding energy scale: sum|terms| without the bulk kinetic energy of a boost
        M = float(i0["mass"])
        V = [float(c) / M for c in i0["P"]]
        Ebind = max(Esc - 0.5 * M * sum(c * c for c in V), 0.0)
        floor = 64 * EPS * n * Esc
        if fam == "ias15":
            return 1e-12 * math.sqrt(n) * Esc
        if fam == "bs":
            return 30.0 * sets.get("ri_bs.eps_rel", 1e-8) * n * Esc
        if fam in WH_FAMILY:
            # measured maxima of |dE| / (eps_mass x^2 sum|terms|) over 4500 random systems: jacobi 0.16, democratic
            # heliocentric 0.56, whds 0.35, saba 0.43, trace 2.0, mercurius 3.7, barycentric 63
            return (2000.0 if self.barycentric else 100.0) * self.eps_mass * x * x * Ebind + floor
        return 20.0 * (2 * math.pi * x) ** 2 * Ebind + floor


# ---------------------------------------------------------------------------------------------
# sub-check "conserve"

op = st.one_of(
    st.tuples(st.just("steps"), st.integers(1, 90)),
    st.tuples(st.just("integrate"), S.floats(0.5, 90.0), st.sampled_from([0, 1])),
    st.tuples(st.just("integrate"), S.floats(0.5, 90.0), st.sampled_from([0, 1])),
    st.tuples(st.just("sync")),
)

nonzero = st.builds(lambda a, sg: a * sg, S.floats(0.05, 1.0), st.sampled_from([1.0, -1.0]))
_boost = st.fixed_dictionaries({
    "x": st.lists(S.floats(-5.0, 5.0), min_size=3, max_size=3),
    "v": st.lists(nonzero, min_size=3, max_size=3)})
boost = st.one_of(st.none(), _boost, _boost, _boost)     # a non-zero total momentum in every component, mostly

NON_WH = ["ias15", "bs", "leapfrog", "eos", "janus"]


@st.composite
def whfast_by_coordinates(draw):
    """WHFast configuration with the coordinate system drawn first (the shared lattice is 80% Jacobi because only
    Jacobi admits the other kernels/correctors; the transformations of the other three deserve equal weight here)."""
    c = draw(st.sampled_from(S.WH_COORDS))
    _, k, co, c2 = draw(st.sampled_from([x for x in S.whfast_lattice() if x[0] == c]))
    sm = draw(st.sampled_from([0, 1]))
    sets = [["ri_whfast.coordinates", c], ["ri_whfast.kernel", k], ["ri_whfast.corrector", co],
            ["ri_whfast.corrector2", c2], ["ri_whfast.safe_mode", sm]]
    if sm == 0 and draw(st.booleans()):
        sets.append(["ri_whfast.keep_unsynchronized", 1])
    return {"integrator": "whfast", "set": sets, "family": "whfast", "fixed_step": True}


@st.composite
def jacobi_few_body(draw, nmin=3, nmax=4):
    """Hierarchical system of comparable masses built in Jacobi fashion: body i is put on a Kepler orbit (e<=0.2,
    inc<=0.3) about the centre of mass of bodies 0..i-1 with semi-major axes growing by a factor 6-12 per level, so
    that the hierarchy is dynamically stable.  (strategies.few_body places every body relative to body 0, which for
    mass ratios of 0.1-0.3 leaves the outer bodies on plunging orbits: not the 'stable regime' of the property.)"""
    n = draw(st.integers(nmin, nmax))
    Gv = draw(st.sampled_from(S.G_VALUES))
    m0 = draw(st.sampled_from([1.0, 0.5, 2.0]))
    parts = [{"m": m0, "x": 0.0, "y": 0.0, "z": 0.0, "vx": 0.0, "vy": 0.0, "vz": 0.0}]
    a = draw(S.floats(0.5, 2.0))
    pmin = pmax = None
    for i in range(1, n):
        m = draw(S.logfloats(0.01, 0.3)) * m0
        M = sum(p["m"] for p in parts)
        com = [sum(p["m"] * p[k] for p in parts) / M for k in ("x", "y", "z", "vx", "vy", "vz")]
        e = draw(st.one_of(S.floats(0.0, 0.2), st.just(0.0)))
        inc = draw(st.one_of(S.floats(0.0, 0.3), st.just(0.0)))
        mu = Gv * (M + m)
        sv = S.el2cart(mu, a, e, inc, draw(S.angles), draw(S.angles), draw(S.angles))
        parts.append({"m": m, "x": com[0] + sv[0], "y": com[1] + sv[1], "z": com[2] + sv[2],
                      "vx": com[3] + sv[3], "vy": com[4] + sv[4], "vz": com[5] + sv[5]})
        P = 2 * math.pi * math.sqrt(a ** 3 / mu)
        pmin = P if pmin is None else min(pmin, P)
        pmax = P if pmax is None else max(pmax, P)
        a *= draw(S.floats(6.0, 12.0))
    M = sum(p["m"] for p in parts)
    for k in ("x", "y", "z", "vx", "vy", "vz"):
        c = sum(p["m"] * p[k] for p in parts) / M
        for p in parts:
            p[k] -= c
    return {"G": Gv, "particles": parts, "P_min": pmin, "P_max": pmax}


ANY_CFG = st.one_of(S.integrator_config(), S.integrator_config(), whfast_by_coordinates())

# gravity routine, where the integrator leaves the choice to the user (docs/gravity.md): set after the integrator
GRAVITY = st.sampled_from(["basic", "basic", "compensated"])
# JANUS grid spacings (both documented options), drawn independently; int64 * 1e-16 still covers |x|, |v| < 922
JANUS_SCALES = st.tuples(st.sampled_from([1e-16, 1e-15, 1e-14]), st.sampled_from([1e-16, 1e-15, 1e-14]))


def gravity_is_users_choice(cfg):
    fam = cfg["family"]
    sets = dict((a, b) for a, b in cfg["set"])
    if fam == "whfast":
        return sets.get("ri_whfast.kernel", "default") == "default"
    return fam in ("saba", "leapfrog", "ias15", "bs", "janus", "eos")


conserve_case = st.one_of(
    st.fixed_dictionaries({
        "system": S.hierarchical_system(nmin=2, nmax=5), "cfg": ANY_CFG,
        "dt_frac": S.logfloats(2e-3, 0.05), "back": st.booleans(), "boost": boost, "gravity": GRAVITY, "janus_scales": JANUS_SCALES,
        "ops": st.lists(op, min_size=3, max_size=8)}),
    st.fixed_dictionaries({
        "system": S.hierarchical_system(nmin=3, nmax=5), "cfg": ANY_CFG,
        "dt_frac": S.logfloats(2e-3, 0.05), "back": st.booleans(), "boost": boost, "gravity": GRAVITY, "janus_scales": JANUS_SCALES,
        "ops": st.lists(op, min_size=3, max_size=8)}),
    st.fixed_dictionaries({
        "system": jacobi_few_body(), "cfg": S.integrator_config(NON_WH),
        "dt_frac": S.logfloats(2e-3, 0.03), "back": st.booleans(), "boost": boost, "gravity": GRAVITY, "janus_scales": JANUS_SCALES,
        "ops": st.lists(op, min_size=3, max_size=8)}),
)


# "conserve_short": the same check on many short histories of heavy multi-planet systems.  Pair terms that fail to
# cancel scale with m^2 dt^k and show within a step or two, but only for particular option values (one EOS kernel,
# one coordinate system with one gravity routine, ...): this sub buys lattice coverage (1600 configurations, planets
# of 1e-5..1e-3 stellar masses, 4-5 bodies, steps of 0.01-0.05 periods) for little time.
short_op = st.one_of(st.tuples(st.just("steps"), st.integers(1, 6)),
                     st.tuples(st.just("integrate"), S.floats(0.5, 6.0), st.sampled_from([0, 1])),
                     st.tuples(st.just("sync")))
short_case = st.fixed_dictionaries({
    "system": S.hierarchical_system(nmin=4, nmax=5, mass_lo=1e-5, mass_hi=1e-3),
    "cfg": st.one_of(ANY_CFG, ANY_CFG, S.eos_config()),
    "dt_frac": S.logfloats(0.01, 0.05), "back": st.booleans(), "boost": boost, "gravity": GRAVITY,
    "janus_scales": JANUS_SCALES, "ops": st.lists(short_op, min_size=2, max_size=4)})


def eps_mass_of(parts):
    ms = sorted((p["m"] for p in parts), reverse=True)
    return sum(ms[1:]) / ms[0]


def run_conserve(case, ctx):
    import rebound
    from .. import rb
    rb.quiet()
    sysd = case["system"]
    cfg = case["cfg"]
    fam = cfg["family"]
    if fam == "janus" and case.get("janus_scales"):
        sp, sv = case["janus_scales"]
        cfg = dict(cfg, set=[[k, v] for k, v in cfg["set"] if k not in ("ri_janus.scale_pos", "ri_janus.scale_vel")]
                   + [["ri_janus.scale_pos", sp], ["ri_janus.scale_vel", sv]])
        case = dict(case, cfg=cfg)
        if sp != sv:
            ctx.cls("janus_unequal_scales")
    bst = usable_boost(case, ctx)
    sim = rb.new_sim({"G": sysd["G"], "particles": boosted(sysd["particles"], bst, sysd["P_min"])})
    apply_cfg(sim, cfg)
    grav = case.get("gravity", "basic")
    if grav != "basic" and gravity_is_users_choice(cfg):
        sim.gravity = grav
    else:
        grav = None
    dirn = -1.0 if case["back"] else 1.0
    if fam == "trace" and dirn < 0 and ctx.finding_open("C04-trace-backward"):
        ctx.excluded("C04-trace-backward")
        sim.ri_trace.S_peri = "none"
    sim.dt = dirn * case["dt_frac"] * sysd["P_min"]
    if fam == "ias15" and cfg["fixed_step"]:
        # epsilon=0 turns step-size control off: "machine precision" is then only advertised for a step the
        # controller itself would accept (about P/15 on a circular orbit); stay a factor 3 below that
        sim.dt = dirn * min(case["dt_frac"], 0.02) * sysd["P_min"]
    scale = 25 if ctx.tier == "thorough" else 1
    tr = Tracker(sim, case, ctx, sysd["P_min"], eps_mass_of(sysd["particles"]))
    keep = keeps_unsynchronized(cfg)
    ncheck = 0
    synced_mid = False
    budget = [0]
    if not cfg["fixed_step"]:
        def limiter(p):
            budget[0] -= 1
            if budget[0] < 0:
                sim.stop()
        sim.heartbeat = limiter
    dt_user = abs(sim.dt)
    for oi, o in enumerate(case["ops"]):
        kind = o[0]
        if kind == "steps":
            sim.steps(o[1] * scale)
        elif kind == "integrate":
            eft = 0 if keep else o[2]     # exact finishing changes dt: not allowed while kept unsynchronised (docs)
            span = o[1] * scale * (abs(sim.dt) if cfg["fixed_step"] else dt_user)
            budget[0] = int(300 * o[1] * scale + 3000)
            sim.integrate(sim.t + dirn * span, exact_finish_time=eft)
            if budget[0] < 0:
                # e.g. IAS15 adaptive_mode=0 on a system with a noise-only acceleration component (documented in
                # integrator_ias15.c): the controller collapses the step; no statement about conservation follows
                ctx.skip("adaptive step collapsed")
                return
        elif kind == "sync":
            pass
        # every checkpoint is taken on the synchronised state; for deferred synchronisation this is the
        # "synchronize, look, continue" history the property quantifies over
        sim.synchronize()
        if deferred(cfg) and oi < len(case["ops"]) - 1:
            synced_mid = True
        tr.check("after op %d %s of %s" % (oi, list(o), [list(x) for x in case["ops"]]))
        ncheck += 1
    ctx.cls(fam)
    if grav and sim.gravity == grav:        # some schemes select their own routine at the first step (EOS, SABA correctors)
        ctx.cls("gravity=%s" % grav)
        ctx.cls("gravity=%s/%s" % (grav, tr.label))
    if bst:
        ctx.cls("boost")
    if dirn < 0:
        ctx.cls("backward")
    if synced_mid:
        ctx.cls("deferred_sync")
    n = sim.steps_done
    if sim.N >= 3 and n >= 100 and ncheck >= 3 and synced_mid:
        ctx.nontrivial()
    if ctx.sub == "conserve_short" and sim.N >= 4 and ncheck >= 2 and n >= 2:
        ctx.nontrivial()


# ---------------------------------------------------------------------------------------------
# sub-check "merge"

MERGE_FAMS = ["ias15", "bs", "leapfrog", "whfast", "mercurius", "trace"]


def merge_cfg_ok(cfg):
    return not deferred(cfg)


@st.composite
def close_pair_system(draw):
    """Star + two planets 1-3.5 mutual Hill radii apart in semi-major axis, started shortly before conjunction, with
    physical radii of a fraction of their Hill radii (+ optionally a distant third planet): a real close encounter,
    and often a physical collision, happens within the first orbits.  This is what makes the hybrid integrators
    switch, reject steps and search for collisions inside their encounter sub-steps."""
    Gv = draw(st.sampled_from(S.G_VALUES))
    m0 = draw(st.sampled_from([1.0, 0.5, 2.0]))
    a = draw(S.floats(0.7, 1.5))
    mA = draw(S.logfloats(1e-7, 1e-4)) * m0
    mB = draw(S.logfloats(1e-7, 1e-4)) * m0
    rH = a * ((mA + mB) / (3 * m0)) ** (1.0 / 3.0)
    k = draw(S.floats(1.0, 3.5))
    aB = a + k * rH
    c = draw(S.floats(1.0, 6.0))
    phase = draw(S.angles)
    eA, eB = draw(S.floats(0.0, 0.02)), draw(S.floats(0.0, 0.02))
    iB = draw(st.one_of(st.just(0.0), S.floats(0.0, 0.004)))
    f = draw(S.logfloats(0.1, 2.0))
    parts = [{"m": m0, "x": 0.0, "y": 0.0, "z": 0.0, "vx": 0.0, "vy": 0.0, "vz": 0.0, "r": draw(st.sampled_from([0.0, 0.005 * a]))}]
    sA = S.el2cart(Gv * (m0 + mA), a, eA, 0.0, 0.0, 0.0, phase)
    sB = S.el2cart(Gv * (m0 + mB), aB, eB, iB, 0.0, 0.0, phase + c * k * rH / a)
    for m, sv in ((mA, sA), (mB, sB)):
        parts.append({"m": m, "x": sv[0], "y": sv[1], "z": sv[2], "vx": sv[3], "vy": sv[4], "vz": sv[5],
                      "r": f * a * (m / (3 * m0)) ** (1.0 / 3.0)})
    if draw(st.booleans()):
        mC = draw(S.logfloats(1e-7, 1e-4)) * m0
        sC = S.el2cart(Gv * (m0 + mC), 4.0 * a, 0.05, 0.02, 1.0, 2.0, draw(S.angles))
        parts.append({"m": mC, "x": sC[0], "y": sC[1], "z": sC[2], "vx": sC[3], "vy": sC[4], "vz": sC[5], "r": 0.0})
    M = sum(p["m"] for p in parts)
    for key in ("x", "y", "z", "vx", "vy", "vz"):
        cc = sum(p["m"] * p[key] for p in parts) / M
        for p in parts:
            p[key] -= cc
    P = 2 * math.pi * math.sqrt(a ** 3 / (Gv * m0))
    return {"G": Gv, "particles": parts, "P_min": P, "P_max": P, "close": True}


merge_case = st.fixed_dictionaries({
    "system": st.one_of(S.hierarchical_system(nmin=3, nmax=5), close_pair_system()),
    "cfg": S.integrator_config(MERGE_FAMS).filter(merge_cfg_ok),
    "dt_frac": S.logfloats(0.015, 0.05),
    "boost": boost,
    "total": st.integers(100, 400),
    "pairs": st.lists(st.fixed_dictionaries({"which": st.sampled_from([0, 0, 0, 1, 1, 2, 3, 5]), "q": st.one_of(S.floats(0.1, 0.9), S.floats(0.1, 0.9), S.floats(0.0, 1.2)),
                                             "share": S.floats(0.1, 0.9)}), min_size=1, max_size=3),
})


def partition_ok(m0, m1, tol):
    """Is there a partition of the initial masses into len(m1) non-empty groups whose sums are the final masses?"""
    n0, n1 = len(m0), len(m1)
    if n1 > n0:
        return False
    for assign in itertools.product(range(n1), repeat=n0):
        if len(set(assign)) != n1:
            continue
        ok = True
        for g in range(n1):
            s = math.fsum(m0[i] for i in range(n0) if assign[i] == g)
            if abs(s - m1[g]) > tol * max(s, m1[g]):
                ok = False
                break
        if ok:
            return True
    return False


def run_merge(case, ctx):
    import rebound
    from .. import rb
    from ..oracles import c04_invariants as inv
    rb.quiet()
    sysd = case["system"]
    cfg = case["cfg"]
    fam = cfg["family"]
    if sysd.get("close") and fam == "ias15" and cfg["fixed_step"]:
        # a 15th-order polynomial fitted through an unresolved 1/r^2 spike has coefficients orders of magnitude above
        # the accelerations, and their rounding (not any asymmetry) then dominates sum m v: ill-conditioned, skipped
        ctx.skip("fixed-step IAS15 through a close encounter")
        return
    parts = boosted(sysd["particles"], usable_boost(case, ctx), sysd["P_min"])

    def build():
        s = rb.new_sim({"G": sysd["G"], "particles": parts})
        apply_cfg(s, cfg)
        s.dt = case["dt_frac"] * sysd["P_min"]
        return s
    # pilot: distance range of every pair over the run (no radii, no collisions)
    pilot = build()
    n0 = pilot.N
    pairs = [(i, j) for i in range(n0) for j in range(i)]
    a = inv.parr(pilot)
    d0 = {(i, j): float(((a[i, 0:3] - a[j, 0:3]) ** 2).sum() ** 0.5) for (i, j) in pairs}
    dmin = dict(d0)
    total = case["total"]
    chunk = max(1, total // 60)
    done = 0
    while done < total:
        pilot.steps(chunk)
        done += chunk
        a = inv.parr(pilot)
        for (i, j) in pairs:
            d = float(((a[i, 0:3] - a[j, 0:3]) ** 2).sum() ** 0.5)
            dmin[(i, j)] = min(dmin[(i, j)], d)
    pilot = None
    pairs.sort(key=lambda p: dmin[p] / d0[p])      # pairs that approach most (relative to their start) first
    sim = build()
    rad = [0.0] * n0
    if sysd.get("close"):
        rad = [p.get("r", 0.0) for p in sysd["particles"]]    # physical radii come with the system
    for pr in ([] if sysd.get("close") else case["pairs"]):
        i, j = pairs[pr["which"] % len(pairs)]
        # sum of radii between the closest approach seen in the pilot (q=0) and the initial distance (q=1):
        # no overlap at the start; q>1 never touches
        d = dmin[(i, j)] + min(pr["q"], 0.95) * (d0[(i, j)] - dmin[(i, j)]) if pr["q"] <= 1.0 else 0.5 * dmin[(i, j)]
        rad[i] = max(rad[i], d * pr["share"])
        rad[j] = max(rad[j], d * (1 - pr["share"]))
    # radii grown for one pair must not make another pair overlap at the start (that is a set-up error, not a
    # collision occurring at a step)
    for (i, j) in pairs:
        if rad[i] + rad[j] >= 0.98 * d0[(i, j)]:
            f = 0.9 * d0[(i, j)] / (rad[i] + rad[j])
            rad[i] *= f
            rad[j] *= f
    a = inv.parr(sim)
    for i in range(n0):
        sim.particles[i].r = rad[i]
    sim.collision = "direct"
    sim.collision_resolve = "merge"
    tr = Tracker(sim, case, ctx, sysd["P_min"], eps_mass_of(sysd["particles"]))
    m0 = [float(x) for x in a[:, inv.M]]
    mergers = 0
    log = []

    def hb(p):
        log.append(inv.parr(sim))
        if len(log) > 200 * total + 2000:
            sim.stop()
    sim.heartbeat = hb
    try:
        sim.integrate(sim.t + total * sim.dt, exact_finish_time=0)
    except rebound.NoParticles:
        pass
    if len(log) > 200 * total + 2000:
        ctx.skip("adaptive step collapsed (not a conservation matter)")
        return
    Nprev = n0
    for k, a in enumerate(log):
        if len(a) > Nprev:
            raise Violation("particle number grew from %d to %d at step %d (%s)" % (Nprev, len(a), k, fam))
        if len(a) < Nprev:
            mergers += Nprev - len(a)
            m1 = [float(x) for x in a[:, inv.M]]
            if not partition_ok(m0, m1, 8 * EPS * n0):
                raise Violation("after %d merger(s) at step %d the masses %r are not sums over a partition of the "
                                "initial masses %r (%s)" % (mergers, k, m1, m0, fam))
        Nprev = len(a)
    tr.mergers = mergers
    # condition number of the momentum sum along the path: every kick m_i dv_i is rounded relative to its own size,
    # and in an under-resolved close encounter (fixed step through a 1/r^2 spike) the kicks exceed sum|m v| of the
    # end states by orders of magnitude; the scale is the largest sum|m v| seen at any boundary plus the mean
    # kick sum_i m_i |dv_i| per step
    import numpy as np
    psc_max = 0.0
    kicks = 0.0
    for k, a in enumerate(log):
        psc_max = max(psc_max, float((abs(a[:, inv.M]) * np.sqrt((a[:, 3:6] ** 2).sum(axis=1))).sum()))
        if k and len(log[k - 1]) == len(a):
            kicks += float((abs(a[:, inv.M]) * np.sqrt(((a[:, 3:6] - log[k - 1][:, 3:6]) ** 2).sum(axis=1))).sum())
    tr.Psc_path = psc_max + kicks / max(1, len(log) - 1)
    # momentum / centre of mass at every boundary would cost a longdouble pass per step: check the boundaries
    # around every change of N, a spread of others, and the end state
    sim.synchronize()
    tr.check("at the end, %d merger(s) (%s)" % (mergers, fam), momentum_only=True)
    ctx.cls("mergers=%d" % mergers if mergers < 3 else "mergers>=3")
    ctx.cls(fam)
    if sysd.get("close"):
        ctx.cls("close_pair")
        ctx.cls("close_pair/%s/mergers=%d" % (fam, min(mergers, 2)))
    if mergers >= 1 and n0 >= 3 and total >= 100:
        ctx.nontrivial()


# ---------------------------------------------------------------------------------------------
# sub-check "diagnostics"

mass = st.one_of(S.logfloats(1e-12, 1e3), S.logfloats(1e-4, 10.0), st.just(0.0), st.just(1.0))
coord = st.one_of(S.floats(-1e3, 1e3), S.floats(-2.0, 2.0), st.just(0.0))
particle = st.fixed_dictionaries({"m": mass, "x": coord, "y": coord, "z": coord, "vx": coord, "vy": coord, "vz": coord})

diag_case = st.fixed_dictionaries({
    "G": st.sampled_from(S.G_VALUES),
    "particles": st.lists(particle, min_size=1, max_size=12),
})


def run_diag(case, ctx):
    import numpy as np
    from .. import rb
    from ..oracles import c04_invariants as inv
    rb.quiet()
    parts = case["particles"]
    # coincident particles give an infinite potential (not a defined quantity): move repeats apart, deterministically
    seen = set()
    fixed = []
    for idx, p in enumerate(parts):
        key = (p["x"], p["y"], p["z"])
        if key in seen:
            p = dict(p, x=p["x"] + 0.37 * (idx + 1), y=p["y"] - 0.11 * (idx + 1))
            key = (p["x"], p["y"], p["z"])
        seen.add(key)
        fixed.append(p)
    parts = fixed
    sim = rb.new_sim({"G": case["G"], "particles": parts})
    a = inv.parr(sim)
    i = inv.invariants(a, case["G"])
    n = len(parts)
    K = 16.0 * (n + 2)
    E = sim.energy()
    tolE = K * EPS * float(i["Esc"])
    errE = abs(E - float(i["E"]))
    ctx.stat_max("E_over_tol", errE / tolE if tolE > 0 else (0.0 if errE == 0 else math.inf))
    if not errE <= tolE:
        raise Violation("energy() = %r, defined value %r: |diff| %.3e > %.3e = K eps sum|terms| (N=%d)"
                        % (E, float(i["E"]), errE, tolE, n))
    L = sim.angular_momentum()
    # per component: sum_i m_i (|a b| + |c d|)
    x = a[:, 0:3].astype(inv.LD)
    v = a[:, 3:6].astype(inv.LD)
    m = a[:, inv.M].astype(inv.LD)
    comps = [(1, 2), (2, 0), (0, 1)]
    for c, (p_, q_) in enumerate(comps):
        sc = float((abs(m) * (abs(x[:, p_] * v[:, q_]) + abs(x[:, q_] * v[:, p_]))).sum())
        tol = K * EPS * sc
        err = abs(L[c] - float(i["L"][c]))
        ctx.stat_max("L_over_tol", err / tol if tol > 0 else (0.0 if err == 0 else math.inf))
        if not err <= tol:
            raise Violation("angular_momentum()[%d] = %r, defined value %r: |diff| %.3e > %.3e (N=%d)"
                            % (c, L[c], float(i["L"][c]), err, tol, n))
    mt = float(i["mass"])
    if any(p["m"] == 0.0 for p in parts):
        ctx.cls("zero_mass")
    if mt > 0:
        com = sim.com()
        if abs(com.m - mt) > K * EPS * mt:
            raise Violation("com().m = %r, total mass %r" % (com.m, mt))
        for c, name in enumerate(("x", "y", "z", "vx", "vy", "vz")):
            col = a[:, c].astype(inv.LD)
            ref = (m * col).sum() / i["mass"]
            sc = float((abs(m) * abs(col)).sum() / i["mass"])
            tol = K * EPS * sc
            err = abs(getattr(com, name) - float(ref))
            ctx.stat_max("com_over_tol", err / tol if tol > 0 else (0.0 if err == 0 else math.inf))
            if not err <= tol:
                raise Violation("com().%s = %r, defined value %r: |diff| %.3e > %.3e = K eps sum|m x|/M (N=%d)"
                                % (name, getattr(com, name), float(ref), err, tol, n))
        if n >= 2:
            ctx.nontrivial()
    else:
        ctx.cls("all_massless")


# ---------------------------------------------------------------------------------------------
# sub-check "mirror": the adaptive schemes are as accurate backward in time as forward

@st.composite
def eccentric_system(draw):
    """Star + eccentric inner planet (e 0.3-0.8: the adaptive step varies by a factor (1+e)^1.5/(1-e)^1.5 along
    the orbit, so the controller grows and shrinks it all the time) + outer planet beyond 2.5-4 apocentre distances."""
    Gv = draw(st.sampled_from(S.G_VALUES))
    m0 = draw(st.sampled_from([1.0, 0.5, 2.0]))
    a1 = draw(S.floats(0.6, 1.6))
    e1 = draw(S.floats(0.3, 0.8))
    e2 = draw(S.floats(0.0, 0.3))
    a2 = a1 * (1 + e1) * draw(S.floats(2.5, 4.0)) / (1 - e2)
    m1 = draw(S.logfloats(1e-7, 1e-3)) * m0
    m2 = draw(S.logfloats(1e-7, 1e-3)) * m0
    parts = [{"m": m0, "x": 0.0, "y": 0.0, "z": 0.0, "vx": 0.0, "vy": 0.0, "vz": 0.0}]
    for m, a, e, inc in ((m1, a1, e1, 0.0), (m2, a2, e2, draw(S.floats(0.0, 0.3)))):
        sv = S.el2cart(Gv * (m0 + m), a, e, inc, draw(S.angles), draw(S.angles), draw(S.angles))
        parts.append({"m": m, "x": sv[0], "y": sv[1], "z": sv[2], "vx": sv[3], "vy": sv[4], "vz": sv[5]})
    M = sum(p["m"] for p in parts)
    for key in ("x", "y", "z", "vx", "vy", "vz"):
        cc = sum(p["m"] * p[key] for p in parts) / M
        for p in parts:
            p[key] -= cc
    P = 2 * math.pi * math.sqrt(a1 ** 3 / (Gv * m0))
    return {"G": Gv, "particles": parts, "P_min": P, "P_max": P * (a2 / a1) ** 1.5}


mirror_cfg = st.one_of(
    st.builds(lambda mode, eps: {"integrator": "ias15", "set": [["ri_ias15.adaptive_mode", mode], ["ri_ias15.epsilon", eps]],
                                 "family": "ias15", "fixed_step": False},
              st.sampled_from([1, 2, 2, 3]), st.sampled_from([1e-9, 1e-9, 1e-7])),
    S.bs_config())

mirror_case = st.fixed_dictionaries({
    "system": eccentric_system(), "cfg": mirror_cfg,
    "orbits": S.floats(2.0, 6.0), "dt_frac": S.logfloats(1e-3, 0.03),
})


def run_mirror(case, ctx):
    """Newtonian gravity is time-reversal symmetric: the run of the velocity-flipped system towards -T is the mirror
    image of the forward run towards +T.  The forward run (held to its accuracy class by 'conserve') is therefore an
    independent yardstick for the backward one: its energy and angular-momentum errors may not be more than 20x
    larger (plus a rounding floor of 8 eps sqrt(steps) sum|terms|).  On the unchanged tree the two runs are bitwise
    mirror images (recorded as class 'bitwise_mirror', not asserted)."""
    import numpy as np
    from .. import rb
    from ..oracles import c04_invariants as inv
    rb.quiet()
    sysd = case["system"]
    cfg = case["cfg"]
    fam = cfg["family"]
    T = case["orbits"] * sysd["P_min"]
    res = []
    for sign in (1.0, -1.0):
        parts = sysd["particles"]
        if sign < 0:
            parts = [dict(p, vx=-p["vx"], vy=-p["vy"], vz=-p["vz"]) for p in parts]
        sim = rb.new_sim({"G": sysd["G"], "particles": parts})
        apply_cfg(sim, cfg)
        sim.dt = sign * case["dt_frac"] * sysd["P_min"]
        budget = [int(4000 * case["orbits"]) + 4000]

        def limiter(p):
            budget[0] -= 1
            if budget[0] < 0:
                sim.stop()
        sim.heartbeat = limiter
        i0 = inv.invariants(inv.parr(sim), sim.G)
        wE = wL = 0.0
        for k in range(1, 9):
            sim.integrate(sign * T * k / 8, exact_finish_time=0)
            if budget[0] < 0:
                ctx.skip("adaptive step collapsed")
                return
            i1 = inv.invariants(inv.parr(sim), sim.G)
            wE = max(wE, abs(float(i1["E"] - i0["E"])) / float(i0["Esc"]))
            wL = max(wL, vmax(i1["L"] - i0["L"]) / float(i0["Lsc"]))
        res.append((wE, wL, sim.steps_done, inv.parr(sim), sim.t))
    (fE, fL, fn, fa, ft), (bE, bL, bn, ba, bt) = res
    ctx.cls(fam)
    if fa[:, 0:3].tobytes() == ba[:, 0:3].tobytes() and fa[:, 3:6].tobytes() == (-ba[:, 3:6]).tobytes() and ft == -bt:
        ctx.cls("bitwise_mirror")
    ctx.stat_max("steps_ratio[%s]" % fam, max(bn / fn, fn / bn))
    floor = 8 * EPS * math.sqrt(max(fn, bn))
    ctx.stat_max("bwd_over_fwd_E[%s]" % fam, bE / (20 * fE + floor))
    ctx.stat_max("bwd_over_fwd_L[%s]" % fam, bL / (20 * fL + floor))
    if min(fn, bn) >= 30:
        ctx.nontrivial()
    if bE > 20 * fE + floor:
        raise Violation("%s backward in time: max|dE|/sum|terms| = %.3e over %d steps; the mirror-image forward run "
                        "has %.3e over %d steps (allowed 20x + %.1e)" % (fam, bE, bn, fE, fn, floor))
    if bL > 20 * fL + floor:
        raise Violation("%s backward in time: max|dL|/sum m|x||v| = %.3e over %d steps; the mirror-image forward run "
                        "has %.3e over %d steps (allowed 20x + %.1e)" % (fam, bL, bn, fL, fn, floor))


def subs(tier):
    out = [
        Sub("conserve", run_conserve, strategy=conserve_case, quick=2000, thorough=40000, shards_quick=8, shards_thorough=16),
        Sub("conserve_short", run_conserve, strategy=short_case, quick=1600, thorough=100000, shards_quick=8, shards_thorough=16),
        Sub("merge", run_merge, strategy=merge_case, quick=600, thorough=40000, shards_quick=4, shards_thorough=16),
        Sub("mirror", run_mirror, strategy=mirror_case, quick=320, thorough=12000, shards_quick=4, shards_thorough=16),
        Sub("diagnostics", run_diag, strategy=diag_case, quick=3000, thorough=200000, shards_quick=2, shards_thorough=8),
    ]
    return out
