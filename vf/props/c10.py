"""C10 - JANUS is bit-wise time reversible; symmetric schemes reverse to rounding error."""
import math

from hypothesis import strategies as st

from ..core import Sub, Violation
from .. import strategies as S

PROPERTY = "C10"
LEVEL = "exploration"
K_TOL = 64.0
EPS = 2.0 ** -52
RULE = ("Round trip: n steps, dt -> -dt, n steps.  JANUS (orders 2,4,6,8,10; scale_pos/scale_vel 1e-10..1e-16 "
        "independently; N 2-6 hierarchical or comparable-mass systems; n <= 300; both signs of dt; with and without "
        "read-only pre/post_timestep_modifications / heartbeat observers installed; gravity basic / compensated / "
        "none; redundant re-assignment of scale_pos/scale_vel/order/integrator/gravity/dt to their current values at "
        "generated points of either leg; optional burn-in of 1-3 steps with WHFast/SABA/EOS/LEAPFROG/IAS15 on the same "
        "simulation with the round trip starting at the hand-over; open or periodic box small enough that bodies cross a face (must leave the forward trajectory bitwise unchanged); all particles active or N_active<N with testparticle_type 0/1; dt up to 0.1 P_min): the particle "
        "bit patterns and the integer state p_int must equal those of the initial state put on the grid.  "
        "LEAPFROG, WHFast (4 coordinate systems, default kernel, no correctors, safe_mode 0/1), SABA types without "
        "correctors, EOS with unprocessed splittings on both levels, SEI: the state must return to the initial "
        "one within K*eps*n*(1+3pi*N_orb)*scale, K=64, N_orb = 2n|dt|/P_min (Keplerian/epicyclic shear is the "
        "condition number of a regular orbit).  Non-trivial = n >= 10 and the system moved at the turning point "
        "(JANUS: some coordinate by > 1e6 grid units; others: by > 1e6 times the tolerance); distinct by case hash.")
ASSUMPTIONS = [
    "the initial state 'on the integer grid' is float(int(x/scale))*scale computed with Python's IEEE doubles",
    "JANUS domain: |x|/scale_pos and |v|/scale_vel below 2^60 (int64 headroom for the drift increments)",
    "regular regime: well separated hierarchical systems, dt <= 0.05 P_min, n <= 200 steps (<= 20 orbits there "
    "and back); rounding error growth model n*(1+3pi*N_orb)",
    "safe_mode=0 runs are synchronised before the step is negated (documented requirement for changing dt)",
    "SEI: shearing-sheet particles with Hill radius <= 0.003; with self-gravity a case is skipped when a pair starts "
    "closer than 0.1 or could come closer than 0.05 on the way out (close encounters are not the regular regime)",
]
JANUS_ORDERS = [2, 4, 6, 8, 10]
SETTINGS_NAMES = ["scale_pos", "scale_vel", "order", "integrator", "gravity", "dt"]
SABA_PLAIN = ["1", "2", "3", "4", "10,4", "8,6,4", "10,6,4", "h8,4,4", "h8,6,4", "h10,6,4"]
EOS_PLAIN = ["lf", "lf4", "lf6", "lf8", "lf4_2", "lf8_6_4"]
CLASSES = ["%s/monitor:%s" % (a, b) for a in ("janus", "symmetric", "sei") for b in ("none", "pre", "post", "hb")] + \
          ["janus/order%d" % o for o in JANUS_ORDERS] + ["janus/on_grid", "janus/off_grid_image", "janus/dt<0", "janus/gravity:basic", "janus/gravity:compensated",
           "janus/gravity:none", "janus/testparticles:type0", "janus/testparticles:type1",
           "janus/compensated+testparticles"] + ["janus/reassign:" + w for w in SETTINGS_NAMES] + \
          ["janus/reassign_leg%d" % i for i in range(3)] + \
          ["janus/burnin:" + b_ for b_ in ("whfast:jacobi", "whfast:democraticheliocentric", "whfast:whds",
                                            "whfast:barycentric", "saba", "eos", "leapfrog", "ias15")] + \
          ["janus/periodic", "janus/periodic_outside_at_turn", "janus_tp/periodic", "janus_tp/periodic_outside_at_turn"] + \
          ["%s/drive:%s" % (a_, b_) for a_ in ("janus", "janus_tp", "symmetric", "sei")
           for b_ in ("steps/manual/steps", "integrate/manual/integrate", "integrate/integrate/integrate",
                      "steps/integrate/integrate")] + ["janus_tp/compensated+testparticles", "janus_tp/testparticles:type0",
           "janus_tp/testparticles:type1"] + \
          ["symmetric/leapfrog", "sei/sei", "sei/gravity", "sei/OMEGAZ"] + \
          ["symmetric/whfast:%s:%d" % (c, s) for c in S.WH_COORDS for s in (0, 1)] + \
          ["symmetric/saba:%s" % t for t in SABA_PLAIN] + ["symmetric/eos:%s" % t for t in EOS_PLAIN]

# read-only observers a user may install: they never touch a particle, so they must not change the result
monitors = st.sampled_from([[], [], ["post"], ["pre"], ["pre", "post"], ["hb"], ["pre", "post", "hb"]])


def install_monitors(sim, which, ctx):
    """Install read-only callbacks (they only read the time).  Returns the call log (kept alive by the caller)."""
    seen = {"pre": 0, "post": 0, "hb": 0}

    def mk(name):
        def watch(simp):
            _ = simp.contents.t        # read-only
            seen[name] += 1
        return watch
    if "pre" in which:
        sim.pre_timestep_modifications = mk("pre")
    if "post" in which:
        sim.post_timestep_modifications = mk("post")
    if "hb" in which:
        sim.heartbeat = mk("hb")       # only invoked by integrate(); installed to show that it is inert for steps()
    for w in which:
        ctx.cls("monitor:" + w)
    if not which:
        ctx.cls("monitor:none")
    return seen


# redundant reconfiguration: re-assign a documented setting to the value it already has (a no-op) at a generated
# point: leg 0 = forward, 1 = at the turning point, 2 = backward; frac = where in the leg
SETTINGS = SETTINGS_NAMES
reconf = st.one_of(st.just([]), st.lists(
    st.tuples(st.sampled_from([0, 1, 2]), st.sampled_from([0.0, 0.3, 0.5, 0.9]),
              st.lists(st.sampled_from(SETTINGS), min_size=1, max_size=3, unique=True)), min_size=1, max_size=3))


def reassign(sim, which):
    for w in which:
        if w == "scale_pos":
            sim.ri_janus.scale_pos = sim.ri_janus.scale_pos
        elif w == "scale_vel":
            sim.ri_janus.scale_vel = sim.ri_janus.scale_vel
        elif w == "order":
            sim.ri_janus.order = sim.ri_janus.order
        elif w == "integrator":
            sim.integrator = "janus"
        elif w == "gravity":
            sim.gravity = sim.gravity
        elif w == "dt":
            sim.dt = sim.dt


# how the two legs are driven: steps(n) or integrate(t + (n-1/2) dt, exact_finish_time=0) (= exactly n steps), and
# whether dt is negated by hand at the turning point or left to integrate() (which flips the sign of dt itself
# when the requested time lies behind: r->dt = copysign(r->dt, direction))
drive = st.sampled_from([["steps", "manual", "steps"], ["steps", "manual", "steps"], ["integrate", "manual", "integrate"],
                         ["steps", "manual", "integrate"], ["integrate", "integrate", "integrate"],
                         ["steps", "integrate", "integrate"]])


def go(sim, n, dt, how):
    """Advance exactly n steps of size dt (sim.dt may still have the other sign when how == "integrate")."""
    if how == "steps":
        sim.steps(n)
        return
    before = sim.steps_done
    sim.integrate(sim.t + (n - 0.5) * dt, exact_finish_time=0)
    if sim.steps_done - before != n:
        raise RuntimeError("harness: integrate() took %d steps instead of %d" % (sim.steps_done - before, n))


def leg(sim, n, points, how="steps", dt=None):
    if how != "steps":
        for frac, which in points:
            reassign(sim, which)      # integrate-driven leg: re-assignments happen before the leg
        go(sim, n, dt, how)
        return
    _leg_steps(sim, n, points)


def _leg_steps(sim, n, points):
    """n steps with redundant re-assignments after int(frac*n) steps."""
    done = 0
    for frac, which in sorted(points, key=lambda t: t[0]):
        k = min(n, int(frac * n))
        if k > done:
            sim.steps(k - done)
            done = k
        reassign(sim, which)
    if n > done:
        sim.steps(n - done)


# burn-in: the same simulation first runs k steps of another integrator, then the user hands over to JANUS
BURN_SCHEMES = ["whfast:jacobi:1", "whfast:democraticheliocentric:1", "whfast:whds:0", "whfast:barycentric:1",
                "saba:1:1", "saba:10,6,4:0", "eos:lf:lf", "eos:lf4:lf", "leapfrog", "ias15"]
burnin = st.one_of(st.none(), st.none(), st.tuples(st.sampled_from(BURN_SCHEMES), st.integers(1, 3),
                                                   st.sampled_from([0.01, 0.03, -0.02])))


def burn(sim, b, P_min):
    """k steps of another integrator on this very simulation, synchronised, ready for the hand-over."""
    scheme, k, frac = b
    if scheme == "ias15":
        sim.integrator = "ias15"
    else:
        configure(sim, scheme, {"eos_n": 2, "eos_safe": 1})
    sim.dt = frac * P_min
    sim.steps(k)
    sim.synchronize()


# ---------------------------------------------------------------------------------------------------------
# JANUS

janus_case = st.fixed_dictionaries({
    "system": st.one_of(S.hierarchical_system(nmin=2, nmax=6, allow_massless=True), S.few_body(nmin=2, nmax=5)),
    "order": st.sampled_from(JANUS_ORDERS),
    "kpos": st.one_of(S.floats(10.0, 16.0), st.sampled_from([16.0, 16.0, 10.0, 13.0])),
    "kvel": st.one_of(S.floats(10.0, 16.0), st.sampled_from([16.0, 16.0, 10.0, 13.0])),
    "n": st.one_of(st.integers(1, 300), st.integers(10, 60)),
    "dt_frac": st.sampled_from([0.003, 0.01, 0.02, 0.05, 0.04, 0.1]),
    "backward_first": st.booleans(),
    "monitor": monitors,
    # force routines JANUS can be combined with (it calls the selected routine once per stage; the tree routine is
    # left out: the tree is rebuilt once per step only and its summation order depends on history)
    "gravity": st.sampled_from(["basic", "basic", "compensated", "compensated", "none"]),
    "n_active": st.one_of(st.none(), st.integers(1, 5)),     # None: all active; else min(n_active, N-1) active
    "testparticle_type": st.sampled_from([0, 1]),
    "reconf": reconf,
    "drive": drive,
    # periodic box: half size = factor * largest initial |coordinate| (None: open boundary); with a small factor the
    # outer bodies cross a face on the way.  JANUS keeps its integer state authoritative: wrapping only moves the
    # double copy, so the round trip must still be exact
    "box": st.sampled_from([None, None, 1.02, 1.1, 1.5]),
    "burnin": burnin,
})
# focus on the force-routine lattice: several active bodies plus test particles, fine grid, longer steps
janus_tp_case = st.fixed_dictionaries({
    "system": S.hierarchical_system(nmin=4, nmax=6, allow_massless=True),
    "order": st.sampled_from(JANUS_ORDERS),
    "kpos": st.sampled_from([16.0, 16.0, 15.0]),
    "kvel": st.sampled_from([16.0, 16.0, 15.0]),
    "n": st.integers(40, 300),
    "dt_frac": st.sampled_from([0.04, 0.1, 0.02]),
    "backward_first": st.booleans(),
    "monitor": st.just([]),
    "gravity": st.sampled_from(["compensated", "compensated", "basic"]),
    "n_active": st.integers(2, 3),
    "testparticle_type": st.sampled_from([0, 1]),
    "reconf": reconf,
    "drive": drive,
    "box": st.sampled_from([None, None, 1.1]),
    "burnin": burnin,
})
XYZ = ("x", "y", "z", "vx", "vy", "vz")


def run_janus(c, ctx):
    import warnings
    import rebound
    from .. import rb
    warnings.simplefilter("ignore")
    sysd = c["system"]
    parts = sysd["particles"]
    bi = c.get("burnin")
    if bi is not None:
        # the round trip starts AT the hand-over: run the burn-in once to learn the hand-over state, put that state
        # on the grid ourselves (below); make() repeats the identical burn-in on the simulation under test
        s0_ = rb.new_sim({"G": sysd["G"], "particles": parts})
        burn(s0_, bi, sysd["P_min"])
        parts = [dict(p, **{k: getattr(s0_.particles[i], k) for k in XYZ}) for i, p in enumerate(parts)]
        del s0_
        if not all(math.isfinite(p[k]) for p in parts for k in XYZ):
            ctx.skip("burn-in left a non-finite state")
            return
        ctx.cls("burnin:" + bi[0].split(":")[0] + (":" + bi[0].split(":")[1] if bi[0].startswith("whfast") else ""))
    xmax = max(abs(p[k]) for p in parts for k in ("x", "y", "z"))
    vmax = max(abs(p[k]) for p in parts for k in ("vx", "vy", "vz"))
    sp = max(10.0 ** (-c["kpos"]), xmax / 2.0 ** 60)
    sv = max(10.0 ** (-c["kvel"]), vmax / 2.0 ** 60)
    # initial conditions on the integer grid, with the same IEEE operations the property is stated for
    grid = []
    on_grid = True
    snapped = []
    for p in parts:
        q = dict(p)
        ints = []
        for k in XYZ:
            s = sp if k in ("x", "y", "z") else sv
            i0 = int(p[k] / s)
            q[k] = float(i0) * s
            i1 = int(q[k] / s)           # what the integrator's to_int() computes from the snapped value
            if float(i1) * s != q[k]:
                on_grid = False          # (k*s)/s truncated back to k-1: the value is not a fixed point of the grid map
            ints.append(i1)
        snapped.append(q)
        grid.append(ints)
    dt = c["dt_frac"] * sysd["P_min"] * (-1.0 if c["backward_first"] else 1.0)

    boxf = c.get("box") if bi is None else None
    xmax0 = max(abs(q[k]) for q in snapped for k in ("x", "y", "z"))

    def make():
        spec = {"G": sysd["G"], "particles": snapped if bi is None else sysd["particles"]}
        if boxf is not None and xmax0 > 0:
            spec["box"] = {"size": 2.0 * boxf * xmax0}
            spec["boundary"] = "periodic"
        s_ = rb.new_sim(spec)
        if bi is not None:
            burn(s_, bi, sysd["P_min"])
            for i_, q_ in enumerate(snapped):          # hand-over state put on the grid (a particle edit)
                for k_ in XYZ:
                    setattr(s_.particles[i_], k_, q_[k_])
            s_.ri_janus.recalculate_integer_coordinates_this_timestep = 1
        s_.integrator = "janus"
        s_.gravity = c["gravity"]
        if c["n_active"] is not None and len(snapped) >= 2:
            s_.N_active = min(c["n_active"], len(snapped) - 1)
            s_.testparticle_type = c["testparticle_type"]
            try:
                s_.testparticle_hidewarnings = 1
            except AttributeError:
                pass
        s_.ri_janus.order = c["order"]
        s_.ri_janus.scale_pos = sp
        s_.ri_janus.scale_vel = sv
        s_.dt = dt
        return s_
    sim = make()
    # masses at the start of the round trip (a WHFast barycentric burn-in rebuilds the star's mass as
    # M_tot - sum(m_i), which may differ from the input by an ulp: not JANUS's doing)
    m_handover = [sim.particles[i].m for i in range(sim.N)]
    ctx.cls("gravity:" + c["gravity"])
    if c["n_active"] is not None and len(snapped) >= 2:
        ctx.cls("testparticles:type%d" % c["testparticle_type"])
        if c["gravity"] == "compensated":
            ctx.cls("compensated+testparticles")
    rc = c.get("reconf") or []
    for lg, frac, which in rc:
        for w_ in which:
            ctx.cls("reassign:" + w_)
        ctx.cls("reassign_leg%d" % lg)
    n = c["n"]
    N = sim.N
    seen = install_monitors(sim, c["monitor"], ctx)
    # expected: image of the initial state on the grid (equal to the initial bits when on_grid)
    expect_bits = []
    for i, q in enumerate(snapped):
        row = []
        for j, k in enumerate(XYZ):
            s = sp if j < 3 else sv
            row.append(rb.dbits(float(grid[i][j]) * s))
        expect_bits.append(row)
    init_bits = [[rb.dbits(getattr(sim.particles[i], k)) for k in XYZ] for i in range(N)]
    ctx.cls("order%d" % c["order"])
    ctx.cls("on_grid" if on_grid and init_bits == expect_bits else "off_grid_image")
    if c["backward_first"]:
        ctx.cls("dt<0")
    dr = c.get("drive") or ["steps", "manual", "steps"]
    ctx.cls("drive:" + "/".join(dr))
    leg(sim, n, [(fr, wh) for lg, fr, wh in rc if lg == 0], dr[0], dt)
    far_int = [[getattr(sim.ri_janus.p_int[i], k) for k in XYZ] for i in range(N)]
    moved = max(abs(far_int[i][j] - grid[i][j]) for i in range(N) for j in range(6))
    if boxf is not None and xmax0 > 0:
        ctx.cls("periodic")
        half = boxf * xmax0
        if any(abs(float(far_int[i][j]) * sp) > half for i in range(N) for j in range(3)):
            ctx.cls("periodic_outside_at_turn")     # some body is outside the box (wrapped in the double copy)
    far_t = sim.t
    if any(lg == 0 for lg, fr, wh in rc):
        # metamorphic: re-assigning a setting to its current value must not change the trajectory at all
        twin = make()
        twin.steps(n)
        twin_int = [[getattr(twin.ri_janus.p_int[i], k) for k in XYZ] for i in range(N)]
        twin_bits = [[rb.dbits(getattr(twin.particles[i], k)) for k in XYZ] for i in range(N)]
        here_bits = [[rb.dbits(getattr(sim.particles[i], k)) for k in XYZ] for i in range(N)]
        if boxf is not None:
            # periodic box: the double copy of a body outside the box is wrapped by the boundary check and
            # unwrapped again by the next synchronize; only the integer state is authoritative at this point
            twin_bits = here_bits
        if twin_int != far_int or twin_bits != here_bits:
            bad = [(i, XYZ[j], far_int[i][j] - twin_int[i][j]) for i in range(N) for j in range(6)
                   if far_int[i][j] != twin_int[i][j] or here_bits[i][j] != twin_bits[i][j]]
            raise Violation("JANUS order %d: re-assigning %r to their current values during %d forward steps changes "
                            "the trajectory (%d coordinates; first: particle %d %s by %d grid units)"
                            % (c["order"], [x for x in rc if x[0] == 0], n, len(bad), bad[0][0], bad[0][1], bad[0][2]),
                            differing=bad[:12], scale_pos=sp, scale_vel=sv, dt=dt)
        del twin
    for lg, fr, wh in rc:
        if lg == 1:
            reassign(sim, wh)
    if dr[1] == "manual":
        sim.dt = -dt
    leg(sim, n, [(fr, wh) for lg, fr, wh in rc if lg == 2], dr[2], -dt)
    got_bits = [[rb.dbits(getattr(sim.particles[i], k)) for k in XYZ] for i in range(N)]
    got_int = [[getattr(sim.ri_janus.p_int[i], k) for k in XYZ] for i in range(N)]
    if got_bits != expect_bits:
        bad = [(i, XYZ[j], got_int[i][j] - grid[i][j]) for i in range(N) for j in range(6)
               if got_bits[i][j] != expect_bits[i][j]]
        raise Violation("JANUS order %d: %d steps forward and %d steps back do not restore the initial bits "
                        "(%d coordinates differ; first: particle %d %s off by %d grid units)"
                        % (c["order"], n, n, len(bad), bad[0][0], bad[0][1], bad[0][2]),
                        differing=bad[:12], scale_pos=sp, scale_vel=sv, dt=dt, moved_grid_units=moved)
    if got_int != grid:
        bad = [(i, XYZ[j], got_int[i][j] - grid[i][j]) for i in range(N) for j in range(6) if got_int[i][j] != grid[i][j]]
        raise Violation("JANUS order %d: the integer state after %d steps forward and back differs from the initial "
                        "one (%d coordinates; first: particle %d %s off by %d grid units) although the doubles agree"
                        % (c["order"], n, len(bad), bad[0][0], bad[0][1], bad[0][2]),
                        differing=bad[:12], scale_pos=sp, scale_vel=sv, dt=dt)
    for k in ("pre", "post"):
        if k in c["monitor"] and seen[k] != 2 * n:
            raise RuntimeError("harness: %s monitor called %d times in %d steps" % (k, seen[k], 2 * n))
    for i in range(N):
        if sim.particles[i].m != m_handover[i]:
            raise Violation("JANUS changed the mass of particle %d" % i)
    ctx.stat_max("janus_moved_grid_units_log10", math.log10(moved) if moved > 0 else 0)
    if n >= 10 and moved > 1e6 and far_t != 0.0:
        ctx.nontrivial()


# ---------------------------------------------------------------------------------------------------------
# other time-symmetric fixed-step schemes without correctors / processors

def sym_schemes():
    out = ["leapfrog"]
    for cs in S.WH_COORDS:
        for sm in (0, 1):
            out.append("whfast:%s:%d" % (cs, sm))
    for t in SABA_PLAIN:
        for sm in (0, 1):
            out.append("saba:%s:%d" % (t, sm))
    for p0 in EOS_PLAIN:
        for p1 in EOS_PLAIN:
            out.append("eos:%s:%s" % (p0, p1))
    return out


sym_case = st.fixed_dictionaries({
    "system": S.hierarchical_system(nmin=2, nmax=5, allow_massless=True),
    "scheme": st.one_of(st.sampled_from(sym_schemes()),
                        st.sampled_from(["leapfrog"] + [s for s in sym_schemes() if s.startswith("whfast")])),
    "eos_n": st.sampled_from([1, 2, 3, 8]),
    "eos_safe": st.sampled_from([0, 1]),
    "n": st.one_of(st.integers(1, 200), st.integers(10, 60)),
    "dt_frac": st.sampled_from([0.005, 0.01, 0.02, 0.05]),
    "backward_first": st.booleans(),
    "monitor": monitors,
    "drive": drive,
})

sei_case = st.fixed_dictionaries({
    "OMEGA": st.sampled_from([1.0, 0.5, 2.3, 1e-3]),
    "OMEGAZ": st.sampled_from([None, None, 1.7]),
    "particles": st.lists(st.fixed_dictionaries({
        "mfac": st.sampled_from([0.0, 1e-9, 1e-7]),
        "x": S.floats(-3.0, 3.0), "y": S.floats(-3.0, 3.0), "z": S.floats(-0.5, 0.5),
        "dvx": S.floats(-0.3, 0.3), "dvy": S.floats(-0.3, 0.3), "vz": S.floats(-0.3, 0.3)}), min_size=1, max_size=4),
    "gravity": st.sampled_from(["none", "basic"]),
    "n": st.one_of(st.integers(1, 200), st.integers(10, 60)),
    "dt_frac": st.sampled_from([0.005, 0.01, 0.02, 0.05]),
    "backward_first": st.booleans(),
    "monitor": monitors,
    "drive": drive,
})


def configure(sim, scheme, c):
    p = scheme.split(":")
    if p[0] == "leapfrog":
        sim.integrator = "leapfrog"
    elif p[0] == "whfast":
        sim.integrator = "whfast"
        sim.ri_whfast.coordinates = p[1]
        sim.ri_whfast.safe_mode = int(p[2])
    elif p[0] == "saba":
        sim.integrator = "saba"
        sim.ri_saba.type = p[1]
        sim.ri_saba.safe_mode = int(p[2])
    elif p[0] == "eos":
        sim.integrator = "eos"
        sim.ri_eos.phi0 = p[1]
        sim.ri_eos.phi1 = p[2]
        sim.ri_eos.n = c["eos_n"]
        sim.ri_eos.safe_mode = c["eos_safe"]
    else:
        raise ValueError(scheme)


def state(sim):
    return [[getattr(sim.particles[i], k) for k in XYZ] for i in range(sim.N)]


def too_close(sim, dt, dmin):
    """True if some pair is, or within one step could come (linear bound, 1.5 safety), closer than dmin."""
    ps = state(sim)
    for i in range(len(ps)):
        for j in range(i):
            d = math.sqrt(sum((ps[i][k] - ps[j][k]) ** 2 for k in range(3)))
            w = math.sqrt(sum((ps[i][k] - ps[j][k]) ** 2 for k in range(3, 6)))
            if d - 1.5 * w * abs(dt) < dmin:
                return True
    return False


def round_trip(sim, n, dt, ctx, what, P_min, details, dmin=None, dr=None):
    """n steps, synchronise, dt -> -dt, n steps, synchronise; assert return within the tolerance.
    dmin: (interacting sheet particles) skip the case if a pair comes closer than dmin on the way out."""
    dr = dr or ["steps", "manual", "steps"]
    if dmin is not None:
        dr = ["steps", dr[1], dr[2]]
    ctx.cls("drive:" + "/".join(dr))
    s0 = state(sim)
    sim.dt = dt
    if dmin is None:
        go(sim, n, dt, dr[0])
    else:
        for _ in range(n):
            if too_close(sim, dt, dmin):
                ctx.skip("close approach of two sheet particles on the way: not the regular regime")
                return
            sim.steps(1)
        if too_close(sim, dt, dmin):
            ctx.skip("close approach of two sheet particles on the way: not the regular regime")
            return
    sim.synchronize()
    s1 = state(sim)
    if dr[1] == "manual":
        sim.dt = -dt
    go(sim, n, -dt, dr[2])
    sim.synchronize()
    s2 = state(sim)
    N = len(s0)
    if not all(math.isfinite(x) for row in s2 for x in row):
        raise Violation("%s: non-finite state after the round trip" % what, **details)
    # centre the length scale on the barycentre-free extent of the system (initial and turning point)
    xs = max(math.sqrt(sum(r[j] ** 2 for j in range(3))) for r in s0 + s1)
    vs = max(math.sqrt(sum(r[j] ** 2 for j in range(3, 6))) for r in s0 + s1)
    # positions and velocities feed each other at the orbital / epicyclic frequency: the rounding scale of one is
    # at least the other's times that frequency (a particle passing through the origin still has |v|/Omega extent)
    om = 2.0 * math.pi / P_min
    xs, vs = max(xs, vs / om), max(vs, xs * om)
    n_orb = 2.0 * n * abs(dt) / P_min
    cond = n * (1.0 + 3.0 * math.pi * n_orb)
    tpos = K_TOL * EPS * cond * xs
    tvel = K_TOL * EPS * cond * vs
    epos = max(math.sqrt(sum((s2[i][j] - s0[i][j]) ** 2 for j in range(3))) for i in range(N))
    evel = max(math.sqrt(sum((s2[i][j] - s0[i][j]) ** 2 for j in range(3, 6))) for i in range(N))
    moved = max(math.sqrt(sum((s1[i][j] - s0[i][j]) ** 2 for j in range(3))) for i in range(N))
    if xs == 0.0 and vs == 0.0:
        if epos or evel:
            raise Violation("%s: a system at rest at the origin moved" % what, **details)
        return
    tiny = 1e-300
    ratio = max(epos / max(tpos, tiny), evel / max(tvel, tiny)) * K_TOL
    ctx.stat_max("err_over_eps_cond_scale:" + what.split(":")[0], ratio)
    if epos > tpos or evel > tvel:
        raise Violation("%s: %d steps forward and %d steps back return to the initial state only within %.3g x "
                        "eps*n*(1+3pi*N_orb)*scale (allowed K=%g)" % (what, n, n, ratio, K_TOL),
                        err_pos=epos, tol_pos=tpos, err_vel=evel, tol_vel=tvel, n=n, dt=dt, n_orb=n_orb, **details)
    if n >= 10 and moved > 1e6 * tpos:
        ctx.nontrivial()


def run_sym(c, ctx):
    import warnings
    from .. import rb
    warnings.simplefilter("ignore")
    sysd = c["system"]
    sim = rb.new_sim({"G": sysd["G"], "particles": sysd["particles"]})
    configure(sim, c["scheme"], c)
    p = c["scheme"].split(":")
    ctx.cls(":".join(p[:3]) if p[0] == "whfast" else ":".join(p[:2]))
    if p[0] == "eos":
        ctx.cls("eos_phi1:" + p[2])
    dt = c["dt_frac"] * sysd["P_min"] * (-1.0 if c["backward_first"] else 1.0)
    seen = install_monitors(sim, c["monitor"], ctx)      # noqa: F841 (keeps the callbacks alive)
    round_trip(sim, c["n"], dt, ctx, c["scheme"], sysd["P_min"], dict(scheme=c["scheme"], monitor=c["monitor"]),
               dr=c.get("drive"))


def run_sei(c, ctx):
    import warnings
    import rebound
    warnings.simplefilter("ignore")
    sim = rebound.Simulation()
    Om = c["OMEGA"]
    sim.integrator = "sei"
    sim.ri_sei.OMEGA = Om
    if c["OMEGAZ"] is not None:
        sim.ri_sei.OMEGAZ = c["OMEGAZ"] * Om
    sim.gravity = c["gravity"]
    ps = c["particles"]
    for i in range(len(ps)):
        for j in range(i):
            if math.sqrt(sum((ps[i][k] - ps[j][k]) ** 2 for k in ("x", "y", "z"))) < 0.1:
                ctx.skip("two sheet particles closer than 0.1 (>30 Hill radii required for the regular regime)")
                return
    for q in ps:
        # Keplerian shear plus a random epicyclic velocity; masses in units where the Hill radius is <= 0.003
        sim.add(m=q["mfac"] * Om * Om, x=q["x"], y=q["y"], z=q["z"], vx=q["dvx"] * Om,
                vy=(-1.5 * q["x"] + q["dvy"]) * Om, vz=q["vz"] * Om)
    if c["gravity"] == "basic":
        ctx.cls("gravity")
    if c["OMEGAZ"] is not None:
        ctx.cls("OMEGAZ")
    P = 2 * math.pi / Om
    dt = c["dt_frac"] * P * (-1.0 if c["backward_first"] else 1.0)
    ctx.cls("sei")
    seen = install_monitors(sim, c["monitor"], ctx)      # noqa: F841
    round_trip(sim, c["n"], dt, ctx, "sei", P, dict(OMEGA=Om), dmin=0.05 if c["gravity"] == "basic" else None,
               dr=c.get("drive"))


def subs(tier):
    return [
        Sub("janus", run_janus, strategy=janus_case, quick=1600, thorough=40000, shards_quick=8, shards_thorough=16),
        Sub("janus_tp", run_janus, strategy=janus_tp_case, quick=480, thorough=12000, shards_quick=8,
            shards_thorough=16),
        Sub("symmetric", run_sym, strategy=sym_case, quick=2400, thorough=60000, shards_quick=8, shards_thorough=16),
        Sub("sei", run_sei, strategy=sei_case, quick=800, thorough=16000, shards_quick=4, shards_thorough=8),
    ]
