"""C16 - variational particles are the derivatives of the trajectory.

Sub-checks
  ctor     every reb_particle_derivative_* constructor (12 first order, 53 second order, enumerated) against
           4th-order central finite differences of REBOUND's own element->Cartesian map
           (reb_particle_from_orbit / reb_particle_from_pal), evaluated at the elements the constructor itself
           recovers from its Cartesian argument.  Error bound of the difference quotient:
           |D(h)-D(2h)| (truncation, Richardson: 15x the truncation error of D(h)) + 64*w*eps*|map|/(h (1-e))
           (round-off of the stencil; w = sum of |stencil weights|).
  evolve   first/second order variational particles after integration (IAS15, BS: orders 1 and 2, also
           test-particle variations; WHFast (safe_mode 0/1, correctors 0/3/11) and LEAPFROG: order 1, exact
           tangent map of the discrete map) against 4th-order central differences of shadow simulations at
           parameter +-h, +-2h (and +-4h for the error estimate).
           order 1: differences of real trajectories; order 2: differences of the first-order variation.
           IAS15/BS cases use IAS15 shadows (true flow), WHFast/LEAPFROG the same map with the same dt.
  rescale  a first-order variation whose largest initial coordinate is 10^x (x in [99.3,99.97]) so that the
           1e100 rescale fires, against the same variation at amplitude 1 with rescaling disabled
           (lrescale=-1): coordinates * exp(lrescale) / amplitude must agree to 2^17 eps (IAS15, WHFast, LEAPFROG).
  megno    MEGNO -> 2, Lyapunov -> 0 on regular low-e two-planet systems (WHFast, IAS15), lenient bounds.

Known findings (keys; see the report): C16-whfast-mass-variation (open, WHFast tangent map has no mass terms),
C16-pal-kepler-newton, C16-rescale-ias15-state, C16-rescale-mass-variation (fix patches in proposed_fixes/).
"""
import math

from hypothesis import strategies as st

from ..core import Sub, Violation
from .. import strategies as S

PROPERTY = "C16"
LEVEL = "exploration"

EPS = 2.220446049250313e-16
TWO_PI = 2.0 * math.pi

# ---------------------------------------------------------------------------------------------------------
# parameter sets

CL_ARGS = ["m", "a", "e", "inc", "Omega", "omega", "f"]        # argument order of reb_particle_from_orbit
PAL_ARGS = ["m", "a", "lambda", "k", "h", "ix", "iy"]           # argument order of reb_particle_from_pal
CL_ONLY = ["e", "inc", "Omega", "omega", "f"]
PAL_ONLY = ["lambda", "h", "k", "ix", "iy"]
SHARED = ["m", "a"]
CART = ["x", "y", "z", "vx", "vy", "vz"]
# order used by rebound/particle.py to build the name of a second-order constructor
PYORDER = ["m", "a", "e", "inc", "omega", "Omega", "f", "k", "h", "lambda", "ix", "iy"]


def ctor_name(p, q=None):
    if q is None:
        return p
    if PYORDER.index(q) < PYORDER.index(p):
        p, q = q, p
    return p + "_" + q


def family_of(p, q=None):
    """Which element set a constructor belongs to (the variables held fixed)."""
    for x in (p, q):
        if x in CL_ONLY:
            return "cl"
    return "pal"     # m, a and their pairs are implemented on the Pal set (identical in both sets)


def all_ctors():
    out = []
    for p in PYORDER:
        out.append((p, None))
    seen = set()
    for fam in (CL_ARGS, PAL_ARGS):
        for i, p in enumerate(fam):
            for q in fam[i:]:
                n = ctor_name(p, q)
                if n not in seen:
                    seen.add(n)
                    out.append((p, q))
    return out


CTORS = all_ctors()
assert len(CTORS) == 65, len(CTORS)

RULE = ("ctor: Hypothesis-drawn bound orbits (e in [0,0.9], inc in [0,2.5], any angles incl. 0/pi/2/pi, mass ratio "
        "0 or 1e-9..0.5, 5 values of G, displaced moving primary); every case evaluates all 65 "
        "reb_particle_derivative_* constructors (the 30 of the classical set only if e>=0.01) against finite "
        "differences of REBOUND's own element->Cartesian map.  evolve: Hypothesis-drawn star + 1..3 planet systems "
        "(mass ratios 1e-6..5e-3, e<=0.25 (<=0.8 for one planet), a-ratios 1.9..2.6, 1/8 planar and/or circular), "
        "integrator (ias15/bs/whfast/leapfrog + options), order, parameter or pair (x..vz, Cartesian mass, "
        "element-fixed mass, a, e, inc, Omega, omega, f, lambda, h, k, ix, iy), varied particle(s) incl. the star, "
        "test-particle flag, N_active, horizon 0.3-3 orbits (thorough: up to 30); variational state vs 4th-order "
        "central differences of shadow simulations.  rescale: amplitude ~1e99.x variation vs amplitude 1.  megno: "
        "1500 (thorough 4000) orbits.  Non-trivial = the parameter is an orbital element or a mass (not a bare "
        "Cartesian coordinate), or the variation is second order, or it is a test-particle variation; every ctor "
        "case and every rescale case in which the rescale fired is non-trivial; distinct by case hash.")
ASSUMPTIONS = [
    "REBOUND's own element->Cartesian maps (reb_particle_from_orbit, reb_particle_from_pal) and its inverse "
    "are the maps the constructors are derivatives of (their correctness is C11)",
    "shadow real-particle trajectories integrated by IAS15 (epsilon 1e-9) are exact to ~1e-14 relative over "
    "the horizon (C01); for WHFast/LEAPFROG the reference is the same discrete map with identical dt",
    "finite-difference error is bounded by |D(h)-D(2h)| (4th-order stencil, Richardson) plus a round-off term "
    "K*delta/h with delta the accuracy of one stencil evaluation",
    "mass of a varied test particle is not a supported parameter (back-reaction is ignored by construction)",
]

CLASSES = ["ctor/" + ctor_name(p, q) for p, q in CTORS] + \
          ["evolve/%s/o%d/%s" % (i, o, k) for i in ("ias15", "bs") for o in (1, 2)
           for k in ("cart", "mass", "classical", "pal")] + \
          ["evolve/%s/o1/%s" % (i, k) for i in ("whfast", "leapfrog") for k in ("cart", "classical", "pal")] + \
          ["evolve/leapfrog/o1/mass", "evolve/n_active/varied_testparticle", "evolve/n_active/varied_active"] + \
          ["evolve/testparticle/o1", "evolve/testparticle/o2", "evolve/star_varied", "evolve/two_particles",
           "rescale/triggered/ias15", "rescale/triggered/whfast", "rescale/triggered/leapfrog",
           "megno/whfast", "megno/ias15"]

# ---------------------------------------------------------------------------------------------------------
# access to the library (private function objects: argtypes are set on these only)

_lib = {}


def lib():
    if _lib:
        return _lib
    import ctypes
    from ctypes import c_double, POINTER
    import rebound
    from rebound import clibrebound, Particle, Orbit
    d = ctypes.c_double
    f = clibrebound["reb_particle_from_orbit"]
    f.restype = Particle
    f.argtypes = [d, Particle] + [d] * 7
    _lib["from_cl"] = f
    f = clibrebound["reb_particle_from_pal"]
    f.restype = Particle
    f.argtypes = [d, Particle] + [d] * 7
    _lib["from_pal"] = f
    f = clibrebound["reb_orbit_from_particle"]
    f.restype = Orbit
    f.argtypes = [d, Particle, Particle]
    _lib["to_cl"] = f
    f = clibrebound["reb_tools_particle_to_pal"]
    f.restype = None
    f.argtypes = [d, Particle, Particle] + [POINTER(d)] * 6
    _lib["to_pal"] = f
    for p, q in CTORS:
        n = ctor_name(p, q)
        f = clibrebound["reb_particle_derivative_" + n]      # AttributeError = harness error: list out of date
        f.restype = Particle
        f.argtypes = [d, Particle, Particle]
        _lib["d_" + n] = f
    _lib["Particle"] = Particle
    _lib["rebound"] = rebound
    return _lib


def mkparticle(v):
    """v = [m,x,y,z,vx,vy,vz] -> Particle struct (no simulation attached)."""
    P = lib()["Particle"]
    p = P()
    p.m, p.x, p.y, p.z, p.vx, p.vy, p.vz = v
    return p


def pvec(p):
    return [p.m, p.x, p.y, p.z, p.vx, p.vy, p.vz]


def elements_of(G, prim, po, fam):
    """Elements exactly as the constructors recover them from the Cartesian particle."""
    L = lib()
    if fam == "cl":
        o = L["to_cl"](G, po, prim)
        return {"m": po.m, "a": o.a, "e": o.e, "inc": o.inc, "Omega": o.Omega, "omega": o.omega, "f": o.f}
    import ctypes
    v = [ctypes.c_double() for _ in range(6)]
    L["to_pal"](G, po, prim, *[ctypes.byref(x) for x in v])
    a, lam, k, h, ix, iy = [x.value for x in v]
    return {"m": po.m, "a": a, "lambda": lam, "k": k, "h": h, "ix": ix, "iy": iy}


def map_el(G, prim, el, fam):
    L = lib()
    if fam == "cl":
        return L["from_cl"](G, prim, *[el[k] for k in CL_ARGS])
    return L["from_pal"](G, prim, *[el[k] for k in PAL_ARGS])


def ecc_of(el, fam):
    if fam == "cl":
        return el["e"]
    return math.sqrt(el["h"] ** 2 + el["k"] ** 2)


def param_scale(el, fam, p, Mprim):
    """Natural scale of parameter p at this point: the distance over which the map changes by order unity
    (distance to the nearest singularity of the map for e, f, lambda, h, k, ix, iy)."""
    e = ecc_of(el, fam)
    if p == "a":
        return el["a"]
    if p == "m":
        return el["m"] + Mprim
    if p in ("e", "f", "lambda", "h", "k"):
        return 1.0 - e
    if p in ("ix", "iy"):
        return min(1.0, 4.0 - el["ix"] ** 2 - el["iy"] ** 2)
    return 1.0


C1 = [(-2, 1.0 / 12), (-1, -8.0 / 12), (1, 8.0 / 12), (2, -1.0 / 12)]                   # f'  (4th order)
C2 = [(-2, -1.0 / 12), (-1, 16.0 / 12), (0, -30.0 / 12), (1, 16.0 / 12), (2, -1.0 / 12)]   # f'' (4th order)


def stencil_1(fun, h):
    """4th-order first derivative of vector function fun(s) (s = shift in parameter units)."""
    out = None
    for k, c in C1:
        v = fun(k * h)
        if out is None:
            out = [0.0] * len(v)
        for i, x in enumerate(v):
            out[i] += c * x
    return [x / h for x in out]


def stencil_2(fun, h):
    out = None
    for k, c in C2:
        v = fun(k * h)
        if out is None:
            out = [0.0] * len(v)
        for i, x in enumerate(v):
            out[i] += c * x
    return [x / (h * h) for x in out]


def stencil_11(fun2, hp, hq):
    out = None
    for k, c in C1:
        for l, d in C1:
            v = fun2(k * hp, l * hq)
            if out is None:
                out = [0.0] * len(v)
            for i, x in enumerate(v):
                out[i] += c * d * x
    return [x / (hp * hq) for x in out]


# ---------------------------------------------------------------------------------------------------------
# (a) constructors

orbit_case = st.fixed_dictionaries({
    "G": st.sampled_from(S.G_VALUES),
    "prim": st.fixed_dictionaries({
        "m": st.sampled_from([1.0, 0.5, 2.0, 1.3, 1e-3]),
        "pos": st.lists(S.floats(-2.0, 2.0), min_size=3, max_size=3),
        "vel": st.lists(S.floats(-0.5, 0.5), min_size=3, max_size=3)}),
    "mratio": st.one_of(S.logfloats(1e-9, 0.5), st.just(0.0)),
    "a": S.logfloats(0.05, 50.0),
    "e": st.one_of(S.floats(0.01, 0.9), S.floats(0.01, 0.9), S.floats(0.01, 0.9), S.floats(0.01, 0.9),
                   S.floats(0.01, 0.9), S.floats(0.3, 0.9), S.floats(0.0, 0.01), st.just(0.0)),
    "inc": st.one_of(S.floats(0.0, 2.5), S.floats(0.0, 2.5), S.floats(0.0, 0.01), st.just(0.0)),
    "Omega": S.angles, "omega": S.angles, "f": S.angles,
})

K_RND_CTOR = 64.0       # slack on the round-off term of the difference quotient
STEP1, STEP2 = 2e-3, 4e-3


def pal_solver_finding(ctx, e):
    """Known finding 'C16-pal-kepler-newton' (while open): reb_tools_solve_kepler_pal is inaccurate for 0.15<=e<0.3,
    which makes reb_particle_from_pal and the constructors implemented on the Pal set (m, a, lambda, h, k, ix, iy
    and their pairs) wrong at the 1e-13..1e-4 level.  The window extends to 0.32 because difference stencils in
    h, k started just above 0.3 reach into the defective branch."""
    if 0.15 <= e < 0.32 and ctx.finding_open("C16-pal-kepler-newton"):
        ctx.excluded("C16-pal-kepler-newton")
        return True
    return False


def run_ctor(case, ctx):
    L = lib()
    G = case["G"]
    pm = case["prim"]
    prim = mkparticle([pm["m"]] + list(pm["pos"]) + [v * math.sqrt(G) for v in pm["vel"]])
    m = case["mratio"] * pm["m"]
    el0 = {"m": m, "a": case["a"], "e": case["e"], "inc": case["inc"], "Omega": case["Omega"],
           "omega": case["omega"], "f": case["f"]}
    po = map_el(G, prim, el0, "cl")
    els = {"cl": elements_of(G, prim, po, "cl"), "pal": elements_of(G, prim, po, "pal")}
    for fam in ("cl", "pal"):
        for k, v in els[fam].items():
            if not math.isfinite(v):
                raise Violation("element %s recovered from a regular bound orbit is %r" % (k, v))
    a = els["pal"]["a"]
    mu = G * (m + prim.m)
    Lx, Lv = a, math.sqrt(mu / a)
    # magnitude of one map evaluation (what the round-off of a stencil point is relative to)
    Fx = max(abs(prim.x), abs(prim.y), abs(prim.z)) + 2.0 * a
    Fv = max(abs(prim.vx), abs(prim.vy), abs(prim.vz)) + 2.0 * Lv / math.sqrt(max(1.0 - els["pal"]["h"] ** 2 - els["pal"]["k"] ** 2, 1e-3))
    use_cl = els["cl"]["e"] >= 0.01 and case["e"] >= 0.01
    ctx.nontrivial()
    if case["e"] < 0.01:
        ctx.cls("small_e(pal only)")
    if case["inc"] < 0.01:
        ctx.cls("small_inc")
    if case["e"] > 0.7:
        ctx.cls("high_e")
    for p, q in CTORS:
        fam = family_of(p, q)
        if fam == "cl" and not use_cl:
            continue
        el = els[fam]
        e = ecc_of(el, fam)
        name = ctor_name(p, q)
        if fam == "pal" and pal_solver_finding(ctx, e):
            continue
        A = pvec(L["d_" + name](G, prim, po))

        def at(shifts):
            e2 = dict(el)
            for kk, s in shifts:
                e2[kk] += s
            return pvec(map_el(G, prim, e2, fam))

        sp = param_scale(el, fam, p, prim.m)
        if q is None:
            h = STEP1 * sp
            if p == "e":
                h = min(h, el["e"] / 5.0)
            D1 = stencil_1(lambda s: at([(p, s)]), h)
            D2 = stencil_1(lambda s: at([(p, s)]), 2 * h)
            hh = h
            nat = 1.0 / sp
            wsum = 1.5
        elif p == q:
            h = STEP2 * sp
            if p == "e":
                h = min(h, el["e"] / 5.0)
            D1 = stencil_2(lambda s: at([(p, s)]), h)
            D2 = stencil_2(lambda s: at([(p, s)]), 2 * h)
            hh = h * h
            nat = 1.0 / (sp * sp)
            wsum = 64.0 / 12
        else:
            sq = param_scale(el, fam, q, prim.m)
            hp, hq = STEP2 * sp, STEP2 * sq
            if p == "e":
                hp = min(hp, el["e"] / 5.0)
            if q == "e":
                hq = min(hq, el["e"] / 5.0)
            D1 = stencil_11(lambda s, t: at([(p, s), (q, t)]), hp, hq)
            D2 = stencil_11(lambda s, t: at([(p, s), (q, t)]), 2 * hp, 2 * hq)
            hh = hp * hq
            nat = 1.0 / (sp * sq)
            wsum = 2.25
        # compare: mass component, position part, velocity part
        rnd = K_RND_CTOR * wsum * EPS / (hh * (1.0 - e))
        parts = (("m", [0], max(abs(m), prim.m)), ("pos", [1, 2, 3], Fx), ("vel", [4, 5, 6], Fv))
        for label, idx, F in parts:
            err = max(abs(A[i] - D1[i]) for i in idx)
            Efd = max(abs(D1[i] - D2[i]) for i in idx)
            tol = Efd + rnd * F
            scale = {"m": max(abs(m), prim.m), "pos": Lx, "vel": Lv}[label] * nat
            ctx.stat_max("err/tol", err / tol if tol > 0 else (0.0 if err == 0 else 1e300))
            ctx.stat_max("tol/natural_scale", tol / scale)
            if not (err <= tol):
                raise Violation(
                    "reb_particle_derivative_%s: %s part differs from the finite difference of the %s map by %.3e "
                    "(bound %.3e = truncation estimate %.3e + round-off %.3e; natural scale %.3e)"
                    % (name, label, "classical" if fam == "cl" else "Pal", err, tol, Efd, rnd * F, scale),
                    constructor=name, analytic=A, fd_h=D1, fd_2h=D2, elements=el)
            if tol > 1e-5 * scale:
                ctx.cls("weak_tolerance(>1e-5)")
        ctx.cls(name)


# ---------------------------------------------------------------------------------------------------------
# systems for the evolution checks

ANG = st.one_of(S.floats(0.0, TWO_PI), S.floats(0.0, TWO_PI), S.floats(0.0, TWO_PI), S.floats(0.0, TWO_PI),
                S.floats(0.0, TWO_PI), S.floats(0.0, TWO_PI), S.floats(0.0, TWO_PI),
                st.sampled_from([0.0, math.pi / 2, math.pi, 3 * math.pi / 2]))


@st.composite
def var_system(draw, nmin=1, nmax=3, emax_multi=0.25, emax_single=0.8):
    """Star (displaced, moving) + planets given by heliocentric classical elements."""
    n = draw(st.integers(nmin, nmax))
    G = draw(st.sampled_from([1.0, 1.0, 4 * math.pi ** 2, 0.9, 2.959122082855911e-04]))
    m0 = draw(st.sampled_from([1.0, 0.6, 1.7]))
    a = draw(S.floats(0.6, 1.6))
    vs = math.sqrt(G * m0 / a)
    star = [m0] + [draw(S.floats(-0.5, 0.5)) * a for _ in range(3)] + [draw(S.floats(-0.2, 0.2)) * vs for _ in range(3)]
    planets = []
    flat = draw(st.integers(0, 7)) == 0        # planar and/or circular systems (Pal / Cartesian parameters only)
    for i in range(n):
        mr = draw(st.one_of(S.logfloats(1e-6, 5e-3), S.logfloats(1e-4, 5e-3)))
        emax = emax_single if n == 1 else emax_multi
        e = draw(S.floats(0.02, emax))
        inc = draw(S.floats(0.02, 0.7))
        if flat:
            if draw(st.booleans()):
                e = 0.0
            if draw(st.booleans()):
                inc = 0.0
        planets.append({"m": mr * m0, "a": a, "e": e, "inc": inc, "Omega": draw(ANG), "omega": draw(ANG),
                        "f": draw(ANG)})
        a = a * draw(S.floats(1.9, 2.6))
    return {"G": G, "star": star, "planets": planets}


def allowed_params(sysd, j, testparticle):
    """Parameter names available for particle j."""
    if j == 0:
        return CART + ["mc"]
    pl = sysd["planets"][j - 1]
    out = list(CART) + ["a"] + PAL_ONLY
    if not testparticle:
        out += ["mc", "m"]
    if pl["e"] >= 0.02 and pl["inc"] >= 0.02:
        out += CL_ONLY
    return out


def kind_of(p):
    if p in CART:
        return "cart"
    if p in ("m", "mc"):
        return "mass"
    if p in CL_ONLY:
        return "classical"
    return "pal"      # a, lambda, h, k, ix, iy


def compatible(p, q):
    """Can p and q be varied on the SAME particle (one consistent set of independent variables)?"""
    setc = set(CART + ["mc"])
    if p in setc or q in setc:
        return p in setc and q in setc
    if p in CL_ONLY or q in CL_ONLY:
        return p in CL_ARGS and q in CL_ARGS
    return p in PAL_ARGS and q in PAL_ARGS


@st.composite
def evolve_case(draw, tier="quick"):
    sysd = draw(var_system())
    n = len(sysd["planets"]) + 1
    integ = draw(st.sampled_from(["ias15", "ias15", "ias15", "bs", "bs", "whfast", "whfast", "leapfrog"]))
    order = 1
    testparticle = False
    if integ in ("ias15", "bs"):
        order = draw(st.sampled_from([1, 2, 2]))
        testparticle = draw(st.integers(0, 4)) == 0
    if testparticle:
        j = draw(st.integers(1, n - 1))
        sysd["planets"][j - 1]["m"] = 0.0
    else:
        j = draw(st.integers(0, n - 1))
    # element parameters are drawn more often than Cartesian ones
    al = allowed_params(sysd, j, testparticle)
    p = draw(st.sampled_from(al + [x for x in al if x not in CART]))
    case = {"system": sysd, "integrator": integ, "order": order, "testparticle": testparticle, "j": j, "p": p}
    # optional setup step: sim.move_to_com() AFTER the variation was initialised (the variational particles are
    # shifted by the derivative of the centre of mass, which has a total-mass term when a mass is varied); the
    # neighbouring real systems are moved to their own centre of mass in the same way.  The base systems have the
    # star displaced and moving (COM off the origin) and total mass 0.6 / 1.0 / 1.7.
    if order == 1 and not testparticle and draw(st.integers(0, 3)) == 0:
        case["move_to_com"] = True
        mass_pars = [x for x in al if kind_of(x) == "mass"]
        if mass_pars and draw(st.booleans()):
            case["p"] = p = draw(st.sampled_from(mass_pars))
    # N_active = N-1 with a massless last planet: the same physics as N_active=-1, but the variational force
    # takes its separate active/test-particle loop (first order only: the second-order loops ignore N_active)
    if n >= 3 and order == 1 and not testparticle and draw(st.integers(0, 3)) == 0:
        sysd["planets"][-1]["m"] = 0.0
        case["n_active"] = n - 1
        if j == n - 1 and kind_of(p) == "mass":
            case["p"] = p = "a"
    if order == 2:
        same = testparticle or draw(st.integers(0, 2)) != 0
        j2 = j if same else draw(st.integers(0, n - 1))
        al2 = allowed_params(sysd, j2, testparticle)
        if j2 == j:
            al2 = [x for x in al2 if compatible(p, x)]
        q = draw(st.sampled_from(al2 + [x for x in al2 if x not in CART]))
        case["j2"], case["q"] = j2, q
    if tier == "quick":
        case["norbits"] = draw(S.floats(0.3, 3.0))
    else:
        case["norbits"] = draw(st.one_of(S.floats(0.3, 3.0), S.floats(3.0, 30.0)))
    if integ in ("whfast", "leapfrog"):
        case["dtfrac"] = draw(st.sampled_from([0.01, 0.02, 0.037]))
        if integ == "leapfrog":
            case["dtfrac"] = case["dtfrac"] / 4
    if integ == "whfast":
        case["safe_mode"] = draw(st.sampled_from([1, 1, 0]))
        case["corrector"] = draw(st.sampled_from([0, 0, 3, 11]))
    if integ == "bs":
        case["bs_eps"] = draw(st.sampled_from([1e-10, 1e-11, 1e-12]))
    if integ == "ias15":
        case["adaptive_mode"] = draw(st.sampled_from([2, 2, 1]))
    return case


class Base:
    """Base point of a case: Cartesian particles, the elements REBOUND recovers for each planet."""

    def __init__(self, sysd):
        self.G = sysd["G"]
        self.parts = [list(sysd["star"])]
        self.prim = mkparticle(self.parts[0])
        for pl in sysd["planets"]:
            po = map_el(self.G, self.prim, pl, "cl")
            self.parts.append(pvec(po))
        self.n = len(self.parts)
        self._el = {}
        a_in = sysd["planets"][0]["a"]
        mu = self.G * (self.parts[0][0] + self.parts[1][0])
        self.P_in = TWO_PI * math.sqrt(a_in ** 3 / mu)
        self.Lx = a_in
        self.Lv = math.sqrt(mu / a_in)

    def el(self, j, fam):
        if (j, fam) not in self._el:
            self._el[(j, fam)] = elements_of(self.G, self.prim, mkparticle(self.parts[j]), fam)
        return self._el[(j, fam)]

    def pscale(self, j, p, fam):
        if p in ("x", "y", "z"):
            return self.Lx
        if p in ("vx", "vy", "vz"):
            return self.Lv
        if p == "mc":
            return self.parts[0][0]
        return param_scale(self.el(j, fam), fam, p, self.parts[0][0])

    def state(self, shifts, fams):
        """Particles with parameters shifted.  shifts: list of (j, p, delta); fams: {j: family} used for element
        parameters of particle j.  Elements are always relative to the UNSHIFTED primary (all other particles'
        Cartesian states are what a variation holds fixed)."""
        parts = [list(v) for v in self.parts]
        elsh = {}
        for j, p, d in shifts:
            if p in CART:
                parts[j][1 + CART.index(p)] += d
            elif p == "mc":
                parts[j][0] += d
            else:
                elsh.setdefault(j, []).append((p, d))
        for j, lst in elsh.items():
            fam = fams[j]
            e2 = dict(self.el(j, fam))
            for p, d in lst:
                e2[p] += d
            parts[j] = pvec(map_el(self.G, self.prim, e2, fam))
        return parts


def make_sim(base, parts, case):
    rebound = lib()["rebound"]
    sim = rebound.Simulation()
    sim.G = base.G
    for v in parts:
        sim.add(m=v[0], x=v[1], y=v[2], z=v[3], vx=v[4], vy=v[5], vz=v[6])
    integ = case["integrator"]
    return sim


def configure(sim, base, case, shadow):
    """Integrator setup.  shadow=True: reference trajectories.  IAS15/BS cases are compared with the true flow
    (IAS15 shadows); WHFast/LEAPFROG cases with the same discrete map."""
    integ = case["integrator"]
    if case.get("n_active") is not None:
        sim.N_active = case["n_active"]
    if integ in ("whfast", "leapfrog"):
        sim.integrator = integ
        sim.dt = case["dtfrac"] * base.P_in
        if integ == "whfast":
            sim.ri_whfast.safe_mode = case.get("safe_mode", 1)
            sim.ri_whfast.corrector = case.get("corrector", 0)
    elif integ == "bs" and not shadow:
        sim.integrator = "bs"
        sim.ri_bs.eps_rel = case["bs_eps"]
        sim.ri_bs.eps_abs = case["bs_eps"]
        sim.dt = 0.01 * base.P_in
    else:
        sim.integrator = "ias15"
        sim.dt = 0.01 * base.P_in
        if not shadow:
            sim.ri_ias15.adaptive_mode = case.get("adaptive_mode", 2)


def advance(sim, base, case):
    integ = case["integrator"]
    if integ in ("whfast", "leapfrog"):
        n = max(1, int(round(case["norbits"] / case["dtfrac"])))
        sim.steps(n)
        sim.synchronize()
    else:
        sim.integrate(case["norbits"] * base.P_in, exact_finish_time=1)


def set_variation(sim, var, j, p, primary, amplitude=1.0):
    """Initialise variation `var` for parameter p of particle j the documented way.  `primary` is the
    (unshifted) particle the elements refer to: a variation holds every other particle's Cartesian state fixed,
    so in a shadow simulation whose star is shifted the elements still refer to the base star."""
    tp = var.testparticle >= 0
    if p in CART or p == "mc":
        vp = var.particles[0 if tp else j]
        setattr(vp, "m" if p == "mc" else p, amplitude)
    else:
        var.vary(j, p, primary=primary)
        if amplitude != 1.0:
            vp = var.particles[0 if tp else j]
            for k in ("m", "x", "y", "z", "vx", "vy", "vz"):
                setattr(vp, k, getattr(vp, k) * amplitude)


def var_state(sim, var, nreal):
    """[[x,y,z,vx,vy,vz] per particle] of a variation (one row for test-particle variations)."""
    ps = var.particles
    n = 1 if var.testparticle >= 0 else nreal
    return [[ps[i].x, ps[i].y, ps[i].z, ps[i].vx, ps[i].vy, ps[i].vz] for i in range(n)]


def real_state(sim, nreal, only=None):
    ps = sim.particles
    idx = range(nreal) if only is None else [only]
    return [[ps[i].x, ps[i].y, ps[i].z, ps[i].vx, ps[i].vy, ps[i].vz] for i in idx]


def real_rows(parts, nreal, only=None):
    """[[x,y,z,vx,vy,vz]] rows of a particle list [[m,x,y,z,vx,vy,vz], ...] as real_state returns them."""
    idx = range(nreal) if only is None else [only]
    return [list(parts[i][1:7]) for i in idx]


def snorm(rows, base):
    """Scaled max norm of a list of 6-vectors."""
    m = 0.0
    for r in rows:
        for c in range(3):
            m = max(m, abs(r[c]) / base.Lx, abs(r[c + 3]) / base.Lv)
    return m


def comb(rowsets, coefs):
    out = [[0.0] * 6 for _ in rowsets[0]]
    for rows, c in zip(rowsets, coefs):
        for i, r in enumerate(rows):
            for k in range(6):
                out[i][k] += c * r[k]
    return out


# tolerance constants of the evolution check (see module docstring / report for the measured margins)
K_INT = {"ias15": 3e-10, "bs": None, "whfast": 1e-9, "leapfrog": 1e-9}     # relative accuracy of the variation itself
DELTA_SHADOW = 3e-14      # accuracy of one shadow state per orbit, relative to the state scale
K_RND_EV = 16.0
DELTA_VAR = 2e-13         # accuracy of a first-order IAS15 variation (shadow of the order-2 check), measured <= 3.6e-11 at 30 orbits
K_BASE = 64.0
K_INV = 128.0          # slack on the inverse-map noise of the order-2 shadows (measured worst: 12)


def run_evolve(case, ctx):
    import warnings
    warnings.simplefilter("ignore")
    L = lib()
    sysd = case["system"]
    base = Base(sysd)
    integ = case["integrator"]
    order = case["order"]
    tp = case["testparticle"]
    j, p = case["j"], case["p"]
    nreal = base.n
    norb = case["norbits"]

    # known limitation probe: WHFast's tangent map has no mass terms
    if integ == "whfast" and kind_of(p) == "mass":
        if ctx.finding_open("C16-whfast-mass-variation"):
            ctx.excluded("C16-whfast-mass-variation")
            return

    # domain guard for the fixed-step maps: docs/integrators.md asks for a step of "a few percent of the smallest
    # dynamical timescale", which for an eccentric orbit is the pericentre passage P*(1-e)^1.5.  With coarser steps
    # (measured: e=0.78, 27-50 steps per orbit, dt = 0.2-0.37 of that timescale) WHFast's map is noisy at the 1e-11
    # level (stopping criterion of the Kepler solver): the difference quotient of shadow runs then has an error that
    # grows like 1/h and no finite-difference oracle exists.  Such cases are counted and skipped.
    if integ in ("whfast", "leapfrog"):
        a1 = sysd["planets"][0]["a"]
        tperi = min((pl["a"] / a1) ** 1.5 * (1.0 - pl["e"]) ** 1.5 for pl in sysd["planets"])      # in units of P_in
        if case["dtfrac"] > 0.05 * tperi:
            ctx.skip("fixed step does not resolve pericentre (dt > 5% of P(1-e)^1.5): outside the documented step-size advice")
            return

    # element family per varied particle
    fams = {}
    if order == 2 and case["j2"] == j:
        fams[j] = family_of(p if p != "mc" else "m", case["q"] if case["q"] != "mc" else "m")
    else:
        fams[j] = family_of(p if p != "mc" else "m")
        if order == 2:
            q0 = case["q"]
            fams[case["j2"]] = family_of(q0 if q0 != "mc" else "m")

    for jj, fam in fams.items():
        pars = [p] if jj == j else []
        if order == 2 and case["j2"] == jj:
            pars.append(case["q"])
        if jj > 0 and any(x in PAL_ARGS for x in pars):      # constructor of m, a or a Pal element involved
            if pal_solver_finding(ctx, sysd["planets"][jj - 1]["e"]):
                return

    def shadow_real(shifts):
        s = make_sim(base, base.state(shifts, fams), case)
        if case.get("move_to_com"):
            s.move_to_com()
        configure(s, base, case, shadow=True)
        advance(s, base, case)
        return real_state(s, nreal, only=(j if tp else None))

    # ---- the simulation under test
    sim = make_sim(base, base.parts, case)
    configure(sim, base, case, shadow=False)
    tpi = j if tp else -1
    if order == 1:
        va = sim.add_variation(testparticle=tpi)
        set_variation(sim, va, j, p, base.prim)
        if case.get("move_to_com"):
            sim.move_to_com()       # shifts real and variational particles (derivative of the COM incl. total mass)
    else:
        j2, q = case["j2"], case["q"]
        va = sim.add_variation(testparticle=tpi)
        vb = sim.add_variation(testparticle=tpi)
        v2 = sim.add_variation(order=2, first_order=va, first_order_2=vb, testparticle=tpi)
        set_variation(sim, va, j, p, base.prim)
        set_variation(sim, vb, j2, q, base.prim)
        if j2 == j and p not in CART and p != "mc":
            v2.vary(j, p, q, primary=base.prim)
        # otherwise the second derivative of the initial state is zero (independent coordinates)
    vb0_mag = snorm(var_state(sim, vb, nreal), base) if order == 2 else 0.0
    advance(sim, base, case)

    # step in the differenced parameter: natural scale / (phase winding over the horizon)
    wind = 1.0 + TWO_PI * norb
    # conditioning of the flow with respect to a displacement of the base point: a position error d at pericentre is
    # an error 2d/(a(1-e)^2) in a, i.e. a phase error 3*pi*norbits times that after the horizon, which moves the
    # particle by up to a*sqrt((1+e)/(1-e)) per unit of mean anomaly.  (Measured: e=0.75, one orbit: the 2.3e-9
    # error of the constructor's starting vector - f recovered as 5.77e-8 instead of 5.96e-8 by the acos in
    # reb_orbit_from_particle - grows to 8.7e-7, a factor 380; this bound gives 800.  For e -> 0 it reduces to the
    # phase winding used before.)
    emax = max(pl["e"] for pl in sysd["planets"])
    shear = 1.0 + TWO_PI * norb * math.sqrt((1.0 + emax) / (1.0 - emax)) / (1.0 - emax) ** 2
    if order == 1:
        dpar, dj = p, j
    else:
        dpar, dj = case["q"], case["j2"]
    sc = base.pscale(dj, dpar, fams.get(dj, "pal"))
    h = 2e-3 * sc / wind
    if dpar == "e":
        h = min(h, base.el(dj, "cl")["e"] / 10.0)

    # keep the outermost shadow (4h) within ~1% of the orbit scale of the base trajectory at T.  The growth is read
    # from the variation itself: this only selects a step, the error of the quotient is still measured below.
    grow = snorm(var_state(sim, va if order == 1 else vb, nreal), base)
    if grow == grow and grow > 0.0:
        h = min(h, 0.01 / (4.0 * grow))
    if order == 1:
        V = var_state(sim, va, nreal)
        pts = {k: shadow_real([(j, p, k * h)]) for k in (-4, -2, -1, 1, 2, 4)}
        state_mag = snorm(real_state(sim, nreal), base)
        delta = DELTA_SHADOW * (1.0 + norb) ** 1.5 * state_mag
    else:
        V = var_state(sim, v2, nreal)

        dsh = [0.0]

        def shadow_var(sh):
            parts_s = base.state([(dj, dpar, sh)], fams)
            if j > 0 and j in fams and kind_of(p) != "cart" and p != "mc":
                # accuracy with which this shadow's constructor call recovers the elements of particle j
                pj = mkparticle(parts_s[j])
                pb = pvec(map_el(base.G, base.prim, elements_of(base.G, base.prim, pj, fams[j]), fams[j]))
                dsh[0] = max(dsh[0], snorm([[pb[1 + k] - parts_s[j][1 + k] for k in range(6)]], base))
            s = make_sim(base, parts_s, case)
            configure(s, base, case, shadow=True)
            w = s.add_variation(testparticle=tpi)
            set_variation(s, w, j, p, base.prim)
            advance(s, base, case)
            return var_state(s, w, nreal)
        pts = {k: shadow_var(k * h) for k in (-4, -2, -1, 1, 2, 4)}
        V1 = var_state(sim, va, nreal)
        V1b = var_state(sim, vb, nreal)
        state_mag = snorm(V1, base)
        delta = DELTA_VAR * (1.0 + norb) ** 1.5 * state_mag
    # the constructors see the elements REBOUND recovers from the Cartesian particle; the shadows are built
    # around map(recovered elements), which differs from the base particle by the accuracy of the inverse map
    # (~1e-8 in the angles when omega, f or Omega are within ~1e-8 of 0 or pi: acos).  The variation is then the
    # derivative at a point displaced by delta_base: allow (one more derivative) * delta_base.
    dbase = 0.0
    for jj in set([j] + ([case["j2"]] if order == 2 else [])):
        if jj in fams and jj > 0:
            pb = pvec(map_el(base.G, base.prim, base.el(jj, fams[jj]), fams[jj]))
            dbase = max(dbase, snorm([[pb[1 + k] - base.parts[jj][1 + k] for k in range(6)]], base))
    Dh = comb([pts[-2], pts[-1], pts[1], pts[2]], [c / h for _, c in C1])
    D2h = comb([pts[-4], pts[-2], pts[2], pts[4]], [c / (2 * h) for _, c in C1])
    diff = [[V[i][k] - Dh[i][k] for k in range(6)] for i in range(len(V))]
    err = snorm(diff, base)
    Efd = snorm([[Dh[i][k] - D2h[i][k] for k in range(6)] for i in range(len(V))], base)
    R = max(snorm(V, base), snorm(Dh, base))
    if integ == "bs":
        # measured: |V_bs - V_ias15| <= 700 * eps_bs * (1+norbits) * |V| (round-off limited at eps_bs = 1e-12)
        kint = (2e3 * case["bs_eps"] + 3e-9) * (1.0 + norb)
    else:
        kint = K_INT[integ] * (1.0 + norb)
    dinv = 0.0
    if order == 2:
        # each shadow initialises its first-order variation from elements recovered with that accuracy
        dinv = max(dbase, dsh[0]) * shear * state_mag
        ctx.stat_max("delta_shadow", dsh[0])
    # regime guard: the difference quotient is meaningful only while the shadows stay in the linear neighbourhood
    # of the base trajectory (a chaotic / numerically unstable base, e.g. LEAPFROG through a deep pericentre, is
    # outside the 'regular regime' of the property) and while it has converged
    Dmag = snorm(Dh, base)
    disp = 4.0 * h * (Dmag if order == 1 else snorm(V1b, base))     # displacement of the outermost shadow at T
    if disp > 0.05:
        ctx.skip("shadows leave the linear regime (displaced by >5% of the orbit scale): not the regular regime")
        if hasattr(ctx, "trace"):
            ctx.trace.append({"skip": 1, "case": case, "Dmag": Dmag, "Efd": Efd, "h": h, "V": snorm(V, base)})
        return
    if Efd > 0.05 * max(Dmag, snorm(V, base)):
        ctx.skip("difference quotient not converged (|D(h)-D(2h)| > 5%): not the regular regime")
        if hasattr(ctx, "trace"):
            ctx.trace.append({"skip": 2, "case": case, "Dmag": Dmag, "Efd": Efd, "h": h, "V": snorm(V, base)})
        return
    # natural size of the variation (R can be accidentally small)
    if order == 1:
        Rn = max(R, snorm(real_state(sim, nreal), base) / sc)
    else:
        Rn = max(R, snorm(V1, base) * snorm(V1b, base))
    base_term = K_BASE * dbase * shear * Rn
    # The noise of a shadow end state is the noise of the map (rounding; for WHFast also the stopping criterion of the
    # Kepler solver when a step does not resolve pericentre) amplified by the growth of perturbations over the
    # horizon.  DELTA_SHADOW was measured on orbits whose growth is the phase winding; orbits with e ~ 0.8 amplify by
    # 1e3..1e4 (|variation| 2e3..2e4), and there the error of the quotient was measured to grow like 1/h as h is
    # reduced (1e-4 at h, 4e-4 at h/8): noise, not truncation.  The growth is taken from the oracle side: size of the
    # finite-difference derivative at T over the size of the derivative of the initial state (order 2: growth of the
    # differenced first-order variation), in units of the winding already contained in DELTA_SHADOW.
    if order == 1:
        s_p = real_rows(base.state([(j, p, h)], fams), nreal, j if tp else None)
        s_m = real_rows(base.state([(j, p, -h)], fams), nreal, j if tp else None)
        d0 = snorm(comb([s_m, s_p], [-0.5 / h, 0.5 / h]), base)
        growth = Dmag / max(d0, state_mag / sc)
    else:
        growth = snorm(V1b, base) / vb0_mag if vb0_mag > 0 else 1.0
    amp = max(1.0, growth / wind)
    ctx.stat_max("growth/winding", amp)
    rnd_term = (K_RND_EV * 1.5 * delta * amp + K_INV * dinv) / h
    tol = Efd + rnd_term + kint * Rn + base_term
    ratio = err / tol if tol > 0 else 0.0
    if hasattr(ctx, "trace"):     # development aid (tools only; the runner's Ctx has no such attribute)
        ctx.trace.append({"integ": integ, "order": order, "err": err, "Efd": Efd, "rnd": rnd_term,
                          "int": kint * Rn, "base": base_term, "R": R, "norb": norb, "p": p,
                          "q": case.get("q"), "tp": tp})
    ctx.stat_max("err/tol[%s,o%d]" % (integ, order), ratio)
    ctx.stat_max("tol/|V|[%s,o%d]" % (integ, order), tol / R if R > 0 else 0.0)
    ctx.stat_max("fdtrunc/tol", Efd / tol if tol > 0 else 0.0)
    ctx.stat_max("delta_base", dbase)
    if dbase > 1e-12:
        ctx.cls("inverse_map_inaccurate(>1e-12)")
    kinds = {kind_of(p)} | ({kind_of(case["q"])} if order == 2 else set())
    for k in kinds:
        ctx.cls("%s/o%d/%s" % (integ, order, k))
    if tp:
        ctx.cls("testparticle/o%d" % order)
    if j == 0 or (order == 2 and case["j2"] == 0):
        ctx.cls("star_varied")
    if order == 2 and case["j2"] != j:
        ctx.cls("two_particles")
    if case.get("n_active") is not None:
        ctx.cls("n_active/" + ("varied_testparticle" if j == case["n_active"] else "varied_active"))
    if case.get("move_to_com"):
        ctx.cls("move_to_com/" + kind_of(p))
    if tol > 1e-4 * R:
        ctx.cls("weak_tolerance(>1e-4)")
    if order == 2 or tp or kinds - {"cart"}:
        ctx.nontrivial()
    if not (err <= tol):
        what = "d/d%s[%d]" % (p, j) if order == 1 else "d2/d%s[%d]d%s[%d]" % (p, j, case["q"], case["j2"])
        raise Violation(
            "%s order-%d variation %s%s after %.2f orbits differs from the finite difference of shadow "
            "simulations: scaled error %.3e > bound %.3e (FD truncation estimate %.3e, |variation| %.3e)"
            % (integ, order, what, " (test particle)" if tp else "", norb, err, tol, Efd, R),
            variation=V, fd_h=Dh, fd_2h=D2h, h=h)


# ---------------------------------------------------------------------------------------------------------
# (c) rescaling

@st.composite
def rescale_case(draw):
    sysd = draw(var_system(nmin=1, nmax=2))
    n = len(sysd["planets"]) + 1
    j = draw(st.integers(0, n - 1))
    al = [x for x in allowed_params(sysd, j, False)]
    p = draw(st.sampled_from(al))
    # BS is left out: its absolute tolerance (eps_abs) cannot be met by the exactly-zero components of a
    # variation whose other components are ~1e98 (round-off 1e82), the step size collapses - a tolerance
    # semantics question, not a rescaling one (BS re-reads the particles every step: no carried state).
    integ = draw(st.sampled_from(["ias15", "ias15", "whfast", "whfast", "leapfrog"]))
    case = {"system": sysd, "integrator": integ, "j": j, "p": p, "order": 1, "testparticle": False,
            "log10amp": draw(S.floats(99.3, 99.97)), "norbits": draw(S.floats(1.0, 4.0))}
    if integ == "whfast":
        case["dtfrac"] = draw(st.sampled_from([0.01, 0.02, 0.037]))
        case["safe_mode"] = draw(st.sampled_from([1, 1, 0]))
        case["corrector"] = 0
    if integ == "leapfrog":
        case["dtfrac"] = draw(st.sampled_from([0.0025, 0.005]))
    return case


K_RESCALE = 2.0 ** 17      # measured: error <= 8.2e3 eps |variation| (LEAPFROG, 1600 steps) (round-off of two differently scaled runs)


def run_rescale(case, ctx):
    import warnings
    warnings.simplefilter("ignore")
    base = Base(case["system"])
    integ = case["integrator"]
    j, p = case["j"], case["p"]
    nreal = base.n
    mass_var = kind_of(p) == "mass"
    if mass_var and integ == "whfast":
        if ctx.finding_open("C16-whfast-mass-variation"):
            ctx.excluded("C16-whfast-mass-variation")
            return
    if mass_var and ctx.finding_open("C16-rescale-mass-variation"):
        ctx.excluded("C16-rescale-mass-variation")
        return
    if integ == "ias15" and ctx.finding_open("C16-rescale-ias15-state"):
        ctx.excluded("C16-rescale-ias15-state")
        return
    if j > 0 and p not in CART and p != "mc" and family_of(p) == "pal":
        if pal_solver_finding(ctx, case["system"]["planets"][j - 1]["e"]):
            return

    # amplitude: the largest initial coordinate of the variation is 10^log10amp (a pure mass variation starts
    # with zero coordinates: then the mass variation itself is 10^log10amp)
    s0 = make_sim(base, base.parts, case)
    v0 = s0.add_variation()
    set_variation(s0, v0, j, p, base.prim, 1.0)
    c0 = max(abs(x) for r in var_state(s0, v0, nreal) for x in r)
    amp = 10.0 ** case["log10amp"] / (c0 if c0 > 0 else 1.0)
    lamp = math.log(amp)
    del s0, v0

    def run(amplitude, disable):
        s = make_sim(base, base.parts, case)
        configure(s, base, case, shadow=False)
        v = s.add_variation()
        set_variation(s, v, j, p, base.prim, amplitude)
        if disable:
            v.lrescale = -1
        advance(s, base, case)
        ps = v.particles
        return s, v, var_state(s, v, nreal), [ps[i].m for i in range(nreal)]

    sA, vA, A, mA = run(1.0, True)
    sB, vB, B, mB = run(amp, False)
    lr = vB.lrescale
    if vA.lrescale != -1.0:
        raise Violation("lrescale=-1 (rescaling disabled) was changed to %r" % vA.lrescale)
    big = max(abs(x) for r in B for x in r)
    if not (big <= 1e100):
        raise Violation("after the integration a coordinate of a first-order variation is %.3e > 1e100 "
                        "(automatic rescaling documented at 1e100), lrescale=%r" % (big, lr))
    predicted = max(abs(x) for r in A for x in r) * amp
    if lr == 0.0:
        ctx.cls("not_triggered")
        if predicted > 1e101:
            raise Violation("variation should have reached %.3e but lrescale stayed 0" % predicted)
        fac = 1.0 / amp
    else:
        ctx.cls("triggered/" + integ)
        ctx.nontrivial()
        if not (abs(lr - lamp) < 600.0):
            raise Violation("%s: variation d/d%s[%d] started at amplitude e^%.2f: recorded lrescale=%.3f puts the variation "
                            "e^%.1f away from the amplitude-1 variation (|variation| there: %.3e)"
                            % (integ, p, j, lamp, lr, lr - lamp, snorm(A, base)), lrescale=lr)
        fac = math.exp(lr - lamp)
    Bs = [[x * fac for x in r] for r in B]
    err = snorm([[Bs[i][k] - A[i][k] for k in range(6)] for i in range(nreal)], base)
    R = snorm(A, base)
    tol = K_RESCALE * EPS * R
    ctx.stat_max("err/tol[%s]" % integ, err / tol if tol > 0 else 0.0)
    if not (err <= tol):
        raise Violation("%s: variation d/d%s[%d] started at amplitude 1e%.2f, rescaled (lrescale=%.6f): coordinates * "
                        "exp(lrescale) / amplitude differ from the amplitude-1 variation by %.3e (scaled; |variation| %.3e)"
                        % (integ, p, j, case["log10amp"], lr, err, R), rescaled=Bs, reference=A, lrescale=lr)
    if mass_var:
        ctx.cls("mass_variation")
        # the mass of the variational particle is part of the (linear) variation
        for i in range(nreal):
            if abs(mB[i] * fac - mA[i]) > 1e-10 * max(abs(mA[i]), 1e-300) and mA[i] != 0:
                raise Violation("rescaled mass variation: m*exp(lrescale)/amplitude = %r, reference %r" % (mB[i] * fac, mA[i]))


# ---------------------------------------------------------------------------------------------------------
# (d) MEGNO / Lyapunov

@st.composite
def megno_case(draw, tier="quick"):
    G = draw(st.sampled_from([1.0, 4 * math.pi ** 2]))
    a1 = draw(S.floats(0.8, 1.2))
    pl = []
    a = a1
    for i in range(2):
        pl.append({"m": draw(S.logfloats(1e-6, 3e-4)), "a": a, "e": draw(S.floats(0.0, 0.08)),
                   "inc": draw(S.floats(0.0, 0.05)), "Omega": draw(S.angles), "omega": draw(S.angles),
                   "f": draw(S.angles)})
        a = a * draw(S.floats(2.2, 3.2))
    return {"G": G, "planets": pl, "integrator": draw(st.sampled_from(["whfast", "whfast", "ias15"])),
            "dtfrac": draw(st.sampled_from([0.02, 0.031, 0.045])), "seed": draw(st.integers(0, 2 ** 31 - 1)),
            "norbits": 1500 if tier == "quick" else 4000}


def run_megno(case, ctx):
    import warnings
    warnings.simplefilter("ignore")
    rebound = lib()["rebound"]
    sim = rebound.Simulation()
    sim.G = case["G"]
    sim.add(m=1.0)
    for pl in case["planets"]:
        sim.add(primary=sim.particles[0], **pl)
    sim.move_to_com()
    P = TWO_PI * math.sqrt(case["planets"][0]["a"] ** 3 / case["G"])
    # domain guard: "regular orbits".  A period ratio within 0.02 of a half-integer sits on a first/second/third
    # order mean-motion resonance: for a2/a1 = 2.5195 (period ratio 3.9993, the 4:1 resonance) MEGNO is 1.11 after
    # 4000 orbits with WHFast and with IAS15 alike, 1.75 after 16000 and 4.3 after 32000: not a regular orbit.
    pr = (case["planets"][1]["a"] / case["planets"][0]["a"]) ** 1.5
    if abs(2.0 * pr - round(2.0 * pr)) < 0.04:
        ctx.skip("period ratio within 0.02 of a half-integer (mean-motion resonance): not the regular regime")
        return
    sim.integrator = case["integrator"]
    sim.dt = case["dtfrac"] * P
    sim.init_megno(seed=case["seed"])
    sim.integrate(case["norbits"] * P, exact_finish_time=0)
    Y = sim.megno()
    lyap = sim.lyapunov()
    ctx.cls(case["integrator"])
    ctx.nontrivial()
    ctx.stat_max("|megno-2|", abs(Y - 2.0))
    ctx.stat_max("|lyapunov|*P", abs(lyap) * P)
    if not (1.85 <= Y <= 2.15):
        raise Violation("MEGNO = %r after %d orbits of a regular low-e two-planet system (%s), expected -> 2"
                        % (Y, case["norbits"], case["integrator"]))
    if not (abs(lyap) * P < 2e-3):
        raise Violation("Lyapunov estimate * P = %r after %d orbits of a regular system, expected -> 0"
                        % (lyap * P, case["norbits"]))


# ---------------------------------------------------------------------------------------------------------

def subs(tier):
    return [
        Sub("ctor", run_ctor, strategy=orbit_case, quick=2400, thorough=100000, shards_quick=8, shards_thorough=16),
        Sub("evolve", run_evolve, strategy=evolve_case(tier), quick=8000, thorough=160000, shards_quick=16,
            shards_thorough=16),
        Sub("rescale", run_rescale, strategy=rescale_case(), quick=800, thorough=20000, shards_quick=4,
            shards_thorough=8),
        Sub("megno", run_megno, strategy=megno_case(tier), quick=32, thorough=960, shards_quick=4,
            shards_thorough=16),
    ]
