"""Helpers around the rebound build under test.  Import only after build.activate()."""
import ctypes
import struct

import rebound
from rebound import clibrebound

from .oracles import sa_format

PFIELDS = ("x", "y", "z", "vx", "vy", "vz", "m", "r")


def setpath(obj, path, value):
    parts = path.split(".")
    for p in parts[:-1]:
        obj = getattr(obj, p)
    setattr(obj, parts[-1], value)


def getpath(obj, path):
    for p in path.split("."):
        obj = getattr(obj, p)
    return obj


def new_sim(spec):
    """Build a Simulation from a JSON-able spec (see strategies.py)."""
    sim = rebound.Simulation()
    if "G" in spec:
        sim.G = spec["G"]
    if "box" in spec and spec["box"]:
        b = spec["box"]
        sim.configure_box(b["size"], b.get("rx", 1), b.get("ry", 1), b.get("rz", 1))
    for k in ("gravity", "collision", "boundary", "integrator"):
        if k in spec and spec[k] is not None:
            setattr(sim, k, spec[k])
    for k in ("softening", "t", "testparticle_type", "exact_finish_time", "opening_angle2",
              "gravity_ignore_terms", "N_ghost_x", "N_ghost_y", "N_ghost_z", "rand_seed",
              "collision_resolve_keep_sorted", "exit_max_distance", "exit_min_distance",
              "track_energy_offset", "force_is_velocity_dependent", "minimum_collision_velocity"):
        if k in spec and spec[k] is not None:
            setattr(sim, k, spec[k])
    for p in spec.get("particles", []):
        add_particle(sim, p)
    if spec.get("N_active") is not None:
        sim.N_active = spec["N_active"]
    for path, val in spec.get("set", []):
        setpath(sim, path, val)
    if "collision_resolve" in spec and spec["collision_resolve"]:
        sim.collision_resolve = spec["collision_resolve"]
    if "dt" in spec:
        sim.dt = spec["dt"]
    return sim


def add_particle(sim, p):
    kw = {k: p[k] for k in ("m", "x", "y", "z", "vx", "vy", "vz", "r") if k in p}
    if p.get("hash") is not None:
        kw["hash"] = ctypes.c_uint32(p["hash"]) if isinstance(p["hash"], int) else p["hash"]
    sim.add(**kw)


def stream(sim):
    buf = ctypes.c_char_p()
    size = ctypes.c_size_t()
    clibrebound.reb_simulation_save_to_stream(ctypes.byref(sim), ctypes.byref(buf), ctypes.byref(size))
    s = bytes(ctypes.string_at(buf, size=size.value))
    clibrebound.reb_simulation_output_free_stream(buf)
    return s


def smap(sim, keep_funcptr=False):
    return sa_format.stream_map(stream(sim), drop_funcptr=not keep_funcptr)


_names = None


def field_names():
    """{type id -> name} read from the exported descriptor list."""
    global _names
    if _names is None:
        from rebound.binary_field_descriptor import binary_field_descriptor_list
        _names = {}
        for fd in binary_field_descriptor_list():
            _names[fd.type] = fd.name.decode("ascii", "replace")
    return _names


def dbits(x):
    return struct.unpack("<Q", struct.pack("<d", x))[0]


def pstate(sim, n=None):
    """Bit-exact particle state: list of tuples of uint64 bit patterns (x..vz,m,r) + hash."""
    out = []
    N = sim.N if n is None else n
    ps = sim.particles
    for i in range(N):
        p = ps[i]
        out.append(tuple(dbits(getattr(p, f)) for f in PFIELDS) + (p.hash.value,))
    return out


def pfloat(sim, n=None):
    N = sim.N if n is None else n
    ps = sim.particles
    return [[getattr(ps[i], f) for f in PFIELDS] for i in range(N)]


def quiet():
    import warnings
    warnings.simplefilter("ignore")
