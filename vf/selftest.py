"""Self-test of harness-owned oracles (run by setup.sh)."""
import sys


def main():
    from . import build
    build.activate("opt")
    import rebound
    from . import rb
    sim = rebound.Simulation()
    sim.add(m=1.0)
    sim.add(m=1e-3, x=1.0, vy=1.0)
    m = rb.smap(sim)
    assert 85 in m and len(m[85]) == 256, "sa_format parser broken"
    print("selftest ok: rebound", rebound.__version__, "from", rebound.__file__)


if __name__ == "__main__":
    main()
