"""CLI: python -m vf.run <ID> [--tier quick|thorough] [--replay FILE] [--sub NAME ...]"""
import argparse
import os
import sys

VERIF = os.path.dirname(os.path.dirname(os.path.abspath(__file__)))


def main():
    ap = argparse.ArgumentParser()
    ap.add_argument("prop")
    ap.add_argument("--tier", default=os.environ.get("VERIF_TIER", "quick"), choices=["quick", "thorough"])
    ap.add_argument("--replay")
    ap.add_argument("--sub", action="append")
    ap.add_argument("--jobs", type=int, default=int(os.environ.get("VERIF_JOBS", "16")))
    ap.add_argument("--sanitize", action="store_true",
                    help="run the same check with the ASan+UBSan build of the library preloaded into python")
    a = ap.parse_args()
    if a.sanitize and not os.environ.get("VERIF_VARIANT_OVERRIDE"):
        import subprocess
        from . import build
        build.build("asan")
        rt = subprocess.run(["clang", "-print-file-name=libclang_rt.asan-x86_64.so"], capture_output=True, text=True).stdout.strip()
        env = dict(os.environ, VERIF_VARIANT_OVERRIDE="asan", LD_PRELOAD=rt,
                   ASAN_OPTIONS="detect_leaks=0:abort_on_error=1:allocator_may_return_null=1",
                   UBSAN_OPTIONS="print_stacktrace=1")
        os.execve(sys.executable, [sys.executable, "-m", "vf.run"] + [x for x in sys.argv[1:]], env)
    deps = os.path.join(VERIF, ".deps")
    if os.path.isdir(deps):
        sys.path.insert(0, deps)
    os.environ.setdefault("PYTHONHASHSEED", "0")
    try:
        seed = int(os.environ.get("VERIF_SEED", "1"))
    except ValueError:
        seed = 1
    from . import core
    modname = "vf.props." + a.prop.lower()
    try:
        if a.replay:
            rc = core.run_replay(modname, a.replay)
        else:
            rc = core.run_property(modname, a.tier, seed, only=a.sub, jobs=a.jobs)
    except SystemExit:
        raise
    except BaseException:
        import traceback
        traceback.print_exc()
        print("HARNESS-ERROR property=%s" % a.prop)
        rc = 2
    sys.stdout.flush()
    sys.exit(rc)


if __name__ == "__main__":
    main()
