// Harness-owned driver (not part of /repo): replays crash images of an archive through the C readers of a
// sanitizer build.  Input: pack file = repeated { uint32 len; bytes }.  For every image: write it to <tmp>,
// open it as an archive, load every exposed snapshot, load the last snapshot directly, free everything.
// Prints "IMG <index> <nblobs>" per image so that a sanitizer abort can be attributed to an image.
#include <stdio.h>
#include <stdlib.h>
#include <stdint.h>
#include <string.h>
#include "rebound.h"

int main(int argc, char** argv){
    if (argc<3){ fprintf(stderr,"usage: %s pack tmpfile\n", argv[0]); return 2; }
    FILE* f = fopen(argv[1],"rb");
    if (!f) return 2;
    uint32_t len;
    long idx = 0;
    char* buf = NULL;
    size_t cap = 0;
    while (fread(&len,4,1,f)==1){
        if (len>cap){ buf = realloc(buf,len+1); cap = len; }
        if (len && fread(buf,1,len,f)!=len) return 2;
        FILE* o = fopen(argv[2],"wb");
        if (!o) return 2;
        if (len) fwrite(buf,1,len,o);
        fclose(o);
        printf("IMG %ld ", idx); fflush(stdout);
        struct reb_simulationarchive* sa = reb_simulationarchive_create_from_file(argv[2]);
        long nb = -1;
        if (sa){
            nb = (long)sa->nblobs;
            for (long i=0;i<nb;i++){
                struct reb_simulation* r = reb_simulation_create_from_simulationarchive(sa, i);
                if (r){
                    // touch the particles so that a short read shows up as a sanitizer report
                    double s = 0; for (unsigned int j=0;j<r->N;j++){ s += r->particles[j].x + r->particles[j].m; }
                    if (s!=s) printf("(nan) ");
                    reb_simulation_free(r);
                }
            }
            reb_simulationarchive_free(sa);
        }
        struct reb_simulation* r = reb_simulation_create_from_file(argv[2], -1);
        if (r){ reb_simulation_free(r); }
        printf("%ld\n", nb); fflush(stdout);
        idx++;
    }
    free(buf);
    fclose(f);
    printf("DONE %ld\n", idx);
    return 0;
}
