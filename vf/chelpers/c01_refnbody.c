/* c01_refnbody - harness-owned quad-precision reference integrator (oracle for property C01).
 *
 * Independent of REBOUND: no REBOUND header, no REBOUND source.  Compiled standalone:
 *     gcc -O2 -o c01_refnbody c01_refnbody.c -lquadmath -lm
 *
 * Method: Gragg-Bulirsch-Stoer extrapolation of the modified midpoint rule in __float128 with a local
 * tolerance (default 1e-26, relative to the global position / velocity scale), step size halved on failure.
 *
 * Right-hand sides
 *   nbody : softened Newtonian gravity  a_i = -G sum_j m_j (r_i-r_j) / (|r_i-r_j|^2 + s^2)^(3/2)
 *           with the documented partition: particles [0,Nactive) are active; particles [Nactive,N) are
 *           test particles which feel the active ones; with tptype==1 they also act on the active ones
 *           (never on each other).
 *   hill  : shearing sheet (Hill's equations)  x'' = 2 O y' + 3 O^2 x + ax ; y'' = -2 O x' + ay ;
 *           z'' = -Oz^2 z + az, with a = softened gravity between the particles as above.
 *   ode   : optional appended oscillator  u'' = -w^2 u + c * x_k(t)   (x of particle k; c may be 0).
 *
 * Input (stdin, whitespace separated; doubles are read with strtod so hex floats are exact):
 *     mode <nbody|hill>  G s N Nactive tptype  O Oz   ode_on w c k u0 ud0   tol
 *     N lines: m x y z vx vy vz
 *     t0  nt  t_1 ... t_nt        (monotonic, either direction)
 * Output: for every requested time a line "T <t>" followed by N lines of 6 (hi lo) pairs of doubles whose
 * sum is the quad value (printed with %a), then a line "U hi lo hi lo" for the oscillator, then
 * "E <relative energy drift (nbody only)> steps <n> rhs <n> dmin <smallest distance of an interacting pair so far>".
 *
 * `c01_refnbody selftest` runs closed-form validations and prints  "<name> <error>" lines.
 */
#include <quadmath.h>
#include <stdio.h>
#include <stdlib.h>
#include <string.h>

typedef __float128 Q;

#define NMAX 16
#define DIM (6 * NMAX + 2)
#define KMAX 14

static int N, Nact, tptype, mode_hill, ode_on, ode_k;
static Q G, soft2, OM, OMZ, ode_w, ode_c;
static Q mass[NMAX];
static long nrhs = 0;

static void rhs(const Q *y, Q *f) {
    /* y = [x y z vx vy vz]*N (+ u, ud) */
    nrhs++;
    for (int i = 0; i < N; i++) {
        f[6 * i + 0] = y[6 * i + 3];
        f[6 * i + 1] = y[6 * i + 4];
        f[6 * i + 2] = y[6 * i + 5];
        f[6 * i + 3] = f[6 * i + 4] = f[6 * i + 5] = 0;
    }
    for (int i = 0; i < N; i++) {
        for (int j = i + 1; j < N; j++) {
            int ia = i < Nact, ja = j < Nact;
            if (!ia && !ja) continue;            /* test particles never interact with each other */
            Q dx = y[6 * i] - y[6 * j], dy = y[6 * i + 1] - y[6 * j + 1], dz = y[6 * i + 2] - y[6 * j + 2];
            Q r2 = dx * dx + dy * dy + dz * dz + soft2;
            Q ir3 = 1 / (r2 * sqrtq(r2));
            /* force of j on i: needs j active, or (j test particle, tptype 1 and i active) */
            int j_on_i = ja || (tptype == 1 && ia);
            int i_on_j = ia || (tptype == 1 && ja);
            if (j_on_i) {
                Q c = G * mass[j] * ir3;
                f[6 * i + 3] -= c * dx; f[6 * i + 4] -= c * dy; f[6 * i + 5] -= c * dz;
            }
            if (i_on_j) {
                Q c = G * mass[i] * ir3;
                f[6 * j + 3] += c * dx; f[6 * j + 4] += c * dy; f[6 * j + 5] += c * dz;
            }
        }
    }
    if (mode_hill) {
        for (int i = 0; i < N; i++) {
            f[6 * i + 3] += 2 * OM * y[6 * i + 4] + 3 * OM * OM * y[6 * i];
            f[6 * i + 4] += -2 * OM * y[6 * i + 3];
            f[6 * i + 5] += -OMZ * OMZ * y[6 * i + 2];
        }
    }
    if (ode_on) {
        f[6 * N] = y[6 * N + 1];
        f[6 * N + 1] = -ode_w * ode_w * y[6 * N] + ode_c * y[6 * ode_k];
    }
}

static int dim(void) { return 6 * N + (ode_on ? 2 : 0); }

static Q energy(const Q *y) {
    Q e = 0;
    for (int i = 0; i < N; i++)
        e += mass[i] * (y[6 * i + 3] * y[6 * i + 3] + y[6 * i + 4] * y[6 * i + 4] + y[6 * i + 5] * y[6 * i + 5]) / 2;
    for (int i = 0; i < N; i++)
        for (int j = i + 1; j < N; j++) {
            Q dx = y[6 * i] - y[6 * j], dy = y[6 * i + 1] - y[6 * j + 1], dz = y[6 * i + 2] - y[6 * j + 2];
            e -= G * mass[i] * mass[j] / sqrtq(dx * dx + dy * dy + dz * dz + soft2);
        }
    return e;
}

/* modified midpoint: n substeps over H */
static void midpoint(const Q *y, const Q *f0, Q H, int n, Q *out) {
    int d = dim();
    Q h = H / n, a[DIM], b[DIM], f[DIM];
    for (int i = 0; i < d; i++) { a[i] = y[i]; b[i] = y[i] + h * f0[i]; }
    for (int m = 1; m < n; m++) {
        rhs(b, f);
        for (int i = 0; i < d; i++) { Q t = a[i] + 2 * h * f[i]; a[i] = b[i]; b[i] = t; }
    }
    rhs(b, f);
    for (int i = 0; i < d; i++) out[i] = (a[i] + b[i] + h * f[i]) / 2;
}

static void scales(const Q *y, Q *sp, Q *sv, Q *su) {
    Q p = 0, v = 0;
    for (int i = 0; i < N; i++)
        for (int c = 0; c < 3; c++) {
            Q a = fabsq(y[6 * i + c]), b = fabsq(y[6 * i + 3 + c]);
            if (a > p) p = a;
            if (b > v) v = b;
        }
    if (p == 0) p = 1;
    if (v == 0) v = 1;
    *sp = p; *sv = v;
    if (ode_on) {
        Q u = fabsq(y[6 * N]) + fabsq(y[6 * N + 1]) / (ode_w > 0 ? ode_w : 1);
        *su = u > 0 ? u : 1;
    } else *su = 1;
}

/* one GBS step of size H from y; returns 1 and writes ynew if converged to tol, else 0; *kused = columns */
static int gbs_step(const Q *y, Q H, Q tol, Q *ynew, int *kused) {
    static Q T[KMAX][DIM];
    int d = dim();
    Q f0[DIM], sp, sv, su;
    rhs(y, f0);
    scales(y, &sp, &sv, &su);
    for (int k = 0; k < KMAX; k++) {
        int nk = 2 * (k + 1);
        midpoint(y, f0, H, nk, T[k]);
        /* Aitken-Neville in (H/n)^2: after this loop T[j] holds the extrapolant using columns j..k */
        for (int j = k - 1; j >= 0; j--) {
            int nj = 2 * (j + 1);
            Q r = (Q)nk / (Q)nj;
            Q fac = 1 / (r * r - 1);
            for (int i = 0; i < d; i++) T[j][i] = T[j + 1][i] + (T[j + 1][i] - T[j][i]) * fac;
        }
        if (k >= 3) {
            Q err = 0;
            for (int i = 0; i < d; i++) {
                Q s = (i >= 6 * N) ? (i == 6 * N ? su : su * (ode_w > 0 ? ode_w : 1)) : ((i % 6) < 3 ? sp : sv);
                Q e = fabsq(T[0][i] - T[1][i]) / s;
                if (e > err) err = e;
            }
            if (err < tol) {
                for (int i = 0; i < d; i++) ynew[i] = T[0][i];
                *kused = k;
                return 1;
            }
        }
    }
    return 0;
}

static long nsteps = 0;
static Q dmin2 = -1;      /* smallest squared distance of an interacting pair seen at any accepted step */

static void track_dmin(const Q *y) {
    for (int i = 0; i < N; i++)
        for (int j = i + 1; j < N; j++) {
            if (i >= Nact && j >= Nact) continue;
            Q dx = y[6 * i] - y[6 * j], dy = y[6 * i + 1] - y[6 * j + 1], dz = y[6 * i + 2] - y[6 * j + 2];
            Q d2 = dx * dx + dy * dy + dz * dz;
            if (dmin2 < 0 || d2 < dmin2) dmin2 = d2;
        }
}

/* integrate y from t to tend (either direction), h is the running step guess (signed) */
static void integrate(Q *y, Q *t, Q tend, Q *h, Q tol) {
    Q ynew[DIM];
    Q dir = tend >= *t ? 1 : -1;
    if (*h == 0) *h = dir * fabsq(tend - *t);
    *h = dir * fabsq(*h);
    while ((tend - *t) * dir > 0) {
        Q H = *h;
        int last = 0;
        if ((tend - (*t + H)) * dir <= 0) { H = tend - *t; last = 1; }
        int k;
        if (gbs_step(y, H, tol, ynew, &k)) {
            memcpy(y, ynew, sizeof(Q) * dim());
            track_dmin(y);
            if (last) *t = tend; else *t += H;
            nsteps++;
            if (!last) { if (k <= 8) *h = H * 1.4Q; else if (k >= 11) *h = H * 0.8Q; }
        } else {
            *h = H * 0.5Q;
            if (fabsq(*h) < 1e-30Q * (fabsq(*t) + fabsq(tend) + 1)) { fprintf(stderr, "step underflow\n"); exit(3); }
        }
    }
}

static void put(Q v) {
    double hi = (double)v, lo = (double)(v - (Q)hi);
    printf(" %a %a", hi, lo);
}

static Q rd(void) {
    char buf[256];
    if (scanf("%255s", buf) != 1) { fprintf(stderr, "input truncated\n"); exit(2); }
    char *e;
    double v = strtod(buf, &e);
    if (*e) { fprintf(stderr, "bad number %s\n", buf); exit(2); }
    return (Q)v;
}

/* ------------------------------------------------------------------------------------------------ */
/* self test against closed forms                                                                   */

static Q kepler_E(Q M, Q e) {
    Q E = M + e * sinq(M);
    for (int i = 0; i < 200; i++) {
        Q d = (E - e * sinq(E) - M) / (1 - e * cosq(E));
        E -= d;
        if (fabsq(d) < 1e-33Q) break;
    }
    return E;
}

static void reset(void) {
    N = 0; Nact = 0; tptype = 0; mode_hill = 0; ode_on = 0; ode_k = 0;
    G = 1; soft2 = 0; OM = 1; OMZ = 1; ode_w = 1; ode_c = 0; nsteps = 0;
}

static int selftest(void) {
    Q y[DIM], t, h, tol = 1e-26Q;
    const Q PI = M_PIq;
    /* 1. two-body Kepler, e=0.6, mass ratio 0.3, 3.7 periods forward and back */
    {
        reset();
        N = Nact = 2; G = 1.3Q; mass[0] = 1; mass[1] = 0.3Q;
        Q a = 1.7Q, e = 0.6Q, mu = G * (mass[0] + mass[1]);
        Q n = sqrtq(mu / (a * a * a));
        /* relative orbit in the plane, pericentre on +x at t=0; barycentric frame */
        Q rx = a * (1 - e), vy = sqrtq(mu / a * (1 + e) / (1 - e));
        Q f0 = mass[1] / (mass[0] + mass[1]), f1 = mass[0] / (mass[0] + mass[1]);
        memset(y, 0, sizeof y);
        y[0] = -f0 * rx; y[4] = -f0 * vy; y[6] = f1 * rx; y[10] = f1 * vy;
        Q e0 = energy(y);
        for (int dirn = 0; dirn < 2; dirn++) {
            Q T = (dirn ? -1 : 1) * 3.7Q * 2 * PI / n;
            Q yy[DIM]; memcpy(yy, y, sizeof y);
            t = 0; h = 0;
            integrate(yy, &t, T, &h, tol);
            Q E = kepler_E(n * T, e);
            Q X = a * (cosq(E) - e), Y = a * sqrtq(1 - e * e) * sinq(E);
            Q rr = a * (1 - e * cosq(E));
            Q VX = -a * a * n / rr * sinq(E), VY = a * a * n / rr * sqrtq(1 - e * e) * cosq(E);
            Q err = 0, d;
            d = fabsq((yy[6] - yy[0]) - X); if (d > err) err = d;
            d = fabsq((yy[7] - yy[1]) - Y); if (d > err) err = d;
            d = fabsq((yy[9] - yy[3]) - VX); if (d > err) err = d;
            d = fabsq((yy[10] - yy[4]) - VY); if (d > err) err = d;
            d = fabsq(mass[0] * yy[0] + mass[1] * yy[6]); if (d > err) err = d;   /* barycentre stays */
            printf("kepler_%s %.3e\n", dirn ? "backward" : "forward", (double)err);
            printf("kepler_energy_%s %.3e\n", dirn ? "backward" : "forward", (double)fabsq((energy(yy) - e0) / e0));
        }
    }
    /* 2. Lagrange equilateral triangle, three unequal masses, rigid rotation with w^2 = G M / d^3 */
    {
        reset();
        N = Nact = 3; G = 1; mass[0] = 1; mass[1] = 0.5Q; mass[2] = 0.25Q;
        Q M = mass[0] + mass[1] + mass[2], d = 1.2Q;
        Q px[3] = {0, d, d / 2}, py[3] = {0, 0, d * sqrtq(3) / 2};
        Q cx = 0, cy = 0;
        for (int i = 0; i < 3; i++) { cx += mass[i] * px[i] / M; cy += mass[i] * py[i] / M; }
        Q w = sqrtq(G * M / (d * d * d));
        memset(y, 0, sizeof y);
        for (int i = 0; i < 3; i++) {
            y[6 * i] = px[i] - cx; y[6 * i + 1] = py[i] - cy;
            y[6 * i + 3] = -w * (py[i] - cy); y[6 * i + 4] = w * (px[i] - cx);
        }
        Q y0[DIM]; memcpy(y0, y, sizeof y);
        Q T = 0.8Q * 2 * PI / w;     /* the configuration is unstable; 0.8 turns amplify errors only mildly */
        t = 0; h = 0;
        integrate(y, &t, T, &h, tol);
        Q c = cosq(w * T), s = sinq(w * T), err = 0;
        for (int i = 0; i < 3; i++) {
            Q X = c * y0[6 * i] - s * y0[6 * i + 1], Y = s * y0[6 * i] + c * y0[6 * i + 1];
            Q VX = c * y0[6 * i + 3] - s * y0[6 * i + 4], VY = s * y0[6 * i + 3] + c * y0[6 * i + 4];
            Q dd;
            dd = fabsq(y[6 * i] - X); if (dd > err) err = dd;
            dd = fabsq(y[6 * i + 1] - Y); if (dd > err) err = dd;
            dd = fabsq(y[6 * i + 3] - VX); if (dd > err) err = dd;
            dd = fabsq(y[6 * i + 4] - VY); if (dd > err) err = dd;
        }
        printf("lagrange %.3e\n", (double)err);
    }
    /* 3. test particle (type 0) around a binary must not move the binary; compare binary with 2-body run */
    {
        reset();
        N = 3; Nact = 2; tptype = 0; G = 1; mass[0] = 1; mass[1] = 0.2Q; mass[2] = 0.1Q;
        memset(y, 0, sizeof y);
        y[0] = -0.2Q / 1.2Q; y[4] = -0.2Q / 1.2Q * 1.05Q; y[6] = 1 / 1.2Q; y[10] = 1 / 1.2Q * 1.05Q;
        y[12] = 4; y[16] = 0.5Q; y[14] = 0.3Q;
        Q ya[DIM]; memcpy(ya, y, sizeof y);
        t = 0; h = 0; integrate(ya, &t, 9, &h, tol);
        N = 2;
        Q yb[DIM]; memcpy(yb, y, sizeof y);
        t = 0; h = 0; integrate(yb, &t, 9, &h, tol);
        Q err = 0;
        for (int i = 0; i < 12; i++) { Q dd = fabsq(ya[i] - yb[i]); if (dd > err) err = dd; }
        printf("testparticle_type0_passive %.3e\n", (double)err);
        /* type 1: momentum of the three bodies is conserved (test particle acts back) */
        N = 3; tptype = 1;
        memcpy(ya, y, sizeof y);
        Q p0 = 0, p1 = 0;
        for (int i = 0; i < 3; i++) p0 += mass[i] * ya[6 * i + 4];
        t = 0; h = 0; integrate(ya, &t, 9, &h, tol);
        for (int i = 0; i < 3; i++) p1 += mass[i] * ya[6 * i + 4];
        printf("testparticle_type1_momentum %.3e\n", (double)fabsq(p1 - p0));
    }
    /* 4. Hill equations, free particle: epicycle closed form */
    {
        reset();
        N = Nact = 1; mode_hill = 1; G = 1; mass[0] = 0; OM = 1.3Q; OMZ = 1.7Q;
        memset(y, 0, sizeof y);
        Q x0 = 0.3Q, y00 = -0.2Q, z0 = 0.1Q, vx0 = 0.05Q, vy0 = -0.4Q, vz0 = 0.02Q;
        y[0] = x0; y[1] = y00; y[2] = z0; y[3] = vx0; y[4] = vy0; y[5] = vz0;
        Q T = 7.3Q; t = 0; h = 0;
        integrate(y, &t, T, &h, tol);
        /* guiding centre xg = 4 x0 + 2 vy0/O ; epicycle */
        Q O = OM, xg = 4 * x0 + 2 * vy0 / O;
        Q A = x0 - xg, B = vx0 / O;       /* x(t) = xg + A cos Ot + B sin Ot */
        Q c = cosq(O * T), s = sinq(O * T);
        Q X = xg + A * c + B * s;
        Q VX = O * (-A * s + B * c);
        /* y' = -2 O x + const with const = vy0 + 2 O x0 ; integrate */
        Q K = vy0 + 2 * O * x0;
        Q Y = y00 + (K - 2 * O * xg) * T - 2 * (A * s - B * (c - 1));
        Q VY = K - 2 * O * X;
        Q Z = z0 * cosq(OMZ * T) + vz0 / OMZ * sinq(OMZ * T);
        Q VZ = -z0 * OMZ * sinq(OMZ * T) + vz0 * cosq(OMZ * T);
        Q err = 0, dd;
        dd = fabsq(y[0] - X); if (dd > err) err = dd;
        dd = fabsq(y[1] - Y); if (dd > err) err = dd;
        dd = fabsq(y[2] - Z); if (dd > err) err = dd;
        dd = fabsq(y[3] - VX); if (dd > err) err = dd;
        dd = fabsq(y[4] - VY); if (dd > err) err = dd;
        dd = fabsq(y[5] - VZ); if (dd > err) err = dd;
        printf("hill_epicycle %.3e\n", (double)err);
    }
    /* 5. oscillator: free (cos) and forced by x of a particle on a circular orbit (closed form, off resonance) */
    {
        reset();
        N = Nact = 2; G = 1; mass[0] = 1; mass[1] = 0; ode_on = 1; ode_w = 1.7Q; ode_c = 0.3Q; ode_k = 1;
        memset(y, 0, sizeof y);
        Q a = 1.1Q, n = sqrtq(G * mass[0] / (a * a * a));
        y[6] = a; y[10] = a * n;          /* x_1(t) = a cos nt exactly (massless particle, star at rest) */
        y[12] = 0.4Q; y[13] = -0.2Q;
        Q T = 11.3Q; t = 0; h = 0;
        integrate(y, &t, T, &h, tol);
        /* u = up + A cos wt + B sin wt, up = c a cos(nt)/(w^2-n^2) */
        Q w = ode_w, amp = ode_c * a / (w * w - n * n);
        Q A = 0.4Q - amp, B = -0.2Q / w;
        Q U = amp * cosq(n * T) + A * cosq(w * T) + B * sinq(w * T);
        Q UD = -amp * n * sinq(n * T) - A * w * sinq(w * T) + B * w * cosq(w * T);
        Q err = fabsq(y[12] - U), dd = fabsq(y[13] - UD);
        if (dd > err) err = dd;
        printf("oscillator_forced %.3e\n", (double)err);
    }
    /* 6. softened two-body: energy with the Plummer potential conserved */
    {
        reset();
        N = Nact = 2; G = 1; mass[0] = 1; mass[1] = 0.5Q; soft2 = 0.01Q;
        memset(y, 0, sizeof y);
        y[0] = -0.3Q; y[4] = -0.3Q; y[6] = 0.6Q; y[10] = 0.6Q; y[11] = 0.1Q;
        Q e0 = energy(y);
        t = 0; h = 0; integrate(y, &t, 13, &h, tol);
        printf("softened_energy %.3e\n", (double)fabsq((energy(y) - e0) / e0));
    }
    return 0;
}

int main(int argc, char **argv) {
    if (argc > 1 && !strcmp(argv[1], "selftest")) return selftest();
    char mode[64];
    reset();
    if (scanf("%63s", mode) != 1) return 2;
    mode_hill = !strcmp(mode, "hill");
    G = rd(); Q s = rd(); soft2 = s * s;
    N = (int)rd(); Nact = (int)rd(); tptype = (int)rd();
    OM = rd(); OMZ = rd();
    ode_on = (int)rd(); ode_w = rd(); ode_c = rd(); ode_k = (int)rd();
    Q u0 = rd(), ud0 = rd();
    Q tol = rd();
    if (N < 1 || N > NMAX || Nact < 0 || Nact > N || ode_k < 0 || ode_k >= N) { fprintf(stderr, "bad sizes\n"); return 2; }
    Q y[DIM];
    memset(y, 0, sizeof y);
    for (int i = 0; i < N; i++) {
        mass[i] = rd();
        for (int c = 0; c < 6; c++) y[6 * i + c] = rd();
    }
    if (ode_on) { y[6 * N] = u0; y[6 * N + 1] = ud0; }
    Q t = rd();
    int nt = (int)rd();
    Q e0 = energy(y), h = 0;
    track_dmin(y);
    for (int k = 0; k < nt; k++) {
        Q tend = rd();
        integrate(y, &t, tend, &h, tol);
        printf("T %a\n", (double)tend);
        for (int i = 0; i < N; i++) {
            for (int c = 0; c < 6; c++) put(y[6 * i + c]);
            printf("\n");
        }
        printf("U"); put(y[6 * N]); put(y[6 * N + 1]); printf("\n");
        Q de = (!mode_hill && Nact == N && e0 != 0) ? fabsq((energy(y) - e0) / e0) : 0;
        printf("E %.3e steps %ld rhs %ld dmin %.6e\n", (double)de, nsteps, nrhs, dmin2 < 0 ? -1.0 : (double)sqrtq(dmin2));
    }
    return 0;
}
