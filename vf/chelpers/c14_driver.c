/* C14 driver: replays a byte-encoded add/remove/hash history against librebound (ASan+UBSan build) and checks
 * it against an array model kept here.  Harness-owned; lives in /verif, never in /repo.
 *
 *   c14_driver FILE...           replay each file (exit 0 = ok; abort()/sanitizer report otherwise)
 *   -DC14_FUZZER                 libFuzzer target (LLVMFuzzerTestOneInput), same interpreter
 *
 * Byte format (mirrored by vf/props/c14.py encode()):
 *   byte 0: variant  (v%3: 0 plain, 1 tree gravity + box, 2 integrator mercurius)
 *   byte 1: flags    (tree: bit0 -> 2x2x2 root boxes instead of 1)
 *   then ops, opcode = byte % 10, fixed argument bytes follow (missing bytes end the history):
 *   0 ADD     hk hv_lo hv_hi n    add n particles (n: <128 -> n%4+1, else 60+(n-128)), hash selector (hk,hv)
 *   1 RM_I    mode k ks           remove by index; k is int8; mode bit0: index = N-1-k instead of k
 *   2 RM_H    hk hv_lo hv_hi ks   remove by hash
 *   3 SET_H   k hk hv_lo hv_hi    particles[k % N].hash = hash
 *   4 LOOK    hk hv_lo hv_hi      reb_simulation_particle_by_hash
 *   5 RM_ALL
 *   6 N_ACT   k                   N_active = k % (N+2) - 1
 *   7 AUX                         tree: reb_simulation_update_tree; mercurius: one step (only star at index 0, N>=2)
 *   8 LOOK_ALL                    look up the hash of every model particle and of every pool value
 *   9 ADD_OUT sel m               tree variant: add a particle outside the box (axis sel%3, sign bit 2 of sel>>2.., margin m%4):
 *                                 must fail with an error and change nothing
 * Hash selector: hk%3 == 0 -> 0; 1 -> POOL[hv%8]; 2 -> 0x1000 + hv%1024 (for ADD: 0x1000 + own tag).
 *
 * Model: tags are unique per added particle and stored in the particle radius, r = (tag+1) * 2^-40.
 */
#include <math.h>
#include <stdint.h>
#include <stdio.h>
#include <stdlib.h>
#include <string.h>
#include "rebound.h"

#define MAXTAG 3000
static const uint32_t POOL[8] = {1u, 2u, 0xFFFFFFFFu, 0x80000000u, 0x7FFFFFFFu, 12345u, 0xDEADBEEFu, 3u};
#define TAGSCALE 1099511627776.0 /* 2^40 */

struct ent {
    uint32_t hash;
    int alive;
    int flagged;
    struct reb_particle p;   /* as added */
};

static struct ent E[MAXTAG];
static int order[MAXTAG];
static int nmodel;
static int ntags;
static int n_active;
static int na_known;
static int variant;
static int opno;
static const char* opname = "";

#define FAIL(...) do { fprintf(stderr, "C14-MODEL-VIOLATION op#%d(%s): ", opno, opname); fprintf(stderr, __VA_ARGS__); \
    fprintf(stderr, "\n"); fflush(stderr); abort(); } while (0)

static uint32_t sel_hash(int hk, int hv, int owntag){
    switch (hk % 3){
        case 0: return 0u;
        case 1: return POOL[hv % 8];
        default: return 0x1000u + (uint32_t)(owntag >= 0 ? owntag : hv % 1024);
    }
}

static int tag_of(const struct reb_particle* p){
    double t = p->r * TAGSCALE - 1.0;
    if (!(t >= 0.0) || t >= (double)ntags || t != floor(t)) return -1;
    return (int)t;
}

static int drain(struct reb_simulation* r, int* nerr){
    char buf[2048];
    int n = 0;
    *nerr = 0;
    while (reb_simulation_get_next_message(r, buf)){
        n++;
        if (buf[0] == 'e') (*nerr)++;
    }
    return n;
}

static int model_has(uint32_t h){
    for (int i = 0; i < nmodel; i++) if (E[order[i]].hash == h) return 1;
    return 0;
}

static struct reb_particle make_particle(int tag, uint32_t hash){
    struct reb_particle p;
    memset(&p, 0, sizeof(p));
    double t = (double)tag;
    if (variant == 2){
        if (tag == 0){
            p.m = 1.0;
        } else {
            double a = 1.0 + 0.37 * t, ph = 2.399963229728653 * t, v = sqrt(1.0 / a);
            p.m = 1e-7 * (1 + tag % 5);
            p.x = a * cos(ph); p.y = a * sin(ph); p.z = 0.001 * (tag % 7);
            p.vx = -v * sin(ph); p.vy = v * cos(ph);
        }
    } else {
        p.m = 1.0 + tag % 3;
        p.x = (fmod(t * 0.6180339887498949, 1.0) - 0.5) * 90.0;
        p.y = (fmod(t * 0.7548776662466927, 1.0) - 0.5) * 90.0;
        p.z = (fmod(t * 0.5698402909980532, 1.0) - 0.5) * 90.0;
        p.vx = t; p.vy = -t; p.vz = 0.5 * t;
    }
    p.r = (t + 1.0) / TAGSCALE;
    p.hash = hash;
    return p;
}

static int same_bits(double a, double b){ return memcmp(&a, &b, sizeof(double)) == 0; }

/* Compare the simulation with the model.  ordered: positions must match the model order; otherwise the
 * multiset must match and the model adopts the simulation's order. */
static void verify(struct reb_simulation* r, int ordered){
    static int seen[MAXTAG];
    if ((int)r->N != nmodel) FAIL("N=%u, model has %d particles", r->N, nmodel);
    if (r->N_allocated < r->N) FAIL("N_allocated=%u < N=%u", r->N_allocated, r->N);
    memset(seen, 0, sizeof(int) * (size_t)ntags);
    for (int i = 0; i < nmodel; i++){
        const struct reb_particle* p = &r->particles[i];
        int t = tag_of(p);
        if (t < 0) FAIL("particle %d carries no valid tag (r=%g)", i, p->r);
        if (!E[t].alive) FAIL("particle %d has tag %d which the model removed", i, t);
        if (seen[t]) FAIL("tag %d appears twice", t);
        seen[t] = 1;
        if (ordered && order[i] != t) FAIL("particle %d has tag %d, model expects tag %d (order not preserved)", i, t, order[i]);
        if (p->hash != E[t].hash) FAIL("particle %d (tag %d) hash %u, model %u", i, t, p->hash, E[t].hash);
        if (variant != 2){
            const struct reb_particle* q = &E[t].p;
            if (!same_bits(p->x, q->x) || !same_bits(p->z, q->z) || !same_bits(p->vx, q->vx) || !same_bits(p->vy, q->vy)
                || !same_bits(p->vz, q->vz) || !same_bits(p->m, q->m))
                FAIL("particle %d (tag %d) coordinates changed", i, t);
            if (E[t].flagged ? !isnan(p->y) : !same_bits(p->y, q->y)) FAIL("particle %d (tag %d) y changed", i, t);
        } else {
            if (!same_bits(p->m, E[t].p.m)) FAIL("particle %d (tag %d) mass changed", i, t);
        }
        if (p->sim != r) FAIL("particle %d sim pointer does not point to its simulation", i);
        order[i] = t;
    }
    if (na_known){
        if (r->N_active != n_active) FAIL("N_active=%d, model %d", r->N_active, n_active);
    } else {
        n_active = r->N_active;
        na_known = 1;
    }
}

static void lookup(struct reb_simulation* r, uint32_t h){
    struct reb_particle* p = reb_simulation_particle_by_hash(r, h);
    int has = model_has(h);
    if (has && p == NULL) FAIL("lookup(%u) returned NULL but a particle carries that hash", h);
    if (!has && p != NULL) FAIL("lookup(%u) returned a particle but none carries that hash", h);
    if (p){
        if (p < r->particles || p >= r->particles + r->N) FAIL("lookup(%u) returned a pointer outside particles[0..N)", h);
        if (((char*)p - (char*)r->particles) % sizeof(struct reb_particle)) FAIL("lookup(%u) returned a misaligned pointer", h);
        if (p->hash != h) FAIL("lookup(%u) returned a particle with hash %u", h, p->hash);
    }
}

struct snap { unsigned int N; int N_active; struct reb_particle* ps; double* dcrit; unsigned int L; };

static struct snap take(struct reb_simulation* r){
    struct snap s;
    s.N = r->N; s.N_active = r->N_active;
    s.ps = malloc(sizeof(struct reb_particle) * (r->N + 1));
    if (r->N) memcpy(s.ps, r->particles, sizeof(struct reb_particle) * r->N);
    s.L = r->ri_mercurius.N_allocated_dcrit;
    s.dcrit = malloc(sizeof(double) * (s.L + 1));
    if (s.L) memcpy(s.dcrit, r->ri_mercurius.dcrit, sizeof(double) * s.L);
    return s;
}
static void drop(struct snap* s){ free(s->ps); free(s->dcrit); }

static void unchanged(struct reb_simulation* r, struct snap* s, const char* what){
    if (r->N != s->N) FAIL("%s: N changed %u -> %u", what, s->N, r->N);
    if (r->N_active != s->N_active) FAIL("%s: N_active changed %d -> %d", what, s->N_active, r->N_active);
    if (r->N && memcmp(s->ps, r->particles, sizeof(struct reb_particle) * r->N)) FAIL("%s: particle array changed", what);
    if (r->ri_mercurius.N_allocated_dcrit != s->L) FAIL("%s: dcrit length changed", what);
    if (s->L && memcmp(s->dcrit, r->ri_mercurius.dcrit, sizeof(double) * s->L)) FAIL("%s: dcrit changed", what);
}

/* A removal of old index k happened: surviving particles keep their critical radius. */
static void dcrit_shifted(struct reb_simulation* r, struct snap* s, int k){
    if (variant != 2 || s->L == 0) return;
    if (r->ri_mercurius.N_allocated_dcrit != s->L) FAIL("dcrit length changed by a removal");
    for (unsigned int j = 0; j < s->L && j < s->N; j++){
        if ((int)j == k) continue;
        unsigned int nj = (int)j > k ? j - 1 : j;
        if (!same_bits(r->ri_mercurius.dcrit[nj], s->dcrit[j]))
            FAIL("dcrit of surviving particle old index %u (new %u) is %g, was %g", j, nj, r->ri_mercurius.dcrit[nj], s->dcrit[j]);
    }
}

static void model_remove_at(int k){
    E[order[k]].alive = 0;
    for (int j = k; j < nmodel - 1; j++) order[j] = order[j + 1];
    nmodel--;
}

static void apply_remove(struct reb_simulation* r, int index, int ks, int by_hash, uint32_t h){
    struct snap s = take(r);
    int nerr;
    int valid = by_hash ? model_has(h) : (index >= 0 && index < nmodel);
    int ret = by_hash ? reb_simulation_remove_particle_by_hash(r, h, ks) : reb_simulation_remove_particle(r, index, ks);
    drain(r, &nerr);
    int sorted = ks || variant == 2;
    if (!valid){
        if (ret != 0) FAIL("invalid request returned %d", ret);
        if (!nerr) FAIL("invalid request produced no error message");
        unchanged(r, &s, "invalid request");
        verify(r, 1);
    } else if (variant == 1 && sorted && !(nmodel == 1 && ret == 1)){
        /* order-preserving removal is not available with a tree: documented failure, nothing may change */
        if (ret != 0) FAIL("sorted removal with a tree returned %d", ret);
        unchanged(r, &s, "refused sorted removal with tree");
        verify(r, 1);
    } else {
        if (ret != 1) FAIL("valid removal returned %d", ret);
        if (variant == 1 && !(nmodel == 1 && r->N == 0)){
            /* flagged; removed at next tree update (the only particle may also be dropped at once) */
            int k = index;
            if (by_hash){
                k = -1;
                for (int i = 0; i < nmodel; i++){
                    if (E[order[i]].hash == h && isnan(r->particles[i].y) && !(E[order[i]].flagged)) { k = i; break; }
                }
                if (k < 0){   /* may have re-flagged an already flagged one */
                    for (int i = 0; i < nmodel; i++) if (E[order[i]].hash == h && E[order[i]].flagged) { k = i; break; }
                }
                if (k < 0) FAIL("remove by hash %u with tree flagged no particle with that hash", h);
            }
            E[order[k]].flagged = 1;
            verify(r, 1);
        } else {
            /* which tag vanished? */
            static int seen[MAXTAG];
            memset(seen, 0, sizeof(int) * (size_t)ntags);
            if ((int)r->N != nmodel - 1) FAIL("removal: N=%u, expected %d", r->N, nmodel - 1);
            for (unsigned int i = 0; i < r->N; i++){ int t = tag_of(&r->particles[i]); if (t >= 0) seen[t] = 1; }
            int k = -1;
            for (int i = 0; i < nmodel; i++) if (!seen[order[i]]) { if (k >= 0) FAIL("more than one particle vanished"); k = i; }
            if (k < 0) FAIL("no particle vanished");
            if (by_hash){ if (E[order[k]].hash != h) FAIL("remove by hash %u removed a particle with hash %u", h, E[order[k]].hash); }
            else if (k != index) FAIL("remove index %d removed the particle at index %d", index, k);
            model_remove_at(k);
            if (nmodel == 0) na_known = 0;                  /* emptied: active count is vacuous, adopt */
            else if (sorted){ if (n_active >= 0 && k < n_active) n_active--; }
            else na_known = 0;                              /* unsorted: not documented, adopt */
            verify(r, sorted);
            if (sorted) dcrit_shifted(r, &s, k);
        }
    }
    drop(&s);
}

static void run_one(const uint8_t* d, size_t n){
    if (n < 2) return;
    size_t pos = 0;
#define NEED(k) if (pos + (k) > n) goto done
    variant = d[0] % 3;
    int flags = d[1];
    pos = 2;
    memset(E, 0, sizeof(E));
    nmodel = 0; ntags = 0; n_active = -1; na_known = 1; opno = 0;
    struct reb_simulation* r = reb_simulation_create();
    r->save_messages = 1;
    int nerr;
    if (variant == 1){
        int nr = (flags & 1) ? 2 : 1;
        reb_simulation_configure_box(r, 100.0 / nr, nr, nr, nr);
        r->gravity = REB_GRAVITY_TREE;
        r->integrator = REB_INTEGRATOR_LEAPFROG;
    } else if (variant == 2){
        r->integrator = REB_INTEGRATOR_MERCURIUS;
        r->dt = 1e-2;
    }
    int steps = 0;
    while (pos < n){
        int op = d[pos++] % 10;
        opno++;
        switch (op){
            case 0: {
                opname = "add";
                NEED(4);
                int hk = d[pos], hv = d[pos + 1] | (d[pos + 2] << 8), nn = d[pos + 3]; pos += 4;
                int cnt = nn < 128 ? nn % 4 + 1 : 60 + (nn - 128);
                for (int j = 0; j < cnt && ntags < MAXTAG; j++){
                    int tag = ntags++;
                    uint32_t h = sel_hash(hk, hv + j, tag);
                    struct reb_particle p = make_particle(tag, h);
                    E[tag].hash = h; E[tag].alive = 1; E[tag].flagged = 0; E[tag].p = p;
                    order[nmodel++] = tag;
                    reb_simulation_add(r, p);
                    drain(r, &nerr);
                    if (nerr) FAIL("valid add produced an error message");
                }
                verify(r, 1);
                break; }
            case 1: {
                opname = "rm_i";
                NEED(3);
                int mode = d[pos], k = (int8_t)d[pos + 1], ks = d[pos + 2] & 1; pos += 3;
                int index = (mode & 1) ? nmodel - 1 - k : k;
                apply_remove(r, index, ks, 0, 0);
                break; }
            case 2: {
                opname = "rm_h";
                NEED(4);
                uint32_t h = sel_hash(d[pos], d[pos + 1] | (d[pos + 2] << 8), -1); int ks = d[pos + 3] & 1; pos += 4;
                apply_remove(r, 0, ks, 1, h);
                break; }
            case 3: {
                opname = "set_h";
                NEED(4);
                int k = d[pos]; uint32_t h = sel_hash(d[pos + 1], d[pos + 2] | (d[pos + 3] << 8), -1); pos += 4;
                if (nmodel){
                    k %= nmodel;
                    r->particles[k].hash = h;
                    E[order[k]].hash = h;
                    verify(r, 1);
                }
                break; }
            case 4: {
                opname = "look";
                NEED(3);
                uint32_t h = sel_hash(d[pos], d[pos + 1] | (d[pos + 2] << 8), -1); pos += 3;
                struct snap s = take(r);
                lookup(r, h);
                unchanged(r, &s, "lookup");
                drop(&s);
                break; }
            case 5: {
                opname = "rm_all";
                reb_simulation_remove_all_particles(r);
                drain(r, &nerr);
                for (int i = 0; i < nmodel; i++) E[order[i]].alive = 0;
                nmodel = 0; n_active = -1; na_known = 1;
                verify(r, 1);
                if (r->particles != NULL && r->N_allocated == 0) FAIL("remove_all: N_allocated 0 but particles not NULL");
                break; }
            case 6: {
                opname = "n_active";
                NEED(1);
                int k = d[pos++];
                n_active = k % (nmodel + 2) - 1; na_known = 1;
                r->N_active = n_active;
                break; }
            case 7: {
                opname = "aux";
                if (variant == 1){
                    reb_simulation_update_tree(r);
                    drain(r, &nerr);
                    if (nerr) FAIL("tree update produced an error message");
                    int any = 0, w = 0;
                    for (int i = 0; i < nmodel; i++){
                        if (E[order[i]].flagged){ E[order[i]].alive = 0; any = 1; }
                        else order[w++] = order[i];
                    }
                    nmodel = w;
                    if (any) na_known = 0;
                    verify(r, !any);
                } else if (variant == 2){
                    if (nmodel >= 2 && order[0] == 0 && steps < 4 && (r->N_active == -1 || r->N_active >= 1)){
                        steps++;
                        reb_simulation_step(r);
                        drain(r, &nerr);
                        if (nerr) FAIL("step produced an error message");
                        verify(r, 1);
                        if (r->ri_mercurius.N_allocated_dcrit < r->N) FAIL("after a step dcrit has %u entries for N=%u", r->ri_mercurius.N_allocated_dcrit, r->N);
                    }
                }
                break; }
            case 9: {
                opname = "add_out";
                NEED(2);
                int sel = d[pos], mg = d[pos + 1] % 4; pos += 2;
                if (variant == 1){
                    const double half = 50.0;
                    double out = mg == 0 ? nextafter(half, 1e300) : (mg == 1 ? half + 1e-4 : (mg == 2 ? 75.0 : 1e6));
                    if (sel & 4) out = -out;
                    struct reb_particle p; memset(&p, 0, sizeof(p));
                    p.m = 1.0; p.x = 1.0; p.y = 2.0; p.z = 3.0; p.hash = POOL[sel % 8];
                    if (sel % 3 == 0) p.x = out; else if (sel % 3 == 1) p.y = out; else p.z = out;
                    struct snap s = take(r);
                    reb_simulation_add(r, p);
                    drain(r, &nerr);
                    if (!nerr) FAIL("add outside the box (%g) produced no error message", out);
                    unchanged(r, &s, "rejected add outside the box");
                    verify(r, 1);
                    drop(&s);
                }
                break; }
            case 8: {
                opname = "look_all";
                for (int i = 0; i < nmodel; i++) lookup(r, E[order[i]].hash);
                for (int i = 0; i < 8; i++) lookup(r, POOL[i]);
                lookup(r, 0u);
                lookup(r, 0x1000u + 1023u);
                verify(r, 1);
                break; }
        }
    }
done:
    reb_simulation_free(r);
}

#ifdef C14_FUZZER
int LLVMFuzzerTestOneInput(const uint8_t* data, size_t size){
    run_one(data, size);
    return 0;
}
#else
int main(int argc, char** argv){
    for (int a = 1; a < argc; a++){
        FILE* f = fopen(argv[a], "rb");
        if (!f){ fprintf(stderr, "cannot open %s\n", argv[a]); return 3; }
        static uint8_t buf[1 << 16];
        size_t n = fread(buf, 1, sizeof(buf), f);
        fclose(f);
        run_one(buf, n);
    }
    return 0;
}
#endif
