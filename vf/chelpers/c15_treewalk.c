/* C15 harness helper: read-only walk of r->tree_root.  Never writes to the simulation.
 * Dumps every cell in depth-first pre-order:
 *   geo[8*i..]  = x, y, z, w, m, mx, my, mz
 *   meta[4*i..] = pt, index of parent cell in this dump (-1 for a root cell), octant in parent, root box index
 *   addr[i]     = address of the cell (to be compared with particles[k].c)
 * Returns the number of cells, or -1 if more than maxn cells were met (cycle / corrupted tree), or -2 if
 * a cell is reached twice within one path budget (depth > 4096).
 */
#include <stddef.h>
#include <stdint.h>
#include "rebound.h"
#include "tree.h"

struct c15_out {
    long n, maxn;
    double* geo;
    int* meta;
    uint64_t* addr;
    int fail;
};

static void c15_walk(struct c15_out* o, const struct reb_treecell* c, long parent, int oct, int root, int depth){
    if (o->fail) return;
    if (depth > 4096){ o->fail = -2; return; }
    if (o->n >= o->maxn){ o->fail = -1; return; }
    long i = o->n++;
    if (o->geo){
        double* g = o->geo + 8*i;
        g[0] = c->x; g[1] = c->y; g[2] = c->z; g[3] = c->w;
        g[4] = c->m; g[5] = c->mx; g[6] = c->my; g[7] = c->mz;
        int* m = o->meta + 4*i;
        m[0] = c->pt; m[1] = (int)parent; m[2] = oct; m[3] = root;
        o->addr[i] = (uint64_t)(uintptr_t)c;
    }
    if (c->pt < 0){
        for (int k=0;k<8;k++){
            if (c->oct[k]) c15_walk(o, c->oct[k], i, k, root, depth+1);
        }
    }
}

long c15_dump(struct reb_simulation* r, long maxn, double* geo, int* meta, uint64_t* addr){
    struct c15_out o = {0, maxn, geo, meta, addr, 0};
    if (r->tree_root == NULL) return 0;
    for (int i=0;i<r->N_root;i++){
        if (r->tree_root[i]) c15_walk(&o, r->tree_root[i], -1, -1, i, 0);
        if (o.fail) return o.fail;
    }
    return o.n;
}

int c15_has_tree(struct reb_simulation* r){
    return r->tree_root != NULL;
}

int c15_rootbox(struct reb_simulation* r, double x, double y, double z){
    struct reb_particle p = {0};
    p.x = x; p.y = y; p.z = z;
    return reb_get_rootbox_for_particle(r, p);
}
