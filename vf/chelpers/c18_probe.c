/* C18 probe: reads option members of a reb_simulation *by name* through the compiler (independent of the ctypes
 * mirror).  Harness-owned; compiled against the tree's rebound.h with the library's defines. */
#include "rebound.h"

long long c18_get_int(struct reb_simulation* r, int which){
    switch (which){
        case 0: return (long long)r->integrator;
        case 1: return (long long)r->boundary;
        case 2: return (long long)r->gravity;
        case 3: return (long long)r->collision;
        case 4: return (long long)r->ri_whfast.kernel;
        case 5: return (long long)r->ri_whfast.coordinates;
        case 6: return (long long)r->ri_trace.peri_mode;
        case 7: return (long long)r->ri_saba.type;
        case 8: return (long long)r->ri_eos.phi0;
        case 9: return (long long)r->ri_eos.phi1;
        case 10: return (long long)r->ri_whfast.corrector;
    }
    return -999999;
}

void* c18_get_fptr(struct reb_simulation* r, int which){
    switch (which){
        case 0: return (void*)r->ri_mercurius.L;
        case 1: return (void*)r->ri_trace.S;
        case 2: return (void*)r->ri_trace.S_peri;
        case 3: return (void*)r->collision_resolve;
    }
    return 0;
}
