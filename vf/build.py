"""Build the tree under test (default /repo, override VERIF_REPO) into
/verif/.build/<variant>-<hash>/ and make `import rebound` load *that* build.

Variants:
  opt     gcc -O3, flags of setup.py          (all bit-exactness statements)
  asan    clang -O1 ASan+UBSan                (memory safety drivers)
  avx512  opt + -DAVX512 -march=native        (WHFast512), only if cpu has avx512f
"""
import hashlib
import os
import shutil
import subprocess
import sys
import sysconfig
from concurrent.futures import ThreadPoolExecutor

VERIF = os.path.dirname(os.path.dirname(os.path.abspath(__file__)))
REPO = os.environ.get("VERIF_REPO", "/repo")
BUILD_ROOT = os.path.join(VERIF, ".build")
SUFFIX = sysconfig.get_config_var("EXT_SUFFIX") or ".so"

SOURCES = [
    "rebound.c", "integrator_ias15.c", "integrator_whfast.c", "integrator_whfast512.c",
    "integrator_saba.c", "integrator_mercurius.c", "integrator_trace.c", "integrator_eos.c",
    "integrator_leapfrog.c", "integrator_bs.c", "integrator_janus.c", "integrator_sei.c",
    "integrator.c", "gravity.c", "server.c", "boundary.c", "display.c", "collision.c",
    "tools.c", "fmemopen.c", "rotations.c", "derivatives.c", "tree.c", "particle.c",
    "binarydiff.c", "output.c", "input.c", "simulationarchive.c", "transformations.c",
]

COMMON = ["-std=c99", "-fPIC", "-D_GNU_SOURCE", "-DLIBREBOUND", "-DSERVER",
          "-DGITHASH=verif", "-Wno-unknown-pragmas", "-w"]
VARIANTS = {
    "opt": ("gcc", ["-O3", "-fstrict-aliasing"], []),
    "avx512": ("gcc", ["-O3", "-fstrict-aliasing", "-march=native", "-DAVX512"], []),
    "dbg": ("gcc", ["-O1", "-g", "-fno-omit-frame-pointer"], []),
    "asan": ("clang", ["-O1", "-g", "-fno-omit-frame-pointer",
                       "-fsanitize=address,undefined", "-fno-sanitize-recover=undefined",
                       "-fno-sanitize=float-divide-by-zero",
                       # qsort(NULL, 0, ..) on an empty lookup table (particle.c) touches no memory; not a property matter
                       "-fno-sanitize=nonnull-attribute"],
             ["-fsanitize=address,undefined", "-shared-libasan"]),
}


def has_avx512():
    try:
        return "avx512f" in open("/proc/cpuinfo").read()
    except OSError:
        return False


def tree_hash(variant):
    h = hashlib.sha256()
    h.update(variant.encode())
    h.update(repr(VARIANTS[variant]).encode())
    src = os.path.join(REPO, "src")
    for fn in sorted(os.listdir(src)):
        if fn.endswith((".c", ".h")):
            h.update(fn.encode())
            h.update(open(os.path.join(src, fn), "rb").read())
    pk = os.path.join(REPO, "rebound")
    for root, dirs, files in os.walk(pk):
        dirs[:] = sorted(d for d in dirs if d not in ("tests", "__pycache__"))
        for fn in sorted(files):
            if fn.endswith((".py", ".h")):
                p = os.path.join(root, fn)
                h.update(os.path.relpath(p, pk).encode())
                h.update(open(p, "rb").read())
    return h.hexdigest()[:16]


def _compile(args):
    cc, flags, src, obj = args
    r = subprocess.run([cc] + COMMON + flags + ["-I", os.path.dirname(src), "-c", src, "-o", obj],
                       capture_output=True, text=True)
    if r.returncode != 0:
        raise RuntimeError("compile failed: %s\n%s" % (src, r.stderr[-4000:]))


def build(variant="opt", quiet=True):
    """Returns the directory holding librebound<SUFFIX> and a copy of the rebound package."""
    if variant == "avx512" and not has_avx512():
        return None
    d = os.path.join(BUILD_ROOT, "%s-%s" % (variant, tree_hash(variant)))
    lib = os.path.join(d, "librebound" + SUFFIX)
    if os.path.exists(os.path.join(d, ".done")):
        try:
            os.utime(d, None)
        except OSError:
            pass
        return d
    tmp = d + ".tmp%d" % os.getpid()
    shutil.rmtree(tmp, ignore_errors=True)
    os.makedirs(os.path.join(tmp, "obj"))
    cc, flags, ldflags = VARIANTS[variant]
    jobs = []
    for s in SOURCES:
        jobs.append((cc, flags, os.path.join(REPO, "src", s), os.path.join(tmp, "obj", s[:-2] + ".o")))
    with ThreadPoolExecutor(16) as ex:
        list(ex.map(_compile, jobs))
    objs = [j[3] for j in jobs]
    r = subprocess.run([cc, "-shared"] + ldflags + objs + ["-lm", "-lrt", "-lpthread", "-o",
                       os.path.join(tmp, "librebound" + SUFFIX)], capture_output=True, text=True)
    if r.returncode != 0:
        raise RuntimeError("link failed\n" + r.stderr[-4000:])
    shutil.rmtree(os.path.join(tmp, "obj"))
    # plain-named copy for C helpers to link against
    shutil.copy(os.path.join(tmp, "librebound" + SUFFIX), os.path.join(tmp, "librebound.so"))
    shutil.copytree(os.path.join(REPO, "rebound"), os.path.join(tmp, "rebound"),
                    ignore=shutil.ignore_patterns("tests", "__pycache__", "*.pyc"))
    os.makedirs(os.path.join(tmp, "include"))
    for fn in os.listdir(os.path.join(REPO, "src")):
        if fn.endswith(".h"):
            shutil.copy(os.path.join(REPO, "src", fn), os.path.join(tmp, "include", fn))
    open(os.path.join(tmp, ".done"), "w").write("ok")
    try:
        os.rename(tmp, d)
    except OSError:
        shutil.rmtree(tmp, ignore_errors=True)  # someone else won the race
    _prune(keep=d)
    return d


def _prune(keep, max_keep=12, min_age=3 * 3600):
    """Keep the build cache small: beyond the newest max_keep dirs, drop those unused for min_age seconds
    (other processes may still be running against a recent build)."""
    import time
    try:
        ds = [os.path.join(BUILD_ROOT, x) for x in os.listdir(BUILD_ROOT)]
        ds = [x for x in ds if os.path.isdir(x)]
        ds.sort(key=os.path.getmtime, reverse=True)
        now = time.time()
        for x in ds[max_keep:]:
            if x != keep and now - os.path.getmtime(x) > min_age:
                shutil.rmtree(x, ignore_errors=True)
    except OSError:
        pass


def helper(name, variant="opt", extra=()):
    """Compile /verif/vf/chelpers/<name>.c against the variant; returns path of shared obj/exe."""
    d = build(variant)
    src = os.path.join(VERIF, "vf", "chelpers", name + ".c")
    h = hashlib.sha256(open(src, "rb").read() + repr(extra).encode()).hexdigest()[:10]
    out = os.path.join(d, "%s-%s.so" % (name, h))
    if os.path.exists(out):
        return out
    cc, flags, ldflags = VARIANTS[variant]
    cmd = [cc, "-shared", "-fPIC", "-D_GNU_SOURCE", "-w"] + flags + ldflags + list(extra) + \
          ["-I", os.path.join(d, "include"), src, "-L", d, "-l:librebound.so",
           "-Wl,-rpath," + d, "-lm", "-o", out + ".tmp%d" % os.getpid()]
    r = subprocess.run(cmd, capture_output=True, text=True)
    if r.returncode != 0:
        raise RuntimeError("helper build failed: %s\n%s" % (name, r.stderr[-4000:]))
    os.rename(out + ".tmp%d" % os.getpid(), out)
    return out


def activate(variant="opt"):
    """Build and put the build dir first on sys.path so `import rebound` loads it."""
    d = build(variant)
    if d is None:
        return None
    deps = os.path.join(VERIF, ".deps")
    if os.path.isdir(deps) and deps not in sys.path:
        sys.path.insert(0, deps)
    if d in sys.path:
        sys.path.remove(d)
    sys.path.insert(0, d)
    for m in list(sys.modules):
        if m == "rebound" or m.startswith("rebound."):
            raise RuntimeError("rebound imported before activate()")
    return d


if __name__ == "__main__":
    for v in sys.argv[1:] or ["opt"]:
        print(v, build(v))
