"""Shared Hypothesis generators.  Every case is a plain JSON-able value."""
import math

from hypothesis import strategies as st


def el2cart(mu, a, e, inc, Omega, omega, f):
    """Classical elements -> relative Cartesian state (own implementation, textbook formulas)."""
    p = a * (1.0 - e * e)
    r = p / (1.0 + e * math.cos(f))
    v0 = math.sqrt(mu / p)
    cO, sO = math.cos(Omega), math.sin(Omega)
    co, so = math.cos(omega), math.sin(omega)
    cf, sf = math.cos(f), math.sin(f)
    ci, si = math.cos(inc), math.sin(inc)
    cu, su = co * cf - so * sf, so * cf + co * sf     # cos/sin(omega+f)
    x = r * (cO * cu - sO * su * ci)
    y = r * (sO * cu + cO * su * ci)
    z = r * (su * si)
    # velocity: perifocal (-sin f, e+cos f) * v0 rotated
    vxp, vyp = -v0 * sf, v0 * (e + cf)
    vx = vxp * (cO * co - sO * so * ci) + vyp * (-cO * so - sO * co * ci)
    vy = vxp * (sO * co + cO * so * ci) + vyp * (-sO * so + cO * co * ci)
    vz = vxp * (so * si) + vyp * (co * si)
    return [x, y, z, vx, vy, vz]


def floats(lo, hi):
    """Floats in [lo, hi]; magnitudes below 1e-9 of the range are snapped to exactly 0 (no denormal
    junk: a 1e-310 inclination is not a meaningful physical input and only exercises underflow)."""
    tiny = 1e-9 * max(abs(lo), abs(hi))

    def snap(x):
        if abs(x) < tiny:
            return 0.0 if lo <= 0.0 <= hi else (lo if abs(lo) < abs(hi) else hi)
        return x
    return st.floats(min_value=lo, max_value=hi, allow_nan=False, allow_infinity=False, allow_subnormal=False).map(snap)


def logfloats(lo, hi):
    return floats(math.log(lo), math.log(hi)).map(math.exp)


angles = st.one_of(floats(0.0, 2 * math.pi), st.sampled_from([0.0, math.pi / 2, math.pi, 3 * math.pi / 2]))

G_VALUES = [1.0, 4 * math.pi ** 2, 0.9, 6.674e-11 * 1.0e10, 2.959122082855911e-04]


@st.composite
def hierarchical_system(draw, nmin=2, nmax=5, mass_lo=1e-9, mass_hi=1e-3, emax=0.3, incmax=0.5,
                        min_sep_hill=8.0, allow_massless=False, G=None, star_mass=None, move_to_com=True):
    """Star + planets on well separated orbits; returns {"G", "particles":[{m,x,..}], "P_min", "P_max"}."""
    n = draw(st.integers(nmin, nmax))
    Gv = G if G is not None else draw(st.sampled_from(G_VALUES))
    m0 = star_mass if star_mass is not None else draw(st.sampled_from([1.0, 0.5, 2.0, 1.3]))
    parts = [{"m": m0, "x": 0.0, "y": 0.0, "z": 0.0, "vx": 0.0, "vy": 0.0, "vz": 0.0}]
    a = draw(floats(0.5, 2.0))
    pmin = None
    pmax = None
    msum = m0
    for i in range(1, n):
        if allow_massless and draw(st.integers(0, 5)) == 0:
            m = 0.0
        else:
            m = draw(logfloats(mass_lo, mass_hi)) * m0
        e = draw(st.one_of(floats(0.0, emax), st.just(0.0)))
        inc = draw(st.one_of(floats(0.0, incmax), st.just(0.0)))
        Om, om, f = draw(angles), draw(angles), draw(angles)
        mu = Gv * (msum + m)
        s = el2cart(mu, a, e, inc, Om, om, f)
        # Jacobi-like construction relative to the star (good enough for generation)
        p = {"m": m, "x": s[0], "y": s[1], "z": s[2], "vx": s[3], "vy": s[4], "vz": s[5]}
        parts.append(p)
        P = 2 * math.pi * math.sqrt(a ** 3 / mu)
        pmin = P if pmin is None else min(pmin, P)
        pmax = P if pmax is None else max(pmax, P)
        msum += m
        # next semi-major axis: separated by >= min_sep_hill mutual Hill radii and >= factor 1.4
        rh = a * (max(2 * mass_hi, 1e-12) / 3.0) ** (1.0 / 3.0)
        fac = draw(floats(1.45, 2.2))
        a = max(a * fac, (a * (1 + emax) + min_sep_hill * 2 * rh) / (1 - emax))
    if move_to_com:
        M = sum(p["m"] for p in parts)
        for k in ("x", "y", "z", "vx", "vy", "vz"):
            c = sum(p["m"] * p[k] for p in parts) / M
            for p in parts:
                p[k] -= c
    return {"G": Gv, "particles": parts, "P_min": pmin, "P_max": pmax}


@st.composite
def few_body(draw, nmin=3, nmax=4):
    """Hierarchical systems with comparable masses (binary + outer bodies)."""
    return draw(hierarchical_system(nmin=nmin, nmax=nmax, mass_lo=0.01, mass_hi=0.3, emax=0.2,
                                    incmax=0.3, min_sep_hill=10.0))


# ---------------------------------------------------------------------------------------
# Documented integrator option lattice (docs/integrators.md + *_init validity rules)

WH_COORDS = ["jacobi", "democraticheliocentric", "whds", "barycentric"]
WH_KERNELS = ["default", "modifiedkick", "composition", "lazy"]
WH_CORRECTORS = [0, 3, 5, 7, 11, 17]
SABA_TYPES = ["1", "2", "3", "4", "cm1", "cm2", "cm3", "cm4", "cl1", "cl2", "cl3", "cl4",
              "10,4", "8,6,4", "10,6,4", "h8,4,4", "h8,6,4", "h10,6,4"]
EOS_TYPES = ["lf", "lf4", "lf6", "lf8", "lf4_2", "lf8_6_4", "plf7_6_4", "pmlf4", "pmlf6"]
JANUS_ORDERS = [2, 4, 6, 8, 10]
MERCURIUS_L = ["mercury", "infinity", "C4", "C5"]
TRACE_PERI = ["PARTIAL_BS", "FULL_BS", "FULL_IAS15"]


def whfast_valid(coord, kernel, corrector, corrector2):
    if kernel != "default" and coord != "jacobi":
        return False
    if corrector != 0 and coord not in ("jacobi", "barycentric"):
        return False
    if corrector2 and coord != "jacobi":
        return False
    return True


def whfast_lattice():
    out = []
    for c in WH_COORDS:
        for k in WH_KERNELS:
            for co in WH_CORRECTORS:
                for c2 in (0, 1):
                    if whfast_valid(c, k, co, c2):
                        out.append((c, k, co, c2))
    return out


def cfg(integrator, *sets, **meta):
    d = {"integrator": integrator, "set": [list(s) for s in sets]}
    d.update(meta)
    return d


@st.composite
def whfast_config(draw, safe_modes=(0, 1), allow_keep=True):
    c, k, co, c2 = draw(st.sampled_from(whfast_lattice()))
    sm = draw(st.sampled_from(list(safe_modes)))
    sets = [["ri_whfast.coordinates", c], ["ri_whfast.kernel", k], ["ri_whfast.corrector", co],
            ["ri_whfast.corrector2", c2], ["ri_whfast.safe_mode", sm]]
    if sm == 0 and allow_keep and draw(st.booleans()):
        sets.append(["ri_whfast.keep_unsynchronized", 1])
    return {"integrator": "whfast", "set": sets, "family": "whfast", "fixed_step": True}


@st.composite
def saba_config(draw):
    t = draw(st.sampled_from(SABA_TYPES))
    sm = draw(st.sampled_from([0, 1]))
    sets = [["ri_saba.type", t], ["ri_saba.safe_mode", sm]]
    if sm == 0 and draw(st.booleans()):
        sets.append(["ri_saba.keep_unsynchronized", 1])
    return {"integrator": "saba", "set": sets, "family": "saba", "fixed_step": True}


@st.composite
def eos_config(draw):
    p0 = draw(st.sampled_from(EOS_TYPES))
    p1 = draw(st.sampled_from(EOS_TYPES))
    n = draw(st.sampled_from([1, 2, 3, 8]))
    sm = draw(st.sampled_from([0, 1]))
    return {"integrator": "eos", "set": [["ri_eos.phi0", p0], ["ri_eos.phi1", p1], ["ri_eos.n", n],
                                          ["ri_eos.safe_mode", sm]], "family": "eos", "fixed_step": True}


@st.composite
def ias15_config(draw):
    mode = draw(st.sampled_from([0, 1, 2, 3]))
    eps = draw(st.sampled_from([1e-9, 1e-9, 1e-7, 0.0]))
    return {"integrator": "ias15", "set": [["ri_ias15.adaptive_mode", mode], ["ri_ias15.epsilon", eps]],
            "family": "ias15", "fixed_step": eps == 0.0}


@st.composite
def bs_config(draw):
    e = draw(st.sampled_from([1e-8, 1e-10, 1e-12]))
    return {"integrator": "bs", "set": [["ri_bs.eps_rel", e], ["ri_bs.eps_abs", e]], "family": "bs",
            "fixed_step": False}


@st.composite
def janus_config(draw):
    o = draw(st.sampled_from(JANUS_ORDERS))
    return {"integrator": "janus", "set": [["ri_janus.order", o], ["ri_janus.scale_pos", 1e-16],
                                            ["ri_janus.scale_vel", 1e-16]], "family": "janus", "fixed_step": True}


@st.composite
def mercurius_config(draw):
    L = draw(st.sampled_from(MERCURIUS_L))
    sm = draw(st.sampled_from([0, 1]))
    rc = draw(st.sampled_from([3.0, 2.0, 4.0]))
    return {"integrator": "mercurius", "set": [["ri_mercurius.L", L], ["ri_mercurius.safe_mode", sm],
                                                ["ri_mercurius.r_crit_hill", rc]],
            "family": "mercurius", "fixed_step": True}


@st.composite
def trace_config(draw):
    pm = draw(st.sampled_from(TRACE_PERI))
    sp = draw(st.sampled_from(["default", "none"]))
    sets = [["ri_trace.S_peri", sp]]
    return {"integrator": "trace", "set": sets, "peri_mode": pm, "family": "trace", "fixed_step": True}


def leapfrog_config():
    return st.just({"integrator": "leapfrog", "set": [], "family": "leapfrog", "fixed_step": True})


def integrator_config(families=None):
    m = {"whfast": whfast_config(), "saba": saba_config(), "eos": eos_config(), "ias15": ias15_config(),
         "bs": bs_config(), "janus": janus_config(), "mercurius": mercurius_config(),
         "trace": trace_config(), "leapfrog": leapfrog_config()}
    fams = families or list(m)
    return st.one_of(*[m[f] for f in fams])
