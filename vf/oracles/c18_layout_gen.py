"""C18 oracle: the C side of the mirror, obtained from the compiler.

`gcc -E` on the tree's rebound.h -> a small declaration parser extracts every struct body (members with nested
anonymous enums/structs, arrays, pointers, function pointers) and every enumerator -> a generated C program prints
offsetof / sizeof / kind of every member and the value of every enumerator -> compiled with gcc against the same
header and the same defines as the library, run, parsed.  Nothing here looks at the Python package.

layout(build_dir, defines) -> {"structs": {tag: {"size": int, "members": [member...]}}, "enums": {NAME: int},
                               "enum_groups": [{"where": "reb_simulation.integrator" | "enum REB_EOS_TYPE", "names": [...]}]}
member = {"name", "offset", "size", "decl": "scalar"|"enum"|"ptr"|"fptr"|"struct:<tag>"|"anon", "dims": [n, ...],
          "elem_size", "kind": "f"|"i"|"u"|"c"|"p"|"F"|"s"|"o"(paque typedef), "enum_group": index or None}
"""
import hashlib
import json
import os
import re
import subprocess

TOK = re.compile(r"\s*(?:(0[xX][0-9a-fA-F]+[uUlL]*|\d+[uUlL]*)|([A-Za-z_]\w*)|(\.\.\.|<<|>>|->|[{}\[\]();,*=:+\-/%&|^~!<>?.#]))")
QUALS = {"const", "volatile", "restrict", "__restrict", "__restrict__", "__extension__", "static", "extern", "register",
         "_Atomic", "inline", "__inline"}


def tokenize(text):
    # drop string/char literals (not needed) and attributes
    text = re.sub(r'"(?:\\.|[^"\\])*"', '""', text)
    out = []
    pos = 0
    n = len(text)
    while pos < n:
        m = TOK.match(text, pos)
        if not m:
            if text[pos:].strip() == "":
                break
            pos += 1
            continue
        pos = m.end()
        out.append(m.group(1) or m.group(2) or m.group(3))
    return out


def strip_attributes(toks):
    out = []
    i = 0
    while i < len(toks):
        if toks[i] in ("__attribute__", "__asm__", "__declspec") and i + 1 < len(toks) and toks[i + 1] == "(":
            d = 0
            i += 1
            while i < len(toks):
                if toks[i] == "(":
                    d += 1
                elif toks[i] == ")":
                    d -= 1
                    if d == 0:
                        i += 1
                        break
                i += 1
            continue
        out.append(toks[i])
        i += 1
    return out


def match(toks, i, open_, close):
    d = 0
    while i < len(toks):
        if toks[i] == open_:
            d += 1
        elif toks[i] == close:
            d -= 1
            if d == 0:
                return i
        i += 1
    raise ValueError("unbalanced %s" % open_)


class Parser:
    def __init__(self, toks):
        self.t = toks
        self.structs = {}       # tag -> [member dict]
        self.enums = []         # all enumerator names
        self.groups = []        # {"where", "names"}
        self.named_enum_group = {}   # enum tag -> group index

    def parse_enum_body(self, i, where):
        """toks[i] == '{' ; returns (group index, index after '}')."""
        j = match(self.t, i, "{", "}")
        names = []
        k = i + 1
        expect_name = True
        depth = 0
        while k < j:
            tk = self.t[k]
            if tk in "([":
                depth += 1
            elif tk in ")]":
                depth -= 1
            elif tk == "," and depth == 0:
                expect_name = True
            elif expect_name and re.match(r"[A-Za-z_]\w*$", tk):
                names.append(tk)
                expect_name = False
            k += 1
        self.enums += names
        self.groups.append({"where": where, "names": names})
        return len(self.groups) - 1, j + 1

    def parse_struct_body(self, i, tag):
        """toks[i] == '{'.  Returns (members, index after '}')."""
        end = match(self.t, i, "{", "}")
        members = []
        k = i + 1
        anon = 0
        while k < end:
            # one declaration up to ';' at depth 0 (braces/parens nest)
            spec = []
            group = None
            nested = None
            while k < end:
                tk = self.t[k]
                if tk == ";":
                    k += 1
                    break
                if tk == "enum":
                    # enum [TAG] [{...}]
                    k += 1
                    etag = None
                    if re.match(r"[A-Za-z_]\w*$", self.t[k]) and self.t[k] not in QUALS:
                        etag = self.t[k]
                        k += 1
                    if self.t[k] == "{":
                        group, k = self.parse_enum_body(k, "enum " + etag if etag else None)
                        if etag:
                            self.named_enum_group[etag] = group
                    else:
                        group = self.named_enum_group.get(etag)
                    spec.append("enum")
                    continue
                if tk in ("struct", "union"):
                    kw = tk
                    k += 1
                    stag = None
                    if re.match(r"[A-Za-z_]\w*$", self.t[k]):
                        stag = self.t[k]
                        k += 1
                    if self.t[k] == "{":
                        anon += 1
                        ntag = stag or "%s::anon%d" % (tag, anon)
                        sub, k = self.parse_struct_body(k, ntag)
                        if stag:
                            self.structs[stag] = sub
                        nested = "anon" if not stag else kw + ":" + stag
                        spec.append(nested)
                    else:
                        spec.append(kw + ":" + stag)
                    continue
                if tk == "{":   # should not happen
                    k = match(self.t, k, "{", "}") + 1
                    continue
                spec.append(tk)
                k += 1
            if spec:
                try:
                    members += self.declarators(spec, group, tag)
                except (ValueError, IndexError):
                    # system-header constructs this parser does not model (bit fields, unnamed members): the struct
                    # is marked unusable; asking for its layout later is an error, never a silent skip
                    members.append({"name": None, "decl": "unparsed", "dims": [], "enum_group": None})
        for m in members:
            if m.get("enum_group") is not None and self.groups[m["enum_group"]]["where"] is None:
                self.groups[m["enum_group"]]["where"] = "%s.%s" % (tag, m["name"])
        return members, end + 1

    def declarators(self, spec, group, tag):
        """spec: tokens of one member declaration without the ';' (enum/struct bodies already folded)."""
        # split at top-level commas
        parts = []
        cur = []
        d = 0
        for tk in spec:
            if tk in "([":
                d += 1
            elif tk in ")]":
                d -= 1
            if tk == "," and d == 0:
                parts.append(cur)
                cur = []
            else:
                cur.append(tk)
        parts.append(cur)
        out = []
        base = None
        for pi, p in enumerate(parts):
            p = [x for x in p if x not in QUALS]
            if not p:
                continue
            if "(" in p:
                # function pointer: ... ( * name [dims] ) ( params )
                i = p.index("(")
                j = i + 1
                while p[j] == "*" or p[j] in QUALS:
                    j += 1
                name = p[j]
                dims = []
                j += 1
                while p[j] == "[":
                    e = match(p, j, "[", "]")
                    dims.append(" ".join(p[j + 1:e]))
                    j = e + 1
                out.append({"name": name, "decl": "fptr", "dims": dims, "enum_group": None})
                continue
            # dims
            dims = []
            while p and p[-1] == "]":
                i = len(p) - 1
                dd = 0
                while True:
                    if p[i] == "]":
                        dd += 1
                    elif p[i] == "[":
                        dd -= 1
                        if dd == 0:
                            break
                    i -= 1
                dims.insert(0, " ".join(p[i + 1:-1]))
                p = p[:i]
            if ":" in p:    # bit field: not expected in this header
                raise ValueError("bit field in struct %s: %r" % (tag, p))
            name = p[-1]
            rest = p[:-1]
            nptr = rest.count("*")
            rest = [x for x in rest if x != "*"]
            if pi == 0:
                base = rest
            else:
                rest = base
            if nptr:
                decl = "ptr"
            elif rest and rest[0] == "enum":
                decl = "enum"
            elif rest and rest[0] == "anon":
                decl = "anon"
            elif rest and (rest[0].startswith("struct:") or rest[0].startswith("union:")):
                decl = "struct:" + rest[0].split(":", 1)[1]
            else:
                decl = "scalar"
            out.append({"name": name, "decl": decl, "dims": dims, "enum_group": group if decl == "enum" else None,
                        "ctype": " ".join(rest)})
        return out

    def run(self):
        t = self.t
        i = 0
        n = len(t)
        depth = 0
        while i < n:
            tk = t[i]
            if depth == 0 and tk in ("struct", "union") and i + 2 < n and re.match(r"[A-Za-z_]\w*$", t[i + 1]) and t[i + 2] == "{":
                tag = t[i + 1]
                members, i = self.parse_struct_body(i + 2, tag)
                self.structs[tag] = members
                continue
            if depth == 0 and tk == "enum":
                j = i + 1
                etag = None
                if re.match(r"[A-Za-z_]\w*$", t[j]):
                    etag = t[j]
                    j += 1
                if t[j] == "{":
                    g, i = self.parse_enum_body(j, "enum " + etag if etag else "enum <anonymous, file scope>")
                    if etag:
                        self.named_enum_group[etag] = g
                    continue
            if tk == "{":
                depth += 1
            elif tk == "}":
                depth -= 1
            i += 1


def preprocess(header, include_dir, defines, cc="gcc"):
    cmd = [cc, "-E", "-P", "-std=c99", "-I", include_dir] + list(defines) + [header]
    r = subprocess.run(cmd, capture_output=True, text=True)
    if r.returncode != 0:
        raise RuntimeError("gcc -E failed: " + r.stderr[-2000:])
    return r.stdout


def parse_header(text):
    toks = strip_attributes(tokenize(text))
    p = Parser(toks)
    p.run()
    return p


C_HEAD = r'''
#include <stdio.h>
#include <stddef.h>
#include <stdint.h>
#include "rebound.h"
#define KIND(e) _Generic((e), double:'f', float:'f', long double:'f', signed char:'i', short:'i', int:'i', long:'i', long long:'i', unsigned char:'u', unsigned short:'u', unsigned int:'u', unsigned long:'u', unsigned long long:'u', char:'c', _Bool:'u', default:'o')
int main(void){
'''


def gen_program(p, wanted):
    lines = [C_HEAD]
    for tag in wanted:
        if tag not in p.structs or any(m["decl"] == "unparsed" for m in p.structs[tag]):
            lines.append('  printf("X %s\\n");' % tag)
            continue
        kw = "struct"
        lines.append('  printf("S %s %%zu\\n", sizeof(%s %s));' % (tag, kw, tag))
        for idx, m in enumerate(p.structs[tag]):
            acc = "((%s %s*)0)->%s" % (kw, tag, m["name"])
            elem = acc + "".join("[0]" for _ in m["dims"])
            if m["decl"] in ("scalar", "enum"):
                kind = "KIND(%s)" % elem
            elif m["decl"] == "ptr":
                kind = "'p'"
            elif m["decl"] == "fptr":
                kind = "'F'"
            else:
                kind = "'s'"
            lines.append('  printf("M %s %d %s %%zu %%zu %%zu %%c\\n", offsetof(%s %s, %s), sizeof(%s), sizeof(%s), %s);'
                         % (tag, idx, m["name"], kw, tag, m["name"], acc, elem, kind))
    for name in p.enums:
        lines.append('  printf("E %s %%lld\\n", (long long)%s);' % (name, name))
    lines.append("  return 0;\n}\n")
    return "\n".join(lines)


def layout(include_dir, defines, wanted, workdir, cc="gcc"):
    header = os.path.join(include_dir, "rebound.h")
    text = preprocess(header, include_dir, defines, cc)
    p = parse_header(text)
    prog = gen_program(p, wanted)
    key = hashlib.sha256((text + prog + repr(defines)).encode()).hexdigest()[:12]
    cache = os.path.join(workdir, "c18_layout-%s.json" % key)
    if os.path.exists(cache):
        return json.load(open(cache))
    src = os.path.join(workdir, "c18_layout-%s.c" % key)
    exe = os.path.join(workdir, "c18_layout-%s.bin.tmp%d" % (key, os.getpid()))
    with open(src, "w") as f:
        f.write(prog)
    r = subprocess.run([cc, "-std=gnu11", "-w", "-I", include_dir] + list(defines) + [src, "-o", exe], capture_output=True, text=True)
    if r.returncode != 0:
        raise RuntimeError("layout program does not compile (parser out of sync with header?)\n" + r.stderr[-3000:])
    out = subprocess.run([exe], capture_output=True, text=True, check=True).stdout
    os.unlink(exe)
    res = {"structs": {}, "enums": {}, "enum_groups": p.groups, "missing": []}
    for line in out.splitlines():
        f = line.split()
        if f[0] == "S":
            res["structs"][f[1]] = {"size": int(f[2]), "members": []}
        elif f[0] == "X":
            res["missing"].append(f[1])
        elif f[0] == "M":
            tag, idx = f[1], int(f[2])
            m = dict(p.structs[tag][idx])
            m.update(offset=int(f[4]), size=int(f[5]), elem_size=int(f[6]), kind=f[7])
            res["structs"][tag]["members"].append(m)
        elif f[0] == "E":
            res["enums"][f[1]] = int(f[2])
    tmp = cache + ".tmp%d" % os.getpid()
    with open(tmp, "w") as f:
        json.dump(res, f)
    os.rename(tmp, cache)
    return res
