"""C02 oracle: Barnes-Hut decomposition predicted from geometry.

An octree over the root-box grid is built from the particle positions alone (a cell is split until it holds one
particle; the result does not depend on insertion order).  For a target point x and opening_angle2 = theta^2 the
documented walk (docs/simulationvariables.md, Rein & Liu 2012 sec. 2.2) is
    leaf holding another particle     -> that particle's Newtonian term
    leaf holding the target itself    -> nothing
    cell of width w, centre of mass c -> open it (visit the children) iff  w^2 > theta^2 |x - c|^2 ,
                                         otherwise one monopole term with the cell's total mass at c.
The accepted (point, mass) list is returned so that the caller can (a) evaluate the predicted tree force in extended
precision, (b) evaluate the exact force of the same particles, and (c) flag cases where an opening decision is
within rounding of the threshold (then the prediction is ambiguous and is not asserted).
"""
import math

import numpy as np

LD = np.longdouble


class Cell:
    __slots__ = ("cx", "cy", "cz", "w", "idx", "kids", "M", "com", "depth")


def _build(idx, cx, cy, cz, w, pos, depth, maxdepth=200):
    c = Cell()
    c.cx, c.cy, c.cz, c.w, c.idx, c.depth = cx, cy, cz, w, idx, depth
    c.kids = None
    if len(idx) > 1:
        if depth > maxdepth:
            raise ValueError("octree too deep (coincident particles?)")
        buckets = {}
        for i in idx:
            p = pos[i]
            o = (1 if p[0] < cx else 0) + (2 if p[1] < cy else 0) + (4 if p[2] < cz else 0)
            buckets.setdefault(o, []).append(i)
        c.kids = []
        h = w / 2.0
        for o, sub in sorted(buckets.items()):
            kx = cx + h / 2.0 * (-1.0 if o & 1 else 1.0)
            ky = cy + h / 2.0 * (-1.0 if o & 2 else 1.0)
            kz = cz + h / 2.0 * (-1.0 if o & 4 else 1.0)
            c.kids.append(_build(sub, kx, ky, kz, h, pos, depth + 1))
    return c


def _moments(c, X, M):
    """total mass and centre of mass (longdouble); cells of zero total mass get com = origin (they contribute nothing)."""
    if c.kids is None:
        i = c.idx[0]
        c.M = M[i]
        c.com = X[i]
        return
    for k in c.kids:
        _moments(k, X, M)
    idx = np.array(c.idx)
    c.M = np.sum(M[idx])
    if c.M > 0:
        c.com = np.sum(M[idx][:, None] * X[idx], axis=0) / c.M
    else:
        c.com = np.zeros(3, dtype=LD)


def build(pos, m, root_size, nroot):
    """-> list of root cells (only non-empty ones).  Box is centred on the origin."""
    X = np.array(pos, dtype=LD).reshape(-1, 3)
    M = np.array(m, dtype=LD)
    L3 = [root_size * n for n in nroot]
    groups = {}
    for i, p in enumerate(pos):
        key = tuple(min(nroot[k] - 1, max(0, int(math.floor((p[k] + L3[k] / 2.0) / root_size)))) for k in range(3))
        groups.setdefault(key, []).append(i)
    roots = []
    for key, idx in sorted(groups.items()):
        cx, cy, cz = [-L3[k] / 2.0 + root_size * (0.5 + key[k]) for k in range(3)]
        c = _build(idx, cx, cy, cz, root_size, pos, 0)
        _moments(c, X, M)
        roots.append(c)
    return roots, X, M


def depth(roots):
    def d(c):
        return c.depth if c.kids is None else max(d(k) for k in c.kids)
    return max([d(r) for r in roots] + [0])


def walk(roots, target_index, xt, theta2, com_err):
    """xt: target point (3 python floats, already shifted by the image vector); com_err: absolute uncertainty of a
    centre-of-mass coordinate as computed in double precision by any reasonable implementation.
    -> (leaves: list of particle indices, cells: list of Cell accepted as monopoles, ambiguous: bool)"""
    leaves, cells = [], []
    amb = False
    stack = list(roots)
    while stack:
        c = stack.pop()
        if c.kids is None:
            if c.idx[0] != target_index:
                leaves.append(c.idx[0])
            continue
        cm = c.com
        dx, dy, dz = xt[0] - float(cm[0]), xt[1] - float(cm[1]), xt[2] - float(cm[2])
        r2 = dx * dx + dy * dy + dz * dz
        w2 = c.w * c.w
        t = theta2 * r2
        # uncertainty of theta^2 |x-c|^2 caused by an uncertainty com_err in every coordinate of c
        if c.M > 0 and abs(w2 - t) <= 1e-13 * w2 + theta2 * (4.0 * math.sqrt(3.0 * r2) * com_err + 6.0 * com_err * com_err):
            amb = True
        if w2 > t:
            stack.extend(c.kids)
        else:
            cells.append(c)
    return leaves, cells, amb
