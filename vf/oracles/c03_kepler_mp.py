"""C03 oracle: two-body propagation in mpmath through classical / hyperbolic elements.

Deliberately NOT the universal-variable (Stumpff/Stiefel) formulation used by REBOUND:
  state -> (a, e-vector, h-vector) -> perifocal basis (P,Q) -> eccentric / hyperbolic anomaly at t0 ->
  mean anomaly advanced by n*dt -> Kepler's equation solved by bisection inside a proven bracket (monotone
  function) followed by bracket-safeguarded Newton polishing -> perifocal coordinates -> Cartesian.

All inputs are taken as exact binary doubles (mpf(float) is exact).  Working precision DPS digits.
"""
import math

import mpmath
from mpmath import mp, mpf

DPS = 60
EPS = 2.0 ** -52


def _dot(a, b):
    return a[0] * b[0] + a[1] * b[1] + a[2] * b[2]


def _cross(a, b):
    return (a[1] * b[2] - a[2] * b[1], a[2] * b[0] - a[0] * b[2], a[0] * b[1] - a[1] * b[0])


def _solve_monotone(f, fp, lo, hi, guess=None):
    """Root of an increasing function f in [lo,hi] (f(lo)<=0<=f(hi)).
    Fast path: Newton from `guess` (a double-precision estimate); the result is accepted only if f changes sign
    across [x-d, x+d] with d ~ 10^-(dps-8) relative, i.e. the root is *verified*, independently of how it was
    found.  Otherwise: bisection to 2^-8 of the bracket, then Newton steps that are replaced by bisection
    whenever they leave the bracket."""
    tol = mpf(10) ** (-(mp.dps - 6))
    if guess is not None and lo < guess < hi:
        x = mpf(guess)
        for _ in range(12):
            d = fp(x)
            if d == 0:
                break
            xn = x - f(x) / d
            if not (lo <= xn <= hi):
                break
            done = abs(xn - x) <= tol * (abs(xn) + mpf(10) ** (-mp.dps))
            x = xn
            if done:
                dd = 100 * tol * (abs(x) + mpf(10) ** (-mp.dps + 10))
                if f(x - dd) <= 0 <= f(x + dd):
                    return x
                break
    flo, fhi = f(lo), f(hi)
    if flo == 0:
        return lo
    if fhi == 0:
        return hi
    if not (flo < 0 < fhi):
        raise ArithmeticError("oracle bracket does not contain the root: f(lo)=%s f(hi)=%s" % (flo, fhi))
    for _ in range(8):
        mid = (lo + hi) / 2
        fm = f(mid)
        if fm == 0:
            return mid
        if fm < 0:
            lo = mid
        else:
            hi = mid
    x = (lo + hi) / 2
    for _ in range(200):
        fx = f(x)
        if fx == 0:
            return x
        if fx < 0:
            lo = x
        else:
            hi = x
        d = fp(x)
        xn = x - fx / d if d != 0 else None
        if xn is None or not (lo < xn < hi):
            xn = (lo + hi) / 2
        if abs(xn - x) <= tol * (abs(x) + abs(hi - lo) + mpf(10) ** (-mp.dps)):
            return xn
        x = xn
    raise ArithmeticError("oracle Kepler solve did not converge")


def _float_root(g, lo, hi):
    """Double-precision bisection estimate of the root of increasing g on [lo,hi] (only a starting guess)."""
    try:
        for _ in range(60):
            mid = 0.5 * (lo + hi)
            if g(mid) < 0:
                lo = mid
            else:
                hi = mid
        return 0.5 * (lo + hi)
    except (OverflowError, ValueError):
        return None


def propagate(r0, v0, mu, dt, info=None, guess=None):
    """r0, v0: 3 floats each (relative position / velocity), mu=G*M (float), dt (float).
    Returns (r, v) as tuples of mpf.  `info` (dict) receives a, e, kind, M."""
    old = mp.dps
    mp.dps = DPS
    try:
        r0 = tuple(mpf(x) for x in r0)
        v0 = tuple(mpf(x) for x in v0)
        mu = mpf(mu)
        dt = mpf(dt)
        rr = mpmath.sqrt(_dot(r0, r0))
        v2 = _dot(v0, v0)
        rv = _dot(r0, v0)
        en = v2 / 2 - mu / rr
        h = _cross(r0, v0)
        h2 = _dot(h, h)
        if h2 == 0 or en == 0:
            raise ValueError("rectilinear or exactly parabolic orbit is outside the oracle's domain")
        a = -mu / (2 * en)
        # eccentricity vector
        vxh = _cross(v0, h)
        ev = tuple(vxh[i] / mu - r0[i] / rr for i in range(3))
        e = mpmath.sqrt(_dot(ev, ev))
        if e == 0:
            P = tuple(x / rr for x in r0)
        else:
            P = tuple(x / e for x in ev)
        hn = mpmath.sqrt(h2)
        W = tuple(x / hn for x in h)
        Q = _cross(W, P)
        if a > 0:
            kind = "elliptic"
            n = mpmath.sqrt(mu / a ** 3)
            if e == 0:
                E0 = mpf(0)
            else:
                E0 = mpmath.atan2(rv / mpmath.sqrt(mu * a), 1 - rr / a)     # (e sin E, e cos E)
            M = E0 - e * mpmath.sin(E0) + n * dt
            twopi = 2 * mp.pi
            k = mpmath.floor(M / twopi + mpf(1) / 2)
            Mr = M - k * twopi                                              # in [-pi, pi]
            if guess is None:
                ef, Mf = float(e), float(Mr)
                guess = _float_root(lambda x: x - ef * math.sin(x) - Mf, -3.3, 3.3)
            E = _solve_monotone(lambda x: x - e * mpmath.sin(x) - Mr, lambda x: 1 - e * mpmath.cos(x),
                                -mp.pi - mpf(1) / 8, mp.pi + mpf(1) / 8, guess)
            root = E
            cE, sE = mpmath.cos(E), mpmath.sin(E)
            b = a * mpmath.sqrt(1 - e * e)
            Ed = n / (1 - e * cE)
            X, Y = a * (cE - e), b * sE
            Xd, Yd = -a * sE * Ed, b * cE * Ed
        else:
            kind = "hyperbolic"
            aa = -a
            n = mpmath.sqrt(mu / aa ** 3)
            H0 = mpmath.asinh(rv / (e * mpmath.sqrt(mu * aa)))              # e sinh H = r.v / sqrt(mu |a|)
            M = e * mpmath.sinh(H0) - H0 + n * dt
            s = 1 if M >= 0 else -1
            Ma = abs(M)
            # g(H) = e sinh H - H is increasing; (e-1) sinh H <= g(H) <= e sinh H for H >= 0
            lo = mpmath.asinh(Ma / e)
            hi = mpmath.asinh(Ma / (e - 1))
            pad = (hi - lo) / 1024 + mpf(10) ** (-mp.dps + 8) * (1 + hi)
            if guess is None:
                ef, Mf = float(e), float(Ma)
                guess = _float_root(lambda x: ef * math.sinh(x) - x - Mf, float(lo), float(hi) * (1 + 1e-9) + 1e-300)
            Ha = _solve_monotone(lambda x: e * mpmath.sinh(x) - x - Ma, lambda x: e * mpmath.cosh(x) - 1,
                                 max(lo - pad, mpf(0)) if Ma > 0 else mpf(0) - pad, hi + pad, guess)
            root = Ha
            H = s * Ha
            cH, sH = mpmath.cosh(H), mpmath.sinh(H)
            b = aa * mpmath.sqrt(e * e - 1)
            Hd = n / (e * cH - 1)
            X, Y = aa * (e - cH), b * sH
            Xd, Yd = -aa * sH * Hd, b * cH * Hd
        r = tuple(X * P[i] + Y * Q[i] for i in range(3))
        v = tuple(Xd * P[i] + Yd * Q[i] for i in range(3))
        if info is not None:
            info.update(a=float(a), e=float(e), kind=kind, M=float(M), n=float(n),
                        q=float(abs(a) * abs(1 - e)), root=root)
        return r, v
    finally:
        mp.dps = old


def propagate_cond(r0, v0, mu, dt, rel=2 * EPS, info=None):
    """Reference state plus delta_cond: sum over the 8 inputs of the change of the reference position /
    velocity (Euclidean norm) under a relative perturbation `rel` of that input alone - the forward error
    a backward-stable algorithm is allowed.  Returns (r, v, dpos, dvel) with r, v tuples of mpf and
    dpos, dvel floats."""
    old = mp.dps
    mp.dps = DPS
    try:
        inf0 = info if info is not None else {}
        r, v = propagate(r0, v0, mu, dt, inf0)
        g0 = inf0.get("root")
        dpos = mpf(0)
        dvel = mpf(0)
        base = [mpf(x) for x in r0] + [mpf(x) for x in v0] + [mpf(mu), mpf(dt)]
        for i in range(8):
            if base[i] == 0:
                continue
            p = list(base)
            p[i] = p[i] * (1 + mpf(rel))
            r2, v2 = propagate(p[0:3], p[3:6], p[6], p[7], guess=g0)
            dpos += mpmath.sqrt(sum((r2[k] - r[k]) ** 2 for k in range(3)))
            dvel += mpmath.sqrt(sum((v2[k] - v[k]) ** 2 for k in range(3)))
        return r, v, float(dpos), float(dvel)
    finally:
        mp.dps = old


def propagate_sens(r0, v0, mu, dt, hpos, hvel):
    """Error propagation: sum over the six state components of the change of the reference output when that
    component of the initial state is shifted by the absolute amount hpos (positions) / hvel (velocities).
    Bounds (to first order) the output error caused by any initial-state error e with |e_i| <= h_i.
    Returns (dpos, dvel) floats."""
    old = mp.dps
    mp.dps = DPS
    try:
        inf0 = {}
        r, v = propagate(r0, v0, mu, dt, inf0)
        g0 = inf0.get("root")
        base = [mpf(x) for x in r0] + [mpf(x) for x in v0]
        dpos = mpf(0)
        dvel = mpf(0)
        for i in range(6):
            h = mpf(hpos if i < 3 else hvel)
            if h == 0:
                continue
            p = list(base)
            p[i] = p[i] + h
            r2, v2 = propagate(p[0:3], p[3:6], mu, dt, guess=g0)
            dpos += mpmath.sqrt(sum((r2[k] - r[k]) ** 2 for k in range(3)))
            dvel += mpmath.sqrt(sum((v2[k] - v[k]) ** 2 for k in range(3)))
        return float(dpos), float(dvel)
    finally:
        mp.dps = old


def err_norm(ref, got):
    """Euclidean norm of (got - ref); got are floats (taken exactly), ref are mpf."""
    old = mp.dps
    mp.dps = DPS
    try:
        return float(mpmath.sqrt(sum((mpf(got[k]) - ref[k]) ** 2 for k in range(3))))
    finally:
        mp.dps = old


def norm(ref):
    old = mp.dps
    mp.dps = DPS
    try:
        return float(mpmath.sqrt(sum(x * x for x in ref)))
    finally:
        mp.dps = old


def selftest():
    """Closed-form checks of the oracle itself: energy, angular momentum and eccentricity vector are conserved
    to working precision, propagate(dt) then propagate(-dt) is the identity, and a full period returns."""
    old = mp.dps
    mp.dps = DPS
    try:
        cases = [((1.0, 0.2, -0.1), (0.1, 0.9, 0.3), 1.3, 7.7),
                 ((1.0, 0.0, 0.0), (0.0, 1.9, 0.0), 1.0, 50.0),
                 ((0.3, 0.0, 0.0), (0.2, 2.581, 0.1), 1.0, -3.0),
                 ((5.0, 1.0, 0.0), (-2.0, 0.1, 0.0), 1.0, 4.0)]
        worst = mpf(0)
        for r0, v0, mu, dt in cases:
            r, v = propagate(r0, v0, mu, dt)
            rf = tuple(mpf(x) for x in r0)
            vf = tuple(mpf(x) for x in v0)
            e0 = _dot(vf, vf) / 2 - mpf(mu) / mpmath.sqrt(_dot(rf, rf))
            e1 = _dot(v, v) / 2 - mpf(mu) / mpmath.sqrt(_dot(r, r))
            h0, h1 = _cross(rf, vf), _cross(r, v)
            worst = max(worst, abs(e1 - e0) / abs(e0), max(abs(h1[k] - h0[k]) for k in range(3)))
            # round trip (the intermediate state is not a double: feed mpf straight back)
            rb, vb = propagate(r, v, mu, -dt)
            worst = max(worst, max(abs(rb[k] - rf[k]) for k in range(3)), max(abs(vb[k] - vf[k]) for k in range(3)))
        return float(worst)
    finally:
        mp.dps = old
