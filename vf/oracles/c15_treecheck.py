"""C15 oracle: invariants of the oct-tree, checked on a read-only dump made by chelpers/c15_treewalk.c.

Geometry is recomputed from the documented layout (root boxes of width root_size tiling the box, children halve the
width and sit at the parent's centre +- w/4 according to the octant bits: bit0 = lower x, bit1 = lower y, bit2 = lower z),
masses/centres of mass are recomputed as longdouble sums over the particles found below each cell.
"""
import ctypes

import numpy as np

from . import c13_collref as R

LD = np.longdouble
EPS = float(np.finfo(np.float64).eps)
_lib = {}


def lib(variant="opt"):
    from .. import build
    path = build.helper("c15_treewalk", variant)
    if path not in _lib:
        l = ctypes.CDLL(path)
        l.c15_dump.restype = ctypes.c_long
        l.c15_dump.argtypes = [ctypes.c_void_p, ctypes.c_long, ctypes.c_void_p, ctypes.c_void_p, ctypes.c_void_p]
        l.c15_has_tree.restype = ctypes.c_int
        l.c15_has_tree.argtypes = [ctypes.c_void_p]
        l.c15_rootbox.restype = ctypes.c_int
        l.c15_rootbox.argtypes = [ctypes.c_void_p, ctypes.c_double, ctypes.c_double, ctypes.c_double]
        _lib[path] = l
    return _lib[path]


class Problem(Exception):
    """An invariant of the tree is broken (converted to a Violation by the property module)."""


def dump(sim, maxn=None):
    l = lib()
    n = sim.N
    maxn = maxn or (64 * (n + 8) + 4096)
    geo = np.zeros((maxn, 8), dtype=np.float64)
    meta = np.zeros((maxn, 4), dtype=np.int32)
    addr = np.zeros(maxn, dtype=np.uint64)
    k = l.c15_dump(ctypes.addressof(sim), maxn, geo.ctypes.data, meta.ctypes.data, addr.ctypes.data)
    if k < 0:
        raise Problem("tree walk did not terminate within %d cells (cycle or runaway refinement), code %d" % (maxn, k))
    return geo[:k], meta[:k], addr[:k]


def has_tree(sim):
    return bool(lib().c15_has_tree(ctypes.addressof(sim)))


def check(sim, box, gravity_data=False, ktol=16.0, stats=None):
    """box = {"L0": root size, "layout": [nx,ny,nz]}.  Raises Problem.  Returns number of cells."""
    s = R.snapshot(sim)
    N = len(s)
    geo, meta, addr = dump(sim)
    ncell = len(geo)
    L0 = box["L0"]
    nx, ny, nz = box["layout"]
    Lx, Ly, Lz = L0 * nx, L0 * ny, L0 * nz
    pt = meta[:, 0]
    parent = meta[:, 1]
    octant = meta[:, 2]
    root = meta[:, 3]
    leaf = pt >= 0
    # 1. leaves <-> particles
    lp = pt[leaf]
    if len(lp) != N:
        raise Problem("tree has %d leaves but the simulation has %d particles" % (len(lp), N))
    if N and (lp.min() < 0 or lp.max() >= N or len(np.unique(lp)) != N):
        bad = [int(x) for x in lp if x >= N][:5]
        raise Problem("leaf particle indices are not a permutation of 0..N-1 (N=%d, out of range: %s, distinct: %d)"
                      % (N, bad, len(np.unique(lp))))
    li = np.nonzero(leaf)[0]
    # 2. back pointers
    back = s["c"][lp]
    if not np.array_equal(back, addr[li]):
        k = int(np.nonzero(back != addr[li])[0][0])
        raise Problem("particles[%d].c does not point to the leaf that holds index %d" % (int(lp[k]), int(lp[k])))
    # 3. containment (to rounding of the cell geometry)
    X = R.pos(s)[lp]
    C = geo[li, 0:3]
    W = geo[li, 3]
    # cell centres descend from the root centre by repeated +-w/4: their rounding error is relative to the box size
    Lmax = max(Lx, Ly, Lz)
    slack = ktol * EPS * (Lmax + np.abs(C) + W[:, None] + np.abs(X))
    out = np.abs(X - C) > (W[:, None] / 2 + slack)
    if out.any():
        k = int(np.nonzero(out.any(axis=1))[0][0])
        raise Problem("particle %d (hash %d) at %r is outside its leaf cell centre %r width %r"
                      % (int(lp[k]), int(s["hash"][lp[k]]), X[k].tolist(), C[k].tolist(), float(W[k])))
    if stats is not None and N:
        stats["contain_excess/eps_scale"] = float(np.max((np.abs(X - C) - W[:, None] / 2) / (EPS * (Lmax + np.abs(C) + W[:, None] + np.abs(X)))))
    # 4. root geometry
    ri = np.nonzero(parent < 0)[0]
    for k in ri:
        b = int(root[k])
        i, j, kk = b % nx, (b // nx) % ny, b // (nx * ny)
        ref = np.array([-Lx / 2 + L0 * (0.5 + i), -Ly / 2 + L0 * (0.5 + j), -Lz / 2 + L0 * (0.5 + kk)])
        if geo[k, 3] != L0 or np.abs(geo[k, 0:3] - ref).max() > ktol * EPS * (abs(ref).max() + L0):
            raise Problem("root cell %d has centre %r width %r, layout gives %r width %r"
                          % (b, geo[k, 0:3].tolist(), float(geo[k, 3]), ref.tolist(), L0))
    if len(np.unique(root[ri])) != len(ri):
        raise Problem("two root cells for the same root box")
    # 5. children
    ci = np.nonzero(parent >= 0)[0]
    if len(ci):
        p = parent[ci]
        if (pt[p] >= 0).any():
            raise Problem("a leaf cell has children")
        wpar = geo[p, 3]
        if not np.array_equal(geo[ci, 3], wpar / 2):
            raise Problem("a child cell is not half as wide as its parent")
        o = octant[ci]
        sgn = np.stack([np.where((o >> 0) & 1, -1.0, 1.0), np.where((o >> 1) & 1, -1.0, 1.0),
                        np.where((o >> 2) & 1, -1.0, 1.0)], axis=1)
        ref = geo[p, 0:3] + sgn * (wpar / 4)[:, None]
        if (np.abs(geo[ci, 0:3] - ref) > ktol * EPS * (np.abs(ref) + wpar[:, None])).any():   # one rounded addition
            raise Problem("a child cell is not centred in its octant of the parent")
    # 6. counts, masses, centres of mass: accumulate from leaves upwards (children come after parents in pre-order)
    cnt = np.zeros(ncell, dtype=np.int64)
    cnt[li] = 1
    m = np.zeros(ncell, dtype=LD)
    mq = np.zeros((ncell, 3), dtype=LD)
    am = np.zeros((ncell, 3), dtype=LD)
    if gravity_data:
        pm = s["m"][lp].astype(LD)
        m[li] = pm
        mq[li] = pm[:, None] * X.astype(LD)
        am[li] = np.abs(pm)[:, None] * np.abs(X).astype(LD)
    for k in range(ncell - 1, -1, -1):
        q = parent[k]
        if q >= 0:
            cnt[q] += cnt[k]
            if gravity_data:
                m[q] += m[k]
                mq[q] += mq[k]
                am[q] += am[k]
    internal = np.nonzero(~leaf)[0]
    if len(internal):
        if not np.array_equal(pt[internal], -cnt[internal]):
            k = int(internal[np.nonzero(pt[internal] != -cnt[internal])[0][0]])
            raise Problem("internal cell has pt=%d but %d particles below it" % (int(pt[k]), int(cnt[k])))
    if gravity_data:
        if N and not (np.array_equal(geo[li, 4], s["m"][lp]) and np.array_equal(geo[li, 5:8], X)):
            raise Problem("a leaf cell's mass / centre of mass differs from its particle")
        for k in internal:
            # pairwise-tree summation: error grows with the depth of the sum, bounded by log2(count)+1 additions
            tol = 4 * ktol * EPS * float(abs(m[k])) * max(1, int(cnt[k]).bit_length())
            if abs(LD(geo[k, 4]) - m[k]) > tol:
                raise Problem("cell mass %r differs from the sum over its %d particles %r" % (float(geo[k, 4]), int(cnt[k]), float(m[k])))
            if m[k] > 0:
                for a in range(3):
                    ref = mq[k, a] / m[k]
                    cond = am[k, a] / m[k]
                    tl = 4 * ktol * EPS * cond * max(1, int(cnt[k]).bit_length()) + 1e-300
                    err = abs(LD(geo[k, 5 + a]) - ref)
                    if stats is not None:
                        stats["com_err/tol"] = max(stats.get("com_err/tol", 0.0), float(err / tl))
                    if err > tl:
                        raise Problem("cell centre of mass %r differs from the mass-weighted mean of its %d particles %r"
                                      % (float(geo[k, 5 + a]), int(cnt[k]), float(ref)))
    return ncell


def rootbox_ref(x, box):
    """Root box index from the documented layout (independent of reb_get_rootbox_for_particle)."""
    L0 = box["L0"]
    nx, ny, nz = box["layout"]
    i = min(max(int(np.floor((x[0] + L0 * nx / 2) / L0)), 0), nx - 1)
    j = min(max(int(np.floor((x[1] + L0 * ny / 2) / L0)), 0), ny - 1)
    k = min(max(int(np.floor((x[2] + L0 * nz / 2) / L0)), 0), nz - 1)
    return (k * ny + j) * nx + i
